(* C03 — the ABNF of the four Accept-* header field values, transcribed rule by rule as
   regular expressions over code points.  Short on purpose: audit against the RFC text.

   RFC 7230 3.2.3  OWS = *( SP / HTAB )
   RFC 7230 3.2.6  token = 1*tchar ; quoted-string = DQUOTE *( qdtext / quoted-pair ) DQUOTE
   RFC 7230 7      #element  => [ ( "," / element ) *( OWS "," [ OWS element ] ) ]
                   1#element => *( "," OWS ) element *( OWS "," [ OWS element ] )
   RFC 7231 5.3.1  weight = OWS ";" OWS "q=" qvalue        ("q" is case-insensitive, RFC 5234 2.3)
                   qvalue = ( "0" [ "." 0*3DIGIT ] ) / ( "1" [ "." 0*3("0") ] )
   RFC 7231 5.3.2  Accept = #( media-range [ accept-params ] )
                   media-range = ( "*/*" / ( type "/" "*" ) / ( type "/" subtype ) ) *( OWS ";" OWS parameter )
                   accept-params = weight *( accept-ext )
                   accept-ext = OWS ";" OWS token [ "=" ( token / quoted-string ) ]
                   (a media-type parameter is never named "q": the first "q" parameter is the weight)
   RFC 7231 5.3.3  Accept-Charset = 1#( ( charset / "*" ) [ weight ] )
   RFC 7231 5.3.4  Accept-Encoding = #( codings [ weight ] ) ; codings = content-coding / "identity" / "*"
   RFC 7231 5.3.5  Accept-Language = 1#( language-range [ weight ] )
   RFC 4647 2.1    language-range = (1*8ALPHA *("-" 1*8alphanum)) / "*"                                   *)
From Coq Require Import NArith List.
Require Import Webob.Lib.Val Webob.Lib.Rx.
Import ListNotations.
Local Open Scope N_scope.

Definition ch (c : N) := Cls false [(c,c)].
Definition opt r := Alt Eps r.
Definition plus r := Cat r (Star r).
Fixpoint cats (l : list rx) := match l with [] => Eps | [x] => x | x :: t => Cat x (cats t) end.
Fixpoint upto (n : nat) r := match n with O => Eps | S k => opt (Cat r (upto k r)) end.
Definition one_to n r := Cat r (upto (n-1) r).

Definition DIGIT := Cls false [(48,57)].
Definition ALPHA := Cls false [(65,90);(97,122)].
Definition alphanum := Cls false [(48,57);(65,90);(97,122)].
(* tchar = "!" / "#" / "$" / "%" / "&" / "'" / "*" / "+" / "-" / "." / "^" / "_" / "`" / "|" / "~" / DIGIT / ALPHA *)
Definition tchar := Cls false [(33,33);(35,39);(42,43);(45,46);(48,57);(65,90);(94,122);(124,124);(126,126)].
Definition token := plus tchar.
Definition OWS := Star (Cls false [(9,9);(32,32)]).
Definition obs_text := (128,255).
(* qdtext = HTAB / SP / %x21 / %x23-5B / %x5D-7E / obs-text *)
Definition qdtext := Cls false [(9,9);(32,32);(33,33);(35,91);(93,126);obs_text].
(* quoted-pair = "\" ( HTAB / SP / VCHAR / obs-text ) *)
Definition qpair := Cat (ch 92) (Cls false [(9,9);(32,32);(33,126);obs_text]).
Definition qstr := cats [ch 34; Star (Alt qdtext qpair); ch 34].
Definition qvalue :=
  Alt (Cat (ch 48) (opt (Cat (ch 46) (upto 3 DIGIT))))
      (Cat (ch 49) (opt (Cat (ch 46) (upto 3 (ch 48))))).
Definition qQ := Cls false [(81,81);(113,113)].
Definition weight := cats [OWS; ch 59; OWS; qQ; ch 61; qvalue].
Definition hash0 el := opt (Cat (Alt (ch 44) el) (Star (cats [OWS; ch 44; opt (Cat OWS el)]))).
Definition hash1 el := cats [Star (Cat (ch 44) OWS); el; Star (cats [OWS; ch 44; opt (Cat OWS el)])].

(* a token other than "q" / "Q" *)
Definition tchar_noq :=
  Cls false [(33,33);(35,39);(42,43);(45,46);(48,57);(65,80);(82,90);(94,112);(114,122);(124,124);(126,126)].
Definition tok_not_q := Alt (Cat tchar_noq (Star tchar)) (cats [qQ; tchar; Star tchar]).
Definition value := Alt token qstr.
Definition parameter := cats [tok_not_q; ch 61; value].
(* "*" is a tchar, so "*/*" and type "/" "*" are instances of token "/" token — but NOT conversely:
   the RFC's three forms are kept separate here and the equivalence theorem shows what webob accepts *)
Definition media_range_strict :=
  Cat (Alt (cats [ch 42; ch 47; ch 42]) (Alt (cats [token; ch 47; ch 42]) (cats [token; ch 47; token])))
      (Star (cats [OWS; ch 59; OWS; parameter])).
Definition accept_ext := cats [OWS; ch 59; OWS; token; opt (Cat (ch 61) value)].
Definition accept_params := Cat weight (Star accept_ext).

Definition abnf_accept := hash0 (Cat media_range_strict (opt accept_params)).
Definition abnf_accept_charset := hash1 (Cat (Alt token (ch 42)) (opt weight)).
Definition abnf_accept_encoding := hash0 (Cat (Alt token (ch 42)) (opt weight)).
Definition lang_range := Alt (Cat (one_to 8 ALPHA) (Star (Cat (ch 45) (one_to 8 alphanum)))) (ch 42).
Definition abnf_accept_language := hash1 (Cat lang_range (opt weight)).
Definition abnf_token := token.
(* media-type = type "/" subtype *( OWS ";" OWS parameter )  (RFC 7231 3.1.1.1), parameter not named q
   as far as offers are concerned *)
Definition abnf_media_type := Cat (cats [token; ch 47; token]) (Star (cats [OWS; ch 59; OWS; parameter])).

Definition LF : ranges := [(10,10)].
