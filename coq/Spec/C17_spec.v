(* C17 — the declarative notions the property text talks about.

   A path string denotes the sequence of its non-empty components (what a kernel path walk
   visits).  "Located inside the root directory" = the component sequence of the path extends
   the component sequence of the root AND no component is "." or ".." (so the walk never
   steps back up; with no symbolic links this is physical containment).  "Discloses nothing
   outside the root" = the response is the same for any two file systems that agree on every
   path inside the root (non-interference).  "The requested slice" = content[start:stop]. *)
From Coq Require Import ZArith NArith List Bool.
Require Import Webob.Lib.Val Webob.Lib.PyStr Webob.Model.C17_path Webob.Model.C17_static.
Import ListNotations.

(* the components of p extend those of root *)
Definition inside (root p : str) : Prop := exists rest, comps p = comps root ++ rest.

(* absolute, and every component is a proper name (non-empty, not "." / "..", no separator) *)
Definition normal_abs (p : str) : Prop :=
  isabs p = true /\ Forall (fun c => proper c = true) (comps p).

(* two file systems that cannot be told apart by looking inside the root *)
Definition agree_inside (root : str) (fs fs' : fsys) : Prop :=
  forall p, inside root p -> fs p = fs' p.

(* Python content[start:stop] for 0 <= start <= stop *)
Definition slice (b : bytes) (start stop : nat) : bytes := firstn (stop - start) (skipn start b).

(* index_page settings covered: None, "", or a plain file name *)
Definition idx_ok (idx : option str) : Prop :=
  match idx with
  | Some (c :: l) => proper (c :: l) = true
  | _ => True
  end.

(* the body iterator behaves: positive block size / the wrapper yields the file's bytes *)
Definition kind_ok (k : iter_kind) (content : bytes) : Prop :=
  match k with
  | KFileIter bs _ => Z.lt 0 bs
  | KWrapper chunks => concat chunks = content
  end.
