(* C09 — the reference application/x-www-form-urlencoded decoder the property text describes:
   "pairs split on '&' and ';', empty pairs dropped, '+' is a space, %XX is an octet, a malformed
   escape is kept literally, octets are UTF-8".  Written as direct left-to-right scanners, with no
   reference to how webob goes about it (split on '%', two nested splits, ...). *)
From Coq Require Import NArith List Bool.
Require Import Webob.Lib.Val Webob.Lib.C09_Utf8.
Import ListNotations.
Local Open Scope N_scope.

Definition is_hex (c : N) : bool :=
  ((48 <=? c) && (c <=? 57)) || ((65 <=? c) && (c <=? 70)) || ((97 <=? c) && (c <=? 102)).
Definition hex_value (c : N) : N :=
  if c <=? 57 then c - 48 else if c <=? 70 then c - 55 else c - 87.

(* %XX -> octet when both X are hex digits; any other '%' stands for itself *)
Fixpoint spec_unquote (s : str) : str :=
  match s with
  | [] => []
  | c :: s' =>
      if c =? 37 then
        match s' with
        | a :: b :: rest =>
            if is_hex a && is_hex b then (16 * hex_value a + hex_value b) :: spec_unquote rest
            else 37 :: spec_unquote s'
        | _ => 37 :: spec_unquote s'
        end
      else c :: spec_unquote s'
  end.

(* split at every character satisfying [sep]; always at least one field *)
Fixpoint split_by (sep : N -> bool) (s : str) : list str :=
  match s with
  | [] => [[]]
  | c :: s' =>
      match split_by sep s' with
      | f :: fs => if sep c then [] :: f :: fs else (c :: f) :: fs
      | [] => [[c]]     (* unreachable *)
      end
  end.

Definition is_pair_sep (c : N) : bool := (c =? 38) || (c =? 59).     (* '&' or ';' *)
Definition plus_space (c : N) : N := if c =? 43 then 32 else c.

(* name = text up to the first '=', value = the rest (empty if there is no '=') *)
Fixpoint cut_eq (s : str) : str * str :=
  match s with
  | [] => ([], [])
  | c :: s' => if c =? 61 then ([], s') else let '(a, b) := cut_eq s' in (c :: a, b)
  end.

Definition spec_component (s : str) : option str := utf8_decode (spec_unquote (map plus_space s)).

Definition spec_field (f : str) : option (str * str) :=
  let '(n, v) := cut_eq f in
  match spec_component n, spec_component v with
  | Some n', Some v' => Some (n', v')
  | _, _ => None
  end.

Fixpoint all_some {A} (l : list (option A)) : option (list A) :=
  match l with
  | [] => Some []
  | None :: _ => None
  | Some a :: l' => option_map (cons a) (all_some l')
  end.

(* None: some component is not UTF-8 (the decoder's only failure) *)
Definition spec_decode (qs : str) : option (list (str * str)) :=
  all_some (map spec_field (filter (fun f => negb (match f with [] => true | _ => false end))
                                   (split_by is_pair_sep qs))).
