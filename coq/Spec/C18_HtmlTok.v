(* C18 — the declarative side.

   1. A (deliberately conservative) HTML tokenizer automaton.  Its only transitions out of character data,
      quoted attribute values and comments are triggered by  <  >  `  '  (and, inside a comment, by the
      dash / bang / > closing sequences).  The [skeleton] of a document is the sequence of element /
      attribute / comment boundary events; `no boundary can be introduced` = the skeleton does not depend
      on the text put into the slots.
   2. Well-formedness of a template (where slots may stand).
   3. The RFC 7231 5.3.2 reading of `the quality of an offer`: most specific matching range, first of equals.
   4. A reference decoder for JSON string literals / flat objects of strings. *)
From Coq Require Import NArith List Bool.
Require Import Webob.Lib.Val.
Import ListNotations.
Local Open Scope N_scope.

(* ------------------------------------------------------------------ tokenizer *)
Inductive tst :=
| Data                      (* character data *)
| LtSeen | Bang1 | Bang2    (* after `<`, `<!`, `<!-` *)
| Tag                       (* inside a tag, outside quotes *)
| DQ | SQ                   (* inside a double / single quoted attribute value *)
| CmS0 | CmS1               (* comment just opened: after `<!--`, `<!---` (a `>` closes it abruptly) *)
| Cm0 | Cm1 | Cm2 | Cm3.    (* in a comment: no / one / two-or-more trailing dashes, `--!` *)

Inductive ev :=
| ETagOpen | ETagChar (c : N) | EQuote | ETagClose | ECommentOpen | ECommentClose.

Definition in_tag (c : N) : tst * list ev :=
  if c =? 62 then (Data, [ETagClose])
  else if c =? 34 then (DQ, [EQuote])
  else if c =? 39 then (SQ, [EQuote])
  else (Tag, [ETagChar c]).

Definition step (st : tst) (c : N) : tst * list ev :=
  match st with
  | Data => if c =? 60 then (LtSeen, [ETagOpen]) else (Data, [])
  | LtSeen => if c =? 33 then (Bang1, [ETagChar c]) else in_tag c
  | Bang1 => if c =? 45 then (Bang2, [ETagChar c]) else in_tag c
  | Bang2 => if c =? 45 then (CmS0, [ECommentOpen]) else in_tag c
  | Tag => in_tag c
  | DQ => if c =? 34 then (Tag, [EQuote]) else (DQ, [])
  | SQ => if c =? 39 then (Tag, [EQuote]) else (SQ, [])
  | CmS0 => if c =? 62 then (Data, [ECommentClose]) else if c =? 45 then (CmS1, []) else (Cm0, [])
  | CmS1 => if c =? 62 then (Data, [ECommentClose]) else if c =? 45 then (Cm2, []) else (Cm0, [])
  | Cm0 => if c =? 45 then (Cm1, []) else (Cm0, [])
  | Cm1 => if c =? 45 then (Cm2, []) else (Cm0, [])
  | Cm2 => if c =? 62 then (Data, [ECommentClose]) else if c =? 45 then (Cm2, [])
           else if c =? 33 then (Cm3, []) else (Cm0, [])
  | Cm3 => if c =? 62 then (Data, [ECommentClose]) else if c =? 45 then (Cm1, []) else (Cm0, [])
  end.

Fixpoint run (st : tst) (s : str) : tst * list ev :=
  match s with
  | [] => (st, [])
  | c :: r => let (st', e) := step st c in
              let (st'', e') := run st' r in (st'', e ++ e')
  end.

Definition skeleton (s : str) : list ev := snd (run Data s).

Definition is_cm (st : tst) : bool :=
  match st with CmS0 | CmS1 | Cm0 | Cm1 | Cm2 | Cm3 => true | _ => false end.

(* text that cannot trigger a transition out of data / quoted value, nor close a comment *)
Definition safe_c (c : N) : bool := negb ((c =? 60) || (c =? 62) || (c =? 34) || (c =? 39)).
Definition safe (s : str) : bool := forallb safe_c s.

(* a literal character after which every comment state is the plain in-comment state *)
Definition reset_c (c : N) : bool := negb ((c =? 45) || (c =? 62) || (c =? 33)).

(* ------------------------------------------------------------------ flattened templates *)
Inductive slotid :=
| SV (name : str) (braced : bool)   (* a placeholder of the body template *)
| SComment.                         (* the comment text inside the generated <!-- ... --> *)

Inductive fitem := FC (c : N) | FS (id : slotid).

Definition fsubst (its : list fitem) (f : slotid -> str) : str :=
  flat_map (fun it => match it with FC c => [c] | FS id => f id end) its.

(* slots stand only in character data, in a quoted attribute value, or in a comment where the next
   template character is neither `-`, `!` nor `>` *)
Fixpoint wf (st : tst) (its : list fitem) : bool :=
  match its with
  | [] => true
  | FC c :: r => wf (fst (step st c)) r
  | FS _ :: r =>
    match st with
    | Data | DQ | SQ => wf st r
    | _ => if is_cm st
           then match r with FC c :: _ => reset_c c && wf Cm0 r | _ => false end
           else false
    end
  end.

(* ------------------------------------------------------------------ JSON reference decoder *)
Definition unhexd (c : N) : option N :=
  if (48 <=? c) && (c <=? 57) then Some (c - 48)
  else if (97 <=? c) && (c <=? 102) then Some (c - 87)
  else if (65 <=? c) && (c <=? 70) then Some (c - 55)
  else None.
Definition unhex4 (a b c d : N) : option N :=
  match unhexd a, unhexd b, unhexd c, unhexd d with
  | Some x, Some y, Some z, Some w => Some (((x * 16 + y) * 16 + z) * 16 + w)
  | _, _, _, _ => None
  end.
Definition is_high (n : N) : bool := (55296 <=? n) && (n <=? 56319).
Definition is_low (n : N) : bool := (56320 <=? n) && (n <=? 57343).

(* RFC 8259 section 7: decode a string literal body up to and including the closing quote;
   returns the text and what follows the literal *)
Fixpoint jdec (fuel : nat) (s : str) (acc : str) : option (str * str) :=
  match fuel with
  | O => None
  | S f =>
    match s with
    | [] => None
    | c :: r =>
      if c =? 34 then Some (rev acc, r)
      else if c =? 92 then
        match r with
        | [] => None
        | e :: r1 =>
          if e =? 34 then jdec f r1 (34 :: acc)
          else if e =? 92 then jdec f r1 (92 :: acc)
          else if e =? 47 then jdec f r1 (47 :: acc)
          else if e =? 98 then jdec f r1 (8 :: acc)
          else if e =? 102 then jdec f r1 (12 :: acc)
          else if e =? 110 then jdec f r1 (10 :: acc)
          else if e =? 114 then jdec f r1 (13 :: acc)
          else if e =? 116 then jdec f r1 (9 :: acc)
          else if e =? 117 then
            match r1 with
            | a :: b :: c2 :: d :: r2 =>
              match unhex4 a b c2 d with
              | None => None
              | Some n =>
                if is_high n then
                  match r2 with
                  | 92 :: 117 :: a' :: b' :: c' :: d' :: r3 =>
                    match unhex4 a' b' c' d' with
                    | Some m => if is_low m
                                then jdec f r3 ((65536 + (n - 55296) * 1024 + (m - 56320)) :: acc)
                                else jdec f r2 (n :: acc)
                    | None => None
                    end
                  | _ => jdec f r2 (n :: acc)
                  end
                else jdec f r2 (n :: acc)
              end
            | _ => None
            end
          else None
        end
      else if c <? 32 then None
      else jdec f r (c :: acc)
    end
  end.

(* a string literal at the head of [s] *)
Definition jstring (s : str) : option (str * str) :=
  match s with
  | 34 :: r => jdec (S (length r)) r []
  | _ => None
  end.

Definition skip_lit (lit s : str) : option str :=
  (fix go (lit s : str) : option str :=
     match lit, s with
     | [], _ => Some s
     | x :: lit', y :: s' => if x =? y then go lit' s' else None
     | _, [] => None
     end) lit s.

(* object of string members written as  {`k`: `v`, `k2`: `v2`}  (one space after `:` and `,`) *)
Fixpoint jmembers (fuel : nat) (s : str) : option (list (str * str) * str) :=
  match fuel with
  | O => None
  | S f =>
    match jstring s with
    | None => None
    | Some (k, r1) =>
      match skip_lit [58; 32] r1 with
      | None => None
      | Some r2 =>
        match jstring r2 with
        | None => None
        | Some (v, r3) =>
          match r3 with
          | 125 :: r4 => Some ([(k, v)], r4)
          | 44 :: 32 :: r4 => match jmembers f r4 with
                              | Some (l, r5) => Some ((k, v) :: l, r5)
                              | None => None
                              end
          | _ => None
          end
        end
      end
    end
  end.
Definition jobject (s : str) : option (list (str * str)) :=
  match s with
  | 123 :: r => match jmembers (S (length r)) r with
                | Some (l, []) => Some l
                | _ => None
                end
  | _ => None
  end.

(* Unicode scalar values *)
Definition scalar_c (c : N) : bool := (c <? 1114112) && negb ((55296 <=? c) && (c <=? 57343)).
Definition scalar (s : str) : bool := forallb scalar_c s.
