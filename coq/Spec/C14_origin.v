(* C14 — the declarative side of the property: what "the request's own origin" is, what it means
   for an emitted Location to have it, which requests the theorems speak about, and an
   independent (WHATWG-style) origin splitter.  Nothing here refers to how webob or urllib
   compute anything; only the [environ] record type is taken from the model. *)
From Coq Require Import NArith List Bool.
Require Import Webob.Lib.Val Webob.Lib.PyStr Webob.Model.C14_urlsplit Webob.Model.C14_location.
Import ListNotations.
Local Open Scope N_scope.

(* Python strings: code points up to U+10FFFF *)
Definition code_points (s : str) : Prop := Forall (fun c => c <= 1114111) s.

(* ---------- the request's origin ---------- *)
(* Host header if present and non-empty, else SERVER_NAME:SERVER_PORT *)
Definition req_host (e : environ) : str :=
  match e_http_host e with
  | Some (c :: h) => c :: h
  | _ => e_server_name e ++ [58] ++ e_server_port e
  end.

(* the default port of the scheme is not part of the origin's spelling *)
Definition strip_default_port (scheme host : str) : str :=
  if str_eqb scheme s_http && ends_with s_p80 host then drop_last 3 host
  else if str_eqb scheme s_https && ends_with s_p443 host then drop_last 4 host
  else host.

Definition req_netloc (e : environ) : str := strip_default_port (e_scheme e) (req_host e).

(* printable ASCII that cannot end or confuse an authority: no / ? # \ [ ] *)
Definition host_char (c : N) : bool :=
  (33 <=? c) && (c <=? 126) && negb (mem_n c [47; 63; 35; 92; 91; 93]).

Definition path_ok (p : option str) : Prop :=
  match p with
  | None => True
  | Some s => s = [] \/ exists t, s = 47 :: t
  end.

(* the requests the theorems quantify over *)
Record env_ok (e : environ) : Prop := {
  ok_scheme : e_scheme e = s_http \/ e_scheme e = s_https;
  ok_host : forallb host_char (req_host e) = true;
  ok_netloc : req_netloc e <> [];
  ok_script : path_ok (e_script_name e);
  ok_path : path_ok (e_path_info e)
}.

(* ---------- "the emitted Location has the request's scheme and host" ---------- *)
(* r is  scheme "://" netloc  followed by nothing or by one of  / ? #  *)
Definition has_origin (scheme netloc r : str) : Prop :=
  exists rest, r = scheme ++ s_css ++ netloc ++ rest /\
               match rest with [] => True | c :: _ => is_delim c = true end.

Definition same_origin (e : environ) (r : str) : Prop := has_origin (e_scheme e) (req_netloc e) r.

(* ---------- an independent origin splitter (what a browser does with a Location) ----------
   WHATWG URL: strip leading and trailing C0 controls and spaces, remove TAB CR LF, read the scheme
   [A-Za-z][A-Za-z0-9+.-]*: (lower-cased); for http/https a backslash counts as a slash and at
   least two slashes introduce the authority, which runs up to the next / \ ? # *)
Definition is_slash (c : N) : bool := (c =? 47) || (c =? 92).
Definition ends_authority (c : N) : bool := is_slash c || (c =? 63) || (c =? 35).

Fixpoint scheme_prefix (s : str) : option (str * str) :=     (* chars up to ':' when all are scheme chars *)
  match s with
  | [] => None
  | c :: s' =>
      if c =? 58 then Some ([], s')
      else if is_scheme_char c
      then match scheme_prefix s' with Some (a, b) => Some (c :: a, b) | None => None end
      else None
  end.

(* after "scheme:": at least two slashes (or backslashes), then the authority up to / \ ? # *)
Definition read_authority (rest : str) : option str :=
  let after := drop_while is_slash rest in
  if Nat.leb 2 (length rest - length after)
  then Some (fst (span_until ends_authority after))
  else None.

Definition origin_of_clean (s : str) : option (str * str) :=
  match s with
  | [] => None
  | c :: _ =>
      if is_ascii_alpha c then
        match scheme_prefix s with
        | Some (scheme, rest) => option_map (fun a => (lower scheme, a)) (read_authority rest)
        | None => None
        end
      else None
  end.

Definition origin_of (loc : str) : option (str * str) :=
  origin_of_clean (filter (fun c => negb (unsafe_byte c)) (strip_by c0_or_space loc)).

(* the additional conditions under which Request.host_url / path_url (used by the redirect classes
   for add_slash and for a missing location) are modelled and spell the same origin: a Host header,
   if present, is not empty and does not end in ':'; SERVER_PORT is not empty and has no ':';
   PATH_INFO is present; SCRIPT_NAME and PATH_INFO are ASCII *)
Record env_ok_move (e : environ) : Prop := {
  mv_ok : env_ok e;
  mv_host : match e_http_host e with Some h => h <> [] /\ last h 0 <> 58 | None => True end;
  mv_port : e_server_port e <> [] /\ mem_n 58 (e_server_port e) = false;
  mv_path : e_path_info e <> None;
  mv_ascii : forall s, e_script_name e = Some s \/ e_path_info e = Some s -> Forall (fun c => c < 128) s
}.
