(* C05 — what the statement says, free of the implementation's structure.

   RFC 4647 section 3.3.1 (basic filtering): "A language range matches a particular language tag if, in
   a case-insensitive comparison, it exactly equals the tag, or if it exactly equals a prefix of the tag
   such that the first character following the prefix is '-'."
   RFC 4647 section 3.4 (lookup): "the language range is progressively truncated from the end until a
   matching language tag is located.  Single letter or digit subtags [...] are removed at the same time
   as their closest trailing subtag."

   Conventions: a header is its parsed form, the list of (range, quality in thousandths) in header
   order.  Positions count from 0. *)
From Coq Require Import NArith List Bool.
Require Import Webob.Lib.Val Webob.Lib.PyStr Webob.Model.C05_AcceptLang.
Import ListNotations.
Local Open Scope N_scope.

(* ---------------------------------------------------------------- 3.3.1 matching *)
Definition matches331 (range tag : str) : Prop :=
  lower tag = lower range \/ exists rest, lower tag = lower range ++ dash :: rest.

(* ---------------------------------------------------------------- basic filtering *)
(* "the header has the language range r0 (up to case) with quality q, first at position pos":
   a range repeated in the header counts once, at its first occurrence *)
Definition first_occurrence (p : parsed) (pos : nat) (r0 : str) (q : N) : Prop :=
  nth_error p pos = Some (r0, q) /\
  forall j r1 q1, (j < pos)%nat -> nth_error p j = Some (r1, q1) -> lower r1 <> lower r0.

(* "(q, pos) is better than or equal to (q', pos')": higher quality, then earlier in the header *)
Definition better_eq (q : N) (pos : nat) (q' : N) (pos' : nat) : Prop :=
  q' < q \/ (q' = q /\ (pos <= pos')%nat).

(* tag t is returned, carrying quality q of the range at header position pos *)
Definition governs (p : parsed) (t : str) (q : N) (pos : nat) : Prop :=
  (* never a tag matched by a q=0 range *)
  (forall r0 pos0, first_occurrence p pos0 r0 0 -> r0 <> star -> ~ matches331 r0 t) /\
  ( (* its best matching non-zero range ... *)
    (exists r0, first_occurrence p pos r0 q /\ r0 <> star /\ q <> 0 /\ matches331 r0 t /\
       forall r1 q1 pos1, first_occurrence p pos1 r1 q1 -> r1 <> star -> q1 <> 0 -> matches331 r1 t ->
                          better_eq q pos q1 pos1)
    \/ (* ... or '*', only when no other range matches *)
    ((forall r1 q1 pos1, first_occurrence p pos1 r1 q1 -> r1 <> star -> ~ matches331 r1 t) /\
     first_occurrence p pos star q /\ q <> 0) ).

(* result order: quality descending, then header position of the governing range, then offer order;
   rows are (index into the offered list, quality, position) *)
Definition row_before (x y : tag_row) : Prop :=
  tr_q y < tr_q x \/
  (tr_q x = tr_q y /\ (tr_pos x < tr_pos y \/ (tr_pos x = tr_pos y /\ (tr_idx x < tr_idx y)%nat))).

(* ---------------------------------------------------------------- 3.4 truncation *)
(* on the reversed subtag list (last subtag first): the current range, then what remains after
   dropping the last subtag and, with it, a single-letter/digit subtag that would become last *)
Fixpoint truncs_rev (rs : list str) : list (list str) :=
  match rs with
  | [] => []
  | _ :: rest =>
      rs :: match rest with
            | [] => []
            | b :: rest' => if singleton b then truncs_rev rest' else truncs_rev rest
            end
  end.
Definition truncation_seqs (subtags : list str) : list (list str) :=
  map (@rev str) (truncs_rev (rev subtags)).
(* every range text tried for the range r, in order *)
Definition truncations (r : str) : list str :=
  map (join [dash]) (truncation_seqs (split_c dash r)).

(* ---------------------------------------------------------------- lookup *)
(* lower-cased non-'*' ranges listed with q=0 (any occurrence) *)
Definition zero_ranges (p : parsed) : list str :=
  map (fun e => lower (fst e)) (filter (fun e => negb (str_eqb (fst e) star) && (snd e =? 0)) p).
Definition star_q0 (p : parsed) : bool :=
  existsb (fun e => str_eqb (fst e) star && (snd e =? 0)) p.
Definition nonzero_ranges (p : parsed) : parsed :=
  filter (fun e => negb (str_eqb (fst e) star) && negb (snd e =? 0)) p.
(* ranges in descending quality, ties in header order ('*' skipped) *)
Definition priority (p : parsed) : parsed := sort_k true (@snd str N) (nonzero_ranges p).
Definition header_candidates (p : parsed) : list str :=
  flat_map (fun e => truncations (lower (fst e))) (priority p).

(* candidate range text c selects offered tag t *)
Definition hits (zero : list str) (c t : str) : Prop := lower t = c /\ ~ In (lower t) zero.
Definition hitsb (zero : list str) (c t : str) : bool :=
  str_eqb (lower t) c && negb (in_strs (lower t) zero).

(* first hit in lexicographic order (candidate, offered position) *)
Fixpoint first_hit (zero : list str) (cands : list str) (tags : list str) : option str :=
  match cands with
  | [] => None
  | c :: cs => match find (hitsb zero c) tags with
               | Some t => Some t
               | None => first_hit zero cs tags
               end
  end.

Definition is_star_opt (o : option str) : bool :=
  match o with Some r => str_eqb r star | None => false end.

Definition lookup_spec (p : parsed) (tags : list str) (default_range default_tag : option str)
           (dflt_none : bool) : lres :=
  match default_tag, dflt_none with
  | None, true => LTypeError
  | _, _ =>
  if is_star_opt default_range then LValueError else
  let zero := zero_ranges p in
  match first_hit zero (header_candidates p) tags with
  | Some t => LTag t
  | None =>
      if star_q0 p then LDefault
      else match match default_range with
                 | Some r => first_hit zero (truncations (lower r)) tags
                 | None => None
                 end with
           | Some t => LTag t
           | None => match default_tag with
                     | Some t => if in_strs (lower t) zero then LDefault else LTag t
                     | None => LDefault
                     end
           end
  end
  end.
