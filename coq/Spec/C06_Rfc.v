(* C06 — the declarative reference the property text talks about: RFC 7233 byte-range selection
   and the RFC 7232/7233 outcome of a conditional / range request, over the same request and
   response facts as the model (Model/C06_CondResp.v: record [cin]).  No implementation structure:
   the outcome is a formula, not a branch sequence. *)
From Coq Require Import ZArith NArith List Bool.
Require Import Webob.Lib.Val Webob.Model.C06_ByteRange Webob.Model.C06_CondResp.
Import ListNotations.
Local Open Scope Z_scope.

(* RFC 7233 2.1 byte-range-spec / suffix-byte-range-spec *)
Inductive brspec :=
| FirstLast (first last : Z)      (* bytes=first-last *)
| FirstOnly (first : Z)           (* bytes=first-     *)
| Suffix (n : Z).                 (* bytes=-n         *)

Definition wf_spec (sp : brspec) : Prop :=
  match sp with
  | FirstLast f l => 0 <= f <= l
  | FirstOnly f => 0 <= f
  | Suffix n => 0 < n
  end.

(* the bytes selected from a representation of L bytes: (first, last) inclusive; None = not
   satisfiable (first-byte-pos at or beyond the end; nothing to take a suffix from) *)
Definition rfc_selected (sp : brspec) (L : Z) : option (Z * Z) :=
  match sp with
  | FirstLast f l => if f <? L then Some (f, Z.min l (L - 1)) else None
  | FirstOnly f => if f <? L then Some (f, L - 1) else None
  | Suffix n => if (0 <? n) && (0 <? L) then Some (L - Z.min n L, L - 1) else None
  end.

(* the single byte range a Range header text denotes: the two digit groups read as decimal
   numbers; last < first is an invalid spec, "-0" selects nothing: both denote no range *)
Definition spec_of_groups (d1 d2 : str) : option brspec :=
  match d1, d2 with
  | [], [] => None
  | [], _ :: _ => if dec_val d2 =? 0 then None else Some (Suffix (dec_val d2))
  | _ :: _, [] => Some (FirstOnly (dec_val d1))
  | _ :: _, _ :: _ =>
      if dec_val d2 <? dec_val d1 then None else Some (FirstLast (dec_val d1) (dec_val d2))
  end.

Definition header_spec (h : option str) : option brspec :=
  match h with
  | None => None
  | Some t => match match_range t with
              | None => None
              | Some (d1, d2) => spec_of_groups d1 d2
              end
  end.

(* how Range.parse represents a spec: half-open, negative start for a suffix *)
Definition range_of_spec (sp : brspec) : range :=
  match sp with
  | FirstLast f l => Range f (Some (l + 1))
  | FirstOnly f => Range f None
  | Suffix n => Range (- n) None
  end.

(* the canonical RFC 7233 spelling of a byte-range-spec: bytes=first-last, bytes=first-, bytes=-n *)
Definition render_spec (sp : brspec) : str :=
  match sp with
  | FirstLast f l => S_bytes_eq ++ nat_str f ++ [45%N] ++ nat_str l
  | FirstOnly f => S_bytes_eq ++ nat_str f ++ [45%N]
  | Suffix n => S_bytes_eq ++ [45%N] ++ nat_str n
  end.

(* ---------------------------------------------------------------- validators *)
(* If-None-Match lists the response's entity tag (weak comparison), or is "*" *)
Definition inm_matches (i : cin) : bool :=
  match q_inm i with
  | InmStar => true
  | InmTags tags => match r_etag i with Some (t, _) => mem_str t tags | None => false end
  | InmAbsent => false
  end.

(* an If-None-Match / ETag pair applies: "*" or a tag list against a response that has an ETag *)
Definition inm_pair_applies (i : cin) : bool :=
  match q_inm i with
  | InmStar => true
  | InmTags _ => match r_etag i with Some _ => true | None => false end
  | InmAbsent => false
  end.

(* Last-Modified is not later than If-Modified-Since *)
Definition not_modified_since (i : cin) : bool :=
  match r_lm i, q_ims i with
  | Some lm, Some ims => lm <=? ims
  | _, _ => false
  end.

Definition rfc_304 (i : cin) : bool :=
  is_safe (q_method i) && (inm_matches i || (negb (inm_pair_applies i) && not_modified_since i)).

(* If-Range absent, or matching by strong entity tag, or by date *)
Definition if_range_matches (i : cin) : bool :=
  match q_ifr i with
  | IfrAbsent => true
  | IfrStar => true
  | IfrTags tags => match r_etag i with Some (t, false) => mem_str t tags | _ => false end
  | IfrDate (Some d) => match r_lm i with Some lm => lm <=? d | None => false end
  | IfrDate None => false
  end.

Definition range_applicable (i : cin) : bool :=
  is_safe (q_method i) && (r_code i =? 200) && negb (r_has_cr i) && if_range_matches i.

Inductive outcome :=
| O304
| O206 (first last length : Z)
| O416 (length : Z)
| OFull.

Definition rfc_outcome (i : cin) : outcome :=
  if rfc_304 i then O304
  else match header_spec (q_range i), r_clen i with
       | Some sp, Some L =>
           if range_applicable i then
             match rfc_selected sp L with
             | Some (f, l) => O206 f l L
             | None => O416 L
             end
           else OFull
       | _, _ => OFull
       end.

(* reading the model's decision as an outcome (stop is exclusive in the model) *)
Definition outcome_of (d : decision) : option outcome :=
  match d with
  | D304 => Some O304
  | D416 _ l => Some (O416 l)
  | D206 s e l => Some (O206 s (e - 1) l)
  | DFull => Some OFull
  | DRaise => None
  end.

(* the one region where the unchanged code departs from RFC 7233 (known finding
   range:suffix-longer-than-body-416): a suffix longer than a non-empty body *)
Definition suffix_within (sp : brspec) (L : Z) : Prop :=
  match sp with Suffix n => n <= L \/ L <= 0 | _ => True end.

Definition suffix_within_i (i : cin) : Prop :=
  match header_spec (q_range i), r_clen i with
  | Some sp, Some L => suffix_within sp L
  | _, _ => True
  end.
