(* C01 — the declarative side of the statement: what each getter of a Request reports, written
   as a function of the WSGI environ ALONE (no cache tuples, no heap of view objects, no
   wrapper memory), plus well-formedness of histories: raw edits and attribute writes address
   the underlying CGI keys, never webob's private cache keys. *)
From Coq Require Import ZArith NArith List Bool String.
Require Import Webob.Lib.Val Webob.Lib.PyStr Webob.Lib.C01_Str Webob.Model.MultiDict Webob.Model.C01_EnvView.
Import ListNotations.
Local Open Scope list_scope.

Section Spec.
  Variable P : Type.
  Variable CCOP : Type.
  Variable parse_qs : str -> items + str.
  Variable parse_cookie : str -> list (str * str).
  Variable parse_cc : str -> P.
  Variable cc_obs : P -> val.
  Variable detect_charset : str -> str.

  (* request.py:837-846: an empty query string is not parsed *)
  Definition qdata (qs : str) : items + str := if is_nil qs then inl [] else parse_qs qs.

  Definition spec_val (g : getter) (e : environ) : val :=
    match g with
    | GKey k d => match env_get k e with Some v => ev_val v | None => oval_str d end
    | GKeyReq k => match env_get k e with Some v => ev_val v | None => VErr KeyErr end
    | GHdr n => match env_get (trans_name n) e with Some v => ev_val v | None => VNone end
    | GHdrKeys => VList (map VStr (hdr_keys e))
    | GContentType => VStr (before_c 59 (src K_CT e))
    | GHost =>
        match env_get K_HOST e with
        | Some v => ev_val v
        | None => match env_get K_SNAME e, env_get K_SPORT e with
                  | Some (EStr a), Some (EStr b) => VStr (a ++ [58%N] ++ b)
                  | Some _, Some _ => VErr (lit "not-text")
                  | _, _ => VErr KeyErr
                  end
        end
    | GGET => match qdata (src K_QS e) with inl l => vitems l | inr exc => VErr exc end
    | GCookies => vpairs (parse_cookie (src K_COOKIE e))
    | GCC => cc_obs (parse_cc (src K_CC e))
    | GCharset => VStr (detect_charset (src K_CT e))
    end.

  (* getters read the underlying keys, not the cache keys *)
  Definition wf_getter (g : getter) : Prop :=
    match g with
    | GKey k _ | GKeyReq k => is_cache_key k = false
    | _ => True
    end.

  (* operations of a history: raw edits and descriptor writes address non-cache keys *)
  Definition wf_op (o : op P CCOP) : Prop :=
    match o with
    | OEnvSet _ _ k _ | OEnvDel _ _ k | OGetterSet _ _ k _ | OGetterDel _ _ k | OReqSet _ _ k _
    | OEtagSet _ _ k _ | OAcceptSet _ _ k _ => is_cache_key k = false
    | ORead _ _ _ g => wf_getter g
    | _ => True
    end.
End Spec.
