(* C08 — the reference model: a MultiDict is an ordered list of (key, value)
   pairs; every operation is the obvious list function.  Short on purpose. *)
From Coq Require Import ZArith NArith List Bool.
Require Import Webob.Lib.Val Webob.Lib.PyStr Webob.Model.MultiDict.
Import ListNotations.

Section Spec.
  Variable norm : str -> str.
  Let keq := keq norm.

  Definition hit (key : str) (kv : item) : bool := keq (fst kv) key.
  Definition miss (key : str) (kv : item) : bool := negb (hit key kv).

  Definition getall_s (key : str) (l : items) : list str := map snd (filter (hit key) l).
  (* d[k] is the LAST value stored under k *)
  Definition getitem_s (key : str) (l : items) : option str := hd_error (rev (getall_s key l)).
  Definition contains_s (key : str) (l : items) : bool := existsb (hit key) l.
  (* del d[k] removes EVERY pair under k *)
  Definition del_s (key : str) (l : items) : items := filter (miss key) l.
  (* d[k] = v removes every pair under k and appends (k, v), spelling as written *)
  Definition setitem_s (key v : str) (l : items) : items := del_s key l ++ [(key, v)].
  (* pop removes the FIRST pair under k *)
  Fixpoint remove_first (key : str) (l : items) : items :=
    match l with
    | [] => []
    | kv :: l' => if hit key kv then l' else kv :: remove_first key l'
    end.

  Definition step_s (l : items) (o : op) : items * val :=
    match o with
    | OSet k v => (setitem_s k v l, VNone)
    | OAdd k v => (l ++ [(k, v)], VNone)
    | ODel k => if contains_s k l then (del_s k l, VNone) else (l, VErr KeyError)
    | OPop k d =>
        match getall_s k l with
        | v :: _ => (remove_first k l, VStr v)
        | [] => match d with Some dv => (l, oval dv) | None => (l, VErr KeyError) end
        end
    | OPopItem =>
        match rev l with
        | [] => (l, VErr IndexError)
        | (k, v) :: _ => (removelast l, VList [VStr k; VStr v])
        end
    | OSetDefault k d =>
        match getall_s k l with
        | v :: _ => (l, VStr v)
        | [] => match d with Some dv => (l ++ [(k, dv)], VStr dv) | None => (l, VNone) end
        end
    | OUpdate u => (fold_left (fun l kv => setitem_s (fst kv) (snd kv) l) u l, VNone)
    | OUpdateMD u =>
        (* Mapping protocol: each key of u, in order, is set to u's LAST value for it *)
        (fold_left (fun l k => match hd_error (rev (map snd (filter (fun kv => str_eqb (fst kv) k) u))) with
                               | Some v => setitem_s k v l | None => l end) (map fst u) l, VNone)
    | OExtend u => (l ++ u, VNone)
    (* the argument is the dict itself: the pairs it holds when the call is made are appended once *)
    | OExtendSelf => (l ++ l, VNone)
    | OClear => ([], VNone)
    | OCopy => (l, VNone)
    end.

  Definition run_s (ops : list op) (l : items) : items := fold_left (fun l o => fst (step_s l o)) ops l.
End Spec.
