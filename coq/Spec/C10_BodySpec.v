(* C10 — the specification the property text talks about: a request body is a byte string
   with a read cursor.  No buffers, no limits, no loops, no files, no temp-file threshold,
   no adversary.

   sbody  : the body = the first CONTENT_LENGTH bytes of wsgi.input
            (the whole input when there is no CONTENT_LENGTH but the input is flagged terminated;
             empty when there is neither)
   scur   : how much of it has been handed out through the file-like handle
   smode  : MRaw   — still on the server's non-seekable stream, CONTENT_LENGTH declared
            MShort — as MRaw, but the stream holds fewer bytes than declared (sbody = all of it)
            MTerm  — still on the server's stream, no CONTENT_LENGTH, input terminated
            MNone  — still on the server's stream, nothing readable (no/zero/negative length)
            MHeld  — held by webob in a seekable file (memory or temp file: not distinguished) *)
From Coq Require Import ZArith NArith List Bool Arith.
Require Import Webob.Lib.Val Webob.Model.C10_BodyStream.
Import ListNotations.

Inductive smode_t := MRaw | MShort | MTerm | MNone | MHeld.

Record sreq := mkS {
  sbody : bytes;
  scur : nat;
  smode : smode_t;
  spost : bool;      (* .POST has been computed for the current body *)
  sform : bool       (* .POST parses the body at all *)
}.

(* a new file is installed: a remembered .POST no longer belongs to it *)
Definition s_with (s : sreq) (b : bytes) (c : nat) (m : smode_t) : sreq := mkS b c m false (sform s).
Definition s_cur (s : sreq) (c : nat) : sreq := mkS (sbody s) c (smode s) (spost s) (sform s).
Definition s_post (s : sreq) (p : bool) : sreq := mkS (sbody s) (scur s) (smode s) p (sform s).

Definition take (k : option nat) (l : bytes) : bytes :=
  match k with Some k => firstn k l | None => l end.

(* make the body seekable (what .body, .body_file_seekable, .copy(), .POST do first).
   A non-seekable stream that has already been partly handed out cannot be captured any more:
   DisconnectionError, and nothing further is delivered. *)
Definition sconv (s : sreq) : option sreq * sreq :=
  match smode s with
  | MHeld => (Some (s_cur s 0), s)
  | MRaw => if Nat.eqb (scur s) 0 then (Some (s_with s (sbody s) 0 MHeld), s)
            else (None, s_cur s (length (sbody s)))
  | MShort => (None, s_cur s (length (sbody s)))
  | MTerm => (Some (s_with s (skipn (scur s) (sbody s)) 0 MHeld), s)
  | MNone => (Some (s_with s [] 0 MHeld), s)
  end.

Definition sread (k : option nat) (s : sreq) : out * sreq :=
  let d := take k (skipn (scur s) (sbody s)) in
  (OBytes d, s_cur s (scur s + length d)).

Definition sstep (o : op) (s : sreq) : out * sreq * option sreq :=
  match o with
  | Body =>
      match smode s with
      | MNone => (OBytes [], s, None)
      | _ => match sconv s with
             | (Some s1, _) => (OBytes (sbody s1), s1, None)
             | (None, s1) => (ODisc, s1, None)
             end
      end
  | FileRead k =>
      match smode s with
      | MNone => (OBytes [], s, None)
      | MShort => (ODisc, s_cur s (length (sbody s)), None)
      | _ => let '(x, s1) := sread k s in (x, s1, None)
      end
  | SeekRead k =>
      match smode s with
      | MHeld => let '(x, s1) := sread k s in (x, s1, None)
      | _ => match sconv s with
             | (Some s1, _) => let '(x, s2) := sread k s1 in (x, s2, None)
             | (None, s1) => (ODisc, s1, None)
             end
      end
  | Copy =>
      match sconv s with
      | (Some s1, _) =>
          (ONew true, s_cur s1 0, Some (mkS (sbody s1) 0 MHeld false (sform s1)))
      | (None, s1) => (ODisc, s1, None)
      end
  | CopyGet => (ONew true, s, Some (mkS [] 0 MHeld false false))
  | Post =>
      if spost s || negb (sform s) then (OCached, s, None)
      else match sconv s with
           | (Some s1, _) => (OBytes (sbody s1), s_post (s_cur s1 0) true, None)
           | (None, s1) => (ODisc, s1, None)
           end
  | CallApp =>
      match smode s with
      | MHeld => (OBytes (sbody s), s_cur s (length (sbody s)), None)
      | _ => (OSkip, s, None)
      end
  | SetBody b => (OBytes [], mkS b 0 MHeld false (sform s), None)
  end.

(* what an implementation may answer.  On a stream shorter than declared, body_file.read(k)
   may still deliver k bytes that are there (never fewer), or report the disconnection;
   everything else is determined. *)
Definition sstep_ok (o : op) (s : sreq) (x : out) (s' : sreq) (new : option sreq) : Prop :=
  sstep o s = (x, s', new) \/
  (smode s = MShort /\ exists k, o = FileRead (Some k) /\ scur s + k <= length (sbody s) /\
     x = OBytes (firstn k (skipn (scur s) (sbody s))) /\ s' = s_cur s (scur s + k) /\ new = None).

(* histories *)
Definition sapply (o : op) (i : nat) (ss : list sreq) : out * list sreq :=
  match nth_error ss i with
  | None => (OSkip, ss)
  | Some s =>
      let '(x, s', new) := sstep o s in
      let ss1 := set_nth i s' ss in
      (x, match new with Some sn => ss1 ++ [sn] | None => ss1 end)
  end.

Fixpoint srun (ss : list sreq) (hist : list step) : list out * list sreq :=
  match hist with
  | [] => ([], ss)
  | (i, o, _) :: t =>
      let '(x, ss1) := sapply o i ss in
      let '(xs, ss2) := srun ss1 t in
      (x :: xs, ss2)
  end.

Inductive srun_ok : list sreq -> list step -> list out -> list sreq -> Prop :=
| SRnil : forall ss, srun_ok ss [] [] ss
| SRmiss : forall ss i o adv t xs ss',
    nth_error ss i = None -> srun_ok ss t xs ss' -> srun_ok ss ((i, o, adv) :: t) (OSkip :: xs) ss'
| SRstep : forall ss i o adv t s x s' new xs ss',
    nth_error ss i = Some s -> sstep_ok o s x s' new ->
    srun_ok (match new with Some sn => set_nth i s' ss ++ [sn] | None => set_nth i s' ss end) t xs ss' ->
    srun_ok ss ((i, o, adv) :: t) (x :: xs) ss'.

(* the body a request over the server's stream starts with *)
Definition flag0 (tm : option bool) (lg : bool) : bool :=
  match tm with Some b => b | None => lg end.

Definition sinit (s : bytes) (c : option Z) (sk : bool) (tm : option bool) (lg : bool) : sreq :=
  if sk then mkS s 0 MHeld false true
  else match c with
       | Some z => if (0 <? z)%Z
                   then if Nat.leb (Z.to_nat z) (length s)
                        then mkS (firstn (Z.to_nat z) s) 0 MRaw false true
                        else mkS s 0 MShort false true
                   else mkS [] 0 MNone false true
       | None => if flag0 tm lg then mkS s 0 MTerm false true else mkS [] 0 MNone false true
       end.
