(* C18 — the HTML body of an error response as ONE template with slots.

   html_body fills the class's body template and puts the result into the outer html template.  [flat]
   is the same document written as a single list of literal characters and slots; the generated
   html_comment value (an HTML comment around the escaped comment text) is unfolded into literal
   characters around one slot.  Which of the two forms of html_comment applies is the [shape] of a request;
   it is the only way caller text influences the literal part of the document. *)
From Coq Require Import NArith List Bool String.
Require Import Webob.Lib.Val Webob.Lib.PyStr Webob.Model.C18_ExcBody Webob.Spec.C18_HtmlTok.
Import ListNotations.
Local Open Scope N_scope.

Definition hc_name : str := A "html_comment".

Definition is_some {T} (o : option T) : bool := match o with Some _ => true | None => false end.

(* true: ${html_comment} expands to the generated comment (a comment was given and no environ / header
   entry of that name hides it) *)
Definition shape (cl : excls) (i : inp) : bool :=
  nonempty (i_comment i) && negb (c_custom cl && is_some (override i hc_name)).

Definition flat_inner_item (sh : bool) (it : item) : list fitem :=
  match it with
  | C c => [FC c]
  | V n b => if str_eqb n hc_name && sh
             then map FC (A "<!-- ") ++ [FS SComment] ++ map FC (A " -->")
             else [FS (SV n b)]
  end.
Definition flat_inner (sh : bool) (its : list item) : list fitem := flat_map (flat_inner_item sh) its.

Definition flat_outer_item (status : str) (inner : list fitem) (it : item) : option (list fitem) :=
  match it with
  | C c => Some [FC c]
  | V n _ => if str_eqb n (A "title") then None
             else if str_eqb n (A "status") then Some (map FC status)
             else if str_eqb n (A "body") then Some inner
             else None
  end.
Fixpoint flat_outer (status : str) (inner : list fitem) (its : list item) : option (list fitem) :=
  match its with
  | [] => Some []
  | it :: r => match flat_outer_item status inner it, flat_outer status inner r with
               | Some a, Some b => Some (a ++ b)
               | _, _ => None
               end
  end.

Definition flat (cfg : tcfg) (cl : excls) (sh : bool) : option (list fitem) :=
  flat_outer (status_of cl) (flat_inner sh (tmpl_parse (c_tmpl cl))) (tmpl_parse (html_tmpl cfg)).

(* every slot of the class's HTML document stands in character data, a quoted attribute value or a comment *)
Definition wf_html (cfg : tcfg) (cl : excls) (sh : bool) : bool :=
  match flat cfg cl sh with Some its => wf Data its | None => false end.

(* what a slot is filled with *)
Definition hval (cl : excls) (i : inp) (id : slotid) : str :=
  match id with
  | SComment => html_escape (i_comment i)
  | SV n b => match args html_escape cl i n with Some v => v | None => raw n b end
  end.

(* the quality webob assigns to an offer (0 = not acceptable) *)
Definition quality (oty osub : str) (rs : list mrange) : N :=
  match offer_entry oty osub rs with Some (q, _) => q | None => 0 end.

(* ------------------------------------------------------------------ escaped text *)
Definition is_digit_c (c : N) : Prop := 48 <= c <= 57.

(* the pieces html_escape output is made of: a plain character (none of the five markup characters,
   below 128), one of the five entities, or a decimal character reference *)
Inductive chunk_ok : str -> Prop :=
| ck_plain : forall c, c < 128 -> c <> 38 -> c <> 60 -> c <> 62 -> c <> 34 -> c <> 39 -> chunk_ok [c]
| ck_amp : chunk_ok (A "&amp;")
| ck_lt : chunk_ok (A "&lt;")
| ck_gt : chunk_ok (A "&gt;")
| ck_quot : chunk_ok (A "&quot;")
| ck_apos : chunk_ok (A "&#x27;")
| ck_num : forall ds, ds <> [] -> Forall is_digit_c ds -> chunk_ok (A "&#" ++ ds ++ A ";").

(* ------------------------------------------------------------------ negotiation *)
Definition q_html (rs : list mrange) : N := quality (A "text") (A "html") rs.
Definition q_json (rs : list mrange) : N := quality (A "application") (A "json") rs.
Definition ctype_of (f : fmt) : str :=
  match f with FHtml => A "text/html" | FJson => A "application/json" | FPlain => A "text/plain" end.

(* ------------------------------------------------------------------ plain text / JSON *)
(* no "<" is followed, anywhere later, by ">" *)
Fixpoint no_tag (t : str) : bool :=
  match t with
  | [] => true
  | c :: r => (if c =? 60 then negb (has_gt r) else true) && no_tag r
  end.

Definition pair_scalar (kv : str * str) : bool := scalar (fst kv) && scalar (snd kv).
