(* C13 — RFC 3986 reference resolution, transcribed from the RFC (not from urllib):
     Appendix B   parsing a URI reference into scheme / authority / path / query / fragment with the regular
                  expression of that appendix (scheme: one or more characters other than : / ? # followed by
                  ":"; authority: after "//" up to the next / ? #; path: up to ? or #; query: after "?" up to
                  "#"; fragment: after "#")
     5.2.2        Transform References (strict parser)
     5.2.3        Merge Paths
     5.2.4        Remove Dot Segments (the input-buffer / output-buffer loop, rules A-E)
     5.3          Component Recomposition
   An undefined component is [None]; a defined but empty one is [Some []]. *)
From Coq Require Import NArith List Bool.
Require Import Webob.Lib.Val Webob.Lib.PyStr Webob.Model.C13_urlsplit.
Import ListNotations.
Local Open Scope N_scope.

Record uri := mkUri {
  u_scheme : option str; u_authority : option str; u_path : str; u_query : option str; u_fragment : option str }.

Definition is_gen_delim4 (c : N) : bool := (c =? 58) || (c =? 47) || (c =? 63) || (c =? 35).   (* : / ? # *)
Definition is_qf (c : N) : bool := (c =? 63) || (c =? 35).                                     (* ? # *)
Definition is_hash (c : N) : bool := c =? 35.

(* Appendix B, group by group *)
(* groups 1-2: one or more characters other than : / ? # followed by ":" *)
Definition parse_scheme (r : str) : option str * str :=
  let (pre, rest) := span_until is_gen_delim4 r in
  match pre, rest with
  | _ :: _, 58 :: after => (Some pre, after)
  | _, _ => (None, r)
  end.
(* groups 3-4: "//" and everything up to the next / ? # *)
Definition parse_authority (r : str) : option str * str :=
  match r with
  | 47 :: 47 :: after => let (a, rest) := span_until is_delim after in (Some a, rest)
  | _ => (None, r)
  end.
(* groups 6-7: "?" and everything up to "#" *)
Definition parse_query (r : str) : option str * str :=
  match r with
  | 63 :: after => let (q, rest) := span_until is_hash after in (Some q, rest)
  | _ => (None, r)
  end.
(* groups 8-9: "#" and the rest *)
Definition parse_fragment (r : str) : option str :=
  match r with 35 :: after => Some after | _ => None end.

Definition rfc_parse (r : str) : uri :=
  let (scheme, r1) := parse_scheme r in
  let (authority, r2) := parse_authority r1 in
  let (path, r3) := span_until is_qf r2 in               (* group 5: up to ? or # *)
  let (query, r4) := parse_query r3 in
  mkUri scheme authority path query (parse_fragment r4).

(* 5.2.4: "removing the last segment and its preceding "/" (if any) from the output buffer" *)
Definition remove_last_segment (out : str) : str :=
  let (last_rev, head_rev) := span_until (fun c => c =? 47) (rev out) in
  match head_rev with
  | _ :: before_rev => rev before_rev
  | [] => []
  end.

(* the first path segment of the input buffer, "including the initial "/" character (if any) and any
   subsequent characters up to, but not including, the next "/" character or the end of the input buffer" *)
Definition first_segment (inp : str) : str * str :=
  match inp with
  | 47 :: r => let (s, rest) := span_until (fun c => c =? 47) r in (47 :: s, rest)
  | _ => span_until (fun c => c =? 47) inp
  end.

Fixpoint rds_loop (fuel : nat) (inp out : str) : str :=
  match fuel with
  | O => out
  | S fuel' =>
      match inp with
      | [] => out
      | _ =>
          (* A *)
          if starts_with [46; 46; 47] inp then rds_loop fuel' (skipn 3 inp) out
          else if starts_with [46; 47] inp then rds_loop fuel' (skipn 2 inp) out
          (* B *)
          else if starts_with [47; 46; 47] inp then rds_loop fuel' (skipn 2 inp) out
          else if str_eqb inp [47; 46] then rds_loop fuel' [47] out
          (* C *)
          else if starts_with [47; 46; 46; 47] inp then rds_loop fuel' (skipn 3 inp) (remove_last_segment out)
          else if str_eqb inp [47; 46; 46] then rds_loop fuel' [47] (remove_last_segment out)
          (* D *)
          else if str_eqb inp [46] || str_eqb inp [46; 46] then rds_loop fuel' [] out
          (* E *)
          else let (seg, rest) := first_segment inp in rds_loop fuel' rest (out ++ seg)
      end
  end.

Definition remove_dot_segments (p : str) : str := rds_loop (S (length p)) p [].

(* 5.2.3 *)
Definition merge (base : uri) (rpath : str) : str :=
  match u_authority base, u_path base with
  | Some _, [] => 47 :: rpath
  | _, bp =>
      (* "all but the last segment of the base URI's path": everything up to and including the last "/" *)
      let (last_rev, head_rev) := span_until (fun c => c =? 47) (rev bp) in
      rev head_rev ++ rpath
  end.

(* 5.2.2 (strict) *)
Definition transform (base r : uri) : uri :=
  match u_scheme r with
  | Some _ => mkUri (u_scheme r) (u_authority r) (remove_dot_segments (u_path r)) (u_query r) (u_fragment r)
  | None =>
      match u_authority r with
      | Some _ => mkUri (u_scheme base) (u_authority r) (remove_dot_segments (u_path r)) (u_query r) (u_fragment r)
      | None =>
          match u_path r with
          | [] =>
              mkUri (u_scheme base) (u_authority base) (u_path base)
                    (match u_query r with Some q => Some q | None => u_query base end) (u_fragment r)
          | 47 :: _ =>
              mkUri (u_scheme base) (u_authority base) (remove_dot_segments (u_path r)) (u_query r) (u_fragment r)
          | _ =>
              mkUri (u_scheme base) (u_authority base) (remove_dot_segments (merge base (u_path r)))
                    (u_query r) (u_fragment r)
          end
      end
  end.

(* 5.3 *)
Definition recompose (t : uri) : str :=
  (match u_scheme t with Some s => s ++ [58] | None => [] end) ++
  (match u_authority t with Some a => [47; 47] ++ a | None => [] end) ++
  u_path t ++
  (match u_query t with Some q => 63 :: q | None => [] end) ++
  (match u_fragment t with Some f => 35 :: f | None => [] end).

Definition rfc3986_resolve (base ref : str) : str := recompose (transform (rfc_parse base) (rfc_parse ref)).
