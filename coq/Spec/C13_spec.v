(* C13 — the vocabulary of the property statement: what "percent-encoded ASCII" means, which Host spellings,
   schemes, ports and query strings are quantified over.  Short and free of implementation structure. *)
From Coq Require Import NArith List Bool.
Require Import Webob.Lib.Val Webob.Lib.PyStr Webob.Lib.C13_Utf8 Webob.Model.C13_urlsplit Webob.Model.C13_urlpath.
Import ListNotations.
Local Open Scope N_scope.

(* RFC 3986: unreserved / sub-delims / ":" / "@" (= pchar without pct-encoded) and "/" *)
Definition rfc_unreserved (c : N) : bool :=
  is_alpha c || is_digit c || (c =? 45) || (c =? 46) || (c =? 95) || (c =? 126).
Definition rfc_subdelim (c : N) : bool :=
  (c =? 33) || (c =? 36) || (c =? 38) || (c =? 39) || (c =? 40) || (c =? 41) || (c =? 42) || (c =? 43) ||
  (c =? 44) || (c =? 59) || (c =? 61).
Definition rfc_path_char (c : N) : bool :=
  rfc_unreserved c || rfc_subdelim c || (c =? 58) || (c =? 64) || (c =? 47).
Definition upper_hex (c : N) : bool := is_digit c || ((65 <=? c) && (c <=? 70)).

(* a path of RFC 3986 path characters and %XX triplets with upper-case hex digits *)
Inductive pct_encoded : str -> Prop :=
| pe_nil : pct_encoded []
| pe_lit c s : rfc_path_char c = true -> pct_encoded s -> pct_encoded (c :: s)
| pe_esc a b s : upper_hex a = true -> upper_hex b = true -> pct_encoded s -> pct_encoded (37 :: a :: b :: s).

(* reference decoder of such a path *)
Fixpoint pct_decode (fuel : nat) (s : str) : option str :=
  match fuel with
  | O => None
  | S fuel' =>
      match s with
      | [] => Some []
      | c :: r =>
          if c =? 37 then
            match r with
            | a :: b :: r' =>
                match hexval a, hexval b with
                | Some x, Some y => option_map (cons (16 * x + y)) (pct_decode fuel' r')
                | _, _ => None
                end
            | _ => None
            end
          else option_map (cons c) (pct_decode fuel' r)
      end
  end.

(* visible ASCII *)
Definition printable (c : N) : bool := (33 <=? c) && (c <=? 126).

(* Host spellings: reg-name / IPv4 (no colon, no bracket, no "/?#"), or a bracketed IP literal *)
Definition name_char (c : N) : bool :=
  printable c && negb (is_delim c) && negb (c =? 58) && negb (c =? 91) && negb (c =? 93).
Definition v6_char (c : N) : bool := name_char c || (c =? 58).
Inductive hostsp := HName (n : str) | HV6 (a : str).
Definition hs_text (h : hostsp) : str := match h with HName n => n | HV6 a => 91 :: a ++ [93] end.
Definition hs_ok (v6ok : str -> bool) (h : hostsp) : Prop :=
  match h with
  | HName n => forallb name_char n = true
  | HV6 a => forallb v6_char a = true /\ v6ok a = true
  end.
Definition port_ok (p : str) : Prop := p <> [] /\ forallb is_digit p = true.
Definition oport_ok (p : option str) : Prop := match p with Some p => port_ok p | None => True end.
Definition port_sfx (p : option str) : str := match p with Some p => 58 :: p | None => [] end.

(* the request's host as the statement sees it: domain [h] and optional explicit port [p], either spelled in
   the Host header or, without one, given by SERVER_NAME / SERVER_PORT *)
Definition host_view (v6ok : str -> bool) (e : environ) (h : hostsp) (p : option str) : Prop :=
  hs_ok v6ok h /\ oport_ok p /\
  (e_http_host e = Some (hs_text h ++ port_sfx p) \/
   (e_http_host e = None /\ (exists n, h = HName n) /\ e_server_name e = hs_text h /\ p = Some (e_server_port e))).

Definition is_lower_alpha (c : N) : bool := (97 <=? c) && (c <=? 122).
(* http and https (PEP 3333), or any other lower-case letters-only scheme when the port is explicit *)
Definition scheme_ok (sch : str) (p : option str) : Prop :=
  sch = s_http \/ sch = s_https \/ (sch <> [] /\ forallb is_lower_alpha sch = true /\ p <> None).

Definition default_port (sch : str) : option str :=
  if str_eqb sch s_https then Some s_443 else if str_eqb sch s_http then Some s_80 else None.
Definition is_default (sch p : str) : bool :=
  match default_port sch with Some d => str_eqb p d | None => false end.

(* QUERY_STRING as a server delivers it: visible ASCII without '#' *)
Definition query_char (c : N) : bool := printable c && negb (c =? 35).
Definition query_ok (q : option str) : Prop :=
  match q with Some q => forallb query_char q = true | None => True end.
Definition query_text (q : option str) : str := match q with Some q => q | None => [] end.

(* text valid for an encoding *)
Definition text_ok (enc : encoding) (t : str) : Prop :=
  match enc with Utf8 => valid_text t = true | Latin => forallb is_octet t = true end.

Definition rooted (t : str) : Prop := t = [] \/ exists t', t = 47 :: t'.

(* the numeric value of a port spelled with decimal digits ("080" is port 80) *)
Definition port_value (p : str) : N := fold_left (fun acc c => acc * 10 + (c - 48)) p 0.
(* RFC 3986 query characters (pchar / "/" / "?") and "%": what a percent-encoded ASCII query consists of *)
Definition rfc_query_char (c : N) : bool := rfc_path_char c || (c =? 63) || (c =? 37).
