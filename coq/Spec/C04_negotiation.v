(* C04 — the declarative statement of negotiation that the property text talks about.

   Accept:  the governing range of an offer is the FIRST range among those of MAXIMAL specificity
   [4] identical type/subtype and parameters > [3] type/subtype without parameters > [2] type/STAR > [1] STAR/STAR.
   The result is: the offers that are concrete media types, without exact repetitions (first
   occurrence kept), whose governing range has q <> 0, each with that q, ordered by q descending
   with ties in the order offered.

   Accept-Charset / Accept-Encoding:  the first explicit entry equal to the offer up to case governs;
   otherwise the first STAR entry; otherwise, for content-codings, identity has quality 1.             *)
From Coq Require Import ZArith NArith List Bool.
Require Import Webob.Lib.Val Webob.Lib.PyStr Webob.Lib.C04_Sort Webob.Model.C04_negotiation.
Import ListNotations.

(* ---- order of preference: higher q first, ties in the order offered *)
Definition before {K} (a b : qent K) : bool :=
  (x_q b <? x_q a)%N || ((x_q a =? x_q b)%N && (x_idx a <=? x_idx b)%nat).
Definition prefers {K} (a b : qent K) : Prop :=
  (x_q b < x_q a)%N \/ (x_q a = x_q b /\ x_idx a <= x_idx b).
Definition rank {K} (l : list (qent K)) : list (K * N) :=
  map (fun x => (x_key x, x_q x)) (isort before l).

(* ---- Accept *)
Definition max_spec (rs : list lrange) (po : poffer) : nat :=
  fold_right Nat.max 0 (map (fun r => specificity r po) rs).

Definition governing (rs : list lrange) (po : poffer) : option lrange :=
  let m := max_spec rs po in
  if (m =? 0)%nat then None else find (fun r => (specificity r po =? m)%nat) rs.

(* first occurrence of every distinct offer *)
Fixpoint dedup (l : list item) : list item :=
  match l with
  | [] => []
  | x :: l' => x :: filter (fun y => negb (offer_eqb (i_key y) (i_key x))) (dedup l')
  end.

Definition verdict (rs : list lrange) (it : item) : list (qent offer) :=
  match governing rs (i_po it) with
  | Some r => if (r_q r =? 0)%N then [] else [mkQ (i_key it) (r_q r) (i_idx it)]
  | None => []
  end.

Definition acceptable (rs : list lrange) (offers : list offer) : list (qent offer) :=
  flat_map (verdict rs) (dedup (parse_and_normalize offers)).

Definition spec_accept (rs : list lrange) (offers : list offer) : list (offer * N) :=
  rank (acceptable rs offers).

(* ---- Accept-Charset / Accept-Encoding *)
Definition is_star (c : str) : bool := str_eqb (lower c) star.

Definition explicit (rs : list (str * N)) (o : str) : option N :=
  option_map snd (find (fun cq => negb (is_star (fst cq)) && str_eqb (lower (fst cq)) (lower o)) rs).

Definition wildcard (rs : list (str * N)) : option N :=
  option_map snd (find (fun cq => is_star (fst cq)) rs).

Definition governing_q (enc : bool) (rs : list (str * N)) (o : str) : option N :=
  match explicit rs o with
  | Some q => Some q
  | None =>
      match wildcard rs with
      | Some q => Some q
      | None => if enc && str_eqb (lower o) identity then Some 1000%N else None
      end
  end.

Definition verdict_q (enc : bool) (rs : list (str * N)) (io : nat * str) : list (qent str) :=
  match governing_q enc rs (snd io) with
  | Some q => if (q =? 0)%N then [] else [mkQ (snd io) q (fst io)]
  | None => []
  end.

Definition spec_simple (enc : bool) (rs : list (str * N)) (offers : list str) : list (str * N) :=
  rank (flat_map (verdict_q enc rs) (enum_from 0 offers)).
