(* C07 — "exactly the attributes requested": the list of (attribute, value) a request asks for, in the
   order webob emits them.  A flag has no value.  path/domain/comment/samesite given as the empty string
   count as not requested; Max-Age and expires come from max_age (a deleted cookie: Max-Age=0 and a fixed
   date in the past). *)
From Coq Require Import String.
From Coq Require Import ZArith NArith List Bool.
Require Import Webob.Lib.Val Webob.Lib.PyStr Webob.Model.C07_CookieCodec Webob.Spec.C07_CookieSpec.
Import ListNotations.
Local Open Scope N_scope.

Definition deleting (r : request) : bool := match r_value r with CNone => true | _ => false end.

(* seconds asked for: None = a session cookie *)
Definition req_seconds (r : request) : option Z :=
  if deleting r then Some 0%Z
  else match r_max_age r with
       | MaNone => None
       | MaInt z => Some z
       | MaDelta days seconds => Some (days * 86400 + seconds)%Z
       | MaBad => None                      (* not a number: such a request is refused, see C07_rejects_bad_max_age *)
       end.

(* the octets the cookie value stands for (a str value must be ASCII for make_cookie; set_cookie encodes
   text as utf-8 before calling it) *)
Definition value_octets (r : request) : str :=
  match r_value r with CNone => [] | CBytes b => b | CText t => t end.

Definition opt_attr (name : str) (o : option str) : list (str * option str) :=
  match o with
  | Some (c :: v) => [(name, Some (c :: v))]
  | _ => []
  end.

Definition requested (r : request) : list (str * option str) :=
  opt_attr A_Comment (r_comment r)
  ++ opt_attr A_Domain (r_domain r)
  ++ match req_seconds r with Some z => [(A_MaxAge, Some (z_to_str z))] | None => [] end
  ++ opt_attr A_Path (r_path r)
  ++ match req_seconds r with
     | Some _ => opt_attr A_expires (Some (if deleting r then delete_expires else r_date r))
     | None => []
     end
  ++ (if r_secure r then [(A_secure, None)] else [])
  ++ (if r_httponly r then [(A_HttpOnly, None)] else [])
  ++ opt_attr A_SameSite (r_samesite r).

(* the request only carries octets where webob expects bytes *)
Definition opt_octets (o : option str) : Prop := match o with Some s => octets s | None => True end.
Definition req_octets (r : request) : Prop :=
  octets (value_octets r) /\ opt_octets (r_path r) /\ opt_octets (r_domain r) /\ opt_octets (r_comment r).

(* SameSite: what the statement accepts *)
Definition samesite_legal (s : str) : bool :=
  let l := blower s in
  str_eqb l (H "737472696374"%string) || str_eqb l (H "6c6178"%string) || str_eqb l (H "6e6f6e65"%string).

(* the attributes that carry a value (what a key=value scanner can see; flags have no '=') *)
Definition valued_attrs (l : list (str * option str)) : list (str * str) :=
  flat_map (fun kv : str * option str => match snd kv with Some v => [(fst kv, v)] | None => [] end) l.
