(* C15 — the short specifications the property text talks about.

   1. The class of Cookie headers the request-side theorems cover ([wf_header]): name=value pairs with optional
      white space round the '=', whose value is an unquoted run of legal characters or a quoted string (no raw
      double quote / LF inside, not ending in a backslash — octal escapes are fine), each pair followed by the end of
      the header or by a ';'; between, before and after the pairs ANY text that contains no '=' and, when a pair
      follows it, ends in a character that cannot be part of a name (flags such as "secure", doubled separators,
      odd spacing, commas, stray quotes).  $Version-style attributes are just pairs (they are filtered on reading).
      All characters are octets (a WSGI environ value is a latin-1 native string).
   2. The reference dict: an insertion-ordered association list with set / delete / clear.
   3. The reference list of Set-Cookie lines keyed by cookie name. *)
From Coq Require Import NArith List Bool.
Require Import Webob.Lib.Val Webob.Lib.PyStr Webob.Gen.C15_tables Webob.Model.C15_Scan.
Import ListNotations.
Local Open Scope N_scope.

(* ------------------------------------------------------------------ 1. rendered headers *)
Inductive cvalue :=
| VU (u : str)          (* unquoted *)
| VQ (body : str).      (* quoted: the text between the double quotes *)

Definition val_text (v : cvalue) : str :=
  match v with VU u => u | VQ b => 34 :: b ++ [34] end.

Record item := mkItem { i_key : str; i_w1 : str; i_w2 : str; i_val : cvalue }.
Definition item_sep (i : item) : str := i_w1 i ++ 61 :: i_w2 i.
Definition item_text (i : item) : str := i_key i ++ item_sep i ++ val_text (i_val i).

(* characters of a name as the scanner sees it: legal, and not '=' (the lazy key would stop there) *)
Definition keych (c : N) : bool := is_legal c && negb (c =? 61).
Definition key_ok (k : str) : bool := match k with [] => false | _ => forallb keych k end.
(* inside quotes: anything but the double quote and LF; the body must not end with a backslash *)
Definition qch (c : N) : bool := negb (c =? 34) && negb (c =? 10).
Definition val_ok (v : cvalue) : bool :=
  match v with
  | VU u => forallb is_legal u
  | VQ b => forallb qch b && negb (last b 0 =? 92) && is_latin1 b
  end.
Definition item_ok (i : item) : bool :=
  key_ok (i_key i) && forallb is_ws (i_w1 i) && forallb is_ws (i_w2 i) && val_ok (i_val i).

Definition noeq (g : str) : bool := forallb (fun c => negb (c =? 61)) g.
(* text in front of a pair: no '=', and empty or ending in a character that is not legal in a name *)
Definition gap_ok (g : str) : bool :=
  noeq g && match g with [] => true | _ => negb (is_legal (last g 0)) end && is_latin1 g.
(* what follows a pair: nothing, or a ';' *)
Definition follows_ok (rest : str) : bool :=
  match rest with [] => true | c :: _ => c =? 59 end.

Definition render (ps : list (str * item)) (tail : str) : str :=
  flat_map (fun p => fst p ++ item_text (snd p)) ps ++ tail.

Fixpoint wf_ps (ps : list (str * item)) (tail : str) : bool :=
  match ps with
  | [] => noeq tail && is_latin1 tail
  | (g, i) :: ps' => gap_ok g && item_ok i && follows_ok (render ps' tail) && wf_ps ps' tail
  end.

Definition wf_header (h : str) : Prop :=
  exists ps tail, h = render ps tail /\ wf_ps ps tail = true.

(* the class, decided: cut the header with the scanner, read every match back as an item, and test the conditions
   (Proofs/C15_request.v: wf_headerb h = true <-> wf_header h).  This is the predicate the oracle uses to decide
   whether a header it meets is inside the theorems' domain. *)
Fixpoint split61 (s : str) : str * str :=
  match s with
  | [] => ([], [])
  | c :: r => if c =? 61 then ([], r) else let '(a, b) := split61 r in (c :: a, b)
  end.
Definition unval (t : str) : cvalue :=
  match t with
  | 34 :: r => match rev r with 34 :: rb => VQ (rev rb) | _ => VU t end
  | _ => VU t
  end.
Definition unentry (e : entry) : str * item :=
  let '(w1, w2) := split61 (e_sep e) in (e_gap e, mkItem (e_key e) w1 w2 (unval (e_val e))).
Definition wf_headerb (h : str) : bool :=
  let '(es, tail) := scan h in
  let ps := map unentry es in
  wf_ps ps tail && str_eqb (render ps tail) h.

(* what such a header means: every pair, in order, with its value unquoted *)
Definition item_pair (i : item) : str * str := (i_key i, unquote (val_text (i_val i))).
Definition pairs_of (ps : list (str * item)) : list (str * str) := map (fun p => item_pair (snd p)) ps.

(* ------------------------------------------------------------------ 2. the reference dict *)
(* pairs with repeated names, as they stand in a header: assignment replaces the last pair of that name
   (the one a reader sees) or appends; deletion removes every pair of that name *)
Fixpoint has_key (k : str) (l : list (str * str)) : bool :=
  match l with [] => false | (k', _) :: l' => str_eqb k' k || has_key k l' end.

Fixpoint set_last (k v : str) (l : list (str * str)) : list (str * str) :=
  match l with
  | [] => []
  | (k', v') :: l' =>
      if str_eqb k' k && negb (has_key k l') then (k', v) :: l' else (k', v') :: set_last k v l'
  end.
Definition pairs_set (k v : str) (l : list (str * str)) : list (str * str) :=
  if has_key k l then set_last k v l else l ++ [(k, v)].
Definition pairs_del (k : str) (l : list (str * str)) : list (str * str) :=
  filter (fun kv => negb (str_eqb (fst kv) k)) l.

(* the dict a list of pairs denotes: later pair wins, position of the first occurrence *)
Definition to_dict (l : list (str * str)) : list (str * str) :=
  fold_left (fun d kv => dict_set (fst kv) (snd kv) d) l [].

(* ------------------------------------------------------------------ 3. Set-Cookie lines keyed by name *)
(* a response's cookies: (name the line sets, the line) in header order; None: the line sets nothing readable *)
Definition keyed := list (option str * str).
Definition keyed_unset (name : str) (l : keyed) : keyed :=
  filter (fun kl => match fst kl with Some k => negb (str_eqb k name) | None => true end) l.
Definition keyed_has (name : str) (l : keyed) : bool :=
  existsb (fun kl => match fst kl with Some k => str_eqb k name | None => false end) l.

(* ------------------------------------------------------------------ 2b. the reference jar *)
Require Import Webob.Model.C15_CookieJar.

Section RefJar.
  Variable enc : text -> option str.     (* str.encode('utf-8') *)

  (* the cookie pairs (name, value octets) a RequestCookies operation must leave, and what it returns/raises:
     invalid names and non-text values are refused and change nothing; deleting an absent name is a KeyError *)
  Definition ref_set (l : list (str * str)) (name value : option text) : list (str * str) * res unit :=
    match check_name name with
    | Raise e => (l, Raise e)
    | Ok n =>
        match value with
        | None => (l, Raise ValueError)
        | Some v => match enc v with
                    | None => (l, Raise UnicodeEncodeError)
                    | Some b => (pairs_set n b l, Ok tt)
                    end
        end
    end.

  Definition ref_del (l : list (str * str)) (name : option text) : list (str * str) * res unit :=
    match check_name name with
    | Raise e => (l, Raise e)
    | Ok n => if has_key n l then (pairs_del n l, Ok tt) else (l, Raise KeyError)
    end.

  Fixpoint ref_update (l : list (str * str)) (ps : list (text * text)) : list (str * str) * res unit :=
    match ps with
    | [] => (l, Ok tt)
    | (k, v) :: ps' =>
        match ref_set l (Some k) (Some v) with
        | (l', Ok _) => ref_update l' ps'
        | (l', Raise e) => (l', Raise e)
        end
    end.

  Definition ref_rstep (l : list (str * str)) (o : rop) : list (str * str) * res unit :=
    match o with
    | RSet n v => ref_set l n v
    | RDel n => ref_del l n
    | RClear => ([], Ok tt)
    | RAssign ps => match ref_update [] ps with
                    | (l', Ok _) => (l', Ok tt)
                    | (_, Raise e) => (l, Raise e)      (* a refused assignment leaves the jar as it was *)
                    end
    end.

  Definition ref_rrun (ops : list rop) (l : list (str * str)) : list (str * str) :=
    fold_left (fun l o => fst (ref_rstep l o)) ops l.
End RefJar.

(* what a reader of the jar sees for one name: the last pair wins *)
Fixpoint lookup (k : str) (l : list (str * str)) : option str :=
  match l with
  | [] => None
  | (k', v) :: l' => match lookup k l' with
                     | Some x => Some x
                     | None => if str_eqb k' k then Some v else None
                     end
  end.
