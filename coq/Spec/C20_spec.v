(* C20 — the vocabulary of the property statements: what a well-formed request / response /
   application script is, and what "the same" means after a round trip.  Definitions only. *)
From Coq Require Import ZArith NArith List Bool.
Require Import Webob.Lib.Val Webob.Lib.PyStr Webob.Model.C20_wire Webob.Model.C20_callapp.
From Coq Require String.
Import String.StringSyntax.
Import ListNotations.
Local Open Scope string_scope.
Local Open Scope list_scope.
Local Open Scope N_scope.

(* ------------------------------------------------------------------ characters and strings *)
Definition no_lf (s : str) : Prop := Forall (fun c => c <> 10) s.

(* no leading / trailing character of class sp (the empty string is tight) *)
Definition tightb (sp : N -> bool) (v : str) : bool :=
  match v with
  | [] => true
  | c :: _ => negb (sp c) && negb (sp (last v 0))
  end.

Definition no_sp (sp : N -> bool) (w : str) : Prop := Forall (fun c => sp c = false) w.

Definition all_digits (s : str) : Prop := Forall (fun c => is_digit c = true) s.

Definition vis (c : N) : Prop := 33 <= c /\ c <= 126.          (* printable ASCII except SP *)
Definition all_vis (s : str) : Prop := Forall vis s.

Definition keys (d : dict) : list str := map fst d.


(* ------------------------------------------------------------------ responses *)
(* a header name as it can stand on a header line: non-empty, no ':' or LF, no surrounding blanks *)
Definition good_name (n : str) : Prop :=
  n <> [] /\ Forall (fun c => c <> 58 /\ c <> 10) n /\ tightb is_space_bytes n = true.

(* a header value: any code points (latin-1 on the wire) except LF, no surrounding ASCII blanks *)
Definition good_value (v : str) : Prop := no_lf v /\ tightb is_space_bytes v = true.

Definition good_headers (hl : list (str * str)) : Prop :=
  Forall (fun p => good_name (fst p) /\ good_value (snd p)) hl.

(* "NNN reason phrase" *)
Definition good_status (st : str) : Prop :=
  exists code reason,
    st = code ++ 32 :: reason /\ code <> [] /\ all_digits code /\
    reason <> [] /\ no_lf reason /\ tightb is_space_str reason = true.

(* the response declares its length: the (first) Content-Length header is the body length *)
Definition declared_length (r : resp) : Prop := first_cl (r_headers r) = Some (dec_len (r_body r)).

(* the same response with the Content-Length header in normal position (last, canonical spelling);
   every other header keeps its place, spelling and multiplicity *)
Definition cl_last (r : resp) : resp :=
  mkResp (r_status r)
         (filter (fun p => negb (is_cl p)) (r_headers r) ++ [(n_CL, dec_len (r_body r))])
         (r_body r).

(* everything of the wire form before the body *)
Definition wire_head (r : resp) : bytes :=
  A "HTTP/1.1 " ++ r_status r ++ CRLF ++ flat_map (fun p => hline p ++ CRLF) (r_headers r) ++ CRLF.

(* ------------------------------------------------------------------ application scripts *)
(* chunks written or yielded, in order *)
Fixpoint chunk_list (its : list item) : list bytes :=
  match its with
  | [] => []
  | IYield b :: r => b :: chunk_list r
  | IEv (EWrite b) :: r => b :: chunk_list r
  | IEv _ :: r => chunk_list r
  end.

(* an item that neither writes nor calls start_response *)
Definition quiet (i : item) : bool :=
  match i with IYield _ => true | IEv (ERaise _) => true | IEv _ => false end.

(* what a caller sees when it iterates a quiet iterable *)
Fixpoint yields_before_raise (its : list item) : list bytes * option N :=
  match its with
  | [] => ([], None)
  | IYield b :: r => let '(l, x) := yields_before_raise r in (b :: l, x)
  | IEv (ERaise x) :: _ => ([], Some x)
  | IEv _ :: r => yields_before_raise r
  end.

(* the region of the known finding: start_response was called before the application returned,
   nothing was written by then (so webob hands the iterable back unconsumed), and the iterable
   calls write() or start_response() while it is iterated *)
Definition events_lost (a : app) : bool :=
  negb (webob_consumes a) && negb (forallb quiet (a_items a)).

(* ------------------------------------------------------------------ requests *)
(* a header name on a request line: visible ASCII, no ':' *)
Definition good_hname (n : str) : Prop := n <> [] /\ Forall (fun c => vis c /\ c <> 58) n.

(* a request header value: ASCII without LF (in particular printable ASCII with inner blanks),
   no leading/trailing whitespace *)
Definition good_hvalue (v : str) : Prop :=
  Forall (fun c => c < 128 /\ c <> 10) v /\ tightb is_space_str v = true.

(* the header entries of the environ: distinct keys, each the canonical CGI key of its header name *)
Definition wf_entry (p : str * str) : Prop :=
  exists n, trans_key (fst p) = Some n /\ good_hname n /\ trans_name n = fst p /\ good_hvalue (snd p).
Definition wf_headers (d : dict) : Prop := NoDup (keys d) /\ Forall wf_entry d.

Record wf_request (e : env) : Prop := {
  wf_method : e_method e <> [] /\ all_vis (e_method e);
  wf_proto : e_proto e <> [] /\ all_vis (e_proto e);
  wf_scheme : e_scheme e = A "http";
  wf_host : exists h, dict_get k_HOST (e_hdrs e) = Some h;
  wf_path : (exists p, e_script e ++ e_path e = 47 :: p) /\ Forall (fun c => c < 256) (e_script e ++ e_path e);
  wf_qs : all_vis (e_qs e);
  wf_hdrs : wf_headers (e_hdrs e)
}.

(* the Content-Length header, when present, is the decimal length of the body; when absent the
   body is empty *)
Definition settled (e : env) (body : bytes) : Prop :=
  match dict_get k_CL (e_hdrs e) with
  | Some v => v = dec_len body
  | None => body = []
  end.

(* the header items a re-parsed request shows: sorted, plus a Content-Length if there was none *)
Definition reparsed_items (e : env) : list (str * str) :=
  sort_items (hdr_items (e_hdrs e)) ++
  match dict_get k_CL (e_hdrs e) with
  | Some _ => []
  | None => [(n_CL, [48])]
  end.

(* the serialisation without its body part *)
Definition request_head (e : env) : bytes :=
  join CRLF (request_line e :: map hline (sort_items (hdr_items (e_hdrs e)))).

(* the body state of a request before it is serialised: a Content-Length header that is the decimal
   length of what wsgi.input holds, or none — then either there is no readable body, or the body
   was supplied as a file (req.body_file = f: not seekable, wsgi.input_terminated) *)
Definition body_consistent (e : env) : Prop :=
  match dict_get k_CL (e_hdrs e) with
  | Some v => v = dec_len (e_input e)
  | None => e_term e = false \/ e_seekable e = false
  end.

(* the body a request carries *)
Definition body_of (e : env) : bytes := if is_body_readable e then e_input e else [].

(* the environ keys a WSGI server produces for request headers: HTTP_ + [A-Z0-9_]+ (other than
   the two names that CGI stores without the prefix), and CONTENT_TYPE / CONTENT_LENGTH *)
Definition cgi_char (c : N) : bool := is_upper c || is_digit c || (c =? 95).
Definition cgi_header_key (k : str) : Prop :=
  k = k_CT \/ k = k_CL \/
  exists s, k = p_HTTP_ ++ s /\ s <> [] /\ Forall (fun c => cgi_char c = true) s /\
            s <> A "CONTENT_TYPE" /\ s <> A "CONTENT_LENGTH".

(* every character of t encodes to between 1 and 4 bytes *)
Definition sane_widths (cw : N -> nat) (t : str) : Prop := Forall (fun c => (1 <= cw c <= 4)%nat) t.
