(* C13 — the decidable domain of references (and of request paths) on which urllib's urljoin is proved to be
   RFC 3986 5.2 resolution.  Outside it lie exactly the stdlib deviations recorded as findings (a reference
   with a scheme or an authority, an empty "?" or "#" component, an empty path segment "//", a "." or ".."
   segment carrying ";params") and, as a simplification of the proof, any ';' in the LAST path segment. *)
From Coq Require Import NArith List Bool.
Require Import Webob.Lib.Val Webob.Lib.PyStr Webob.Model.C13_urlsplit Webob.Model.C13_urlpath
               Webob.Model.C13_urljoin Webob.Spec.C13_spec Webob.Spec.C13_rfc3986.
Import ListNotations.
Local Open Scope N_scope.

(* every segment strictly between the first and the last is non-empty: no "//" inside the path *)
Definition mid_nonempty (l : list str) : bool :=
  match l with [] => true | _ :: r => forallb nonempty (removelast r) end.

(* a path without empty inner segment and without ';' in its last segment *)
Definition path_shape_ok (p : str) : bool :=
  mid_nonempty (split_c 47 p) && negb (mem_n 59 (last (split_c 47 p) [])).

(* path, "?query" or "", "#fragment" or "" *)
Definition ref_parts (r : str) : str * str * str :=
  let (pq, f) := span_until is_hash r in
  let (p, q) := span_until (fun c => c =? 63) pq in (p, q, f).

Definition ref_ok (r : str) : bool :=
  forallb printable r &&
  negb (mem_n 58 (fst (span_until is_delim r))) &&           (* no ':' before the first of / ? #: no scheme *)
  let '(p, q, f) := ref_parts r in
  path_shape_ok p &&                                          (* in particular p does not start with "//" *)
  negb (str_eqb q [63]) && negb (str_eqb f [35]).            (* a "?" or "#" is followed by something *)

(* the path of the base URL relative_url resolves against: request.path (quoted SCRIPT_NAME + PATH_INFO), or for
   to_application the quoted SCRIPT_NAME with a "/" appended when it does not end with one *)
Definition rel_base_path (e : environ) (to_application : bool) : str :=
  if to_application then
    let Q := url_quote (raw_script e) in if ends_with_slash Q then Q else Q ++ [47]
  else url_quote (raw_script e ++ e_path e).
