(* C19 — the declarative notions the property theorems are stated with (short on purpose).

   header object      [hdr A] of C03: NoHeader | Invalid text | Valid text parsed
   [wf_hdr F ok h]    h is a header object as the classes construct it: the parsed list of a Valid object IS the
                      parse of its text (and the text belongs to the class [ok] on which parsing is known to
                      distribute over ", " — all texts for the three simple families)
   [elements h]       (Model) the parsed list of a Valid object, [] for Invalid / NoHeader
   [contrib F v]      what a str / list / tuple / dict / None operand contributes to a sum: nothing when it is falsy
                      (None, empty str, empty list / tuple / dict) or when its header text is not valid, else the
                      elements of its header text
   [ok_accept a]      Accept only: the text a is comma-stable — scanning  a , t  gives the elements of a followed by those
                      of t, for every continuation t whose first character other than comma / blank is not a semicolon *)
From Coq Require Import NArith List Bool.
Require Import Webob.Lib.Val Webob.Lib.PyStr Webob.Model.C03_scan Webob.Model.C19_acceptstr.
Import ListNotations.
Local Open Scope N_scope.

Definition wf_hdr {A It Dt : Type} (F : family A It Dt) (ok : str -> Prop) (h : hdr A) : Prop :=
  match h with Valid t p => f_parse F t = Some p /\ ok t | _ => True end.

Definition contrib {A It Dt : Type} (F : family A It Dt) (v : pyval It Dt) : list A :=
  if falsy v then []
  else match f_parse F (f_text F v) with Some p => p | None => [] end.

Definition all_ok : str -> Prop := fun _ => True.

(* the element scanner of Accept.parse with the fuel parse uses *)
Definition scanA (s : str) : list accept_el := scan_accept (S (length s)) s.

Fixpoint cont_ok (t : str) : bool :=
  match t with
  | [] => true
  | c :: t' => if (c =? 9) || (c =? 32) || (c =? 44) then cont_ok t' else negb (c =? 59)
  end.
Definition ok_accept (a : str) : Prop :=
  cont_ok a = true /\ forall t, cont_ok t = true -> scanA (a ++ 44 :: t) = scanA a ++ scanA t.
