(* C07 — the declarative side of the statement: what "printable", "delimiter", "escaped form",
   "parses as exactly one cookie carrying exactly the attributes requested" and "token" mean.
   Nothing here mentions webob's tables or its parser. *)
From Coq Require Import String.
From Coq Require Import ZArith NArith List Bool.
Require Import Webob.Lib.Val Webob.Lib.PyStr.
Import ListNotations.
Local Open Scope N_scope.

Definition octet (c : N) : Prop := c < 256.
Definition octets (s : str) : Prop := Forall octet s.

(* printable ASCII, SP included *)
Definition printable (c : N) : bool := (32 <=? c) && (c <=? 126).

(* the delimiters of the statement: ';' ',' white space, control characters (and everything that is not
   ASCII), double quote, backslash *)
Definition is_delim (c : N) : bool :=
  (c <=? 32) || (127 <=? c) || (c =? 34) || (c =? 44) || (c =? 59) || (c =? 92).
Definition bare_safe (c : N) : bool := negb (is_delim c).

Definition oct03 (c : N) : bool := (48 <=? c) && (c <=? 51).
Definition oct07 (c : N) : bool := (48 <=? c) && (c <=? 55).
Definition oct_value (a b d : N) : N := (a - 48) * 64 + (b - 48) * 8 + (d - 48).

(* Escaped text: every character is a printable non-delimiter, or part of a backslash-octal escape
   \ooo; [sp = true] (between double quotes) additionally allows SP. *)
Inductive escaped (sp : bool) : str -> Prop :=
| esc_nil : escaped sp []
| esc_bare c s : bare_safe c = true -> escaped sp s -> escaped sp (c :: s)
| esc_sp s : sp = true -> escaped sp s -> escaped sp (32 :: s)
| esc_oct a b d s : oct03 a = true -> oct07 b = true -> oct07 d = true -> escaped sp s ->
                    escaped sp (92 :: a :: b :: d :: s).

(* a cookie-value / Comment as emitted: bare escaped text, or escaped text between double quotes *)
Definition safe_value (s : str) : Prop :=
  escaped false s \/ exists body, s = 34 :: body ++ [34] /\ escaped true body.

(* what escaped text denotes (reference decoder, total) *)
Fixpoint esc_denote (s : str) : str :=
  match s with
  | [] => []
  | c :: s1 =>
      if c =? 92 then
        match s1 with
        | a :: b :: d :: s4 => oct_value a b d :: esc_denote s4
        | _ => c :: esc_denote s1
        end
      else c :: esc_denote s1
  end.

Definition denote_value (s : str) : str :=
  match s with
  | 34 :: t => if last s 0 =? 34 then esc_denote (removelast t) else esc_denote s
  | _ => esc_denote s
  end.

(* Reference Set-Cookie splitter (the shape of RFC 6265 section 5.2): ';' separates the components, one SP
   follows each ';', the first '=' of a component separates key and value; a component without '=' is a flag *)
Definition strip1 (s : str) : str := match s with 32 :: r => r | _ => s end.
Definition ref_components (line : str) : list str :=
  match split_c 59 line with
  | [] => []
  | h :: t => h :: map strip1 t
  end.
Definition ref_attr (s : str) : str * option str :=
  let '(k, f, v) := partition_c 61 s in (k, if f then Some (denote_value v) else None).
Definition ref_parse (line : str) : option (str * str * list (str * option str)) :=
  match ref_components line with
  | [] => None
  | h :: t => let '(k, f, v) := partition_c 61 h in
              if f then Some (k, denote_value v, map ref_attr t) else None
  end.

(* RFC 7230 token characters *)
Definition tchar (c : N) : bool :=
  ((48 <=? c) && (c <=? 57)) || ((65 <=? c) && (c <=? 90)) || ((97 <=? c) && (c <=? 122)) ||
  mem_n c [33; 35; 36; 37; 38; 39; 42; 43; 45; 46; 94; 95; 96; 124; 126].
Definition rfc_token (s : str) : bool := negb (match s with [] => true | _ => false end) && forallb tchar s.

(* attribute names as they appear on the wire *)
Definition A_Comment : str := H "436f6d6d656e74"%string.
Definition A_Domain : str := H "446f6d61696e"%string.
Definition A_MaxAge : str := H "4d61782d416765"%string.
Definition A_Path : str := H "50617468"%string.
Definition A_expires : str := H "65787069726573"%string.
Definition A_secure : str := H "736563757265"%string.
Definition A_HttpOnly : str := H "487474704f6e6c79"%string.
Definition A_SameSite : str := H "53616d6553697465"%string.

(* text that needs no escaping at all (dates, SameSite values, numbers): printable, no semicolon,
   double quote or backslash *)
Definition plain_char (c : N) : bool := printable c && negb ((c =? 59) || (c =? 34) || (c =? 92)).
Definition plain (s : str) : bool := forallb plain_char s.
