(* C11 — the declarative side: what an RFC 7232 entity-tag list is.  No implementation structure.

     entity-tag = [ weak ] opaque-tag        weak = %x57.2F  (W/, case-sensitive)
     opaque-tag = DQUOTE *etagc DQUOTE       etagc = %x21 / %x23-7E / obs-text
     If-Match / If-None-Match = STAR / 1#entity-tag
     1#element (RFC 7230 section 7, what a recipient must accept)
                = *( COMMA OWS ) element *( OWS COMMA [ OWS element ] )        OWS = *( SP / HTAB )

   The property statement widens the tag alphabet (commas and spaces inside tags); here a tag
   may be ANY sequence of code points that contains no DQUOTE. *)
From Coq Require Import NArith List Bool.
Require Import Webob.Lib.Val.
Import ListNotations.
Local Open Scope N_scope.

Definition wtag := (bool * str)%type.            (* (weak?, text between the quotes) *)

Definition render_tag (wt : wtag) : str :=
  (if fst wt then [87; 47] else []) ++ 34 :: snd wt ++ [34].

Definition tag_ok (t : str) : Prop := ~ In 34 t.

(* SP, HTAB and COMMA: what lists are glued with *)
Definition ows_comma (c : N) : Prop := c = 32 \/ c = 9 \/ c = 44.
(* before the first / after the last tag: *( COMMA OWS ) resp. *( OWS COMMA ), or nothing; we allow
   any mix of OWS and commas *)
Definition filler (s : str) : Prop := Forall ows_comma s.
(* between two tags: OWS COMMA OWS, possibly with further empty elements: OWS/commas with at least one comma *)
Definition separator (s : str) : Prop := Forall ows_comma s /\ In 44 s.

Fixpoint render_rest (l : list (str * wtag)) : str :=
  match l with
  | [] => []
  | (sep, wt) :: l' => sep ++ render_tag wt ++ render_rest l'
  end.

(* lead tag1 sep2 tag2 ... sepn tagn trail *)
Definition render (lead : str) (first : wtag) (rest : list (str * wtag)) (trail : str) : str :=
  lead ++ render_tag first ++ render_rest rest ++ trail.

Definition tags_of (first : wtag) (rest : list (str * wtag)) : list wtag := first :: map snd rest.

Definition wf_list (lead : str) (first : wtag) (rest : list (str * wtag)) (trail : str) : Prop :=
  filler lead /\ filler trail /\
  Forall (fun p => separator (fst p)) rest /\
  Forall (fun wt => tag_ok (snd wt)) (tags_of first rest).

(* the tags a list offers to each header: weak comparison for If-None-Match, strong for If-Match *)
Definition all_tags (l : list wtag) : list str := map snd l.
Definition strong_tags (l : list wtag) : list str := map snd (filter (fun wt => negb (fst wt)) l).
