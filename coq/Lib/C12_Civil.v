(* C12 helper library (owned by C12): proleptic-Gregorian day arithmetic, the way datetime.date.toordinal /
   calendar.timegm / datetime.fromtimestamp compute it (algorithms after H. Hinnant, "chrono-compatible
   low-level date algorithms").  Day 0 is 1970-01-01.  Definitions only; proofs in Proofs/C12_civil.v.
   Tied to CPython by the `timegm` / `fromtimestamp` correspondences of harness/props/c12.py. *)
From Coq Require Import ZArith List Bool.
Import ListNotations.
Local Open Scope Z_scope.

(* March-based month index 0..11 and back *)
Definition mp_of_month (m : Z) : Z := if m >? 2 then m - 3 else m + 9.
Definition month_of_mp (mp : Z) : Z := if mp <? 10 then mp + 3 else mp - 9.

(* day of era [0, 146096] from year-of-era [0, 399], month, day *)
Definition doe_of (yoe m d : Z) : Z :=
  let doy := (153 * mp_of_month m + 2) / 5 + d - 1 in
  yoe * 365 + yoe / 4 - yoe / 100 + doy.

Definition days_from_civil (y m d : Z) : Z :=
  let ys := if m <=? 2 then y - 1 else y in
  let era := ys / 400 in
  let yoe := ys mod 400 in
  era * 146097 + doe_of yoe m d - 719468.

(* year-of-era, month, day from the day of era *)
Definition yoe_of (doe : Z) : Z := (doe - doe / 1460 + doe / 36524 - doe / 146096) / 365.
Definition doy_of (doe : Z) : Z := let yoe := yoe_of doe in doe - (365 * yoe + yoe / 4 - yoe / 100).
Definition m_of (doe : Z) : Z := month_of_mp ((5 * doy_of doe + 2) / 153).
Definition d_of (doe : Z) : Z := let doy := doy_of doe in doy - (153 * ((5 * doy + 2) / 153) + 2) / 5 + 1.

Definition civil_from_days (z : Z) : Z * Z * Z :=
  let z' := z + 719468 in
  let era := z' / 146097 in
  let doe := z' mod 146097 in
  let m := m_of doe in
  (yoe_of doe + era * 400 + (if m <=? 2 then 1 else 0), m, d_of doe).

Definition is_leap (y : Z) : bool := ((y mod 4 =? 0) && negb (y mod 100 =? 0)) || (y mod 400 =? 0).
Definition days_in_month (y m : Z) : Z :=
  if m =? 2 then (if is_leap y then 29 else 28)
  else if (m =? 4) || (m =? 6) || (m =? 9) || (m =? 11) then 30 else 31.
Definition valid_date (y m d : Z) : bool :=
  (1 <=? m) && (m <=? 12) && (1 <=? d) && (d <=? days_in_month y m).

(* 0 = Monday ... 6 = Sunday, as datetime.weekday() *)
Definition weekday_of_days (z : Z) : Z := (z + 3) mod 7.
