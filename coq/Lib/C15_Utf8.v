(* C15 — UTF-8 as CPython implements it (strict).  Executable definitions only, used to RUN the C15 models in the
   correspondence check; the C15 theorems are stated for any codec pair satisfying the decode-after-encode law (a
   Section hypothesis), so nothing is proved about these definitions here.  Same definitions as Lib/C07_Utf8.v and
   Lib/C09_Utf8.v, copied so that C15 owns what it depends on. *)
From Coq Require Import NArith List Bool.
Require Import Webob.Lib.Val.
Import ListNotations.
Local Open Scope N_scope.

(* Unicode scalar value: what a Python str holds when it is "text" (no lone surrogates) *)
Definition is_scalar (c : N) : bool := (c <? 55296) || ((57343 <? c) && (c <? 1114112)).
Definition valid_text (s : str) : bool := forallb is_scalar s.

(* str.encode('utf-8') of one scalar value (garbage outside the scalar values, where CPython raises
   UnicodeEncodeError; every theorem and every generated input stays inside them) *)
Definition utf8_enc_char (c : N) : list N :=
  if c <? 128 then [c]
  else if c <? 2048 then [192 + c / 64; 128 + c mod 64]
  else if c <? 65536 then [224 + c / 4096; 128 + (c / 64) mod 64; 128 + c mod 64]
  else [240 + c / 262144; 128 + (c / 4096) mod 64; 128 + (c / 64) mod 64; 128 + c mod 64].
Definition utf8_encode_raw (s : str) : list N := flat_map utf8_enc_char s.
Definition utf8_encode (s : str) : option (list N) :=
  if valid_text s then Some (utf8_encode_raw s) else None.

Definition cont (b : N) : bool := (128 <=? b) && (b <=? 191).

(* bytes.decode('utf-8'), errors='strict': None = UnicodeDecodeError *)
Fixpoint utf8_decode (b : list N) : option str :=
  match b with
  | [] => Some []
  | b0 :: r =>
      if b0 <? 128 then option_map (cons b0) (utf8_decode r)
      else if (194 <=? b0) && (b0 <=? 223) then
        match r with
        | b1 :: r1 =>
            if cont b1 then option_map (cons ((b0 - 192) * 64 + (b1 - 128))) (utf8_decode r1) else None
        | _ => None
        end
      else if (224 <=? b0) && (b0 <=? 239) then
        match r with
        | b1 :: b2 :: r2 =>
            if cont b1 && cont b2
               && (negb (b0 =? 224) || (160 <=? b1))       (* overlong *)
               && (negb (b0 =? 237) || (b1 <=? 159))       (* surrogates *)
            then option_map (cons ((b0 - 224) * 4096 + (b1 - 128) * 64 + (b2 - 128))) (utf8_decode r2)
            else None
        | _ => None
        end
      else if (240 <=? b0) && (b0 <=? 244) then
        match r with
        | b1 :: b2 :: b3 :: r3 =>
            if cont b1 && cont b2 && cont b3
               && (negb (b0 =? 240) || (144 <=? b1))       (* overlong *)
               && (negb (b0 =? 244) || (b1 <=? 143))       (* > U+10FFFF *)
            then option_map (cons ((b0 - 240) * 262144 + (b1 - 128) * 4096 + (b2 - 128) * 64 + (b3 - 128)))
                            (utf8_decode r3)
            else None
        | _ => None
        end
      else None
  end.

(* bytes.decode('latin-1') is the identity on octets; str.encode('latin-1') fails above U+00FF *)
Definition is_octet (c : N) : bool := c <? 256.
