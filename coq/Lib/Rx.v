From Coq Require Import NArith List Bool Lia ZifyBool ZifyN.
Import ListNotations.
Local Open Scope N_scope.

Require Import Webob.Lib.Val.

(* character class: negation flag + inclusive ranges *)
Definition ranges := list (N * N).
Fixpoint in_ranges (rs : ranges) (c : N) : bool :=
  match rs with
  | [] => false
  | (lo, hi) :: rs' => ((lo <=? c) && (c <=? hi)) || in_ranges rs' c
  end.
Definition cmem (neg : bool) (rs : ranges) (c : N) : bool := xorb neg (in_ranges rs c).

Inductive rx :=
| Emp | Eps
| Cls (neg : bool) (rs : ranges)
| Cat (a b : rx) | Alt (a b : rx) | Star (a : rx).

Inductive matches : rx -> str -> Prop :=
| MEps : matches Eps []
| MCls neg rs c : cmem neg rs c = true -> matches (Cls neg rs) [c]
| MCat a b w1 w2 : matches a w1 -> matches b w2 -> matches (Cat a b) (w1 ++ w2)
| MAltL a b w : matches a w -> matches (Alt a b) w
| MAltR a b w : matches b w -> matches (Alt a b) w
| MStar0 a : matches (Star a) []
| MStarS a w1 w2 : matches a w1 -> matches (Star a) w2 -> matches (Star a) (w1 ++ w2).

Fixpoint nu (r : rx) : bool :=
  match r with
  | Emp => false | Eps => true | Cls _ _ => false
  | Cat a b => nu a && nu b | Alt a b => nu a || nu b | Star _ => true
  end.

Fixpoint der (c : N) (r : rx) : rx :=
  match r with
  | Emp | Eps => Emp
  | Cls neg rs => if cmem neg rs c then Eps else Emp
  | Cat a b => if nu a then Alt (Cat (der c a) b) (der c b) else Cat (der c a) b
  | Alt a b => Alt (der c a) (der c b)
  | Star a => Cat (der c a) (Star a)
  end.

Lemma inv_emp w : matches Emp w -> False. Proof. intros H; inversion H. Qed.
Lemma inv_eps w : matches Eps w -> w = []. Proof. intros H; inversion H; reflexivity. Qed.
Lemma inv_cls neg rs w : matches (Cls neg rs) w -> exists c, w = [c] /\ cmem neg rs c = true.
Proof. intros H; inversion H; subst; eauto. Qed.
Lemma inv_cat a b w : matches (Cat a b) w -> exists w1 w2, w = w1 ++ w2 /\ matches a w1 /\ matches b w2.
Proof. intros H; inversion H; subst; eauto. Qed.
Lemma inv_alt a b w : matches (Alt a b) w -> matches a w \/ matches b w.
Proof. intros H; inversion H; subst; auto. Qed.

Lemma nu_correct r : nu r = true <-> matches r [].
Proof.
  induction r; cbn; split; intros H.
  - discriminate.
  - apply inv_emp in H; contradiction.
  - constructor.
  - reflexivity.
  - discriminate.
  - apply inv_cls in H as (c & Hc & _); discriminate.
  - apply andb_true_iff in H as [Ha Hb]. change (@nil N) with (@nil N ++ []).
    constructor; [apply IHr1 | apply IHr2]; assumption.
  - apply inv_cat in H as (w1 & w2 & Heq & H1 & H2). symmetry in Heq.
    apply app_eq_nil in Heq as [-> ->]. apply andb_true_iff; split; [apply IHr1|apply IHr2]; assumption.
  - apply orb_true_iff in H as [Ha|Hb]; [apply MAltL, IHr1 | apply MAltR, IHr2]; assumption.
  - apply orb_true_iff. apply inv_alt in H as [H|H]; [left; apply IHr1 | right; apply IHr2]; assumption.
  - constructor.
  - reflexivity.
Qed.

Lemma star_cons a c w : matches (Star a) (c :: w) ->
  exists w1 w2, w = w1 ++ w2 /\ matches a (c :: w1) /\ matches (Star a) w2.
Proof.
  intros H. remember (Star a) as r eqn:Hr. remember (c :: w) as s eqn:Hs.
  revert c w Hs. induction H as [| | | | | |a0 w1 w2 H1 IH1 H2 IH2]; intros c0 w0 Hs; try discriminate.
  injection Hr as ->. destruct w1 as [|x w1'].
  - cbn in Hs. apply IH2; auto.
  - cbn in Hs. injection Hs as -> <-. exists w1', w2. auto.
Qed.

Lemma cat_cons a b c w1 w2 : matches a (c :: w1) -> matches b w2 -> matches (Cat a b) (c :: w1 ++ w2).
Proof. intros; change (c :: w1 ++ w2) with ((c :: w1) ++ w2); constructor; assumption. Qed.

Lemma der_correct r : forall c w, matches (der c r) w <-> matches r (c :: w).
Proof.
  induction r; intros c w; cbn.
  - split; intros H; apply inv_emp in H; contradiction.
  - split; intros H; [apply inv_emp in H; contradiction | apply inv_eps in H; discriminate].
  - destruct (cmem neg rs c) eqn:E; split; intros H.
    + apply inv_eps in H as ->. constructor; assumption.
    + apply inv_cls in H as (c' & Hc & _). injection Hc as _ ->. constructor.
    + apply inv_emp in H; contradiction.
    + apply inv_cls in H as (c' & Hc & Hm). injection Hc as -> _. congruence.
  - split.
    + intros H. assert (matches (Cat (der c r1) r2) w \/ (nu r1 = true /\ matches (der c r2) w)) as [H1|[Hn H2]].
      { destruct (nu r1); [apply inv_alt in H as [H|H]|]; auto. }
      * apply inv_cat in H1 as (w1 & w2 & -> & Ha & Hb). apply cat_cons; [apply IHr1|]; assumption.
      * change (c :: w) with ([] ++ c :: w). constructor; [apply nu_correct; assumption | apply IHr2; assumption].
    + intros H. apply inv_cat in H as (w1 & w2 & Heq & H1 & H2).
      destruct w1 as [|x w1'].
      * cbn in Heq. subst w2. assert (nu r1 = true) as -> by (apply nu_correct; assumption).
        apply MAltR, IHr2; assumption.
      * cbn in Heq. injection Heq as <- ->.
        assert (matches (Cat (der c r1) r2) (w1' ++ w2)) by (constructor; [apply IHr1|]; assumption).
        destruct (nu r1); [apply MAltL|]; assumption.
  - split; intros H; apply inv_alt in H as [H|H].
    + apply MAltL, IHr1; assumption.
    + apply MAltR, IHr2; assumption.
    + apply MAltL, IHr1; assumption.
    + apply MAltR, IHr2; assumption.
  - split; intros H.
    + apply inv_cat in H as (w1 & w2 & -> & Ha & Hb). change (c :: w1 ++ w2) with ((c :: w1) ++ w2). constructor; [apply IHr|]; assumption.
    + apply star_cons in H as (w1 & w2 & -> & H1 & H2). constructor; [apply IHr|]; assumption.
Qed.

Definition rmatch (r : rx) (w : str) : bool := nu (fold_left (fun r c => der c r) w r).
Theorem rmatch_correct : forall w r, rmatch r w = true <-> matches r w.
Proof.
  induction w as [|c w IH]; intros r; unfold rmatch in *; cbn.
  - apply nu_correct.
  - rewrite IH. apply der_correct.
Qed.
