(* Untrusted search for a shortest word distinguishing two regular expressions (used only to turn
   a broken language-equality obligation into a concrete failing input; nothing is proved about it,
   its answer is re-checked with [rmatch] on both sides and on the real implementation). *)
From Coq Require Import NArith List Bool.
Require Import Webob.Lib.Val Webob.Lib.Rx Webob.Lib.RxEquiv.
Import ListNotations.
Local Open Scope N_scope.

Definition wpairs := list (rx * rx * list N).   (* word kept reversed *)

Fixpoint bfs (fuel : nat) (reps : list N) (todo : wpairs) (seen : pairs) : option (list N) :=
  match fuel with
  | O => None
  | S f =>
      match todo with
      | [] => None
      | (a, b, w) :: t =>
          if negb (Bool.eqb (nu a) (nu b)) then Some (rev w)
          else if mem_pair (a, b) seen then bfs f reps t seen
          else bfs f reps (t ++ map (fun c => (nder c a, nder c b, c :: w)) reps) ((a, b) :: seen)
      end
  end.

Definition find_diff (fuel : nat) (excl : ranges) (a b : rx) : option (list N) :=
  let reps := filter (fun c => negb (in_ranges excl c)) (mk_reps excl a b) in
  bfs fuel reps [(a, b, [])] [].

Definition diff_report (fuel : nat) (excl : ranges) (a b : rx) : option (list N * bool * bool) :=
  match find_diff fuel excl a b with
  | Some w => Some (w, rmatch a w, rmatch b w)
  | None => None
  end.
