(* Universal observation values exchanged between the Python implementation
   harness and the Gallina models (correspondence checks).  Executable only. *)
From Coq Require Import ZArith NArith List Bool String Ascii.
Import ListNotations.

Definition str := list N.   (* code points; octets are < 256 *)

Inductive val :=
| VInt (z : Z)
| VStr (s : str)
| VBool (b : bool)
| VNone
| VErr (tag : str)          (* exception class, canonicalised by the harness *)
| VList (l : list val).

Fixpoint str_eqb (a b : str) : bool :=
  match a, b with
  | [], [] => true
  | x :: a', y :: b' => N.eqb x y && str_eqb a' b'
  | _, _ => false
  end.

Fixpoint val_eqb (a b : val) {struct a} : bool :=
  match a, b with
  | VInt x, VInt y => Z.eqb x y
  | VStr x, VStr y => str_eqb x y
  | VBool x, VBool y => Bool.eqb x y
  | VNone, VNone => true
  | VErr x, VErr y => str_eqb x y
  | VList x, VList y =>
      (fix go (x y : list val) {struct x} : bool :=
         match x, y with
         | [], [] => true
         | u :: x', v :: y' => val_eqb u v && go x' y'
         | _, _ => false
         end) x y
  | _, _ => false
  end.

(* hex string literals -> str, so that case files stay small and parse fast *)
Definition hexdig (a : ascii) : N :=
  let n := N_of_ascii a in
  if (48 <=? n)%N && (n <=? 57)%N then (n - 48)%N
  else if (97 <=? n)%N && (n <=? 102)%N then (n - 87)%N
  else 0%N.

Fixpoint unhex (s : string) : str :=
  match s with
  | String a (String b rest) => (hexdig a * 16 + hexdig b)%N :: unhex rest
  | _ => []
  end.

(* six hex digits per code point, for text beyond latin-1 *)
Fixpoint unhex6 (s : string) : str :=
  match s with
  | String a (String b (String c (String d (String e (String f rest))))) =>
      (((((hexdig a * 16 + hexdig b) * 16 + hexdig c) * 16 + hexdig d) * 16 + hexdig e) * 16 + hexdig f)%N
        :: unhex6 rest
  | _ => []
  end.

Definition H (s : string) : str := unhex s.
Definition W (s : string) : str := unhex6 s.
Definition S_ (s : string) : val := VStr (unhex s).
Definition E_ (s : string) : val := VErr (unhex s).

(* indices (from 0) of the cases on which [f] disagrees with the recorded
   implementation output *)
Fixpoint mismatches {A} (f : A -> val) (cases : list (A * val)) (i : nat) : list nat :=
  match cases with
  | [] => []
  | (x, o) :: rest =>
      if val_eqb (f x) o then mismatches f rest (S i) else i :: mismatches f rest (S i)
  end.
