(* Python str/bytes methods used by webob, as total executable functions over
   code-point lists.  Definitions only; lemmas live in Proofs/.  Every function
   here is tied to CPython by the `pystr` correspondence (harness/props/lib.py). *)
From Coq Require Import NArith List Bool.
Require Import Webob.Lib.Val.
Import ListNotations.
Local Open Scope N_scope.

(* str.lower restricted to code points < 256 (WSGI native strings are latin-1);
   identity above, which is a stated domain restriction. *)
Definition lower_c (c : N) : N :=
  if (65 <=? c) && (c <=? 90) then c + 32
  else if (192 <=? c) && (c <=? 222) && negb (c =? 215) then c + 32
  else c.
Definition lower (s : str) : str := map lower_c s.

Definition upper_c (c : N) : N :=
  if (97 <=? c) && (c <=? 122) then c - 32 else c.   (* ASCII only: used on ASCII tokens *)

Fixpoint starts_with (p s : str) : bool :=
  match p, s with
  | [], _ => true
  | x :: p', y :: s' => (x =? y) && starts_with p' s'
  | _ :: _, [] => false
  end.

Definition ends_with (p s : str) : bool := starts_with (rev p) (rev s).

Fixpoint drop_while (f : N -> bool) (s : str) : str :=
  match s with
  | [] => []
  | c :: s' => if f c then drop_while f s' else s
  end.
Definition lstrip_by (f : N -> bool) (s : str) : str := drop_while f s.
Definition rstrip_by (f : N -> bool) (s : str) : str := rev (drop_while f (rev s)).
Definition strip_by (f : N -> bool) (s : str) : str := rstrip_by f (lstrip_by f s).

(* str.isspace for code points < 256 (str): \t\n\v\f\r, FS GS RS US, SP, NEL, NBSP *)
Definition is_space_str (c : N) : bool :=
  ((9 <=? c) && (c <=? 13)) || ((28 <=? c) && (c <=? 32)) || (c =? 133) || (c =? 160).
(* bytes.isspace / default strip for bytes *)
Definition is_space_bytes (c : N) : bool :=
  ((9 <=? c) && (c <=? 13)) || (c =? 32).

Fixpoint mem_n (c : N) (l : list N) : bool :=
  match l with [] => false | x :: l' => (x =? c) || mem_n c l' end.

(* s.split(sep) for a one-character separator: always at least one field *)
Fixpoint split_c (sep : N) (s : str) : list str :=
  match s with
  | [] => [[]]
  | c :: s' =>
      if c =? sep then [] :: split_c sep s'
      else match split_c sep s' with
           | [] => [[c]]          (* unreachable *)
           | f :: fs => (c :: f) :: fs
           end
  end.

Fixpoint join (sep : str) (l : list str) : str :=
  match l with
  | [] => []
  | [x] => x
  | x :: l' => x ++ sep ++ join sep l'
  end.

Fixpoint index_of (c : N) (s : str) : option nat :=
  match s with
  | [] => None
  | x :: s' => if x =? c then Some 0%nat else option_map S (index_of c s')
  end.

(* s.partition(c) for a one-character separator *)
Fixpoint partition_c (sep : N) (s : str) : str * bool * str :=
  match s with
  | [] => ([], false, [])
  | c :: s' =>
      if c =? sep then ([], true, s')
      else let '(a, f, b) := partition_c sep s' in (c :: a, f, b)
  end.

Fixpoint replace_c (a : N) (b : str) (s : str) : str :=
  match s with
  | [] => []
  | c :: s' => if c =? a then b ++ replace_c a b s' else c :: replace_c a b s'
  end.
