From Coq Require Import NArith List Bool Lia ZifyBool ZifyN.
Require Import Webob.Lib.Val Webob.Lib.Rx.
Import ListNotations.
Local Open Scope N_scope.

(* ---------- decidable syntactic equality ---------- *)
Definition rx_eq_dec : forall a b : rx, {a = b} + {a <> b}.
Proof.
  decide equality.
  - apply (list_eq_dec (fun p q : N * N => ltac:(decide equality; apply N.eq_dec))).
  - apply Bool.bool_dec.
Defined.
Definition rx_eqb a b : bool := if rx_eq_dec a b then true else false.
Lemma rx_eqb_eq a b : rx_eqb a b = true -> a = b.
Proof. unfold rx_eqb; destruct (rx_eq_dec a b); [auto|discriminate]. Qed.

(* an arbitrary total preorder used only to make normal forms converge; no lemma needed *)
Fixpoint rx_size (r : rx) : nat :=
  match r with Emp | Eps => 1%nat | Cls _ rs => S (length rs)
  | Cat a b | Alt a b => S (rx_size a + rx_size b) | Star a => S (rx_size a) end.
Fixpoint rx_cmp (a b : rx) : comparison :=
  match a, b with
  | Emp, Emp => Eq | Emp, _ => Lt | _, Emp => Gt
  | Eps, Eps => Eq | Eps, _ => Lt | _, Eps => Gt
  | Cls n1 r1, Cls n2 r2 =>
      match Bool.compare n1 n2 with Eq =>
        (fix go (x y : ranges) : comparison :=
           match x, y with [], [] => Eq | [], _ => Lt | _, [] => Gt
           | (a1,b1)::x', (a2,b2)::y' =>
               match N.compare a1 a2 with Eq => match N.compare b1 b2 with Eq => go x' y' | c => c end | c => c end end) r1 r2
      | c => c end
  | Cls _ _, _ => Lt | _, Cls _ _ => Gt
  | Cat a1 b1, Cat a2 b2 => match rx_cmp a1 a2 with Eq => rx_cmp b1 b2 | c => c end
  | Cat _ _, _ => Lt | _, Cat _ _ => Gt
  | Alt a1 b1, Alt a2 b2 => match rx_cmp a1 a2 with Eq => rx_cmp b1 b2 | c => c end
  | Alt _ _, _ => Lt | _, Alt _ _ => Gt
  | Star a1, Star a2 => rx_cmp a1 a2
  end.

(* ---------- smart constructors ---------- *)
Fixpoint alts (r : rx) : list rx :=
  match r with Alt a b => alts a ++ alts b | Emp => [] | _ => [r] end.
Fixpoint insert (x : rx) (l : list rx) : list rx :=
  match l with
  | [] => [x]
  | y :: t => if rx_eqb x y then l
              else match rx_cmp x y with Gt => y :: insert x t | _ => x :: l end
  end.
Fixpoint build (l : list rx) : rx :=
  match l with [] => Emp | [x] => x | x :: t => Alt x (build t) end.
Definition mkAlt a b := build (fold_right insert [] (alts a ++ alts b)).

Fixpoint mkCat (a b : rx) : rx :=
  match a with
  | Emp => Emp
  | Eps => b
  | Cat x y => match b with Emp => Emp | _ => Cat x (mkCat y b) end
  | _ => match b with Emp => Emp | Eps => a | _ => Cat a b end
  end.

Definition lang_eq (a b : rx) := forall w, matches a w <-> matches b w.

Lemma alts_lang r w : matches r w <-> exists r', In r' (alts r) /\ matches r' w.
Proof.
  induction r; cbn.
  - split; [intros H; apply inv_emp in H; contradiction | intros (r' & [] & _)].
  - split; [intros H; exists Eps; auto | intros (r' & [<-|[]] & H); auto].
  - split; [intros H; eexists; eauto | intros (r' & [<-|[]] & H); auto].
  - split; [intros H; eexists; eauto | intros (r' & [<-|[]] & H); auto].
  - split.
    + intros H. apply inv_alt in H as [H|H]; [apply IHr1 in H|apply IHr2 in H];
        destruct H as (r' & Hin & Hm); exists r'; split; auto; apply in_or_app; auto.
    + intros (r' & Hin & Hm). apply in_app_or in Hin as [Hin|Hin];
        [apply MAltL, IHr1 | apply MAltR, IHr2]; eauto.
  - split; [intros H; eexists; eauto | intros (r' & [<-|[]] & H); auto].
Qed.

Lemma insert_in x l r : In r (insert x l) <-> r = x \/ In r l.
Proof.
  induction l as [|y t IH]; cbn.
  - intuition.
  - destruct (rx_eqb x y) eqn:E.
    + apply rx_eqb_eq in E as ->. cbn. intuition.
    + destruct (rx_cmp x y); cbn; rewrite ?IH; intuition.
Qed.

Lemma sort_in l r : In r (fold_right insert [] l) <-> In r l.
Proof. induction l as [|x t IH]; cbn; [tauto|]. rewrite insert_in, IH. intuition. Qed.

Lemma build_lang l w : matches (build l) w <-> exists r, In r l /\ matches r w.
Proof.
  induction l as [|x t IH]; cbn.
  - split; [intros H; apply inv_emp in H; contradiction | intros (r & [] & _)].
  - destruct t as [|y t'].
    + split; [intros H; exists x; cbn; auto | intros (r & [<-|[]] & H); auto].
    + split.
      * intros H. apply inv_alt in H as [H|H]; [exists x; cbn; auto|].
        apply IH in H as (r & Hin & Hm). exists r; split; [right; exact Hin | exact Hm].
      * intros (r & [<-|Hin] & Hm); [apply MAltL; auto | apply MAltR, IH; eauto].
Qed.

Lemma mkAlt_lang a b : lang_eq (mkAlt a b) (Alt a b).
Proof.
  intros w. unfold mkAlt. rewrite build_lang. split.
  - intros (r & Hin & Hm). apply (proj1 (sort_in _ _)) in Hin. apply in_app_or in Hin as [Hin|Hin];
      [apply MAltL|apply MAltR]; apply alts_lang; eauto.
  - intros H. apply inv_alt in H as [H|H]; apply alts_lang in H as (r & Hin & Hm);
      exists r; split; auto; apply (proj2 (sort_in _ _)), in_or_app; auto.
Qed.

Lemma cat_eps_r a w : matches (Cat a Eps) w <-> matches a w.
Proof.
  split; intros H.
  - apply inv_cat in H as (w1 & w2 & -> & H1 & H2). apply inv_eps in H2 as ->. rewrite app_nil_r; auto.
  - rewrite <- (app_nil_r w). constructor; [auto|constructor].
Qed.
Lemma cat_emp_r a w : matches (Cat a Emp) w <-> False.
Proof. split; [intros H; apply inv_cat in H as (? & ? & _ & _ & H); apply inv_emp in H; auto | tauto]. Qed.
Lemma cat_assoc x y b w : matches (Cat (Cat x y) b) w <-> matches (Cat x (Cat y b)) w.
Proof.
  split; intros H.
  - apply inv_cat in H as (w12 & w3 & -> & H12 & H3). apply inv_cat in H12 as (w1 & w2 & -> & H1 & H2).
    rewrite <- app_assoc. constructor; [auto|constructor; auto].
  - apply inv_cat in H as (w1 & w23 & -> & H1 & H23). apply inv_cat in H23 as (w2 & w3 & -> & H2 & H3).
    rewrite app_assoc. constructor; [constructor; auto|auto].
Qed.
Lemma cat_congr_r x y y' : lang_eq y y' -> lang_eq (Cat x y) (Cat x y').
Proof.
  intros E w; split; intros H; apply inv_cat in H as (w1 & w2 & -> & H1 & H2); constructor; auto; apply E; auto.
Qed.

Lemma mkCat_lang a : forall b, lang_eq (mkCat a b) (Cat a b).
Proof.
  induction a; intros b w; cbn [mkCat].
  - split; intros H; [apply inv_emp in H; contradiction | apply inv_cat in H as (? & ? & _ & H & _); apply inv_emp in H; contradiction].
  - split; intros H.
    + change w with ([] ++ w). constructor; [constructor|auto].
    + apply inv_cat in H as (w1 & w2 & -> & H1 & H2). apply inv_eps in H1 as ->. auto.
  - destruct b; try reflexivity; [rewrite cat_emp_r; split; [intros H; apply inv_emp in H|]; tauto | rewrite cat_eps_r; tauto].
  - rewrite cat_assoc. destruct b.
    + split; [intros H; apply inv_emp in H; contradiction|].
      intros H. apply inv_cat in H as (? & ? & _ & _ & H). apply inv_cat in H as (? & ? & _ & _ & H). apply inv_emp in H; contradiction.
    + apply cat_congr_r; apply IHa2. + apply cat_congr_r; apply IHa2. + apply cat_congr_r; apply IHa2.
    + apply cat_congr_r; apply IHa2. + apply cat_congr_r; apply IHa2.
  - destruct b; try reflexivity; [rewrite cat_emp_r; split; [intros H; apply inv_emp in H|]; tauto | rewrite cat_eps_r; tauto].
  - destruct b; try reflexivity; [rewrite cat_emp_r; split; [intros H; apply inv_emp in H|]; tauto | rewrite cat_eps_r; tauto].
Qed.

(* ---------- normalising derivative ---------- *)
Fixpoint nder (c : N) (r : rx) : rx :=
  match r with
  | Emp | Eps => Emp
  | Cls neg rs => if cmem neg rs c then Eps else Emp
  | Cat a b => if nu a then mkAlt (mkCat (nder c a) b) (nder c b) else mkCat (nder c a) b
  | Alt a b => mkAlt (nder c a) (nder c b)
  | Star a => mkCat (nder c a) (Star a)
  end.

Lemma cat_congr_l x x' y : lang_eq x x' -> lang_eq (Cat x y) (Cat x' y).
Proof. intros E w; split; intros H; apply inv_cat in H as (w1 & w2 & -> & H1 & H2); constructor; auto; apply E; auto. Qed.
Lemma alt_congr a a' b b' : lang_eq a a' -> lang_eq b b' -> lang_eq (Alt a b) (Alt a' b').
Proof. intros Ea Eb w; split; intros H; apply inv_alt in H as [H|H]; [apply MAltL, Ea|apply MAltR, Eb|apply MAltL, Ea|apply MAltR, Eb]; auto. Qed.

Lemma lang_trans a b c : lang_eq a b -> lang_eq b c -> lang_eq a c.
Proof. intros H1 H2 w; rewrite (H1 w); apply H2. Qed.
Lemma lang_refl a : lang_eq a a. Proof. intros w; tauto. Qed.

Lemma nder_lang c r : lang_eq (nder c r) (der c r).
Proof.
  induction r; cbn [nder der]; try apply lang_refl.
  - destruct (nu r1).
    + eapply lang_trans; [apply mkAlt_lang|]. apply alt_congr; [|exact IHr2].
      eapply lang_trans; [apply mkCat_lang|]. apply cat_congr_l; exact IHr1.
    + eapply lang_trans; [apply mkCat_lang|]. apply cat_congr_l; exact IHr1.
  - eapply lang_trans; [apply mkAlt_lang|]. apply alt_congr; assumption.
  - eapply lang_trans; [apply mkCat_lang|]. apply cat_congr_l; exact IHr.
Qed.

(* ---------- symbolic alphabet ---------- *)
Fixpoint bounds (rs : ranges) : list N :=
  match rs with [] => [] | (lo, hi) :: t => lo :: (hi + 1) :: bounds t end.
Fixpoint rx_bounds (r : rx) : list N :=
  match r with
  | Emp | Eps => [] | Cls _ rs => bounds rs
  | Cat a b | Alt a b => rx_bounds a ++ rx_bounds b | Star a => rx_bounds a end.

(* representative of c: the largest element of reps that is <= c (0 if none) *)
Fixpoint rep_of (reps : list N) (c : N) : N :=
  match reps with
  | [] => 0
  | x :: t => let acc := rep_of t c in if (x <=? c) && (acc <=? x) then x else acc
  end.

Lemma rep_of_le reps c : rep_of reps c <= c.
Proof. induction reps as [|x t IH]; cbn; [lia|]. destruct ((x <=? c) && (rep_of t c <=? x)) eqn:E; lia. Qed.
Lemma rep_of_max reps c x : In x reps -> x <= c -> x <= rep_of reps c.
Proof.
  induction reps as [|y t IH]; cbn; [tauto|]. intros [->|Hin] Hle.
  - destruct ((x <=? c) && (rep_of t c <=? x)) eqn:E; lia.
  - specialize (IH Hin Hle). destruct ((y <=? c) && (rep_of t c <=? y)) eqn:E; lia.
Qed.
Lemma rep_of_in reps c : rep_of reps c = 0 \/ In (rep_of reps c) reps.
Proof.
  induction reps as [|y t IH]; cbn; [auto|].
  destruct ((y <=? c) && (rep_of t c <=? y)); [right; auto | destruct IH; auto].
Qed.

Lemma in_ranges_rep reps rs c : incl (bounds rs) reps -> in_ranges rs (rep_of reps c) = in_ranges rs c.
Proof.
  induction rs as [|[lo hi] t IH]; cbn; [reflexivity|]. intros Hincl.
  assert (In lo reps) as Hlo by (apply Hincl; cbn; auto).
  assert (In (hi + 1) reps) as Hhi by (apply Hincl; cbn; auto).
  rewrite IH by (intros x Hx; apply Hincl; cbn; auto).
  f_equal.
  pose proof (rep_of_le reps c). pose proof (rep_of_max reps c lo Hlo). pose proof (rep_of_max reps c (hi+1) Hhi).
  lia.
Qed.

Lemma nder_rep reps r c : incl (rx_bounds r) reps -> nder (rep_of reps c) r = nder c r.
Proof.
  induction r; cbn; intros Hincl; try reflexivity.
  - unfold cmem. rewrite in_ranges_rep by assumption. reflexivity.
  - rewrite IHr1, IHr2 by (intros x Hx; apply Hincl, in_or_app; auto). reflexivity.
  - rewrite IHr1, IHr2 by (intros x Hx; apply Hincl, in_or_app; auto). reflexivity.
  - rewrite IHr by assumption. reflexivity.
Qed.

(* ---------- certificate checking ---------- *)
Definition pairs := list (rx * rx).
Definition mem_pair (p : rx * rx) (R : pairs) : bool :=
  existsb (fun q => rx_eqb (fst p) (fst q) && rx_eqb (snd p) (snd q)) R.
Lemma mem_pair_in p R : mem_pair p R = true -> In p R.
Proof.
  unfold mem_pair. rewrite existsb_exists. intros ([a b] & Hin & H). apply andb_true_iff in H as [H1 H2].
  apply rx_eqb_eq in H1, H2. cbn in *. destruct p; cbn in *; subst; auto.
Qed.
Definition inclb (l reps : list N) : bool := forallb (fun x => existsb (N.eqb x) reps) l.
Lemma inclb_incl l reps : inclb l reps = true -> incl l reps.
Proof.
  unfold inclb. rewrite forallb_forall. intros H x Hx. specialize (H x Hx).
  apply existsb_exists in H as (y & Hy & E). apply N.eqb_eq in E as ->. auto.
Qed.

(* excl: characters outside the theorem's domain (e.g. LF) *)
Definition closed (excl : ranges) (reps : list N) (R : pairs) : bool :=
  inclb (bounds excl) reps &&
  forallb (fun p : rx * rx => let (a, b) := p in
     Bool.eqb (nu a) (nu b) && inclb (rx_bounds a) reps && inclb (rx_bounds b) reps &&
     forallb (fun c => in_ranges excl c || mem_pair (nder c a, nder c b) R) (0 :: reps)) R.

Theorem closed_sound excl reps R :
  closed excl reps R = true ->
  forall w, Forall (fun c => in_ranges excl c = false) w ->
  forall a b, In (a, b) R -> (matches a w <-> matches b w).
Proof.
  unfold closed. intros H. apply andb_true_iff in H as [Hex HR]. apply inclb_incl in Hex.
  rewrite forallb_forall in HR.
  induction w as [|c w IH]; intros Hw a b Hin.
  - specialize (HR _ Hin). cbv beta iota in HR. repeat (apply andb_true_iff in HR as [HR ?]).
    apply Bool.eqb_prop in HR. rewrite <- !nu_correct, HR. tauto.
  - inversion Hw as [|? ? Hc Hw']; subst.
    pose proof (HR _ Hin) as HP. cbv beta iota in HP.
    apply andb_true_iff in HP as [HP Hall]. apply andb_true_iff in HP as [HP Hb]. apply andb_true_iff in HP as [_ Ha].
    apply inclb_incl in Ha, Hb. rewrite forallb_forall in Hall.
    set (c' := rep_of reps c).
    assert (In c' (0 :: reps)) as Hc' by (destruct (rep_of_in reps c) as [E|E]; [left; symmetry; exact E | right; exact E]).
    specialize (Hall c' Hc').
    assert (in_ranges excl c' = false) as Hex' by (unfold c'; rewrite in_ranges_rep; assumption).
    rewrite Hex' in Hall. cbn in Hall. apply mem_pair_in in Hall.
    unfold c' in Hall. rewrite !nder_rep in Hall by assumption.
    rewrite <- !der_correct. rewrite <- (nder_lang c a w), <- (nder_lang c b w). apply IH; assumption.
Qed.

(* ---------- search (untrusted for soundness: only closed is) ---------- *)
Fixpoint add_new (ps : pairs) (seen acc : pairs) : pairs :=
  match ps with
  | [] => acc
  | p :: t => if mem_pair p seen || mem_pair p acc then add_new t seen acc else add_new t seen (p :: acc)
  end.
Fixpoint explore (fuel : nat) (excl : ranges) (reps : list N) (todo seen : pairs) : option pairs :=
  match fuel with
  | O => None
  | S f =>
      match todo with
      | [] => Some seen
      | (a, b) :: t =>
          if mem_pair (a, b) seen then explore f excl reps t seen
          else if Bool.eqb (nu a) (nu b)
               then explore f excl reps
                      (add_new (map (fun c => (nder c a, nder c b)) reps) ((a, b) :: seen) t)
                      ((a, b) :: seen)
               else None
      end
  end.

Definition mk_reps (excl : ranges) (a b : rx) : list N :=
  nodup N.eq_dec (0 :: bounds excl ++ rx_bounds a ++ rx_bounds b).

Definition equiv_check (fuel : nat) (excl : ranges) (a b : rx) : bool :=
  let reps := mk_reps excl a b in
  match explore fuel excl (filter (fun c => negb (in_ranges excl c)) reps) [(a, b)] [] with
  | Some R => mem_pair (a, b) R && closed excl reps R
  | None => false
  end.

Theorem equiv_check_sound fuel excl a b :
  equiv_check fuel excl a b = true ->
  forall w, Forall (fun c => in_ranges excl c = false) w -> (matches a w <-> matches b w).
Proof.
  unfold equiv_check. destruct (explore _ _ _ _ _) as [R|]; [|discriminate].
  intros H w Hw. apply andb_true_iff in H as [Hm Hc]. apply mem_pair_in in Hm.
  eapply closed_sound; eauto.
Qed.
