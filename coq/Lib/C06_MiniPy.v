(* C06 — a tiny deep embedding of the Python subset in which webob.byterange's arithmetic is
   written ({None, int, bool, 2-tuples}, comparisons, `is None`, and/or/not with Python's operand
   semantics, + - min, if/elif/else, assignment, `+=`, return, calls of one other function), with
   an interpreter.  coq/Gen/C06_byterange.v is a purely syntactic dump of the functions' ASTs into
   this type (harness/props/c06.py: gen), regenerated from the source on every run; the theorems in
   Proofs/C06_gen.v state that interpreting that dump equals the hand-written model.
   Executable definitions only.  [PErr] stands for any exception (TypeError on None < int, ...). *)
From Coq Require Import ZArith List Bool String.
Import ListNotations.
Local Open Scope Z_scope.

Inductive pv := PNone | PInt (z : Z) | PBool (b : bool) | PPair (a b : pv) | PErr.

Inductive cmpop := CLt | CLe | CGt | CGe | CEq | CNe.

Inductive expr :=
| EVar (x : string)
| ENone
| EInt (z : Z)
| EBool (b : bool)
| EIsNone (e : expr)
| EIsNotNone (e : expr)
| ECmp (op : cmpop) (a b : expr)
| EAnd (a b : expr)
| EOr (a b : expr)
| ENot (e : expr)
| EAdd (a b : expr)
| ESub (a b : expr)
| EMin (a b : expr)
| EPair (a b : expr)
| ECall (f : string) (args : list expr).

Inductive stmt :=
| SSkip
| SSeq (a b : stmt)
| SReturn (e : expr)
| SIf (c : expr) (t f : stmt)
| SAssign (x : string) (e : expr)
| SAugAdd (x : string) (e : expr).

Definition env := list (string * pv).

Fixpoint lookup (x : string) (en : env) : pv :=
  match en with
  | [] => PErr                                  (* NameError *)
  | (y, v) :: en' => if String.eqb x y then v else lookup x en'
  end.

Definition is_err (v : pv) : bool := match v with PErr => true | _ => false end.

(* bool(v); errors are handled by the callers *)
Definition truthy (v : pv) : bool :=
  match v with
  | PNone => false
  | PInt z => negb (z =? 0)
  | PBool b => b
  | PPair _ _ => true
  | PErr => false
  end.

Fixpoint pv_eqb (a b : pv) : bool :=
  match a, b with
  | PNone, PNone => true
  | PInt x, PInt y => x =? y
  | PBool x, PBool y => Bool.eqb x y
  | PPair a1 a2, PPair b1 b2 => pv_eqb a1 b1 && pv_eqb a2 b2
  | _, _ => false
  end.

Definition cmp (op : cmpop) (a b : pv) : pv :=
  match op with
  | CEq => if is_err a || is_err b then PErr else PBool (pv_eqb a b)
  | CNe => if is_err a || is_err b then PErr else PBool (negb (pv_eqb a b))
  | _ =>
      match a, b with
      | PInt x, PInt y =>
          PBool (match op with
                 | CLt => x <? y | CLe => x <=? y | CGt => x >? y | CGe => x >=? y
                 | _ => false
                 end)
      | _, _ => PErr                              (* None < 1 etc.: TypeError *)
      end
  end.

Section Eval.
  (* the other translated function(s) this one calls *)
  Variable call : string -> list pv -> pv.

  Fixpoint eval (en : env) (e : expr) : pv :=
    match e with
    | EVar x => lookup x en
    | ENone => PNone
    | EInt z => PInt z
    | EBool b => PBool b
    | EIsNone a => match eval en a with PErr => PErr | PNone => PBool true | _ => PBool false end
    | EIsNotNone a => match eval en a with PErr => PErr | PNone => PBool false | _ => PBool true end
    | ECmp op a b => cmp op (eval en a) (eval en b)
    | EAnd a b => let va := eval en a in
                  if is_err va then PErr else if truthy va then eval en b else va
    | EOr a b => let va := eval en a in
                 if is_err va then PErr else if truthy va then va else eval en b
    | ENot a => let va := eval en a in if is_err va then PErr else PBool (negb (truthy va))
    | EAdd a b => match eval en a, eval en b with PInt x, PInt y => PInt (x + y) | _, _ => PErr end
    | ESub a b => match eval en a, eval en b with PInt x, PInt y => PInt (x - y) | _, _ => PErr end
    | EMin a b => match eval en a, eval en b with PInt x, PInt y => PInt (Z.min x y) | _, _ => PErr end
    | EPair a b => let va := eval en a in let vb := eval en b in
                   if is_err va || is_err vb then PErr else PPair va vb
    | ECall f args =>
        let vs := (fix go (l : list expr) : list pv :=
                     match l with [] => [] | a :: l' => eval en a :: go l' end) args in
        if existsb is_err vs then PErr else call f vs
    end.

  (* (environment after, Some v when the block returned v) *)
  Fixpoint exec (en : env) (s : stmt) : env * option pv :=
    match s with
    | SSkip => (en, None)
    | SSeq a b => match exec en a with
                  | (en', None) => exec en' b
                  | r => r
                  end
    | SReturn e => (en, Some (eval en e))
    | SIf c t f => let vc := eval en c in
                   if is_err vc then (en, Some PErr)
                   else if truthy vc then exec en t else exec en f
    | SAssign x e => let v := eval en e in
                     if is_err v then (en, Some PErr) else ((x, v) :: en, None)
    | SAugAdd x e => match lookup x en, eval en e with
                     | PInt a, PInt b => ((x, PInt (a + b)) :: en, None)
                     | _, _ => (en, Some PErr)
                     end
    end.

  (* a function: parameter names (defaults already filled in by the caller) and body;
     falling off the end returns None *)
  Definition run_fun (params : list string) (body : stmt) (args : list pv) : pv :=
    match snd (exec (combine params args) body) with
    | Some v => v
    | None => PNone
    end.
End Eval.

Definition no_calls (f : string) (args : list pv) : pv := PErr.
Definition py_oz (o : option Z) : pv := match o with None => PNone | Some z => PInt z end.
