(* C04 — Python's list.sort(key=..., reverse=...) as an executable function (definitions only;
   lemmas are in Proofs/C04_sort.v).

   CPython's sort is stable; for a total preorder on keys the stable sorted permutation is unique,
   so stable insertion sort is extensionally the same function.  reverse=True is, as in
   listobject.c, "reverse the list, stable sort ascending, reverse the result". *)
From Coq Require Import List Bool.
Import ListNotations.

Section Sort.
  Context {A : Type}.
  Variable leb : A -> A -> bool.        (* key x <= key y *)

  Fixpoint insert (x : A) (l : list A) : list A :=
    match l with
    | [] => [x]
    | y :: l' => if leb x y then x :: l else y :: insert x l'
    end.

  Definition isort (l : list A) : list A := fold_right insert [] l.

  Definition py_sort (reverse : bool) (l : list A) : list A :=
    if reverse then rev (isort (rev l)) else isort l.
End Sort.
