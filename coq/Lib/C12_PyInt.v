(* C12 helper library (owned by C12): CPython's int(str) for base 10 and str(int),
   over code-point lists.  Definitions only; lemmas are in Proofs/C12_pyint.v.
   Tied to CPython 3.12 by the `py_int` / `str_of_int` correspondences of harness/props/c12.py.

   int(s), s a str whose code points are < 256 (WSGI native strings):
     - surrounding whitespace is ignored: \t \n \v \f \r SP and, in a non-ASCII str, NEL (0x85)
       and NBSP (0xA0); the information separators 0x1C-0x1F are NOT (unlike str.strip());
     - an optional sign, then decimal digits, single underscores allowed BETWEEN digits;
     - more than 4300 digit characters (sys.get_int_max_str_digits(), leading zeros count,
       underscores do not) is a ValueError;
     - anything else is a ValueError.
   Decimal digits beyond U+00FF (e.g. ARABIC-INDIC) are outside the modelled domain. *)
From Coq Require Import ZArith NArith List Bool.
Require Import Webob.Lib.Val Webob.Lib.PyStr.
Import ListNotations.
Local Open Scope N_scope.

Inductive res (A : Type) :=
| Ok (a : A)
| Raise (exc : str).           (* exception class name *)
Arguments Ok {A} a.
Arguments Raise {A} exc.

Definition is_raise {A} (r : res A) : bool := match r with Raise _ => true | Ok _ => false end.

(* exception class names as code points *)
Definition ValueError : str := [86;97;108;117;101;69;114;114;111;114].
Definition OverflowError : str := [79;118;101;114;102;108;111;119;69;114;114;111;114].
Definition KeyError : str := [75;101;121;69;114;114;111;114].
Definition AssertionError : str := [65;115;115;101;114;116;105;111;110;69;114;114;111;114].
Definition AttributeError : str := [65;116;116;114;105;98;117;116;101;69;114;114;111;114].
Definition TypeError : str := [84;121;112;101;69;114;114;111;114].

Definition is_digit (c : N) : bool := (48 <=? c) && (c <=? 57).
Definition int_ws (c : N) : bool :=
  ((9 <=? c) && (c <=? 13)) || (c =? 32) || (c =? 133) || (c =? 160).

Definition max_str_digits : nat := 4300.

(* digit (_? digit)*  after the first digit: accumulated value, number of digit characters *)
Fixpoint int_body (s : str) (acc : N) (cnt : nat) (prev_us : bool) : option (N * nat) :=
  match s with
  | [] => if prev_us then None else Some (acc, cnt)
  | c :: s' =>
      if is_digit c then int_body s' (10 * acc + (c - 48)) (S cnt) false
      else if (c =? 95) && negb prev_us then int_body s' acc cnt true
      else None
  end.

Definition int_unsigned (s : str) : option (N * nat) :=
  match s with
  | c :: s' => if is_digit c then int_body s' (c - 48) 1%nat false else None
  | [] => None
  end.

Definition int_signed (s : str) : option Z :=
  let '(neg, body) := match s with
                      | 45 :: s' => (true, s')
                      | 43 :: s' => (false, s')
                      | _ => (false, s)
                      end in
  match int_unsigned body with
  | Some (n, cnt) =>
      if Nat.leb cnt max_str_digits
      then Some (if neg then (- Z.of_N n)%Z else Z.of_N n)
      else None
  | None => None
  end.

(* int(s): None stands for ValueError *)
Definition py_int (s : str) : option Z := int_signed (strip_by int_ws s).

(* ---------- str(int) ---------- *)
Fixpoint digits_fuel (fuel : nat) (n : N) : str :=
  match fuel with
  | O => [48 + n mod 10]
  | S f => if n <? 10 then [48 + n] else digits_fuel f (n / 10) ++ [48 + n mod 10]
  end.
Definition digits_of_N (n : N) : str := digits_fuel (N.to_nat (N.size n)) n.

Definition str_of_Z (z : Z) : str :=
  match z with
  | Zneg p => 45 :: digits_of_N (Npos p)
  | _ => digits_of_N (Z.to_N z)
  end.

(* number of digit characters str(z) has; str() itself raises beyond max_str_digits *)
Definition ndigits (z : Z) : nat := length (digits_of_N (Z.abs_N z)).

(* ---------- big integers in case files ----------
   Coq parses a 4300-digit decimal literal in about a minute, so integers beyond 10^30 travel as
   big-endian octet strings in both directions of a correspondence. *)
Definition Zb (neg : bool) (bytes : str) : Z :=
  let n := fold_left (fun a b => 256 * a + b) bytes 0 in
  if neg then (- Z.of_N n)%Z else Z.of_N n.

Fixpoint bytes_fuel (fuel : nat) (n : N) : str :=
  match fuel with
  | O => []
  | S f => if n =? 0 then [] else bytes_fuel f (N.shiftr n 8) ++ [N.land n 255]
  end.
Definition bytes_of_N (n : N) : str := bytes_fuel (S (N.to_nat (N.size n))) n.

Definition big_tag : str := [98; 105; 103].
Definition vint (z : Z) : val :=
  if (Z.abs z <? 1000000000000000000000000000000)%Z then VInt z
  else VList [VStr big_tag; VBool (z <? 0)%Z; VStr (bytes_of_N (Z.abs_N z))].

Fixpoint bigv (v : val) : val :=
  match v with
  | VInt z => vint z
  | VList l => VList (map bigv l)
  | _ => v
  end.
