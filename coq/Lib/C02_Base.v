(* C02 — small helpers owned by C02: readable string constants, Python's str(int)/int(str) for
   non-negative decimals, substring search, exception-or-value results.  Executable definitions
   only; lemmas are in Proofs/C02_base.v. *)
From Coq Require Import ZArith NArith List Bool String Ascii Decimal DecimalN.
Require Import Webob.Lib.Val Webob.Lib.PyStr.
Import ListNotations.
Local Open Scope N_scope.

(* "text" -> code points, so that header names and exception classes stay readable in the model *)
Fixpoint s2l (s : string) : str :=
  match s with
  | EmptyString => []
  | String a r => N_of_ascii a :: s2l r
  end.

(* value or exception class *)
Inductive res (A : Type) :=
| Ok (a : A)
| Exc (e : str).
Arguments Ok {A} a.
Arguments Exc {A} e.

(* ---------- str(n) / int(s) for n >= 0 ---------- *)
Fixpoint uint_str (u : Decimal.uint) : str :=
  match u with
  | Decimal.Nil => []
  | Decimal.D0 u => 48 :: uint_str u
  | Decimal.D1 u => 49 :: uint_str u
  | Decimal.D2 u => 50 :: uint_str u
  | Decimal.D3 u => 51 :: uint_str u
  | Decimal.D4 u => 52 :: uint_str u
  | Decimal.D5 u => 53 :: uint_str u
  | Decimal.D6 u => 54 :: uint_str u
  | Decimal.D7 u => 55 :: uint_str u
  | Decimal.D8 u => 56 :: uint_str u
  | Decimal.D9 u => 57 :: uint_str u
  end.

(* str(n) *)
Definition dec (n : N) : str := uint_str (N.to_uint n).

Fixpoint str_uint (s : str) : option Decimal.uint :=
  match s with
  | [] => Some Decimal.Nil
  | c :: r =>
      match str_uint r with
      | None => None
      | Some u =>
          if c =? 48 then Some (Decimal.D0 u) else if c =? 49 then Some (Decimal.D1 u)
          else if c =? 50 then Some (Decimal.D2 u) else if c =? 51 then Some (Decimal.D3 u)
          else if c =? 52 then Some (Decimal.D4 u) else if c =? 53 then Some (Decimal.D5 u)
          else if c =? 54 then Some (Decimal.D6 u) else if c =? 55 then Some (Decimal.D7 u)
          else if c =? 56 then Some (Decimal.D8 u) else if c =? 57 then Some (Decimal.D9 u)
          else None
      end
  end.

(* int(s) for a non-empty string of ASCII digits; None = ValueError.  (CPython's int() also accepts
   surrounding whitespace, a sign, underscores and non-ASCII digits: outside the modelled domain.) *)
Definition parse_dec (s : str) : option N :=
  match s with
  | [] => None
  | _ => option_map N.of_uint (str_uint s)
  end.

Definition blen (b : str) : N := N.of_nat (List.length b).

(* sum(len(chunk) for chunk in chunks) *)
Definition sum_len (cs : list str) : N := fold_left (fun a c => a + blen c) cs 0.

(* `needle in s` *)
Fixpoint contains_sub (needle s : str) : bool :=
  starts_with needle s ||
  match s with
  | [] => false
  | _ :: s' => contains_sub needle s'
  end.

Fixpoint span_until (stop : N) (s : str) : str * str :=
  match s with
  | [] => ([], [])
  | c :: s' => if c =? stop then ([], s) else let '(a, b) := span_until stop s' in (c :: a, b)
  end.

(* case-insensitive (ASCII pattern) prefix removal *)
Fixpoint strip_prefix_ci (p s : str) : option str :=
  match p, s with
  | [], _ => Some s
  | x :: p', y :: s' => if lower_c y =? x then strip_prefix_ci p' s' else None
  | _ :: _, [] => None
  end.

(* truthiness of an optional Python string *)
Definition truthy (o : option str) : bool :=
  match o with
  | Some (_ :: _) => true
  | _ => false
  end.

Definition has_crlf (s : str) : bool := existsb (fun c => (c =? 10) || (c =? 13)) s.
