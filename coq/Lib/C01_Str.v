(* C01 — string helpers not in PyStr.v: ASCII literals, str.upper / str.title for
   code points < 256 (WSGI native strings are latin-1), str.replace of one
   character.  Executable definitions only; validated against CPython by the
   `strlib` correspondence of harness/props/c01.py. *)
From Coq Require Import NArith List Bool String Ascii.
Require Import Webob.Lib.Val Webob.Lib.PyStr.
Import ListNotations.
Local Open Scope N_scope.

(* "QUERY_STRING" : str *)
Definition lit (s : string) : str := map N_of_ascii (list_ascii_of_string s).

(* str.upper, one character (may expand: sharp s -> "SS"; micro sign and y-diaeresis leave latin-1) *)
Definition upper_c1 (c : N) : str :=
  if (97 <=? c) && (c <=? 122) then [c - 32]
  else if (224 <=? c) && (c <=? 254) && negb (c =? 247) then [c - 32]
  else if c =? 181 then [924]
  else if c =? 223 then [83; 83]
  else if c =? 255 then [376]
  else [c].
Definition py_upper (s : str) : str := flat_map upper_c1 s.

(* characters with the Unicode property Cased, below 256 (plus the two images of upper_c1 above 255) *)
Definition is_cased (c : N) : bool :=
  ((65 <=? c) && (c <=? 90)) || ((97 <=? c) && (c <=? 122)) || (c =? 170) || (c =? 181) || (c =? 186)
  || ((192 <=? c) && (c <=? 214)) || ((216 <=? c) && (c <=? 246)) || ((248 <=? c) && (c <=? 255))
  || (c =? 924) || (c =? 376).

Definition title_c1 (c : N) : str := if c =? 223 then [83; 115] else upper_c1 c.
Definition lower_c1 (c : N) : str :=
  if c =? 924 then [956] else if c =? 376 then [255] else [lower_c c].

(* str.title: a character following a cased character is lower-cased, any other is title-cased *)
Fixpoint title_go (prev_cased : bool) (s : str) : str :=
  match s with
  | [] => []
  | c :: s' => (if prev_cased then lower_c1 c else title_c1 c) ++ title_go (is_cased c) s'
  end.
Definition py_title (s : str) : str := title_go false s.

(* s.replace(a, b) for single characters *)
Definition replace_cc (a b : N) (s : str) : str := map (fun c => if c =? a then b else c) s.

(* s.split(";", 1)[0] *)
Fixpoint before_c (sep : N) (s : str) : str :=
  match s with
  | [] => []
  | c :: s' => if c =? sep then [] else c :: before_c sep s'
  end.
(* the part after the first separator, if there is one *)
Fixpoint after_c (sep : N) (s : str) : option str :=
  match s with
  | [] => None
  | c :: s' => if c =? sep then Some s' else after_c sep s'
  end.
