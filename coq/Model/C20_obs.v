(* C20 — encoders from model results to the universal observation value [val], used by the
   correspondence check only (harness/props/c20.py).  Definitions only. *)
From Coq Require Import ZArith NArith List Bool.
Require Import Webob.Lib.Val Webob.Lib.PyStr Webob.Model.C20_wire Webob.Model.C20_callapp.
From Coq Require String.
Import String.StringSyntax.
Import ListNotations.
Local Open Scope string_scope.
Local Open Scope list_scope.
Local Open Scope N_scope.

Definition v_items (l : list (str * str)) : val :=
  VList (map (fun p => VList [VStr (fst p); VStr (snd p)]) l).

Definition v_res {T} (f : T -> val) (r : res T) : val :=
  match r with Ok a => f a | Er t => VErr t end.

Definition v_obs (e : env) : val :=
  let o := observe e in
  VList [VStr (o_method o); VStr (o_url o); VStr (o_proto o); v_items (o_headers o);
         v_res VStr (o_body o)].

(* Request.as_bytes: the bytes and the header items afterwards *)
Definition c_as_bytes (c : skip * env) : val :=
  v_res (fun p => VList [VStr (fst p); v_items (hdr_items (e_hdrs (snd p)))])
        (as_bytes (fst c) (snd c)).

(* observation of a request built from an environ (validates url / headers / body getters) *)
Definition c_observe (e : env) : val := v_obs e.

(* Request.from_bytes *)
Definition c_from_bytes (b : bytes) : val := v_res v_obs (from_bytes b).

(* Request.from_file on a binary / text file: the request and what is left in the file *)
Definition c_from_file (c : bool * str) : val :=
  let '(text, s) := c in
  v_res (fun p => VList [v_obs (fst p); VStr (snd p)])
        (req_from_file text (if text then utf8_enc else conv_id) (if text then utf8_width else one_byte) s).

Definition v_resp (r : resp) : val :=
  VList [VStr (r_status r); v_items (r_headers r); VStr (r_body r)].

(* Response.from_file *)
Definition c_resp_from_file (c : bool * str) : val :=
  let '(text, s) := c in
  v_res (fun p => VList [v_resp (fst p); VStr (snd p)])
        (resp_from_file text (if text then utf8_enc else conv_id) (if text then utf8_width else one_byte) s).

(* str(Response) *)
Definition c_resp_str (c : resp * str) : val := VStr (resp_str (fst c) (snd c)).

Definition v_optn (o : option N) : val := match o with Some x => VInt (Z.of_N x) | None => VNone end.

Definition c_call_application (c : bool * app) : val :=
  match call_application (fst c) (snd c) with
  | Returned st h chunks exc closed own dx =>
      VList [VStr (A "returned"); VStr st; v_items h; VList (map VStr chunks); v_optn exc;
             VBool closed; VBool own; v_optn dx]
  | Raised x closed => VList [VStr (A "raised"); VInt (Z.of_N x); VBool closed]
  | Failed t closed => VList [VStr (A "failed"); VErr t; VBool closed]
  end.

Definition c_send (c : bool * app) : val :=
  match send (fst c) (snd c) with
  | Sent st h body closes => VList [VStr (A "sent"); VStr st; v_items h; VStr body; VBool closes]
  | SRaised x closes => VList [VStr (A "raised"); VInt (Z.of_N x); VBool closes]
  | SFailed t closes => VList [VStr (A "failed"); VErr t; VBool closes]
  end.

(* ------------------------------------------------------------------ histories on ONE object *)
(* several sub-requests sent through one Request object: the closure lists are per call, so the
   model of a history is the map of the single-call model *)
Definition c_call_history (l : list (bool * (bool * app))) : val :=
  VList (map (fun c : bool * (bool * app) => if fst c then c_send (snd c) else c_call_application (snd c)) l).

(* as_bytes called repeatedly on one request: each call continues from the request the previous
   call left behind *)
Fixpoint as_bytes_history (sks : list skip) (e : env) : list val :=
  match sks with
  | [] => []
  | sk :: r =>
      match as_bytes sk e with
      | Ok (b, e1) => VList [VStr b; v_items (hdr_items (e_hdrs e1))] :: as_bytes_history r e1
      | Er t => VErr t :: as_bytes_history r e
      end
  end.
Definition c_as_bytes_history (c : list skip * env) : val := VList (as_bytes_history (fst c) (snd c)).

(* util.read_text_body(io.StringIO(s), length, "utf-8"): what it returns and what it leaves *)
Definition c_read_text_body (c : option Z * str) : val :=
  let '(a, b) := read_body utf8_width (fst c) (snd c) in VList [VStr a; VStr b].
