(* C03 — executable model of the four Accept-* `parse` class methods (acceptparse.py:397-478, 1829-1854,
   2822-2847, 3861-3886): validity by the REGENERATED validator regex (Gen/C03_regexes.v, so a change of the
   source regex changes this model), then a hand-written scanner that mirrors `finditer` of the element
   regex with its group extraction.  The scanners are deterministic because in every element regex each
   choice point is decided by the next character (see design_notes/C03.md); they are tied to CPython's `re`
   by the correspondence check.  Definitions only. *)
From Coq Require Import ZArith NArith List Bool.
Require Import Webob.Lib.Val Webob.Lib.PyStr Webob.Lib.Rx Webob.Gen.C03_regexes.
Import ListNotations.
Local Open Scope N_scope.

Definition is_tchar (c : N) : bool :=
  in_ranges [(33,33);(35,39);(42,43);(45,46);(48,57);(65,90);(94,122);(124,124);(126,126)] c.
Definition is_ows (c : N) : bool := (c =? 9) || (c =? 32).
Definition is_digit (c : N) : bool := (48 <=? c) && (c <=? 57).
Definition is_alpha (c : N) : bool := ((65 <=? c) && (c <=? 90)) || ((97 <=? c) && (c <=? 122)).
Definition is_alnum (c : N) : bool := is_alpha c || is_digit c.
Definition is_qQ (c : N) : bool := (c =? 81) || (c =? 113).

Fixpoint span (p : N -> bool) (s : str) : str * str :=
  match s with
  | [] => ([], [])
  | c :: s' => if p c then let '(a, b) := span p s' in (c :: a, b) else ([], s)
  end.
(* greedy {0,n} *)
Fixpoint span_upto (n : nat) (p : N -> bool) (s : str) : str * str :=
  match n with
  | O => ([], s)
  | S k => match s with
           | [] => ([], [])
           | c :: s' => if p c then let '(a, b) := span_upto k p s' in (c :: a, b) else ([], s)
           end
  end.
Definition skip_ows (s : str) : str := snd (span is_ows s).

(* token = 1*tchar, greedy *)
Definition take_token (s : str) : option (str * str) :=
  match span is_tchar s with
  | ([], _) => None
  | (t, r) => Some (t, r)
  end.

(* language-range regex: star, or 1-8 alpha followed by any number of ( '-' 1-8 alnum ) groups *)
Fixpoint take_subtags (fuel : nat) (s : str) : str * str :=
  match fuel with
  | O => ([], s)
  | S f =>
      match s with
      | c :: r =>
          if c =? 45 then
            match span_upto 8 is_alnum r with
            | ([], _) => ([], s)
            | (a, r') => let '(more, r'') := take_subtags f r' in (45 :: a ++ more, r'')
            end
          else ([], s)
      | [] => ([], s)
      end
  end.
Definition take_lang_range (s : str) : option (str * str) :=
  match s with
  | [] => None
  | c :: r =>
      if c =? 42 then Some ([42], r)
      else match span_upto 8 is_alpha s with
           | ([], _) => None
           | (a, r) => let '(more, r') := take_subtags (length r) r in Some (a ++ more, r')
           end
  end.

(* qvalue: '0' [ '.' 0-3 digits ]  or  '1' [ '.' 0-3 zeros ]   -> matched text, rest *)
Definition take_qvalue (s : str) : option (str * str) :=
  match s with
  | 48 :: 46 :: r => let '(ds, r') := span_upto 3 is_digit r in Some (48 :: 46 :: ds, r')
  | 48 :: r => Some ([48], r)
  | 49 :: 46 :: r => let '(ds, r') := span_upto 3 (fun c => c =? 48) r in Some (49 :: 46 :: ds, r')
  | 49 :: r => Some ([49], r)
  | _ => None
  end.
(* OWS ";" OWS [qQ] "=" (qvalue) *)
Definition take_weight (s : str) : option (str * str) :=
  match skip_ows s with
  | 59 :: r =>
      match skip_ows r with
      | q :: 61 :: r' => if is_qQ q then take_qvalue r' else None
      | _ => None
      end
  | _ => None
  end.

(* float(qvalue) * 1000, exactly: the text has at most three decimals *)
Definition digit_val (c : N) : N := c - 48.
Definition thousandths (q : str) : N :=
  match q with
  | i :: 46 :: ds =>
      let d k := match nth_error ds k with Some c => digit_val c | None => 0 end in
      digit_val i * 1000 + d 0%nat * 100 + d 1%nat * 10 + d 2%nat
  | i :: _ => digit_val i * 1000
  | [] => 0
  end.

(* finditer of item + optional weight: leftmost matches, resuming after each match *)
Section Simple.
  Variable take_item : str -> option (str * str).
  Fixpoint scan_simple (fuel : nat) (s : str) : list (str * N) :=
    match fuel with
    | O => []
    | S f =>
        match s with
        | [] => []
        | _ :: s' =>
            match take_item s with
            | Some (it, r) =>
                match take_weight r with
                | Some (q, r') => (it, thousandths q) :: scan_simple f r'
                | None => (it, 1000) :: scan_simple f r
                end
            | None => scan_simple f s'
            end
        end
    end.
End Simple.

Definition parse_simple (validator : rx) (take_item : str -> option (str * str)) (s : str)
  : option (list (str * N)) :=
  if rmatch validator s then Some (scan_simple take_item (S (length s)) s) else None.

Definition parse_accept_charset := parse_simple gen_accept_charset take_token.
Definition parse_accept_encoding := parse_simple gen_accept_encoding take_token.
Definition parse_accept_language := parse_simple gen_accept_language take_lang_range.

(* ---------------- Accept ---------------- *)
Definition is_qdtext (c : N) : bool := in_ranges [(9,9);(32,32);(33,33);(35,91);(93,126);(128,255)] c.
Definition is_qpair_char (c : N) : bool := in_ranges [(9,9);(32,32);(33,126);(128,255)] c.

(* body of a quoted-string after the opening quote: returns (raw text incl. closing quote, rest) *)
Fixpoint take_qbody (s : str) : option (str * str) :=
  match s with
  | 34 :: r => Some ([34], r)
  | 92 :: c :: r => if is_qpair_char c
                    then match take_qbody r with Some (b, r') => Some (92 :: c :: b, r') | None => None end
                    else None
  | c :: r => if is_qdtext c
              then match take_qbody r with Some (b, r') => Some (c :: b, r') | None => None end
              else None
  | [] => None
  end.
(* token | quoted-string (raw text) *)
Definition take_value (s : str) : option (str * str) :=
  match take_token s with
  | Some tr => Some tr
  | None => match s with
            | 34 :: r => match take_qbody r with Some (b, r') => Some (34 :: b, r') | None => None end
            | _ => None
            end
  end.

(* _process_quoted_string_token: drop each backslash not followed by a backslash, then collapse pairs *)
Fixpoint drop_single_bs (s : str) : str :=      (* remove every backslash not followed by a backslash *)
  match s with
  | [] => []
  | 92 :: r => match r with
               | 92 :: _ => 92 :: drop_single_bs r
               | _ => drop_single_bs r
               end
  | c :: r => c :: drop_single_bs r
  end.
Fixpoint collapse_bs (s : str) : str :=         (* .replace("\\\\", "\\") : non-overlapping, left to right *)
  match s with
  | 92 :: 92 :: r => 92 :: collapse_bs r
  | c :: r => c :: collapse_bs r
  | [] => []
  end.
Definition strip_ends (s : str) : str := removelast (tl s).
Definition process_quoted (tok : str) : str := collapse_bs (drop_single_bs (strip_ends tok)).
Definition is_quoted (v : str) : bool :=
  match v with 34 :: _ => match rev v with 34 :: _ => true | _ => false end | _ => false end.
Definition unquote_value (v : str) : str := if is_quoted v then process_quoted v else v.

(* _escape_and_quote_parameter_value *)
Definition escape_bs_dq (s : str) : str := replace_c 34 [92; 34] (replace_c 92 [92; 92] s).
Definition escape_and_quote (v : str) : str :=
  match v with
  | [] => [34; 34]
  | _ => let e := escape_bs_dq v in
         if rmatch gen_token e then e else 34 :: e ++ [34]
  end.

(* media type parameters: repeated  OWS ";" OWS token-not-q "=" (token|qstr)   -> raw (name, value) list *)
Fixpoint take_params (fuel : nat) (s : str) : list (str * str) * str :=
  match fuel with
  | O => ([], s)
  | S f =>
      match skip_ows s with
      | 59 :: r =>
          match take_token (skip_ows r) with
          | Some (name, 61 :: r') =>
              if (match name with [q] => is_qQ q | _ => false end) then ([], s)
              else match take_value r' with
                   | Some (v, r'') => let '(ps, rest) := take_params f r'' in ((name, v) :: ps, rest)
                   | None => ([], s)
                   end
          | _ => ([], s)
          end
      | _ => ([], s)
      end
  end.

(* accept-ext: repeated  OWS ";" OWS token [ "=" (token|qstr) ]  -> (name, Some raw value | None) *)
Fixpoint take_exts (fuel : nat) (s : str) : list (str * option str) * str :=
  match fuel with
  | O => ([], s)
  | S f =>
      match skip_ows s with
      | 59 :: r =>
          match take_token (skip_ows r) with
          | Some (name, r') =>
              let '(v, r'') := match r' with
                               | c :: r2 => if c =? 61
                                            then match take_value r2 with
                                                 | Some (v, r3) => (Some v, r3)
                                                 | None => (None, r')
                                                 end
                                            else (None, r')
                               | [] => (None, r')
                               end in
              let '(es, rest) := take_exts f r'' in ((name, v) :: es, rest)
          | None => ([], s)
          end
      | _ => ([], s)
      end
  end.

Record accept_el := mkEl { el_range : str;                         (* canonical media range text *)
                           el_q : N;                               (* thousandths *)
                           el_params : list (str * str);           (* unquoted *)
                           el_exts : list (str * option str) }.    (* unquoted; None = bare token *)

Definition form_media_range (ts : str) (params : list (str * str)) : str :=
  ts ++ flat_map (fun nv => 59 :: fst nv ++ 61 :: escape_and_quote (snd nv)) params.

(* one element at the head of s, if the element regex matches there *)
Definition take_accept_el (s : str) : option (accept_el * str) :=
  match take_token s with
  | Some (ty, 47 :: r) =>
      match take_token r with
      | Some (sub, r1) =>
          let '(raw_params, r2) := take_params (length r1) r1 in
          let params := map (fun nv => (fst nv, unquote_value (snd nv))) raw_params in
          let ts := ty ++ 47 :: sub in
          match take_weight r2 with
          | Some (q, r3) =>
              let '(raw_exts, r4) := take_exts (length r3) r3 in
              (* findall yields '' for an absent value group: the element becomes the bare name *)
              let exts := map (fun nv => (fst nv, match snd nv with
                                                   | Some [] => None
                                                   | Some v => Some (unquote_value v)
                                                   | None => None
                                                   end)) raw_exts in
              Some (mkEl (form_media_range ts params) (thousandths q) params exts, r4)
          | None => Some (mkEl (form_media_range ts params) 1000 params [], r2)
          end
      | None => None
      end
  | _ => None
  end.

Fixpoint scan_accept (fuel : nat) (s : str) : list accept_el :=
  match fuel with
  | O => []
  | S f =>
      match s with
      | [] => []
      | _ :: s' =>
          match take_accept_el s with
          | Some (e, r) => e :: scan_accept f r
          | None => scan_accept f s'
          end
      end
  end.

Definition parse_accept (s : str) : option (list accept_el) :=
  if rmatch gen_accept s then Some (scan_accept (S (length s)) s) else None.

(* ---------------- header objects (create_accept*_header) ---------------- *)
Inductive hdr (A : Type) := NoHeader | Invalid (text : str) | Valid (text : str) (parsed : list A).
Arguments NoHeader {A}. Arguments Invalid {A}. Arguments Valid {A}.
Definition create {A} (parse : str -> option (list A)) (h : option str) : hdr A :=
  match h with
  | None => NoHeader
  | Some v => match parse v with Some p => Valid v p | None => Invalid v end
  end.

(* observation values for the correspondence *)
Definition v_simple (r : option (list (str * N))) : val :=
  match r with
  | None => VErr [86;97;108;117;101;69;114;114;111;114]   (* ValueError *)
  | Some l => VList (map (fun e => VList [VStr (fst e); VInt (Z.of_N (snd e))]) l)
  end.
Definition v_accept (r : option (list accept_el)) : val :=
  match r with
  | None => VErr [86;97;108;117;101;69;114;114;111;114]
  | Some l => VList (map (fun e =>
        VList [VStr (el_range e); VInt (Z.of_N (el_q e));
               VList (map (fun nv => VList [VStr (fst nv); VStr (snd nv)]) (el_params e));
               VList (map (fun nv => match snd nv with
                                     | Some v => VList [VStr (fst nv); VStr v]
                                     | None => VStr (fst nv)
                                     end) (el_exts e))]) l)
  end.
