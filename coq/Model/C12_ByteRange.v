(* C12 — executable model of webob/byterange.py:53-157 (Range.__str__, Range.parse, ContentRange.__str__,
   ContentRange.parse, _is_content_range_valid) and of descriptors.py:236-294 (parse_range,
   serialize_range, parse_content_range, serialize_content_range), as REPAIRED by fixes/C12-02, -03, -08.
   Definitions only.

   The two regular expressions are modelled by hand-written deterministic scanners (validated
   against CPython's re by the `rx_range` / `rx_content_range` correspondences):
     _rx_range         = "bytes" spaces "=" spaces (digits0) spaces "-" spaces (digits0)      re.I, .match (prefix)
     _rx_content_range = "bytes " ( (digits1) "-" (digits1) | star ) "/" ( (digits1) | star )   .match (prefix)
   Two variants of Range.parse that other repairs of this tree introduce are covered by parameters,
   read from the live source by the harness:
     anch : _rx_range is anchored (ends with spaces and $)      zn : `bytes=-0` is unparsable (None). *)
From Coq Require Import ZArith NArith List Bool.
Require Import Webob.Lib.Val Webob.Lib.PyStr Webob.Lib.C12_PyInt Webob.Model.C12_Headers.
Import ListNotations.
Local Open Scope N_scope.

(* ---------------------------------------------------------------- scanners *)
Definition skip_sp (s : str) : str := drop_while (fun c => c =? 32) s.

Fixpoint take_digits (s : str) : str * str :=
  match s with
  | c :: s' => if is_digit c then let '(d, r) := take_digits s' in (c :: d, r) else ([], s)
  | [] => ([], [])
  end.

(* one pattern letter (lower case) under re.IGNORECASE for str patterns: both cases, and LATIN SMALL
   LETTER LONG S (U+017F) for "s" *)
Definition ci_eq (p c : N) : bool :=
  (c =? p) || (c =? p - 32) || ((p =? 115) && (c =? 383)).

Fixpoint match_ci (p s : str) : option str :=
  match p, s with
  | [], _ => Some s
  | x :: p', c :: s' => if ci_eq x c then match_ci p' s' else None
  | _ :: _, [] => None
  end.

Fixpoint match_lit (p s : str) : option str :=
  match p, s with
  | [], _ => Some s
  | x :: p', c :: s' => if c =? x then match_lit p' s' else None
  | _ :: _, [] => None
  end.

Definition s_bytes : str := [98; 121; 116; 101; 115].

(* `$` without re.M: at the end, or before a final newline *)
Definition at_dollar (s : str) : bool := match s with [] => true | [10] => true | _ => false end.

(* one literal character *)
Definition eat (k : N) (s : str) : option str :=
  match s with
  | c :: s' => if c =? k then Some s' else None
  | [] => None
  end.

(* groups (1, 2) of _rx_range.match(s) *)
Definition rx_range (anch : bool) (s : str) : option (str * str) :=
  match match_ci s_bytes s with
  | None => None
  | Some r1 =>
      match eat 61 (skip_sp r1) with
      | None => None
      | Some r3 =>
          let '(d1, r5) := take_digits (skip_sp r3) in
          match eat 45 (skip_sp r5) with
          | None => None
          | Some r7 =>
              let '(d2, r9) := take_digits (skip_sp r7) in
              if anch then (if at_dollar (skip_sp r9) then Some (d1, d2) else None)
              else Some (d1, d2)
          end
      end
  end.

Definition nonempty_s (s : str) : bool := match s with [] => false | _ => true end.

(* groups (1, 2, 3) of _rx_content_range.match(s); None = group did not participate *)
Definition rx_content_range (s : str) : option (option str * option str * option str) :=
  match match_lit (s_bytes ++ [32]) s with
  | None => None
  | Some r1 =>
      let first : option (option str * option str * str) :=
        match eat 42 r1 with
        | Some r2 => Some (None, None, r2)
        | None =>
            let '(d1, r2) := take_digits r1 in
            match eat 45 r2 with
            | Some r3 =>
                let '(d2, r4) := take_digits r3 in
                if nonempty_s d1 && nonempty_s d2 then Some (Some d1, Some d2, r4) else None
            | None => None
            end
        end in
      match first with
      | Some (g1, g2, r4) =>
          match eat 47 r4 with
          | Some r5 =>
              match eat 42 r5 with
              | Some _ => Some (g1, g2, None)
              | None => let '(d3, _) := take_digits r5 in
                        if nonempty_s d3 then Some (g1, g2, Some d3) else None
              end
          | None => None
          end
      | None => None
      end
  end.

(* ---------------------------------------------------------------- Range *)
Definition range := (Z * option Z)%type.       (* start, end (non-inclusive) *)

Definition int_or_raise (s : str) : res Z :=
  match py_int s with Some z => Ok z | None => Raise ValueError end.

(* Range.parse (classmethod); Ok None = header not parsable *)
Definition range_parse (anch zn : bool) (header : str) : res (option range) :=
  match rx_range anch header with
  | None => Ok None
  | Some (start, stop) =>
      if negb (nonempty_s start) then
        if negb (nonempty_s stop) then Ok None                   (* "bytes=-" *)
        else match int_or_raise stop with
             | Raise e => Raise e
             | Ok e => if zn && (e =? 0)%Z then Ok None else Ok (Some ((- e)%Z, None))
             end
      else
        match int_or_raise start with
        | Raise e => Raise e
        | Ok st =>
            if negb (nonempty_s stop) then Ok (Some (st, None))
            else match int_or_raise stop with
                 | Raise e => Raise e
                 | Ok e => let e' := (e + 1)%Z in
                           if (st >=? e')%Z then Ok None else Ok (Some (st, Some e'))
                 end
        end
  end.

Definition s_bytes_eq : str := s_bytes ++ [61].

(* Range.__str__ *)
Definition range_str (r : range) : str :=
  match r with
  | (s, None) => s_bytes_eq ++ str_of_Z s ++ (if (s >=? 0)%Z then [45] else [])
  | (s, Some e) => s_bytes_eq ++ str_of_Z s ++ [45] ++ str_of_Z (e - 1)
  end.

Definition range_tag : str := [114; 97; 110; 103; 101].
Definition oz (o : option Z) : val := match o with Some z => VInt z | None => VNone end.
Definition range_val (o : option range) : val :=
  match o with
  | None => VNone
  | Some (s, e) => VList [VStr range_tag; VInt s; oz e]
  end.

(* descriptors.parse_range: falsy -> None; ValueError from int() (digit limit) -> None *)
Definition parse_range (anch zn : bool) (v : option str) : res val :=
  match v with
  | None | Some [] => Ok VNone
  | Some s => match range_parse anch zn s with
              | Ok r => Ok (range_val r)
              | Raise _ => Ok VNone
              end
  end.
(* the same without the guard of fixes/C12-03 (kept to state why the guard is needed) *)
Definition parse_range_unguarded (anch zn : bool) (v : option str) : res val :=
  match v with
  | None | Some [] => Ok VNone
  | Some s => match range_parse anch zn s with
              | Ok r => Ok (range_val r)
              | Raise e => Raise e
              end
  end.

(* Range(start, end): assert end is None or end >= 0 *)
Definition range_init (s : Z) (e : option Z) : res range :=
  match e with
  | Some x => if (x <? 0)%Z then Raise AssertionError else Ok (s, e)
  | None => Ok (s, e)
  end.

(* descriptors.serialize_range (as repaired by fixes/C12-20): a range with a stop must have 0 <= start < stop,
   otherwise str() of it would not be a byte-range-spec ("bytes=0--1") and the assignment is refused *)
Definition range_checked (r : range) : res (option str) :=
  match r with
  | (s, Some e) => if (0 <=? s)%Z && (s <? e)%Z then Ok (Some (range_str r)) else Raise ValueError
  | (s, None) => Ok (Some (range_str r))
  end.
Definition serialize_range (v : pyv) : res (option str) :=
  match v with
  | PStr [] | PInts [] | PStrs [] => Ok None        (* falsy: '' () [] *)
  | PStr s => Ok (Some s)
  | PInts [Some s; e] =>
      match range_init s e with
      | Ok r => range_checked r
      | Raise x => Raise x
      end
  | PRange s e => range_checked (s, e)
  | _ => Raise TypeError
  end.

Definition conv_range (anch zn : bool) : conv := mkConv (parse_range anch zn) serialize_range.

(* ---------------------------------------------------------------- Content-Range *)
Definition crange := (option Z * option Z * option Z)%type.     (* start, stop (non-inclusive), length *)

(* _is_content_range_valid(start, stop, length, response) *)
Definition cr_valid (start stop length : option Z) (response : bool) : bool :=
  match start, stop with
  | None, Some _ | Some _, None => false
  | None, None => match length with None => true | Some l => (0 <=? l)%Z end
  | Some s, Some e =>
      match length with
      | None => (0 <=? s)%Z && (s <? e)%Z
      | Some l => if (s >=? e)%Z then false
                  else if response && (e >? l)%Z then false
                  else (0 <=? s)%Z && (s <? l)%Z
      end
  end.

(* ContentRange.parse *)
Definition crange_parse (value : str) : res (option crange) :=
  match rx_content_range value with
  | None => Ok None
  | Some (g1, g2, g3) =>
      let se : res (option Z * option Z) :=
        match g1, g2 with
        | Some d1, Some d2 =>
            match int_or_raise d1 with
            | Raise x => Raise x
            | Ok s => match int_or_raise d2 with
                      | Raise x => Raise x
                      | Ok e => Ok (Some s, Some (e + 1)%Z)
                      end
            end
        | _, _ => Ok (None, None)
        end in
      match se with
      | Raise x => Raise x
      | Ok (s, e) =>
          let rl : res (option Z) :=
            match g3 with
            | Some d3 => match int_or_raise d3 with Raise x => Raise x | Ok l => Ok (Some l) end
            | None => Ok None
            end in
          match rl with
          | Raise x => Raise x
          | Ok l => if cr_valid s e l true then Ok (Some (s, e, l)) else Ok None
          end
      end
  end.

Definition s_bytes_sp : str := s_bytes ++ [32].
Definition oz_str (o : option Z) : str := match o with Some z => str_of_Z z | None => [42] end.

(* ContentRange.__str__ (of a constructed, hence valid, object) *)
Definition crange_str (c : crange) : str :=
  match c with
  | (None, _, l) => s_bytes_sp ++ [42; 47] ++ oz_str l
  | (Some s, Some e, l) => s_bytes_sp ++ str_of_Z s ++ [45] ++ str_of_Z (e - 1) ++ [47] ++ oz_str l
  | (Some s, None, l) => s_bytes_sp ++ str_of_Z s ++ [45] ++ [47] ++ oz_str l     (* unreachable for valid objects *)
  end.

Definition crange_tag : str := [99; 114; 97; 110; 103; 101].
Definition crange_val (o : option crange) : val :=
  match o with
  | None => VNone
  | Some (s, e, l) => VList [VStr crange_tag; oz s; oz e; oz l]
  end.

(* descriptors.parse_content_range *)
Definition parse_content_range (v : option str) : res val :=
  match v with
  | None | Some [] => Ok VNone
  | Some s =>
      match strip_by is_space_str s with
      | [] => Ok VNone
      | _ => match crange_parse s with
             | Ok r => Ok (crange_val r)
             | Raise _ => Ok VNone
             end
      end
  end.
Definition parse_content_range_unguarded (v : option str) : res val :=
  match v with
  | None | Some [] => Ok VNone
  | Some s =>
      match strip_by is_space_str s with
      | [] => Ok VNone
      | _ => match crange_parse s with
             | Ok r => Ok (crange_val r)
             | Raise e => Raise e
             end
      end
  end.

(* ContentRange(start, stop, length) *)
Definition crange_init (s e l : option Z) : res crange :=
  if cr_valid s e l false then Ok (s, e, l) else Raise ValueError.

(* descriptors.serialize_content_range *)
(* .strip(" \t") as repaired by fixes/C12-19: CR and LF stay, for the header setter to refuse *)
Definition is_ows (c : N) : bool := (c =? 32) || (c =? 9).
Definition serialize_content_range (v : pyv) : res (option str) :=
  let finish (t : str) : res (option str) :=
    match strip_by is_ows t with [] => Ok None | t' => Ok (Some t') end in
  match v with
  | PInts [s; e] => match crange_init s e None with Ok c => finish (crange_str c) | Raise x => Raise x end
  | PInts [s; e; l] => match crange_init s e l with Ok c => finish (crange_str c) | Raise x => Raise x end
  | PInts _ => Raise ValueError
  | PCRange s e l => finish (crange_str (s, e, l))
  | PStr t => finish t
  | _ => Raise TypeError
  end.

Definition conv_content_range : conv := mkConv parse_content_range serialize_content_range.
