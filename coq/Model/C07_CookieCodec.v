(* C07 — executable model of the cookie codec of webob/cookies.py and of
   Response.set_cookie (response.py:1001-1098).  Definitions only, no proofs.

   output side : _value_quote, _path_quote (= _domain_quote = _max_age_quote), _valid_cookie_name,
                 serialize_max_age, serialize_samesite, Morsel.serialize, make_cookie, Response.set_cookie
   input side  : _rx_cookie.findall as a hand scanner (lazy key, \s*=\s*, the three value alternatives in
                 their backtracking order), _unquote (_rx_unquote.sub as a left-to-right scanner),
                 parse_cookie, Cookie.load, RequestCookies._cache (utf-8 decode, later pair wins)

   The alphabets and tables come from Gen/C07_tables.v, which harness/props/c07.py regenerates from the
   source tree on every run (and which also checks that _rx_cookie / _rx_unquote still have the structure
   this scanner mirrors).  Characters are N, byte strings are lists of N < 256. *)
From Coq Require Import String.
From Coq Require Import ZArith NArith List Bool.
Require Import Webob.Lib.Val Webob.Lib.PyStr Webob.Lib.C07_Utf8 Webob.Gen.C07_tables.
Import ListNotations.
Local Open Scope N_scope.

(* ------------------------------------------------------------------ results *)
Inductive res (A : Type) :=
| Ok (a : A)
| Raise (exc : str).
Arguments Ok {A} a.
Arguments Raise {A} exc.

Definition AssertionError : str := H "417373657274696f6e4572726f72"%string.
Definition IndexError : str := H "496e6465784572726f72"%string.
Definition ValueError : str := H "56616c75654572726f72"%string.
Definition UnicodeEncodeError : str := H "556e69636f6465456e636f64654572726f72"%string.
Definition UnicodeDecodeError : str := H "556e69636f64654465636f64654572726f72"%string.

(* ------------------------------------------------------------------ alphabets *)
Definition is_allowed (c : N) : bool := mem_n c allowed_cookie_bytes.   (* _allowed_cookie_bytes *)
Definition is_token (c : N) : bool := mem_n c valid_token_bytes.        (* _valid_token_bytes *)
Definition is_legal (c : N) : bool := mem_n c legal_bytes.              (* _re_legal_char *)
(* bytes patterns: \s = [ \t\n\r\f\v], \w = [a-zA-Z0-9_], \d = [0-9] (checked against the live regex by gen) *)
Definition is_ws (c : N) : bool := ((9 <=? c) && (c <=? 13)) || (c =? 32).
Definition is_digit (c : N) : bool := (48 <=? c) && (c <=? 57).
Definition is_word (c : N) : bool :=
  is_digit c || ((65 <=? c) && (c <=? 90)) || ((97 <=? c) && (c <=? 122)) || (c =? 95).
Definition is03 (c : N) : bool := (48 <=? c) && (c <=? 51).
Definition is07 (c : N) : bool := (48 <=? c) && (c <=? 55).

(* bytes.lower(): ASCII only *)
Definition blower_c (c : N) : N := if (65 <=? c) && (c <=? 90) then c + 32 else c.
Definition blower (s : str) : str := map blower_c s.

Fixpoint mem_str (s : str) (l : list str) : bool :=
  match l with [] => false | x :: l' => str_eqb x s || mem_str s l' end.

(* ------------------------------------------------------------------ output side *)
(* _escape_char = _escape_map.__getitem__ ; a missing key is modelled as the empty string and is
   excluded by the table check [escape_tables_total] in Proofs *)
Definition escape_char (c : N) : str := nth (N.to_nat c) escape_map [].
Definition path_escape_char (c : N) : str := nth (N.to_nat c) path_escape_map [].

(* cookies.py _value_quote: leftovers = v.translate(None, allowed); quoted iff leftovers *)
Definition value_quote (v : str) : str :=
  if forallb is_allowed v then v
  else 34 :: flat_map escape_char v ++ [34].

(* cookies.py _path_quote = _domain_quote = _max_age_quote *)
Definition path_quote (v : str) : str := flat_map path_escape_char v.

Definition quote_with (q : quoter) (v : str) : str :=
  match q with QValue => value_quote v | QPath => path_quote v end.

(* cookies.py _valid_cookie_name on a bytes key:
     not (key.translate(None, token) or key[0] == '$' or key.lower() in _c_keys)
   key[0] of the empty key raises IndexError *)
Definition valid_cookie_name_res (key : str) : res bool :=
  if negb (forallb is_token key) then Ok false
  else match key with
       | [] => Raise IndexError
       | c :: _ => Ok (negb ((c =? 36) || mem_str (blower key) c_keys))
       end.
Definition valid_cookie_name (key : str) : bool :=
  match valid_cookie_name_res key with Ok b => b | Raise _ => false end.

(* str(int) *)
Fixpoint digits_of (fuel : nat) (n : N) (acc : str) : str :=
  match fuel with
  | O => acc
  | S f => let acc' := (48 + n mod 10) :: acc in
           if n <? 10 then acc' else digits_of f (n / 10) acc'
  end.
Definition n_to_str (n : N) : str := digits_of (S (N.size_nat n)) n [].
Definition z_to_str (z : Z) : str :=
  match z with
  | Z0 => [48]
  | Zpos p => n_to_str (Npos p)
  | Zneg p => 45 :: n_to_str (Npos p)
  end.

Inductive maxage :=
| MaNone
| MaInt (z : Z)                      (* an int number of seconds *)
| MaDelta (days seconds : Z)         (* datetime.timedelta: .days, .seconds (microseconds are ignored) *)
| MaBad.                             (* anything int() refuses with ValueError ('abc', '', '5.5', nan) *)

Inductive cvalue :=
| CNone                              (* value=None: delete the cookie *)
| CBytes (b : str)                   (* a bytes value *)
| CText (t : list N).                (* a str value, as code points *)

Record request := {
  r_name : list N;                   (* code points of the name *)
  r_value : cvalue;
  r_max_age : maxage;
  r_path : option str;               (* path/domain/comment: latin-1 octets (bytes_(x) of the argument) *)
  r_domain : option str;
  r_secure : bool;
  r_httponly : bool;
  r_comment : option str;
  r_samesite : option str;
  r_date : str                       (* ABSTRACT: what serialize_cookie_date prints for utcnow()+max_age *)
}.

Definition is_ascii (s : list N) : bool := forallb (fun c => c <? 128) s.

(* serialize_samesite with the module flag SAMESITE_VALIDATION as [validate] *)
Definition samesite_ok (s : str) : bool := mem_str (blower s) samesite_values.
Definition is_none (s : str) : bool := str_eqb (blower s) (H "6e6f6e65"%string).

Definition truthy (o : option str) : option str :=
  match o with Some (c :: s) => Some (c :: s) | _ => None end.

Definition join_semi (parts : list str) : str := join [59; 32] parts.

Definition delete_expires : str := H "5765642c2033312d4465632d39372032333a35393a353920474d54"%string.

(* The attribute values stored in the Morsel by make_cookie, keyed like _c_keys *)
Record morsel := {
  m_name : str; m_value : str;
  m_path : option str; m_domain : option str; m_comment : option str; m_maxage : option str;
  m_expires : option str; m_secure : bool; m_httponly : bool; m_samesite : option str
}.

Definition morsel_get (m : morsel) (k : str) : option str :=
  if str_eqb k (H "70617468"%string) then m_path m
  else if str_eqb k (H "646f6d61696e"%string) then m_domain m
  else if str_eqb k (H "636f6d6d656e74"%string) then m_comment m
  else if str_eqb k (H "6d61782d616765"%string) then m_maxage m
  else None.

(* Morsel.serialize(full=True) *)
Definition valued_parts (m : morsel) : list str :=
  flat_map (fun e : str * str * quoter =>
              let '(k, nm, q) := e in
              match truthy (morsel_get m k) with
              | Some v => [nm ++ [61] ++ quote_with q v]
              | None => []
              end) c_renames.

Definition morsel_serialize (m : morsel) : res str :=
  let head := m_name m ++ [61] ++ value_quote (m_value m) in
  let exp := match truthy (m_expires m) with Some e => [H "657870697265733d"%string ++ e] | None => [] end in
  let sec := if m_secure m then [H "736563757265"%string] else [] in
  let ho := if m_httponly m then [H "487474704f6e6c79"%string] else [] in
  match truthy (m_samesite m) with
  | Some ss =>
      if negb (m_secure m) && is_none ss then Raise ValueError
      else
        let line := join_semi ([head] ++ valued_parts m ++ exp ++ sec ++ ho ++ [H "53616d65536974653d"%string ++ ss]) in
        if is_ascii line then Ok line else Raise UnicodeDecodeError
  | None =>
      let line := join_semi ([head] ++ valued_parts m ++ exp ++ sec ++ ho) in
      if is_ascii line then Ok line else Raise UnicodeDecodeError
  end.

(* make_cookie(name, value, max_age, path, domain, secure, httponly, comment, samesite) *)
(* the if/elif chain at the top: value None deletes (max_age = 0, fixed expires in the past); a timedelta is
   days*86400 + seconds; an int is taken as it is; expires = max_age (rendered as a date by the Morsel) *)
Definition mc_secs (r : request) : option Z :=
  match r_value r with
  | CNone => Some 0%Z
  | _ => match r_max_age r with
         | MaDelta d s => Some (d * 86400 + s)%Z
         | MaInt z => Some z
         | MaNone => None
         | MaBad => None
         end
  end.
(* "max_age should be an integer": int(max_age) raises ValueError - unless the cookie is being deleted, where the
   argument is not looked at *)
Definition mc_bad_max_age (r : request) : bool :=
  match r_value r, r_max_age r with
  | CNone, _ => false
  | _, MaBad => true
  | _, _ => false
  end.
Definition mc_expires (r : request) : option str :=
  match r_value r with
  | CNone => Some delete_expires
  | _ => match r_max_age r with
         | MaNone => None
         | MaBad => None
         | _ => Some (r_date r)
         end
  end.
(* Morsel.__init__: bytes_(value, 'ascii') *)
Definition mc_value (r : request) : res str :=
  match r_value r with
  | CNone => Ok []
  | CBytes b => Ok b
  | CText t => if is_ascii t then Ok t else Raise UnicodeEncodeError
  end.
(* morsel.samesite = samesite -> serialize_samesite *)
Definition mc_samesite (validate : bool) (r : request) : res (option str) :=
  match r_samesite r with
  | Some s => if validate then (if samesite_ok s then Ok (Some s) else Raise ValueError)
              else (* validation off: the value is copied verbatim, so it must at least be a token *)
                   if forallb is_token s then Ok (Some s) else Raise ValueError
  | None => Ok None
  end.
Definition mc_morsel (r : request) (vbytes : str) (ss : option str) : morsel :=
  {| m_name := r_name r; m_value := vbytes;
     m_path := r_path r; m_domain := r_domain r; m_comment := r_comment r;
     m_maxage := option_map z_to_str (mc_secs r);
     m_expires := mc_expires r; m_secure := r_secure r; m_httponly := r_httponly r;
     m_samesite := ss |}.

Definition make_cookie (validate : bool) (r : request) : res str :=
  if mc_bad_max_age r then Raise ValueError else
  (* Morsel(name, value): both through bytes_(x, 'ascii'), then the _valid_cookie_name(name) check *)
  if negb (is_ascii (r_name r)) then Raise UnicodeEncodeError
  else
  match mc_value r with
  | Raise e => Raise e
  | Ok vbytes =>
  match valid_cookie_name_res (r_name r) with
  | Raise e => Raise e
  | Ok false => Raise AssertionError
  | Ok true =>
      match mc_samesite validate r with
      | Raise e => Raise e
      | Ok ss => morsel_serialize (mc_morsel r vbytes ss)
      end
  end
  end.

(* Response.set_cookie: value = bytes_(value, 'utf-8') then make_cookie *)
Definition set_cookie (validate : bool) (r : request) : res str :=
  match r_value r with
  | CText t =>
      match utf8_encode t with
      | Some b => make_cookie validate {| r_name := r_name r; r_value := CBytes b; r_max_age := r_max_age r;
                                         r_path := r_path r; r_domain := r_domain r; r_secure := r_secure r;
                                         r_httponly := r_httponly r; r_comment := r_comment r;
                                         r_samesite := r_samesite r; r_date := r_date r |}
      | None => Raise UnicodeEncodeError
      end
  | _ => make_cookie validate r
  end.

(* ------------------------------------------------------------------ input side *)
(* _rx_unquote.sub(_ch_unquote, v):  \\([0-3][0-7][0-7]|.)  scanned left to right *)
Definition unq_oct (a b d : N) : N := nth (N.to_nat ((a - 48) * 64 + (b - 48) * 8 + (d - 48))) ch_unquote_oct 0.
Definition unq_single (a : N) : N := nth (N.to_nat a) ch_unquote_single 0.

Fixpoint unq_scan (s : str) : str :=
  match s with
  | [] => []
  | c :: s1 =>
      if c =? 92 then
        match s1 with
        | [] => [c]
        | a :: s2 =>
            match s2 with
            | b :: d :: s4 =>
                if is03 a && is07 b && is07 d then unq_oct a b d :: unq_scan s4
                else if a =? 10 then c :: unq_scan s1
                else unq_single a :: unq_scan s2
            | _ =>
                if a =? 10 then c :: unq_scan s1
                else unq_single a :: unq_scan s2
            end
        end
      else c :: unq_scan s1
  end.

(* _unquote: strip one pair of surrounding double quotes (v[0] == v[-1] == DQUOTE), then unescape *)
Definition strip_quotes (v : str) : str :=
  match v with
  | [] => []
  | c :: t => if (c =? 34) && (last v 0 =? 34) then removelast t else v
  end.
Definition unquote (v : str) : str := unq_scan (strip_quotes v).

(* --- _rx_cookie, writing Q for the double quote and B for the backslash:
     (LEGAL+?) \s*=\s* ( Q(?:BQ|.)*?Q | \w{3},\s[\w\d-]{9,11}\s[\d:]{8}\sGMT | (?:LEGAL|B(?:[0-3][0-7][0-7]|.))* ) *)

Definition skip_ws (s : str) : str := drop_while is_ws s.

(* \s*=\s* ; the value alternatives always match (the third may be empty), so there is no backtracking
   into the white space *)
Definition eq_sep (s : str) : option str :=
  match skip_ws s with
  | c :: r => if c =? 61 then Some (skip_ws r) else None
  | [] => None
  end.

(* lazy key: the shortest non-empty run of legal characters that is followed by \s*= *)
Fixpoint match_key (s : str) : option (str * str) :=
  match s with
  | [] => None
  | c :: s1 =>
      if is_legal c then
        match eq_sep s1 with
        | Some r => Some ([c], r)
        | None => match match_key s1 with
                  | Some (k, r) => Some (c :: k, r)
                  | None => None
                  end
        end
      else None
  end.

Definition pre {A} (c : N) (o : option (str * A)) : option (str * A) :=
  match o with Some (b, r) => Some (c :: b, r) | None => None end.

(* alternative 1, after the opening quote: lazy (?:BQ|.)*? then the closing quote.  Returns the body
   including the closing quote.  When the scan after a BQ pair fails, the engine backtracks to that pair,
   lets '.' take the backslash and closes at the quote. *)
Fixpoint q_body (s : str) : option (str * str) :=
  match s with
  | [] => None
  | c :: s1 =>
      if c =? 34 then Some ([34], s1)
      else if c =? 92 then
        match s1 with
        | d :: s2 =>
            if d =? 34 then
              match q_body s2 with
              | Some (b, r) => Some (92 :: 34 :: b, r)
              | None => Some ([92; 34], s2)
              end
            else pre c (q_body s1)
        | [] => None
        end
      else if c =? 10 then None
      else pre c (q_body s1)
  end.

Definition alt_quoted (s : str) : option (str * str) :=
  match s with
  | c :: s1 => if c =? 34 then pre 34 (q_body s1) else None
  | [] => None
  end.

(* exactly n characters satisfying p *)
Fixpoint take_exact (p : N -> bool) (n : nat) (s : str) : option (str * str) :=
  match n with
  | O => Some ([], s)
  | S n' => match s with
            | c :: s1 => if p c then pre c (take_exact p n' s1) else None
            | [] => None
            end
  end.

(* at most n characters satisfying p (greedy) *)
Fixpoint take_upto (p : N -> bool) (n : nat) (s : str) : str * str :=
  match n with
  | O => ([], s)
  | S n' => match s with
            | c :: s1 => if p c then let '(a, r) := take_upto p n' s1 in (c :: a, r) else ([], s)
            | [] => ([], s)
            end
  end.

Definition one (p : N -> bool) (s : str) : option (str * str) :=
  match s with c :: s1 => if p c then Some ([c], s1) else None | [] => None end.

Definition seq2 (f g : str -> option (str * str)) (s : str) : option (str * str) :=
  match f s with
  | Some (a, r) => match g r with Some (b, r') => Some (a ++ b, r') | None => None end
  | None => None
  end.

Definition is_datec (c : N) : bool := is_word c || (c =? 45).
Definition is_timec (c : N) : bool := is_digit c || (c =? 58).

(* alternative 2: \w{3},\s[\w\d-]{9,11}\s[\d:]{8}\sGMT.  The class [\w\d-] and \s are disjoint, so the
   greedy {9,11} never gives anything back usefully: the run (cut at 11) must be followed by \s. *)
Definition date_run (s : str) : option (str * str) :=
  let '(a, r) := take_upto is_datec 11 s in
  if (9 <=? length a)%nat then Some (a, r) else None.

Definition alt_expires (s : str) : option (str * str) :=
  seq2 (take_exact is_word 3)
  (seq2 (one (N.eqb 44))
  (seq2 (one is_ws)
  (seq2 date_run
  (seq2 (one is_ws)
  (seq2 (take_exact is_timec 8)
  (seq2 (one is_ws)
  (seq2 (one (N.eqb 71)) (seq2 (one (N.eqb 77)) (one (N.eqb 84)))))))))) s.

(* alternative 3: greedy (?:LEGAL|\\(?:[0-3][0-7][0-7]|.))*, nothing follows it in the pattern *)
Definition pre2 (l : str) (p : str * str) : str * str := (l ++ fst p, snd p).

Fixpoint u_body (s : str) : str * str :=
  match s with
  | [] => ([], [])
  | c :: s1 =>
      if is_legal c then pre2 [c] (u_body s1)
      else if c =? 92 then
        match s1 with
        | [] => ([], s)
        | a :: s2 =>
            match s2 with
            | b :: d :: s4 =>
                if is03 a && is07 b && is07 d then pre2 [c; a; b; d] (u_body s4)
                else if a =? 10 then ([], s)
                else pre2 [c; a] (u_body s2)
            | _ =>
                if a =? 10 then ([], s)
                else pre2 [c; a] (u_body s2)
            end
        end
      else ([], s)
  end.

Definition match_val (s : str) : str * str :=
  match alt_quoted s with
  | Some p => p
  | None => match alt_expires s with
            | Some p => p
            | None => u_body s
            end
  end.

Definition match_at (s : str) : option (str * str * str) :=
  match match_key s with
  | Some (k, r) => let '(v, r') := match_val r in Some (k, v, r')
  | None => None
  end.

(* findall: leftmost match, continue after it; no match at this position: move one character on.
   A match is never empty, so [length s] steps always suffice; fuel = S (length s). *)
Fixpoint findall_fuel (fuel : nat) (s : str) : list (str * str) :=
  match fuel with
  | O => []
  | S f =>
      match s with
      | [] => []
      | _ :: s1 =>
          match match_at s with
          | Some (k, v, r) => (k, v) :: findall_fuel f r
          | None => findall_fuel f s1
          end
      end
  end.
Definition findall (s : str) : list (str * str) := findall_fuel (S (length s)) s.

(* _parse_cookie / parse_cookie *)
Definition parse_cookie_raw (s : str) : list (str * str) :=
  map (fun kv => (fst kv, unquote (snd kv))) (findall s).
Definition parse_cookie (s : str) : list (str * str) :=
  filter (fun kv => valid_cookie_name (fst kv)) (parse_cookie_raw s).

(* dict assignment d[k] = v on an insertion-ordered association list *)
Fixpoint dict_set {B} (k : str) (v : B) (d : list (str * B)) : list (str * B) :=
  match d with
  | [] => [(k, v)]
  | (k', v') :: d' => if str_eqb k' k then (k', v) :: d' else (k', v') :: dict_set k v d'
  end.

(* RequestCookies._cache: {d(k): d(v) for k, v in parse_cookie(header)} with d = utf-8 decode *)
Fixpoint cache_fold (ps : list (str * str)) (d : list (str * list N)) : res (list (str * list N)) :=
  match ps with
  | [] => Ok d
  | (k, v) :: ps' =>
      match utf8_decode k, utf8_decode v with
      | Some k', Some v' => cache_fold ps' (dict_set k' v' d)
      | _, _ => Raise UnicodeDecodeError
      end
  end.
Definition request_cookies (hdr : str) : res (list (str * list N)) := cache_fold (parse_cookie hdr) [].

Fixpoint dict_get {B} (k : str) (d : list (str * B)) : option B :=
  match d with
  | [] => None
  | (k', v) :: d' => if str_eqb k' k then Some v else dict_get k d'
  end.

(* Cookie.load: attribute keys go to the current morsel, anything else starts a new morsel (an invalid
   name starts a throw-away one) *)
Record pmorsel := { pm_name : str; pm_value : str; pm_attrs : list (str * str); pm_live : bool }.

Definition pm_set (k v : str) (m : pmorsel) : pmorsel :=
  {| pm_name := pm_name m; pm_value := pm_value m; pm_attrs := dict_set (blower k) v (pm_attrs m); pm_live := pm_live m |}.

(* cookies are kept as a dict name -> morsel; the morsel being filled is the last one added (or a dummy) *)
Fixpoint load_go (ps : list (str * str)) (cur : option pmorsel) (d : list (str * pmorsel))
  : list (str * pmorsel) :=
  let flush cur d := match cur with
                     | Some m => if pm_live m then dict_set (pm_name m) m d else d
                     | None => d
                     end in
  match ps with
  | [] => flush cur d
  | (k, v) :: ps' =>
      if mem_str (blower k) c_keys then
        load_go ps' (option_map (pm_set k v) cur) d
      else
        let d' := flush cur d in
        if valid_cookie_name k
        then load_go ps' (Some {| pm_name := k; pm_value := v; pm_attrs := []; pm_live := true |}) d'
        else load_go ps' (Some {| pm_name := k; pm_value := v; pm_attrs := []; pm_live := false |}) d'
  end.
Definition cookie_load (s : str) : list (str * pmorsel) := load_go (parse_cookie_raw s) None [].

(* ------------------------------------------------------------------ observation values for the harness *)
Definition res_val {A} (f : A -> val) (r : res A) : val :=
  match r with Ok a => f a | Raise e => VErr e end.
Definition pairs_val (l : list (str * str)) : val :=
  VList (map (fun kv => VList [VStr (fst kv); VStr (snd kv)]) l).
(* attributes that are set, in the order of sorted(_c_keys) *)
Definition attrs_val (a : list (str * str)) : val :=
  VList (flat_map (fun k => match dict_get k a with Some v => [VList [VStr k; VStr v]] | None => [] end) c_keys).
Definition cookie_val (l : list (str * pmorsel)) : val :=
  VList (map (fun km => VList [VStr (pm_name (snd km)); VStr (pm_value (snd km)); attrs_val (pm_attrs (snd km))]) l).
Definition text_pairs_val (l : list (str * list N)) : val :=
  VList (map (fun kv => VList [VStr (fst kv); VStr (snd kv)]) l).
