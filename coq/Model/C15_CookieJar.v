(* C15 — executable model of the cookie-jar operations.  Definitions only, no proofs.

   Request side (cookies.py:32-160 RequestCookies, request.py:869-881 request.cookies getter/setter), with the
   REPAIRED _mutate_header (fixes/C15-1-…, C15-2-…): matches are visited from the last to the first; an
   assignment replaces the span of the LAST pair carrying the name (the one RequestCookies reads back), a
   deletion removes EVERY pair carrying the name together with the " ;" run in front of it, never cutting into
   the previous pair; nothing found + assignment = append with "; ".

   Response side (response.py:1001-1165 set_cookie / delete_cookie / unset_cookie / merge_cookies,
   cookies.py make_cookie / Morsel.serialize), with the REPAIRED unset_cookie (fixes/C15-3-…): the Set-Cookie
   headers whose first pair carries the name are removed from the header list in place, every other header is
   left exactly as it is.

   The text codec (str.encode('utf-8') / bytes.decode('utf8')) is CPython's: it is a Section variable here; the
   correspondence check instantiates it with Lib/C15_Utf8.v, the theorems assume only decode-after-encode. *)
From Coq Require Import String.
From Coq Require Import ZArith NArith List Bool.
Require Import Webob.Lib.Val Webob.Lib.PyStr Webob.Lib.C15_Utf8 Webob.Gen.C15_tables Webob.Model.C15_Scan.
Import ListNotations.
Local Open Scope N_scope.

Definition text := list N.          (* a Python str, as code points *)

Section Jar.
  Variable enc : text -> option str.      (* str.encode('utf-8'): None = UnicodeEncodeError *)
  Variable dec : str -> option text.      (* bytes.decode('utf8'): None = UnicodeDecodeError *)

  (* ================================================================ request side *)

  (* RequestCookies._cache: {d(k): d(v) for k, v in parse_cookie(header)}; later pair wins, first position kept *)
  Fixpoint cache_fold (ps : list (str * str)) (d : list (text * text)) : res (list (text * text)) :=
    match ps with
    | [] => Ok d
    | (k, v) :: ps' =>
        match dec k, dec v with
        | Some k', Some v' => cache_fold ps' (dict_set k' v' d)
        | _, _ => Raise UnicodeDecodeError
        end
    end.

  (* the environ entry HTTP_COOKIE: absent or a native string (latin-1 code points) *)
  Definition jar := option str.
  Definition header_of (st : jar) : str := match st with Some h => h | None => [] end.

  Definition request_cookies (st : jar) : res (list (text * text)) :=
    let hdr := header_of st in
    if negb (is_latin1 hdr) then Raise UnicodeEncodeError
    else cache_fold (parse_cookie hdr) [].

  (* bytes.rstrip(b" ;") *)
  Definition is_sp_semi (c : N) : bool := (c =? 32) || (c =? 59).
  Definition rstrip_sp_semi (s : str) : str := rstrip_by is_sp_semi s.

  (* for i in reversed(range(len(matches))): … replace the first hit (= last pair), break.
     Returns the rebuilt text up to the end of the last match, and [found]. *)
  Fixpoint mut_replace (name repl : str) (es : list entry) : str * bool :=
    match es with
    | [] => ([], false)
    | e :: es' =>
        let '(rest, found) := mut_replace name repl es' in
        if found then (e_gap e ++ e_text e ++ rest, true)
        else if str_eqb (e_key e) name then (e_gap e ++ repl ++ rest, true)
        else (e_gap e ++ e_text e ++ rest, false)
    end.

  (* … remove every hit: header[:prev_end] + header[prev_end:start].rstrip(b" ;") + header[end:] *)
  Fixpoint mut_remove (name : str) (es : list entry) : str * bool :=
    match es with
    | [] => ([], false)
    | e :: es' =>
        let '(rest, found) := mut_remove name es' in
        if str_eqb (e_key e) name then (rstrip_sp_semi (e_gap e) ++ rest, true)
        else (e_gap e ++ e_text e ++ rest, found)
    end.

  (* RequestCookies._mutate_header(name, value); name already validated (ASCII octets) *)
  Definition mutate_header (st : jar) (name : str) (value : option text) : res (jar * bool) :=
    let had := match st with Some _ => true | None => false end in
    let header := header_of st in
    if negb (is_latin1 header) then Raise UnicodeEncodeError
    else
      match (match value with
             | None => Ok None
             | Some t => match enc t with
                         | Some b => Ok (Some (name ++ 61 :: value_quote b))
                         | None => Raise UnicodeEncodeError
                         end
             end) with
      | Raise e => Raise e
      | Ok repl =>
          let '(es, tail) := scan header in
          let '(h1, found) := match repl with
                              | None => mut_remove name es
                              | Some r => mut_replace name r es
                              end in
          let h2 := if found then h1 ++ tail
                    else match repl with
                         | Some r => match header with [] => r | _ => header ++ [59; 32] ++ r end
                         | None => header
                         end in
          Ok (match h2 with
              | [] => if had then Some [] else None
              | _ => Some h2
              end, found)
      end.

  (* RequestCookies._valid_cookie_name: None = the argument is not a str *)
  Definition check_name (name : option text) : res str :=
    match name with
    | None => Raise TypeError
    | Some n =>
        if negb (is_ascii n) then Raise TypeError
        else match valid_cookie_name_res n with
             | Raise e => Raise e
             | Ok false => Raise TypeError
             | Ok true => Ok n
             end
    end.

  (* __setitem__ (value None = not a str) *)
  Definition jar_set (st : jar) (name value : option text) : jar * res unit :=
    match check_name name with
    | Raise e => (st, Raise e)
    | Ok n =>
        match value with
        | None => (st, Raise ValueError)
        | Some v =>
            match mutate_header st n (Some v) with
            | Raise e => (st, Raise e)
            | Ok (st', _) => (st', Ok tt)
            end
        end
    end.

  (* __delitem__ *)
  Definition jar_del (st : jar) (name : option text) : jar * res unit :=
    match check_name name with
    | Raise e => (st, Raise e)
    | Ok n =>
        match mutate_header st n None with
        | Raise e => (st, Raise e)
        | Ok (st', true) => (st', Ok tt)
        | Ok (st', false) => (st', Raise KeyError)
        end
    end.

  (* MutableMapping.update(dict): self[k] = v in turn, stopping at the first exception *)
  Fixpoint jar_update (st : jar) (ps : list (text * text)) : jar * res unit :=
    match ps with
    | [] => (st, Ok tt)
    | (k, v) :: ps' =>
        match jar_set st (Some k) (Some v) with
        | (st', Ok _) => jar_update st' ps'
        | (st', Raise e) => (st', Raise e)
        end
    end.

  Inductive rop :=
  | RSet (name value : option text)       (* req.cookies[name] = value *)
  | RDel (name : option text)             (* del req.cookies[name] *)
  | RClear                                (* req.cookies.clear() *)
  | RAssign (ps : list (text * text)).    (* req.cookies = dict(ps) *)

  Definition rstep (st : jar) (o : rop) : jar * res unit :=
    match o with
    | RSet n v => jar_set st n v
    | RDel n => jar_del st n
    | RClear => (Some [], Ok tt)
    | RAssign ps =>
        (* repaired (fixes/C15-4, C15-6): val = dict(val); the new header is written aside, RequestCookies({}).update(val),
           and installed only when every name and value was accepted *)
        match jar_update None ps with
        | (st', Ok _) => (st', Ok tt)
        | (_, Raise e) => (st, Raise e)
        end
    end.

  Definition rrun (ops : list rop) (st : jar) : jar := fold_left (fun s o => fst (rstep s o)) ops st.

  (* ================================================================ response side *)
  Record ckargs := mkArgs {
    a_name : text;
    a_value : option text;                 (* None: value=None *)
    a_max_age : option Z;                  (* None or an int *)
    a_path : option text; a_domain : option text; a_comment : option text;   (* str or None *)
    a_secure : bool; a_httponly : bool;
    a_samesite : option text;
    a_date : str;                          (* ABSTRACT: what serialize_cookie_date prints for utcnow()+max_age *)
    a_validate : bool                      (* CONFIGURATION: webob.cookies.SAMESITE_VALIDATION when the call is made *)
  }.

  (* str(int) *)
  Fixpoint digits_of (fuel : nat) (n : N) (acc : str) : str :=
    match fuel with
    | O => acc
    | S f => let acc' := (48 + n mod 10) :: acc in
             if n <? 10 then acc' else digits_of f (n / 10) acc'
    end.
  Definition n_to_str (n : N) : str := digits_of (S (N.size_nat n)) n [].
  Definition z_to_str (z : Z) : str :=
    match z with
    | Z0 => [48]
    | Zpos p => n_to_str (Npos p)
    | Zneg p => 45 :: n_to_str (Npos p)
    end.

  Definition samesite_ok (s : str) : bool := mem_str (blower s) samesite_values.
  Definition is_none (s : str) : bool := str_eqb (blower s) (H "6e6f6e65"%string).
  Definition truthy (o : option str) : option str :=
    match o with Some (c :: s) => Some (c :: s) | _ => None end.
  Definition join_semi (parts : list str) : str := join [59; 32] parts.
  Definition delete_expires : str := H "5765642c2033312d4465632d39372032333a35393a353920474d54"%string.

  Record morsel := mkMorsel {
    m_name : str; m_value : str;
    m_path : option str; m_domain : option str; m_comment : option str; m_maxage : option str;
    m_expires : option str; m_secure : bool; m_httponly : bool; m_samesite : option str
  }.

  Definition morsel_get (m : morsel) (k : str) : option str :=
    if str_eqb k (H "70617468"%string) then m_path m
    else if str_eqb k (H "646f6d61696e"%string) then m_domain m
    else if str_eqb k (H "636f6d6d656e74"%string) then m_comment m
    else if str_eqb k (H "6d61782d616765"%string) then m_maxage m
    else None.

  Definition valued_parts (m : morsel) : list str :=
    flat_map (fun e : str * str * bool =>
                let '(k, nm, isv) := e in
                match truthy (morsel_get m k) with
                | Some v => [nm ++ [61] ++ (if isv then value_quote v else path_quote v)]
                | None => []
                end) c_renames.

  (* Morsel.serialize(full=True) *)
  Definition morsel_serialize (m : morsel) : res str :=
    let head := m_name m ++ [61] ++ value_quote (m_value m) in
    let exp := match truthy (m_expires m) with Some e => [H "657870697265733d"%string ++ e] | None => [] end in
    let sec := if m_secure m then [H "736563757265"%string] else [] in
    let ho := if m_httponly m then [H "487474704f6e6c79"%string] else [] in
    match truthy (m_samesite m) with
    | Some ss =>
        if negb (m_secure m) && is_none ss then Raise ValueError
        else
          (* text_(b"; ".join(result), "ascii"): only a free-form SameSite (validation off) can be non-ASCII *)
          let line := join_semi ([head] ++ valued_parts m ++ exp ++ sec ++ ho ++ [H "53616d65536974653d"%string ++ ss]) in
          if is_ascii ss then Ok line else Raise UnicodeDecodeError
    | None => Ok (join_semi ([head] ++ valued_parts m ++ exp ++ sec ++ ho))
    end.

  Definition latin1_opt (o : option text) : res (option str) :=
    match o with
    | None => Ok None
    | Some t => if is_latin1 t then Ok (Some t) else Raise UnicodeEncodeError
    end.

  (* make_cookie(name, value, …) with value already bytes or None; SAMESITE_VALIDATION = a_validate *)
  Definition make_cookie (a : ckargs) (value : option str) : res str :=
    let '(vbytes, max_age, expires) :=
      match value with
      | None => ([], Some 0%Z, Some delete_expires)
      | Some b => match a_max_age a with
                  | Some z => (b, Some z, Some (a_date a))
                  | None => (b, None, None)
                  end
      end in
    if negb (is_ascii (a_name a)) then Raise UnicodeEncodeError
    else
    match valid_cookie_name_res (a_name a) with
    | Raise e => Raise e
    | Ok false => Raise AssertionError
    | Ok true =>
    match latin1_opt (a_domain a) with Raise e => Raise e | Ok dom =>
    match latin1_opt (a_path a) with Raise e => Raise e | Ok pth =>
    match latin1_opt (a_comment a) with Raise e => Raise e | Ok com =>
    match latin1_opt (a_samesite a) with Raise e => Raise e | Ok ss =>
    match (match ss with
           | Some s =>
               (* serialize_samesite: strict/lax/none under validation, any TOKEN (or nothing) without *)
               if (if a_validate a then negb (samesite_ok s) else negb (forallb is_token s))
               then Raise ValueError else Ok tt
           | None => Ok tt
           end) with
    | Raise e => Raise e
    | Ok _ =>
        morsel_serialize (mkMorsel (a_name a) vbytes pth dom com (option_map z_to_str max_age)
                                   expires (a_secure a) (a_httponly a) ss)
    end end end end end
    end.

  Definition headerlist := list (str * str).
  Definition set_cookie_key : str := H "5365742d436f6f6b6965"%string.             (* "Set-Cookie" *)
  Definition is_set_cookie (k : str) : bool := str_eqb (lower k) (H "7365742d636f6f6b6965"%string).
  (* ResponseHeaders.getall("Set-Cookie") *)
  Definition cookie_lines (hl : headerlist) : list str := map snd (filter (fun kv => is_set_cookie (fst kv)) hl).

  (* next((key for key, _ in _parse_cookie(header)), None): group(1) of the first match *)
  Definition line_name (line : str) : option str :=
    match fst (scan line) with e :: _ => Some (e_key e) | [] => None end.
  Definition sets_name (bname line : str) : bool :=
    match line_name line with Some k => str_eqb k bname | None => false end.

  (* Response.unset_cookie(name, strict) — repaired *)
  Definition unset_cookie (hl : headerlist) (name : text) (strict : bool) : headerlist * res unit :=
    let existing := cookie_lines hl in
    match existing, strict with
    | [], false => (hl, Ok tt)
    | _, _ =>
        match enc name with
        | None => (hl, Raise UnicodeEncodeError)
        | Some bname =>
            if existsb (sets_name bname) existing
            then (filter (fun kv => negb (is_set_cookie (fst kv) && sets_name bname (snd kv))) hl, Ok tt)
            else if strict then (hl, Raise KeyError) else (hl, Ok tt)
        end
    end.

  (* Response.set_cookie(name, value, …, overwrite) — repaired (fixes/C15-5): the line is made first, the old cookie
     of that name goes only once the arguments have been accepted *)
  Definition set_cookie (hl : headerlist) (a : ckargs) (overwrite : bool) : headerlist * res unit :=
    match (match a_value a with
           | None => Ok None
           | Some t => match enc t with Some b => Ok (Some b) | None => Raise UnicodeEncodeError end
           end) with
    | Raise e => (hl, Raise e)
    | Ok value =>
        match make_cookie a value with
        | Raise e => (hl, Raise e)
        | Ok line =>
            match (if overwrite then unset_cookie hl (a_name a) false else (hl, Ok tt)) with
            | (hl1, Raise e) => (hl1, Raise e)
            | (hl1, Ok _) => (hl1 ++ [(set_cookie_key, line)], Ok tt)
            end
        end
    end.

  (* Response.delete_cookie(name, path, domain) = set_cookie(name, None, path=path, domain=domain) *)
  Definition delete_args (name : text) (path domain : option text) : ckargs :=
    mkArgs name None None path domain None false false None [] true.
  Definition delete_cookie (hl : headerlist) (name : text) (path domain : option text) : headerlist * res unit :=
    set_cookie hl (delete_args name path domain) false.

  (* self.merge_cookies(resp) for a Response resp: returns the new header list of resp *)
  Definition last_cookie_line (hl : headerlist) : option str :=
    match rev (cookie_lines hl) with l :: _ => Some l | [] => None end.
  Definition merge_cookies (self other : headerlist) : headerlist :=
    match last_cookie_line self with
    | None | Some [] => other
    | Some _ => other ++ map (fun l => (set_cookie_key, l)) (cookie_lines self)
    end.

  (* self.merge_cookies(app) for a plain WSGI callable: the Set-Cookie pairs of this response are captured NOW
     (c_headers); None = nothing to merge, the application itself is returned *)
  Definition merge_app_headers (self : headerlist) : option headerlist :=
    match last_cookie_line self with
    | None | Some [] => None
    | Some _ => Some (filter (fun kv => is_set_cookie (fst kv)) self)
    end.
  (* what the wrapped application passes on to the server's start_response when the application itself hands over
     [apph]: a NEW list, headers + c_headers; the application's own list object is not touched *)
  Definition wrapped_answer (c : option headerlist) (apph : headerlist) : headerlist :=
    match c with None => apph | Some ch => apph ++ ch end.

  Inductive xop :=
  | XSet (who : bool) (a : ckargs) (overwrite : bool)
  | XDelete (who : bool) (name : text) (path domain : option text)
  | XUnset (who : bool) (name : text) (strict : bool)
  | XMerge (from : bool)                    (* responses[from].merge_cookies(responses[not from]) *)
  | XMergeSelf (who : bool)                 (* resp.merge_cookies(resp): the very same object *)
  | XAddRaw (who : bool) (key line : str).  (* resp.headers.add(key, line): a header written by other code *)

  Definition xstate := (headerlist * headerlist)%type.
  Definition pick (who : bool) (s : xstate) : headerlist := if who then snd s else fst s.
  Definition put (who : bool) (s : xstate) (hl : headerlist) : xstate := if who then (fst s, hl) else (hl, snd s).

  Definition xstep (s : xstate) (o : xop) : xstate * res unit :=
    match o with
    | XSet w a ov => let '(hl, r) := set_cookie (pick w s) a ov in (put w s hl, r)
    | XDelete w n p d => let '(hl, r) := delete_cookie (pick w s) n p d in (put w s hl, r)
    | XUnset w n st => let '(hl, r) := unset_cookie (pick w s) n st in (put w s hl, r)
    | XMerge f => (put (negb f) s (merge_cookies (pick f s) (pick (negb f) s)), Ok tt)
    | XMergeSelf w => (put w s (merge_cookies (pick w s) (pick w s)), Ok tt)
    | XAddRaw w k l => (put w s (pick w s ++ [(k, l)]), Ok tt)
    end.

  (* ================================================================ observations for the harness *)
  Definition unit_val (r : res unit) : val := match r with Ok _ => VNone | Raise e => VErr e end.
  Definition jar_val (st : jar) : val := match st with Some h => VStr h | None => VNone end.
  Definition dict_val (r : res (list (text * text))) : val :=
    res_val (fun d => VList (map (fun kv => VList [VStr (fst kv); VStr (snd kv)]) d)) r.

  (* after every step: what the operation returned/raised, environ.get('HTTP_COOKIE'), dict(req.cookies) *)
  Fixpoint run_request (st : jar) (ops : list rop) : list val :=
    match ops with
    | [] => []
    | o :: ops' =>
        let '(st', r) := rstep st o in
        VList [unit_val r; jar_val st'; dict_val (request_cookies st')] :: run_request st' ops'
    end.

  Definition hl_val (hl : headerlist) : val := pairs_val hl.
  Fixpoint run_response (s : xstate) (ops : list xop) : list val :=
    match ops with
    | [] => []
    | o :: ops' =>
        let '(s', r) := xstep s o in
        VList [unit_val r; hl_val (fst s'); hl_val (snd s')] :: run_response s' ops'
    end.

  (* merge_cookies onto a plain WSGI application whose own header list is [apph]: the wrapped and the bare application
     are called again and again, operations on the responses in between; after every call: what start_response
     received, and the application's own list; at the end the application's own list once more *)
  Inductive acall :=
  | ACallWrapped
  | ACallBare
  | AOp (o : xop).

  Fixpoint run_app (s : xstate) (c : option headerlist) (apph : headerlist) (calls : list acall) : list val :=
    match calls with
    | [] => [hl_val apph]
    | ACallWrapped :: r => VList [hl_val (wrapped_answer c apph); hl_val apph] :: run_app s c apph r
    | ACallBare :: r => VList [hl_val apph; hl_val apph] :: run_app s c apph r
    | AOp o :: r => let '(s', res) := xstep s o in VList [unit_val res; hl_val (fst s')] :: run_app s' c apph r
    end.

  Definition run_merge_app (s : xstate) (pre : list xop) (apph : headerlist) (calls : list acall) : list val :=
    let s1 := fold_left (fun s o => fst (xstep s o)) pre s in
    hl_val (fst s1) :: run_app s1 (merge_app_headers (fst s1)) apph calls.
End Jar.

(* the instances the correspondence check runs *)
Definition run_request_u (st : option str) (ops : list rop) : val :=
  VList (VList [jar_val st; dict_val (request_cookies utf8_decode st)] :: run_request utf8_encode utf8_decode st ops).
Definition run_response_u (s : list (str * str) * list (str * str)) (ops : list xop) : val :=
  VList (run_response utf8_encode s ops).
Definition run_merge_app_u (c : (list (str * str) * list (str * str)) * list xop * (list (str * str) * list acall)) : val :=
  VList (run_merge_app utf8_encode (fst (fst c)) (snd (fst c)) (fst (snd c)) (snd (snd c))).
