(* C01 — descriptors.converter(prop, parse, serialize).fset over an environ_getter property (request.range,
   request.if_range, and the int / date / auth attributes): the typed value is serialised, and the text -- or None --
   is handed to the underlying setter, which stores the text or REMOVES the key (C01_EnvView.OGetterSet).
   Definitions only.

     def fset(r, val):
         if val is not None:
             val = serialize(val)
         hset(r, val)

   serialize_if_range:  value = str(value) (serialize_date for dates); return value or None      = ser_nonempty
   serialize_range:     if not value: return None; ... return str(Range)                         = ser_falsy_none *)
From Coq Require Import List.
Require Import Webob.Lib.Val Webob.Model.C01_EnvView.
Import ListNotations.

Section Converter.
  Variable P CCOP V : Type.

  Definition ser_nonempty (text : V -> str) (v : V) : option str :=
    match text v with [] => None | _ :: _ => Some (text v) end.

  Definition ser_falsy_none (falsy : V -> bool) (text : V -> str) (v : V) : option str :=
    if falsy v then None else Some (text v).

  Definition conv_fset (serialize : V -> option str) (k : str) (val : option V) : op P CCOP :=
    OGetterSet P CCOP k (match val with None => None | Some v => serialize v end).
End Converter.
Arguments ser_nonempty {V} text v.
Arguments ser_falsy_none {V} falsy text v.
