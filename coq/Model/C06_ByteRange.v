(* C06 — executable model of webob.byterange (byterange.py:5-86, 143-157) as repaired by
   fixes/C06-*.patch: the `_rx_range` scanner (anchored), Range.parse, Range.range_for_length,
   Range.content_range, Range.__str__, ContentRange.__str__, _is_content_range_valid.
   Python ints are [Z], None is [option].  Definitions only (no proofs).
   Domain: header text made of code points < 256 (WSGI native strings), so that `\d` is [0-9] and
   re.I on "bytes" is ASCII case folding. *)
From Coq Require Import ZArith NArith List Bool.
Require Import Webob.Lib.Val.
Import ListNotations.
Local Open Scope Z_scope.

(* ---------------------------------------------------------------- decimal text <-> int *)
Definition is_digit (c : N) : bool := ((48 <=? c) && (c <=? 57))%N.

(* int(s) for a string of ASCII digits *)
Definition dec_val (s : str) : Z :=
  fold_left (fun acc c => acc * 10 + (Z.of_N c - 48)) s 0.

(* str(n) for n >= 0: digits, most significant first *)
Fixpoint pos_digits (fuel : nat) (n : Z) (acc : str) : str :=
  match fuel with
  | O => acc
  | S k =>
      let acc' := Z.to_N (48 + n mod 10) :: acc in
      if n / 10 =? 0 then acc' else pos_digits k (n / 10) acc'
  end.
Definition nat_str (n : Z) : str := pos_digits (S (Z.to_nat (Z.log2 n))) n [].
(* str(n) for any int *)
Definition int_str (n : Z) : str := if n <? 0 then 45%N :: nat_str (- n) else nat_str n.

(* ---------------------------------------------------------------- _rx_range.match *)
Fixpoint span (f : N -> bool) (s : str) : str * str :=
  match s with
  | [] => ([], [])
  | c :: s' => if f c then let '(a, b) := span f s' in (c :: a, b) else ([], s)
  end.
Definition drop_sp (s : str) : str := snd (span (fun c => (c =? 32)%N) s).

(* one pattern letter under re.IGNORECASE (ASCII letters, text < 256) *)
Definition ci_eq (lc : N) (c : N) : bool := ((c =? lc) || (c =? lc - 32))%N.
Fixpoint ci_prefix (p s : str) : option str :=
  match p with
  | [] => Some s
  | a :: p' => match s with
               | c :: s' => if ci_eq a c then ci_prefix p' s' else None
               | [] => None
               end
  end.
Definition kw_bytes : str := [98; 121; 116; 101; 115]%N.

(* _rx_range.match(header) -> the two groups; the pattern, flags re.I, is
     bytes SP* = SP* (DIGIT* ) SP* - SP* (DIGIT* ) SP* $
   The classes SP, '=', digit, '-' are pairwise disjoint, so greedy matching never backtracks
   successfully: the leftmost-longest scan below is the only possible match.  `$` without
   re.M also matches before one final LF. *)
Definition match_range (h : str) : option (str * str) :=
  match ci_prefix kw_bytes h with
  | None => None
  | Some r0 =>
      match drop_sp r0 with
      | 61%N :: r2 =>
          let '(d1, r4) := span is_digit (drop_sp r2) in
          match drop_sp r4 with
          | 45%N :: r6 =>
              let '(d2, r8) := span is_digit (drop_sp r6) in
              match drop_sp r8 with
              | [] => Some (d1, d2)
              | [10%N] => Some (d1, d2)
              | _ => None
              end
          | _ => None
          end
      | _ => None
      end
  end.

(* ---------------------------------------------------------------- Range *)
(* Range(start, end): end is non-inclusive, None = open; a negative start is a suffix length *)
Inductive range := Range (start : Z) (stop : option Z).

Definition is_nil {A} (l : list A) : bool := match l with [] => true | _ => false end.

(* Range.parse(header)  (descriptors.parse_range adds `if not value: return None`, which the
   scanner subsumes: the empty string does not match) *)
Definition range_parse (h : str) : option range :=
  match match_range h with
  | None => None
  | Some (d1, d2) =>
      if is_nil d1 then
        if is_nil d2 || (dec_val d2 =? 0) then None          (* "bytes=-", "bytes=-0" *)
        else Some (Range (- dec_val d2) None)
      else
        let start := dec_val d1 in
        if is_nil d2 then Some (Range start None)
        else let e := dec_val d2 + 1 in
             if start >=? e then None else Some (Range start (Some e))
  end.

(* _is_content_range_valid(start, stop, length, response=False) *)
Definition is_cr_valid (start stop length : option Z) (response : bool) : bool :=
  match start, stop with
  | None, Some _ => false
  | Some _, None => false                             (* (start is None) != (stop is None) *)
  | None, None => match length with None => true | Some l => 0 <=? l end
  | Some s, Some e =>
      match length with
      | None => (0 <=? s) && (s <? e)
      | Some l =>
          if s >=? e then false
          else if response && (e >? l) then false
          else (0 <=? s) && (s <? l)
      end
  end.

(* Range.range_for_length(length) *)
Definition range_for_length (r : range) (length : option Z) : option (Z * Z) :=
  match length with
  | None => None
  | Some l =>
      let '(Range start e) := r in
      let '(start', e') :=
        match e with
        | None => (if start <? 0 then start + l else start, l)
        | Some e0 => (start, e0)
        end in
      if is_cr_valid (Some start') (Some e') (Some l) false
      then Some (start', Z.min e' l)
      else None
  end.

(* ContentRange(start, stop, length): None here stands for the ValueError of the constructor *)
Inductive content_range := CR (start stop : option Z) (length : option Z).
Definition mk_content_range (s e l : option Z) : option content_range :=
  if is_cr_valid s e l false then Some (CR s e l) else None.

(* Range.content_range(length): outer None = ValueError (never happens, see Proofs),
   inner None = not satisfiable *)
Definition range_content_range (r : range) (length : option Z) : option (option content_range) :=
  match range_for_length r length with
  | None => Some None
  | Some (s, e) => match mk_content_range (Some s) (Some e) length with
                   | Some c => Some (Some c)
                   | None => None
                   end
  end.

Definition S_bytes_eq : str := [98; 121; 116; 101; 115; 61]%N.    (* "bytes=" *)
Definition S_bytes_sp : str := [98; 121; 116; 101; 115; 32]%N.    (* "bytes " *)

(* str(Range) *)
Definition range_str (r : range) : str :=
  let '(Range s e) := r in
  match e with
  | None => S_bytes_eq ++ int_str s ++ (if s >=? 0 then [45%N] else [])
  | Some e0 => S_bytes_eq ++ int_str s ++ [45%N] ++ int_str (e0 - 1)
  end.

(* str(ContentRange) *)
Definition content_range_str (c : content_range) : str :=
  let '(CR s e l) := c in
  let ls := match l with None => [42%N] | Some n => int_str n end in
  match s, e with
  | Some s0, Some e0 => S_bytes_sp ++ int_str s0 ++ [45%N] ++ int_str (e0 - 1) ++ [47%N] ++ ls
  | _, _ => S_bytes_sp ++ [42%N; 47%N] ++ ls
  end.

(* ------------------------------------------------------------ correspondence entry points *)
Definition oz (o : option Z) : val := match o with Some z => VInt z | None => VNone end.
Definition v_range (r : range) : val := let '(Range s e) := r in VList [VInt s; oz e; VStr (range_str r)].

Definition corr_range_parse (h : str) : val :=
  match range_parse h with None => VNone | Some r => v_range r end.

Definition corr_is_valid (i : (option Z * option Z) * (option Z * bool)) : val :=
  let '((s, e), (l, r)) := i in VBool (is_cr_valid s e l r).

Definition err_value : val := VErr [86; 97; 108; 117; 101; 69; 114; 114; 111; 114]%N.  (* ValueError *)

(* Range(start, end).content_range(length) -> None | [start, stop, length, str] *)
Definition corr_content_range (i : (Z * option Z) * option Z) : val :=
  let '((s, e), l) := i in
  match range_content_range (Range s e) l with
  | None => err_value
  | Some None => VNone
  | Some (Some (CR a b c as cr)) => VList [oz a; oz b; oz c; VStr (content_range_str cr)]
  end.

Definition corr_int_str (z : Z) : val := VStr (int_str z).
