(* C12 — executable model of the descriptor machinery of webob/descriptors.py:
     header_getter   (descriptors.py:115-137)  replace-all semantics, CR/LF refusal (before anything is deleted)
     environ_getter  (descriptors.py:16-45)    both forms (with and without default)
     converter       (descriptors.py:140-158)
     parse_int / parse_int_safe / serialize_int   (descriptors.py:253-268)
     parse_list / serialize_list                  (descriptors.py:166-176)
   Definitions only.  Python values handed to setters are [pyv]; values read are [val]. *)
From Coq Require Import ZArith NArith List Bool.
Require Import Webob.Lib.Val Webob.Lib.PyStr Webob.Lib.C12_PyInt.
Import ListNotations.
Local Open Scope N_scope.

(* Python values a caller may assign to a typed attribute *)
Inductive pyv :=
| PNone
| PInt (z : Z)
| PStr (s : str)
| PStrs (l : list str)                       (* list / tuple of str *)
| PInts (l : list (option Z))                (* list / tuple of int-or-None (Range, Content-Range) *)
| PRange (start : Z) (stop : option Z)       (* webob.byterange.Range object *)
| PCRange (start stop length : option Z)     (* webob.byterange.ContentRange object (already validated) *)
| PDateTime (y mo d h mi s : Z) (utcoff : option Z)   (* datetime; utcoff in seconds for aware ones *)
| PDate (y mo d : Z)                         (* datetime.date *)
| PDelta (seconds : Z)                       (* datetime.timedelta *)
| PAuth (scheme : str) (params : list (str * str))    (* (authtype, dict) *)
| PAuthS (scheme : str) (params : str)       (* (authtype, str) *)
| PEtag (tag : str) (strong : bool).         (* (tag, strong) tuple *)

(* a converter: parse the raw header (None when absent) / serialize a non-None value.
   serialize may answer None (header removed) or raise *)
Record conv := mkConv { c_parse : option str -> res val;
                        c_serialize : pyv -> res (option str) }.

Definition pairs := list (str * str).

(* ------------------------------------------------------------------ header_getter *)
Definition has_crlf (s : str) : bool := existsb (fun c => (c =? 10) || (c =? 13)) s.

(* fget: first pair whose lower-cased name is key *)
Fixpoint hg_get (key : str) (hl : pairs) : option str :=
  match hl with
  | [] => None
  | (k, v) :: hl' => if str_eqb (lower k) key then Some v else hg_get key hl'
  end.

(* fdel: r._headerlist[:] = [(k, v) for ... if k.lower() != key] *)
Definition hg_del (key : str) (hl : pairs) : pairs :=
  filter (fun kv => negb (str_eqb (lower (fst kv)) key)) hl.

(* fset (as repaired by fixes/C12-17): the checks first, then fdel, then append; a refused value leaves the
   list as it was.  Returns the new list and the exception, if any *)
Definition hg_set (header : str) (value : option str) (hl : pairs) : pairs * option str :=
  let hl' := hg_del (lower header) hl in
  match value with
  | None => (hl', None)
  | Some s => if has_crlf s then (hl, Some ValueError) else (hl' ++ [(header, s)], None)
  end.

(* ------------------------------------------------------------------ environ_getter *)
Fixpoint env_get (key : str) (env : pairs) : option str :=
  match env with
  | [] => None
  | (k, v) :: e' => if str_eqb k key then Some v else env_get key e'
  end.
Fixpoint env_put (key v : str) (env : pairs) : pairs :=
  match env with
  | [] => [(key, v)]
  | (k, x) :: e' => if str_eqb k key then (k, v) :: e' else (k, x) :: env_put key v e'
  end.
Definition env_remove (key : str) (env : pairs) : pairs :=
  filter (fun kv => negb (str_eqb (fst kv) key)) env.

(* default given (None): fget = environ.get(key); fset None deletes when present; fdel = del environ[key].
   no default: fget = environ[key] (KeyError), fset stores whatever it is given, no fdel (AttributeError). *)
Definition eg_get (dflt : bool) (key : str) (env : pairs) : res (option str) :=
  match env_get key env with
  | Some v => Ok (Some v)
  | None => if dflt then Ok None else Raise KeyError
  end.
Definition eg_set (key : str) (value : option str) (env : pairs) : pairs :=
  match value with
  | None => env_remove key env
  | Some s => env_put key s env
  end.
Definition eg_del (dflt : bool) (key : str) (env : pairs) : pairs * option str :=
  if dflt then
    match env_get key env with
    | Some _ => (env_remove key env, None)
    | None => (env, Some KeyError)
    end
  else (env, Some AttributeError).

(* ------------------------------------------------------------------ converter over either store *)
Definition conv_get (c : conv) (raw : res (option str)) : res val :=
  match raw with
  | Ok v => c_parse c v
  | Raise e => Raise e
  end.

(* fset: val = serialize(val) unless None; then hset *)
Definition conv_ser (c : conv) (v : pyv) : res (option str) :=
  match v with
  | PNone => Ok None
  | _ => c_serialize c v
  end.

Definition resp_get (c : conv) (header : str) (hl : pairs) : res val :=
  conv_get c (Ok (hg_get (lower header) hl)).
Definition resp_set (c : conv) (header : str) (v : pyv) (hl : pairs) : pairs * option str :=
  match conv_ser c v with
  | Ok t => hg_set header t hl
  | Raise e => (hl, Some e)
  end.
Definition resp_del (header : str) (hl : pairs) : pairs := hg_del (lower header) hl.

Definition req_get (c : conv) (dflt : bool) (key : str) (env : pairs) : res val :=
  conv_get c (eg_get dflt key env).
Definition req_set (c : conv) (key : str) (v : pyv) (env : pairs) : pairs * option str :=
  match conv_ser c v with
  | Ok t => (eg_set key t env, None)
  | Raise e => (env, Some e)
  end.

(* ------------------------------------------------------------------ plain text attributes *)
Definition oval (o : option str) : val := match o with Some s => VStr s | None => VNone end.
Definition conv_str : conv :=
  mkConv (fun v => Ok (oval v))
         (fun v => match v with PStr s => Ok (Some s) | _ => Raise ValueError end).

(* ------------------------------------------------------------------ integers *)
(* parse_int: None / "" -> None, else int(value), ValueError escapes *)
Definition parse_int (v : option str) : res val :=
  match v with
  | None | Some [] => Ok VNone
  | Some s => match py_int s with Some z => Ok (VInt z) | None => Raise ValueError end
  end.
(* parse_int_safe: the same with `except ValueError: return None` *)
Definition parse_int_safe (v : option str) : res val :=
  match parse_int v with
  | Raise _ => Ok VNone
  | r => r
  end.
(* serialize_int = str *)
Definition serialize_int (v : pyv) : res (option str) :=
  match v with
  | PInt z => if Nat.leb (ndigits z) max_str_digits then Ok (Some (str_of_Z z)) else Raise ValueError
  | PStr s => Ok (Some s)
  | _ => Raise TypeError      (* outside the modelled value domain *)
  end.
Definition conv_int_unsafe : conv := mkConv parse_int serialize_int.
Definition conv_int : conv := mkConv parse_int_safe serialize_int.

(* ------------------------------------------------------------------ comma lists *)
Definition nonempty (s : str) : bool := match s with [] => false | _ => true end.
Definition list_items (s : str) : list str :=
  filter nonempty (map (strip_by is_space_str) (split_c 44 s)).
(* as repaired by fixes/C12-18: only an ABSENT header is None; an empty one is the empty tuple *)
Definition parse_list (v : option str) : res val :=
  match v with
  | None => Ok VNone
  | Some s => Ok (VList (map VStr (list_items s)))
  end.
Definition comma_sp : str := [44; 32].
Definition serialize_list (v : pyv) : res (option str) :=
  match v with
  | PStr s => Ok (Some s)
  | PStrs l => Ok (Some (join comma_sp l))
  | PInts [] => Ok (Some [])                   (* an empty list / tuple *)
  | _ => Raise TypeError
  end.
Definition conv_list : conv := mkConv parse_list serialize_list.
