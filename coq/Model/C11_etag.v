(* C11 — executable model of webob's entity-tag handling.  Definitions only.

   Mirrors
     descriptors.py:192          _rx_etag                       (scanner used with .match on the response side)
     etag.py                     the pattern ETagMatcher.parse calls .findall on (the list scanner)
     etag.py:14-34               etag_property.fget             -> etag_getter
     etag.py:37-110              _AnyETag / _NoETag / ETagMatcher.__contains__ / ETagMatcher.parse
     etag.py:113-158             IfRange.parse / IfRange.__contains__ / IfRangeDate.__contains__
     descriptors.py:195-226      parse_etag_response / serialize_etag_response
     descriptors.py:115-158      header_getter.fset (CR/LF refusal) + converter, as used by Response.etag
     response.py:786-793         Response.etag / Response.etag_strong

   The two compiled patterns are not transcribed by hand: their three degrees of
   freedom (class of the character that may precede a tag, presence of the \DQ alternative in
   the tag body, characters the body does not cross) are REGENERATED from the live pattern
   objects into Gen/C11_rx.v on every run, and the translator refuses any other shape. *)
From Coq Require Import NArith ZArith List Bool String.
Require Import Webob.Lib.Val Webob.Lib.Rx Webob.Gen.C11_rx.
Import ListNotations.
Local Open Scope N_scope.

(* ------------------------------------------------------------------ the scanner
   pattern shape (checked by the translator), DQ standing for the double quote:
       (?:^|PRE) (W/)? DQ BODY DQ
   BODY = lazy star of (backslash DQ | .)    esc = true,  excl = what . does not match (LF)
        | lazy star of .                     esc = false, excl = LF
        | greedy star of [^DQ]               esc = false, excl = DQ *)
Record scfg := mkcfg { pre : Rx.ranges; esc : bool; excl : Rx.ranges }.

Definition lst_cfg : scfg := mkcfg lst_pre lst_esc lst_excl.   (* ETagMatcher.parse: .findall *)
Definition rsp_cfg : scfg := mkcfg rsp_pre rsp_esc rsp_excl.   (* parse/serialize_etag_response: .match *)

Definition DQ : N := 34.
Definition BS : N := 92.

(* BODY followed by the closing quote, with the regex engine's priorities:
   - at a quote the (lazy or quote-excluding) loop stops: the tag ends here;
   - at \DQ the two-character alternative is tried first; only if no closing quote can be
     found afterwards does the engine backtrack, let `.` take the backslash and close at
     this quote;
   - a character the body cannot cross makes the attempt fail.
   Result: the captured body (always the raw text up to the closing quote). *)
Fixpoint body_scan (c : scfg) (s : str) : option str :=
  match s with
  | [] => None
  | x :: r =>
      if x =? DQ then Some []
      else
        match r with
        | y :: r' =>
            if esc c && (x =? BS) && (y =? DQ) then
              match body_scan c r' with
              | Some b => Some (x :: y :: b)
              | None => Some [x]
              end
            else if in_ranges (excl c) x then None
            else option_map (cons x) (body_scan c r)
        | [] =>
            if in_ranges (excl c) x then None
            else option_map (cons x) (body_scan c r)
        end
  end.

(* (W/)? DQ BODY DQ at the head of s: (weak?, body) *)
Definition tag_at (c : scfg) (s : str) : option (bool * str) :=
  match s with
  | x :: r =>
      if x =? DQ then option_map (pair false) (body_scan c r)
      else if x =? 87 then                                    (* W *)
        match r with
        | y :: z :: r' =>
            if (y =? 47) && (z =? DQ) then option_map (pair true) (body_scan c r')   (* W/DQ *)
            else None
        | _ => None
        end
      else None
  | [] => None
  end.

(* number of characters of (W/)? DQ BODY DQ *)
Definition tag_len (wt : bool * str) : nat :=
  ((if fst wt then 4 else 2) + List.length (snd wt))%nat.

(* pattern.match(s): the ^ alternative first, then PRE *)
Definition match_start (c : scfg) (s : str) : option (bool * str) :=
  match tag_at c s with
  | Some wt => Some wt
  | None =>
      match s with
      | x :: r => if in_ranges (pre c) x then tag_at c r else None
      | [] => None
      end
  end.

(* pattern.findall(s) from a position > 0 (so ^ cannot match); [skip] characters belong to
   the match just reported and are passed over *)
Fixpoint scan_go (c : scfg) (skip : nat) (s : str) : list (bool * str) :=
  match s with
  | [] => []
  | x :: r =>
      match skip with
      | S k => scan_go c k r
      | O =>
          if in_ranges (pre c) x then
            match tag_at c r with
            | Some wt => wt :: scan_go c (tag_len wt) r
            | None => scan_go c 0 r
            end
          else scan_go c 0 r
      end
  end.

Definition findall (c : scfg) (s : str) : list (bool * str) :=
  match tag_at c s with
  | Some wt => wt :: scan_go c (tag_len wt) s
  | None => scan_go c 0 s
  end.

(* ------------------------------------------------------------------ matchers (etag.py:37-110) *)
Inductive matcher :=
| MAny                      (* AnyETag *)
| MNo                       (* NoETag *)
| MTags (l : list str).     (* ETagMatcher(l) *)

(* `other in matcher`; other may be None (Response.etag_strong of a weak/absent ETag) *)
Definition contains (m : matcher) (t : option str) : bool :=
  match m with
  | MAny => true
  | MNo => false
  | MTags l => match t with
               | None => false
               | Some t => existsb (str_eqb t) l
               end
  end.

Definition STAR : str := [42].

(* ETagMatcher.parse(value, strong) *)
Definition matcher_parse (strong : bool) (value : str) : matcher :=
  if str_eqb value STAR then MAny
  else match value with
       | [] => MTags []
       | _ =>
           match findall lst_cfg value with
           | [] => MTags [value]
           | ms => if strong then MTags (map snd (filter (fun m => negb (fst m)) ms))
                   else MTags (map snd ms)
           end
       end.

(* etag_property(key, default, strong).fget with environ.get(key) = value *)
Definition etag_getter (default : matcher) (strong : bool) (value : option str) : matcher :=
  match value with
  | None | Some [] => default
  | Some v => matcher_parse strong v
  end.

Definition if_match := etag_getter MAny true.          (* request.py:1149 *)
Definition if_none_match := etag_getter MNo false.     (* request.py:1150 *)

(* ------------------------------------------------------------------ response ETag (descriptors.py:195-226) *)
(* str.replace(backslash DQ, DQ) *)
Fixpoint unescape (s : str) : str :=
  match s with
  | [] => []
  | x :: r =>
      match r with
      | y :: r' => if (x =? BS) && (y =? DQ) then DQ :: unescape r' else x :: unescape r
      | [] => [x]
      end
  end.

(* str.replace(DQ, backslash DQ) *)
Fixpoint escape (s : str) : str :=
  match s with
  | [] => []
  | x :: r => if x =? DQ then BS :: DQ :: escape r else x :: escape r
  end.

(* parse_etag_response(value, strong); value = None when there is no ETag header *)
Definition parse_etag_response (strong : bool) (value : option str) : option str :=
  match value with
  | None | Some [] => None
  | Some v =>
      match match_start rsp_cfg v with
      | None => Some v
      | Some (w, b) => if strong && w then None else Some (unescape b)
      end
  end.

(* the two kinds of value the property assigns to Response.etag *)
Inductive etag_arg :=
| EStr (v : str)
| EPair (v : str) (strong : bool).

Definition quote_tag (strong : bool) (v : str) : str :=
  (if strong then [] else [87; 47]) ++ DQ :: escape v ++ [DQ].

(* serialize_etag_response(value) *)
Definition serialize_etag_response (a : etag_arg) : str :=
  match a with
  | EPair v strong => quote_tag strong v
  | EStr v => match match_start rsp_cfg v with
              | Some _ => v
              | None => quote_tag true v
              end
  end.

(* Response.etag = a: converter.fset + header_getter.fset.  None = ValueError (CR/LF in the
   header value), Some h = the single ETag header now stored *)
Definition set_etag (a : etag_arg) : option str :=
  let h := serialize_etag_response a in
  if existsb (fun c => (c =? 10) || (c =? 13)) h then None else Some h.

Definition get_etag (h : option str) : option str := parse_etag_response false h.        (* Response.etag *)
Definition get_etag_strong (h : option str) : option str := parse_etag_response true h.  (* Response.etag_strong *)

(* ------------------------------------------------------------------ If-Range (etag.py:113-158) *)
Definition GMT : str := [32; 71; 77; 84].

Fixpoint ends_with_s (suf s : str) : bool :=
  str_eqb s suf || match s with [] => false | _ :: r => ends_with_s suf r end.

(* _rx_asctime.fullmatch(value): RFC 7231 asctime-date = day-name SP month SP (2DIGIT / SP DIGIT) SP
   2DIGIT:2DIGIT:2DIGIT SP 4DIGIT with the real, case-sensitive day and month names (regenerated) *)
Definition is_asctime (v : str) : bool := rmatch asctime_rx v.

Inductive if_range :=
| IRTag (m : matcher)               (* IfRange(etag) *)
| IRDate (d : option Z).            (* IfRangeDate(parse_date(value)) *)

Section Dates.
  (* webob.datetime_utils.parse_date (email.utils.parsedate_tz + mktime_tz): external.
     Result in seconds since the epoch, None when unparseable. *)
  Variable parse_date : str -> option Z.

  (* IfRange.parse(value); Request.if_range passes environ.get(key, None).
     A value that ends in SP GMT is a date whatever parse_date says; a value of exactly the
     asctime-date shape (the REGENERATED pattern asctime_rx, full match) is a date when parse_date
     understands it with SP GMT appended (asctime has no zone); everything else goes to
     ETagMatcher.parse *)
  Definition if_range_parse (value : option str) : if_range :=
    match value with
    | None | Some [] => IRTag MAny
    | Some v => if ends_with_s GMT v then IRDate (parse_date v)
                else if negb (is_asctime v) then IRTag (matcher_parse true v)
                else match parse_date (v ++ GMT) with
                     | Some d => IRDate (Some d)
                     | None => IRTag (matcher_parse true v)
                     end
    end.

  (* `resp in if_range` for a response with the given raw ETag and Last-Modified headers.
     None = TypeError (datetime <= None: an If-Range that ends in ' GMT' but is no date) *)
  Definition if_range_contains (ir : if_range) (etag_hdr lm_hdr : option str) : option bool :=
    match ir with
    | IRTag m => Some (contains m (get_etag_strong etag_hdr))
    | IRDate d =>
        let lm := match lm_hdr with None | Some [] => None | Some l => parse_date l end in
        match lm with
        | None => Some false
        | Some l => match d with
                    | Some dd => Some (Z.leb l dd)
                    | None => None
                    end
        end
    end.
End Dates.

(* ------------------------------------------------------------------ observations for the correspondence *)
Definition v_opt (o : option str) : val := match o with None => VNone | Some s => VStr s end.
Definition v_wt (wt : bool * str) : val := VList [VBool (fst wt); VStr (snd wt)].

Definition obs_findall (c : scfg) (s : str) : val := VList (map v_wt (findall c s)).
Definition obs_match (c : scfg) (s : str) : val :=
  match match_start c s with None => VNone | Some wt => v_wt wt end.

Definition v_matcher (m : matcher) : val :=
  match m with
  | MAny => VList [VInt 0]
  | MNo => VList [VInt 1]
  | MTags l => VList [VInt 2; VList (map VStr l)]
  end.

(* request.if_match / request.if_none_match for a header value, and membership of probes *)
Definition obs_getters (value : option str) (probes : list (option str)) : val :=
  let im := if_match value in
  let inm := if_none_match value in
  VList [v_matcher im; VList (map (fun p => VBool (contains im p)) probes);
         v_matcher inm; VList (map (fun p => VBool (contains inm p)) probes)].

(* Response.etag = a ; then raw header, .etag, .etag_strong *)
Definition obs_set_etag (a : etag_arg) : val :=
  match set_etag a with
  | None => VErr (H "56616c75654572726f72"%string)      (* ValueError *)
  | Some h => VList [VStr h; v_opt (get_etag (Some h)); v_opt (get_etag_strong (Some h))]
  end.

(* a raw ETag header (possibly not produced by the setter): .etag, .etag_strong *)
Definition obs_raw_etag (h : option str) : val :=
  VList [v_opt (get_etag h); v_opt (get_etag_strong h)].

Fixpoint lookup_date (tbl : list (str * option Z)) (s : str) : option Z :=
  match tbl with
  | [] => None
  | (k, d) :: tbl' => if str_eqb k s then d else lookup_date tbl' s
  end.

Definition v_if_range (ir : if_range) : val :=
  match ir with
  | IRTag m => VList [VInt 0; v_matcher m]
  | IRDate None => VList [VInt 1; VNone]
  | IRDate (Some d) => VList [VInt 1; VInt d]
  end.

(* request.if_range for a header value + `resp in request.if_range` for responses given by
   their raw (ETag, Last-Modified) headers; parse_date is replayed from the recorded table *)
Definition obs_if_range (tbl : list (str * option Z)) (value : option str)
           (resps : list (option str * option str)) : val :=
  let pd := lookup_date tbl in
  let ir := if_range_parse pd value in
  VList [v_if_range ir;
         VList (map (fun r => match if_range_contains pd ir (fst r) (snd r) with
                              | None => VBool false    (* TypeError on the pinned tree, False once
                                                          fixes/C06-*-if-range-bad-date.patch is applied:
                                                          both canonicalised to: no match (outside C11) *)
                              | Some b => VBool b
                              end) resps)].
