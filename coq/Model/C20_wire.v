(* C20 — executable model of webob's HTTP wire forms (definitions only, no proofs).

   request.py  as_bytes / as_text / from_bytes / from_text / from_file   (lines 1196-1320)
   request.py  url / host_url / path (the part as_bytes uses), environ_from_url, EnvironHeaders
               (_trans_key / _trans_name), body getter/setter, is_body_readable
   response.py Response.from_file / __str__                              (lines 331-413)
               (the REPAIRED from_file: Content-MD5 kept, ASCII whitespace only — fixes/C20-2, C20-3)

   Characters are code points (N); a byte string and a text string are both [list N].
   Domain restrictions (stated again in design_notes/C20.md): the head of a request (request line,
   header lines) is ASCII — utf-8 decoding is then the identity, anything else is reported as
   "OutOfModel"; absolute-form request targets (scheme:) are "OutOfModel"; percent-escapes in a
   target are well formed (%XX), which is what url_quote emits. *)
From Coq Require Import ZArith NArith List Bool.
From Coq Require String Ascii.
Require Import Webob.Lib.Val Webob.Lib.PyStr.
Import ListNotations.
Local Open Scope N_scope.

Definition bytes := list N.

(* ------------------------------------------------------------------ literals *)
Fixpoint A (s : String.string) : str :=
  match s with
  | String.EmptyString => []
  | String.String a r => Ascii.N_of_ascii a :: A r
  end.
Import String.StringSyntax.
Local Open Scope string_scope.
Local Open Scope list_scope.
Local Open Scope N_scope.

Definition CRLF : str := [13; 10].
Definition COLON_SP : str := [58; 32].
Definition COMMA_SP : str := [44; 32].

Inductive res (T : Type) :=
| Ok (a : T)
| Er (tag : str).          (* exception class name, or "OutOfModel" / "OutOfFuel" *)
Arguments Ok {T} a.
Arguments Er {T} tag.

Definition is_nil {T} (l : list T) : bool := match l with [] => true | _ => false end.

(* ------------------------------------------------------------------ characters *)
Definition is_digit (c : N) : bool := (48 <=? c) && (c <=? 57).
Definition is_upper (c : N) : bool := (65 <=? c) && (c <=? 90).
Definition is_lower (c : N) : bool := (97 <=? c) && (c <=? 122).
Definition is_alpha (c : N) : bool := is_upper c || is_lower c.
Definition is_alnum (c : N) : bool := is_alpha c || is_digit c.
Definition lower_a (c : N) : N := if is_upper c then c + 32 else c.      (* ASCII only *)
Definition upper_a (c : N) : N := if is_lower c then c - 32 else c.      (* ASCII only *)
Definition upper (s : str) : str := map upper_a s.
Definition lower_s (s : str) : str := map lower_a s.
Definition ascii_only (s : str) : bool := forallb (fun c => c <? 128) s.

(* str.title() on ASCII text *)
Fixpoint title_from (prev_cased : bool) (s : str) : str :=
  match s with
  | [] => []
  | c :: s' =>
      if is_alpha c
      then (if prev_cased then lower_a c else upper_a c) :: title_from true s'
      else c :: title_from false s'
  end.
Definition title (s : str) : str := title_from false s.

(* ------------------------------------------------------------------ lines *)
(* fp.readline(): up to and including the first LF; (line, rest) *)
Fixpoint readline (s : str) : str * str :=
  match s with
  | [] => ([], [])
  | c :: s' =>
      if c =? 10 then ([c], s')
      else let '(l, r) := readline s' in (c :: l, r)
  end.

Definition is_crlf (c : N) : bool := (c =? 13) || (c =? 10).
Definition rstrip_crlf (s : str) : str := rstrip_by is_crlf s.

Fixpoint span_not (sp : N -> bool) (s : str) : str * str :=
  match s with
  | [] => ([], [])
  | c :: s' => if sp c then ([], s) else let '(w, r) := span_not sp s' in (c :: w, r)
  end.

(* s.split(None, k) *)
Fixpoint split_ws (sp : N -> bool) (k : nat) (fuel : nat) (s : str) : list str :=
  match fuel with
  | O => []
  | S f =>
      match drop_while sp s with
      | [] => []
      | c :: s1 =>
          match k with
          | O => [c :: s1]
          | S k' => let '(w, r) := span_not sp (c :: s1) in w :: split_ws sp k' f r
          end
      end
  end.
Definition split_ws_max (sp : N -> bool) (k : nat) (s : str) : list str :=
  split_ws sp k (S (length s)) s.

Definition space_of (text : bool) : N -> bool := if text then is_space_str else is_space_bytes.

(* ------------------------------------------------------------------ int() / str(int) *)
(* digits with single underscores between digits, as int() accepts them *)
Fixpoint digits_us (s : str) (acc : Z) (prev_digit : bool) : option Z :=
  match s with
  | [] => if prev_digit then Some acc else None
  | c :: s' =>
      if is_digit c then digits_us s' (acc * 10 + Z.of_N (c - 48))%Z true
      else if (c =? 95) && prev_digit then
             match s' with
             | d :: _ => if is_digit d then digits_us s' acc false else None
             | [] => None
             end
           else None
  end.

(* int() skips C isspace() characters and the non-ASCII Unicode spaces, but not FS/GS/RS/US *)
Definition is_space_int (c : N) : bool := is_space_bytes c || (c =? 133) || (c =? 160).

Definition py_int (s : str) : option Z :=
  match strip_by is_space_int s with
  | [] => None
  | c :: r =>
      if c =? 43 then digits_us r 0%Z false
      else if c =? 45 then option_map Z.opp (digits_us r 0%Z false)
      else digits_us (c :: r) 0%Z false
  end.

(* descriptors.parse_int_safe on an optional header value *)
Definition parse_int_safe (v : option str) : option Z :=
  match v with
  | None => None
  | Some [] => None
  | Some s => py_int s
  end.

(* str(n) for n >= 0 *)
Fixpoint dec_aux (fuel : nat) (n : N) (acc : str) : str :=
  match fuel with
  | O => acc
  | S f =>
      let d := 48 + n mod 10 in
      if n <? 10 then d :: acc else dec_aux f (n / 10) (d :: acc)
  end.
Definition dec (n : N) : str := dec_aux (S (N.to_nat n)) n [].
Definition dec_len {T} (l : list T) : str := dec (N.of_nat (length l)).

(* ------------------------------------------------------------------ url quoting *)
(* urllib.parse.quote(bytes, safe=PATH_SAFE), PATH_SAFE = "/~!$&'()*+,;=:@" *)
Definition path_safe (c : N) : bool :=
  is_alnum c || mem_n c [95; 46; 45; 126; 47; 33; 36; 38; 39; 40; 41; 42; 43; 44; 59; 61; 58; 64].
Definition hexc (d : N) : N := if d <? 10 then 48 + d else 55 + d.
Definition quote_c (c : N) : str := if path_safe c then [c] else [37; hexc (c / 16); hexc (c mod 16)].
Definition url_quote (bs : bytes) : str := flat_map quote_c bs.

Definition hexval (c : N) : option N :=
  if is_digit c then Some (c - 48)
  else if (65 <=? c) && (c <=? 70) then Some (c - 55)
  else if (97 <=? c) && (c <=? 102) then Some (c - 87)
  else None.

(* webob.util.url_unquote on well-formed escapes (a '%' not followed by two hex digits is kept) *)
Fixpoint url_unquote (s : str) : str :=
  match s with
  | [] => []
  | c :: s' =>
      if c =? 37 then
        match s' with
        | a :: b :: s'' =>
            match hexval a, hexval b with
            | Some x, Some y => (16 * x + y) :: url_unquote s''
            | _, _ => c :: url_unquote s'
            end
        | _ => c :: url_unquote s'
        end
      else c :: url_unquote s'
  end.

(* SCHEME_RE = ^[a-z]+:  (re.I) *)
Fixpoint has_scheme_from (seen : bool) (s : str) : bool :=
  match s with
  | [] => false
  | c :: s' => if is_alpha c then has_scheme_from true s' else (c =? 58) && seen
  end.
Definition has_scheme (s : str) : bool := has_scheme_from false s.

(* ------------------------------------------------------------------ environ as an ordered dict *)
Definition dict := list (str * str).

Fixpoint dict_get (k : str) (d : dict) : option str :=
  match d with
  | [] => None
  | (k', v) :: d' => if str_eqb k' k then Some v else dict_get k d'
  end.

Fixpoint dict_set (k v : str) (d : dict) : dict :=
  match d with
  | [] => [(k, v)]
  | (k', v') :: d' => if str_eqb k' k then (k', v) :: d' else (k', v') :: dict_set k v d'
  end.

(* headers._trans_key : environ key -> header name *)
Definition k_CT := A "CONTENT_TYPE".
Definition k_CL := A "CONTENT_LENGTH".
Definition k_HCT := A "HTTP_CONTENT_TYPE".
Definition k_HCL := A "HTTP_CONTENT_LENGTH".
Definition k_HOST := A "HTTP_HOST".
Definition p_HTTP_ := A "HTTP_".

Definition trans_key (k : str) : option str :=
  if str_eqb k k_CT then Some (A "Content-Type")
  else if str_eqb k k_CL then Some (A "Content-Length")
  else if str_eqb k k_HCT then Some (A "Content_Type")
  else if str_eqb k k_HCL then Some (A "Content_Length")
  else if starts_with p_HTTP_ k then Some (title (replace_c 95 [45] (skipn 5 k)))
  else None.

(* headers._trans_name : header name -> environ key *)
Definition trans_name (n : str) : str :=
  let u := upper n in
  if str_eqb u (A "CONTENT-TYPE") then k_CT
  else if str_eqb u (A "CONTENT-LENGTH") then k_CL
  else if str_eqb u (A "CONTENT_TYPE") then k_HCT
  else if str_eqb u (A "CONTENT_LENGTH") then k_HCL
  else p_HTTP_ ++ replace_c 45 [95] u.

(* ------------------------------------------------------------------ the request *)
Record env := mkEnv {
  e_method : str;          (* REQUEST_METHOD *)
  e_script : bytes;        (* SCRIPT_NAME, the octets of the WSGI latin-1 string (valid in url_encoding) *)
  e_path : bytes;          (* PATH_INFO, likewise *)
  e_qs : str;              (* QUERY_STRING *)
  e_proto : str;           (* SERVER_PROTOCOL *)
  e_scheme : str;          (* wsgi.url_scheme *)
  e_sname : str;           (* SERVER_NAME *)
  e_sport : str;           (* SERVER_PORT *)
  e_hdrs : dict;           (* the CONTENT_TYPE / CONTENT_LENGTH / HTTP_* entries, in dict order *)
  e_input : bytes;         (* what wsgi.input still delivers *)
  e_seekable : bool;       (* webob.is_body_seekable *)
  e_term : bool            (* wsgi.input_terminated *)
}.

Definition with_hdrs (e : env) (d : dict) : env :=
  mkEnv (e_method e) (e_script e) (e_path e) (e_qs e) (e_proto e) (e_scheme e) (e_sname e) (e_sport e)
        d (e_input e) (e_seekable e) (e_term e).

(* req.body = b *)
Definition set_body (e : env) (b : bytes) : env :=
  mkEnv (e_method e) (e_script e) (e_path e) (e_qs e) (e_proto e) (e_scheme e) (e_sname e) (e_sport e)
        (dict_set k_CL (dec_len b) (e_hdrs e)) b true (e_term e).

(* list(req.headers.items()) *)
Fixpoint hdr_items (d : dict) : list (str * str) :=
  match d with
  | [] => []
  | (k, v) :: d' => match trans_key k with
                    | Some (c :: n) => (c :: n, v) :: hdr_items d'
                    | _ => hdr_items d'             (* filter(None, ...) also drops the empty name of "HTTP_" *)
                    end
  end.

Definition content_length (e : env) : option Z := parse_int_safe (dict_get k_CL (e_hdrs e)).

Definition is_body_readable (e : env) : bool :=
  match content_length e with
  | Some n => (0 <? n)%Z              (* only a positive length is a body *)
  | None => e_term e
  end.

(* the effect and the value of `self.body` *)
Definition acquire (e : env) : res (env * bytes) :=
  if negb (is_body_readable e) then Ok (e, [])
  else if e_seekable e then
         match content_length e with
         | Some n => if (Z.of_nat (length (e_input e)) <? n)%Z then Er (A "DisconnectionError")   (* short input *)
                     else Ok (e, firstn (Z.to_nat n) (e_input e))
         | None => Ok (e, e_input e)
         end
       else
         (* copy_body, then self.body = newbody *)
         match content_length e with
         | Some n =>
             if (n <? 0)%Z then Er (A "OutOfModel")
             else if (Z.of_nat (length (e_input e)) <? n)%Z then Er (A "DisconnectionError")
             else let b := firstn (Z.to_nat n) (e_input e) in Ok (set_body e b, b)
         | None => Ok (set_body e (e_input e), e_input e)
         end.

(* rsplit(":", 1) when ":" in host and host[-1] != "]" *)
Fixpoint rsplit_colon_rev (r acc : str) : option (str * str) :=   (* r = reversed host *)
  match r with
  | [] => None
  | c :: r' => if c =? 58 then Some (rev r', acc) else rsplit_colon_rev r' (c :: acc)
  end.

Definition host_url (e : env) : str :=
  let scheme := e_scheme e in
  let '(host, port) :=
    match dict_get k_HOST (e_hdrs e) with
    | Some h =>
        match rev h with
        | 93 :: _ => (h, None)
        | rh => match rsplit_colon_rev rh [] with
                | Some (a, p) => (a, Some p)
                | None => (h, None)
                end
        end
    | None => (e_sname e, Some (e_sport e))
    end in
  let port :=
    if str_eqb scheme (A "https") then
      match port with Some p => if str_eqb p (A "443") then None else Some p | None => None end
    else if str_eqb scheme (A "http") then
      match port with Some p => if str_eqb p (A "80") then None else Some p | None => None end
    else port in
  scheme ++ A "://" ++ host ++
  match port with
  | Some (c :: p) => 58 :: c :: p
  | _ => []
  end.

Definition path_qs (e : env) : str :=
  url_quote (e_script e) ++ url_quote (e_path e) ++
  match e_qs e with [] => [] | q => 63 :: q end.

Definition url (e : env) : str := host_url e ++ path_qs e.

(* sorted(self.headers.items()): tuples compare lexicographically by code point *)
Fixpoint str_leb (a b : str) : bool :=
  match a, b with
  | [], _ => true
  | _ :: _, [] => false
  | x :: a', y :: b' => if x <? y then true else if y <? x then false else str_leb a' b'
  end.
Definition pair_leb (p q : str * str) : bool :=
  if str_eqb (fst p) (fst q) then str_leb (snd p) (snd q) else str_leb (fst p) (fst q).
Fixpoint insert_sorted (p : str * str) (l : list (str * str)) : list (str * str) :=
  match l with
  | [] => [p]
  | q :: l' => if pair_leb p q then p :: l else q :: insert_sorted p l'
  end.
Fixpoint sort_items (l : list (str * str)) : list (str * str) :=
  match l with
  | [] => []
  | p :: l' => insert_sorted p (sort_items l')
  end.

Definition hline (p : str * str) : str := fst p ++ COLON_SP ++ snd p.

(* the skip_body argument *)
Inductive skip := SkipNo | SkipAll | SkipOver (k : nat).     (* False / True (or 1) / an integer > 1 *)

Definition skipped_marker (b : bytes) : bytes := A "<body skipped (len=" ++ dec_len b ++ A ")>".

(* url[len(host):] or "/" — a request line cannot go without a target (fixes/C20-4) *)
Definition request_target (e : env) : str :=
  match skipn (length (host_url e)) (url e) with
  | [] => [47]
  | t => t
  end.

Definition request_line (e : env) : str :=
  e_method e ++ [32] ++ request_target e ++ [32] ++ e_proto e.

(* Request.as_bytes: the bytes, and the request afterwards (reading .body may set Content-Length) *)
Definition as_bytes (sk : skip) (e : env) : res (bytes * env) :=
  let line0 := request_line e in
  let got :=
    if is_body_readable e then
      match sk with
      | SkipAll => Ok (e, None)
      | SkipNo => match acquire e with Ok (e1, b) => Ok (e1, Some b) | Er x => Er x end
      | SkipOver k =>
          match acquire e with
          | Ok (e1, b) => if (k <? length b)%nat then Ok (e1, Some (skipped_marker b)) else Ok (e1, Some b)
          | Er x => Er x
          end
      end
    else Ok (e, None) in
  match got with
  | Er x => Er x
  | Ok (e1, body) =>
      let parts := line0 :: map hline (sort_items (hdr_items (e_hdrs e1))) in
      let parts := match body with
                   | Some (c :: b) => parts ++ [[]; c :: b]
                   | _ => parts
                   end in
      Ok (join CRLF parts, e1)
  end.

(* ------------------------------------------------------------------ Request.from_file *)
Definition e_Value := A "ValueError".
Definition e_OOM := A "OutOfModel".

Fixpoint hdr_loop (fuel : nat) (sp : N -> bool) (d : dict) (s : str) : res (dict * str) :=
  match fuel with
  | O => Er (A "OutOfFuel")
  | S f =>
      let '(l, s') := readline s in
      if is_nil (strip_by sp l) then Ok (d, s')
      else if negb (ascii_only l) then Er e_OOM
      else
        let '(n, found, v) := partition_c 58 l in
        if negb found then Er e_Value
        else
          let hval := strip_by is_space_str v in
          let key := trans_name n in
          let hval' := match dict_get key d with
                       | Some old => old ++ COMMA_SP ++ hval
                       | None => hval
                       end in
          hdr_loop f sp (dict_set key hval' d) s'
  end.

(* the number of bytes a text encodes to, cw c being the number of bytes of the character c *)
Fixpoint text_width (cw : N -> nat) (t : str) : nat :=
  match t with [] => O | c :: t' => (cw c + text_width cw t')%nat end.

(* util.read_text_body(fp, length, encoding) (fixes/C20-5), loop for loop: as long as bytes are
   missing, read max(1, missing // 4) more characters — "no character takes more than four bytes";
   [text] is what has been read, [rest] what the file still holds.  With cw = one_byte this is
   fp.read(length) of a binary file. *)
Definition chunk_div : nat := 4.

Fixpoint read_text_loop (fuel : nat) (cw : N -> nat) (len : nat) (text rest : str) : str * str :=
  match fuel with
  | O => (text, rest)
  | S f =>
      let missing := (len - text_width cw text)%nat in
      match missing with
      | O => (text, rest)
      | _ =>
          let k := Nat.max 1 (missing / chunk_div) in
          match rest with
          | [] => (text, [])                                  (* fp.read() returned "" *)
          | _ => read_text_loop f cw len (text ++ firstn k rest) (skipn k rest)
          end
      end
  end.

Definition read_text (cw : N -> nat) (len : nat) (s : str) : str * str :=
  read_text_loop (S (length s)) cw len [] s.

Definition one_byte (c : N) : nat := 1%nat.
Definition utf8_width (c : N) : nat :=
  if c <? 128 then 1%nat else if c <? 2048 then 2%nat else if c <? 65536 then 3%nat else 4%nat.

(* fp.read(clen) / fp.read() *)
Definition read_body (cw : N -> nat) (clen : option Z) (s : str) : str * str :=
  match clen with
  | Some n => if (n <? 0)%Z || (4 * Z.of_nat (length s) <? n)%Z then (s, [])      (* no character is wider than 4 *)
              else read_text cw (Z.to_nat n) s
  | None => (s, [])
  end.

(* text = false: a binary file, conv = Ok;  text = true: a text file, conv = utf-8 encoding of the body text,
   cw = utf8_width.  The method is kept as it is written (fixes/C20-6) *)
Definition req_from_file (text : bool) (conv : str -> res bytes) (cw : N -> nat) (s : str) : res (env * str) :=
  let sp := space_of text in
  let '(l0, s1) := readline s in
  match split_ws_max sp 2 (rstrip_crlf l0) with
  | [m; target; ver] =>
      if negb (ascii_only l0) then Er e_OOM
      else if has_scheme target then Er e_OOM
      else
        let '(p, _, q) := partition_c 63 target in
        match hdr_loop (S (length s1)) sp [] s1 with
        | Er x => Er x
        | Ok (d, s2) =>
            let e0 := mkEnv m [] (url_unquote p) q ver (A "http") (A "localhost") (A "80")
                            d [] true false in
            let '(raw, s3) := read_body cw (content_length e0) s2 in
            match conv raw with
            | Er x => Er x
            | Ok body => Ok (set_body e0 body, s3)
            end
        end
  | _ => Er e_Value
  end.

Definition conv_id (s : str) : res bytes := Ok s.

(* utf-8 encoding of a text (bytes_(body, "utf-8")); surrogates are outside the model *)
Definition utf8_enc_c (c : N) : res bytes :=
  if c <? 128 then Ok [c]
  else if c <? 2048 then Ok [192 + c / 64; 128 + c mod 64]
  else if (55296 <=? c) && (c <=? 57343) then Er (A "UnicodeEncodeError")
  else if c <? 65536 then Ok [224 + c / 4096; 128 + (c / 64) mod 64; 128 + c mod 64]
  else Ok [240 + c / 262144; 128 + (c / 4096) mod 64; 128 + (c / 64) mod 64; 128 + c mod 64].
Fixpoint utf8_enc (s : str) : res bytes :=
  match s with
  | [] => Ok []
  | c :: s' => match utf8_enc_c c, utf8_enc s' with
               | Ok a, Ok b => Ok (a ++ b)
               | Er x, _ => Er x
               | _, Er x => Er x
               end
  end.

(* Request.from_bytes *)
Definition from_bytes (b : bytes) : res env :=
  match req_from_file false conv_id one_byte b with
  | Er x => Er x
  | Ok (e, rest) => if is_nil rest then Ok e else Er e_Value
  end.

(* what the property observes of a request *)
Record robs := mkRobs {
  o_method : str; o_url : str; o_proto : str; o_headers : list (str * str); o_body : res bytes }.

Definition observe (e : env) : robs :=
  mkRobs (e_method e) (url e) (e_proto e) (hdr_items (e_hdrs e))
         (match acquire e with Ok (_, b) => Ok b | Er x => Er x end).

(* ------------------------------------------------------------------ the response *)
Record resp := mkResp { r_status : str; r_headers : list (str * str); r_body : bytes }.

Definition n_CL := A "Content-Length".
Definition is_cl (p : str * str) : bool := str_eqb (lower_s (fst p)) (A "content-length").

(* what a WSGI server puts on the wire for (status, headerlist, body); header text is latin-1 *)
Definition resp_wire (r : resp) : bytes :=
  A "HTTP/1.1 " ++ r_status r ++ CRLF ++
  flat_map (fun p => hline p ++ CRLF) (r_headers r) ++ CRLF ++ r_body r.

(* Response.__str__ of a response whose body is b and whose text (the body decoded) is t *)
Definition resp_str (r : resp) (t : str) : str :=
  join CRLF (r_status r :: map hline (r_headers r) ++
             match r_body r with [] => [] | _ => [[]; t] end).

Fixpoint rhdr_loop (fuel : nat) (acc : list (str * str)) (s : str) : res (list (str * str) * str) :=
  match fuel with
  | O => Er (A "OutOfFuel")
  | S f =>
      let '(l, s') := readline s in
      match strip_by is_space_bytes l with
      | [] => Ok (rev acc, s')
      | line =>
          let '(n, found, v) := partition_c 58 line in
          if negb found then Er e_Value
          else rhdr_loop f ((n, strip_by is_space_bytes v) :: acc) s'
      end
  end.

(* first Content-Length header, parse_int *)
Fixpoint first_cl (h : list (str * str)) : option str :=
  match h with
  | [] => None
  | p :: h' => if is_cl p then Some (snd p) else first_cl h'
  end.

(* Response._status__set on a str that is not a plain integer *)
Definition status_ok (st : str) : res unit :=
  match py_int st with
  | Some _ => Er e_OOM                       (* status_code setter: reason table, not modelled *)
  | None =>
      match split_ws_max is_space_str 1 st with
      | [] => Er (A "IndexError")
      | w :: _ => match py_int w with Some _ => Ok tt | None => Er e_Value end
      end
  end.

(* r.content_length or 0  (parse_int_safe of the first Content-Length header: text that int()
   refuses is "no length" — the C12 repair already in /repo) *)
Definition resp_clen (hl : list (str * str)) : res Z :=
  match first_cl hl with
  | None => Ok 0%Z
  | Some [] => Ok 0%Z
  | Some v => match py_int v with Some n => Ok n | None => Ok 0%Z end
  end.

(* Response.from_file (repaired): text = true for a text file, conv encodes the body text *)
Definition resp_from_file (text : bool) (conv : str -> res bytes) (cw : N -> nat) (s : str) : res (resp * str) :=
  let '(l0, s1) := readline s in
  let st0 := strip_by is_space_bytes l0 in
  let http := starts_with (A "HTTP/") st0 in
  let status :=
    if http then
      match split_ws_max (space_of text) 2 st0 with
      | [_; num; txt] => Ok (num ++ [32] ++ txt)
      | _ => Er e_Value
      end
    else Ok st0 in
  match status with
  | Er x => Er x
  | Ok status =>
      match rhdr_loop (S (length s1)) [] s1 with
      | Er x => Er x
      | Ok (hl, s2) =>
          (* cls(status=...): a status still in bytes is decoded as ASCII by the status setter *)
          if negb text && negb http && negb (ascii_only status) then Er (A "UnicodeDecodeError") else
          match status_ok status with
          | Er x => Er x
          | Ok _ =>
              match resp_clen hl with
              | Er x => Er x
              | Ok n =>                                      (* content_length or 0 *)
                  let '(raw, s3) := read_body cw (Some n) s2 in
                  match conv raw with
                  | Er x => Er x
                  | Ok body =>
                      Ok (mkResp status
                                 (filter (fun p => negb (is_cl p)) hl ++ [(n_CL, dec_len body)])
                                 body, s3)
                  end
              end
          end
      end
  end.
