(* C09 — request.GET with HELD GetDict objects: every GetDict that request.GET ever handed out is a heap
   cell that the caller may keep and mutate later, also after QUERY_STRING was edited behind its back
   (request.py:827-852, multidict.py:289-345: on_change writes env["QUERY_STRING"] and re-points
   env["webob._parsed_query_vars"] at the mutated GetDict).  Generalises [rq] of C09_QueryCodec.v.
   Definitions only. *)
From Coq Require Import ZArith NArith List Bool.
Require Import Webob.Lib.Val Webob.Lib.PyStr Webob.Lib.C09_Utf8 Webob.Model.MultiDict Webob.Model.C09_QueryCodec.
Import ListNotations.

Record hq := mkHq { hq_qs : str;                          (* environ['QUERY_STRING'] *)
                    hq_cache : option (nat * str);        (* (GetDict object, qs) in the environ *)
                    hq_heap : list items }.               (* every GetDict object created so far *)

Definition hq_dict (r : hq) (i : nat) : items := nth i (hq_heap r) [].

(* BaseRequest.GET: the object handed out (its heap address) *)
Definition hq_get (r : hq) : res nat * hq :=
  let reparse :=
    match (match hq_qs r with [] => Ok [] | _ => parse_utf8 (hq_qs r) end) with
    | Ok l => (Ok (length (hq_heap r)),
               mkHq (hq_qs r) (Some (length (hq_heap r), hq_qs r)) (hq_heap r ++ [l]))
    | UnicodeDecodeError => (UnicodeDecodeError, r)
    | UnicodeEncodeError => (UnicodeEncodeError, r)
    end in
  match hq_cache r with
  | Some (i, q) => if str_eqb q (hq_qs r) then (Ok i, r) else reparse
  | None => reparse
  end.

(* one GetDict method called on object i *)
Definition hq_apply (r : hq) (i : nat) (o : op) : hq * val :=
  let '(l', ret) := step_i (fun k => k) false md_get_other (hq_dict r i) o in
  if is_err ret || is_copy o then (r, ret)
  else let q := on_change l' in (mkHq q (Some (i, q)) (set_nth i l' (hq_heap r)), ret).

Inductive hq_op :=
| HGet (o : op)                 (* req.GET.<op> *)
| HSetQS (s : str)              (* environ['QUERY_STRING'] = s *)
| HHeld (i : nat) (o : op).     (* <the i-th GetDict ever handed out>.<op>  (no-op if there is none) *)

Definition hq_step (r : hq) (o : hq_op) : hq * val :=
  match o with
  | HSetQS s => (mkHq s (hq_cache r) (hq_heap r), VNone)
  | HGet o' =>
      match hq_get r with
      | (Ok i, r1) => hq_apply r1 i o'
      | (e, r1) => (r1, res_err e)
      end
  | HHeld i o' => if Nat.ltb i (length (hq_heap r)) then hq_apply r i o' else (r, VNone)
  end.

(* what request.GET shows *)
Definition hq_view (r : hq) : res items * hq :=
  match hq_get r with
  | (Ok i, r1) => (Ok (hq_dict r1 i), r1)
  | (UnicodeDecodeError, r1) => (UnicodeDecodeError, r1)
  | (UnicodeEncodeError, r1) => (UnicodeEncodeError, r1)
  end.

Fixpoint hq_run (ops : list hq_op) (r : hq) : list val :=
  match ops with
  | [] => []
  | o :: ops' =>
      let '(r1, ret) := hq_step r o in
      let '(v, r2) := hq_view r1 in
      VList [ret; v_res_items v; VStr (hq_qs r2); VList (map vitems (hq_heap r2))] :: hq_run ops' r2
  end.
Definition run_request_held (qs0 : str) (ops : list hq_op) : val := VList (hq_run ops (mkHq qs0 None [])).
