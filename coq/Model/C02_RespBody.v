(* C02 — executable model of the body / header / status machinery of webob.response.Response:
     constructor                          response.py:168-329
     status / status_code setters         response.py:426-471
     body getter / setter, json setter    response.py:525-609
     text getter / setter                 response.py:637-671
     write (also ResponseBodyFile.write / writelines)   response.py:700-725, 1519-1550
     app_iter setter / deleter, body_file setter (iter_file)   response.py:690-753, 1510-1516
     charset / content_type properties    response.py:817-944
     encode_content / decode_content / gzip_app_iter    response.py:1282-1334, 1695-1721
     md5_etag                             response.py:1336-1355
     copy                                 response.py:380-393
     _abs_headerlist, __call__, EmptyResponse           response.py:1358-1404, 1624-1645
     header_getter / converter / parse_int              descriptors.py:115-158, 253-256
     ResponseHeaders get / __setitem__ / pop            headers.py:14-98
   Same statements in the same order as the Python code, including the partial effects an exception
   leaves behind.  Definitions only (no proofs) so the model still runs when a proof breaks.

   External: gzip (gzip_app_iter / GzipFile.read), zlib inflate, md5+base64 and urljoin are Section
   variables; [fake_*] below are the symbolic instances the correspondence check runs the model with. *)
From Coq Require Import ZArith NArith List Bool String.
Require Import Webob.Lib.Val Webob.Lib.PyStr Webob.Lib.C02_Base Webob.Lib.C02_Utf8 Webob.Gen.C02_status.
Import ListNotations.
Local Open Scope N_scope.

Definition bytes := str.
Definition hdrs := list (str * str).

(* the response body: a list object, or a one-shot iterator (closable = has .close(), e.g. a generator) *)
Inductive appit :=
| AList (cs : list bytes)
| AIter (closable : bool) (cs : list bytes)
| ATuple (cs : list bytes).       (* re-iterable but not a list (tuple): never consumed, no .close() *)

Record resp := mkR { r_status : str; r_headers : hdrs; r_app : appit; r_cond : bool }.

(* class attributes a subclass may override *)
Record cfg := mkCfg { d_ctype : option str; d_charset : option str; d_cond : bool;
                      d_benc : option str   (* default_body_encoding *) }.

Definition chunks (a : appit) : list bytes :=
  match a with AList cs => cs | AIter _ cs => cs | ATuple cs => cs end.
(* b"".join(app_iter) *)
Definition content (r : resp) : bytes := List.concat (chunks (r_app r)).

Definition with_app (r : resp) (a : appit) : resp := mkR (r_status r) (r_headers r) a (r_cond r).
Definition with_headers (r : resp) (h : hdrs) : resp := mkR (r_status r) h (r_app r) (r_cond r).
Definition with_status (r : resp) (s : str) : resp := mkR s (r_headers r) (r_app r) (r_cond r).

(* ---------- exception classes ---------- *)
Definition E_Type := s2l "TypeError".
Definition E_Value := s2l "ValueError".
Definition E_Key := s2l "KeyError".
Definition E_Index := s2l "IndexError".
Definition E_Attr := s2l "AttributeError".
Definition E_Assert := s2l "AssertionError".
Definition E_Lookup := s2l "LookupError".
Definition E_UEnc := s2l "UnicodeEncodeError".
Definition E_UDec := s2l "UnicodeDecodeError".
Definition E_Gzip := s2l "GzipError".     (* BadGzipFile / EOFError / zlib.error, canonicalised by the harness *)

(* ---------- header list primitives ---------- *)
Definition K_CL := s2l "content-length".
Definition K_CT := s2l "content-type".
Definition K_CE := s2l "content-encoding".
Definition K_CMD5 := s2l "content-md5".
Definition K_ETAG := s2l "etag".
Definition K_LOC := s2l "location".
Definition N_CL := s2l "Content-Length".
Definition N_CT := s2l "Content-Type".
Definition N_CE := s2l "Content-Encoding".
Definition N_CMD5 := s2l "Content-MD5".
Definition N_ETAG := s2l "ETag".
Definition N_LOC := s2l "Location".

Definition is_key (key : str) (kv : str * str) : bool := str_eqb (lower (fst kv)) key.

(* header_getter.fget: first pair whose lowered name is key *)
Fixpoint hfirst (key : str) (l : hdrs) : option str :=
  match l with
  | [] => None
  | kv :: l' => if is_key key kv then Some (snd kv) else hfirst key l'
  end.
(* header_getter.fdel: r._headerlist[:] = [... if k.lower() != key] *)
Definition hdel (key : str) (l : hdrs) : hdrs := filter (fun kv => negb (is_key key kv)) l.
(* header_getter.fset with a str value: control-character check FIRST (a refused assignment leaves the
   existing header in place), then fdel, append *)
Definition hset (name v : str) (l : hdrs) : hdrs * option str :=
  if has_crlf v then (l, Some E_Value) else (hdel (lower name) l ++ [(name, v)], None).
(* the same when the value is known to be free of CR/LF (str(int), "gzip") *)
Definition hset_plain (name v : str) (l : hdrs) : hdrs := hdel (lower name) l ++ [(name, v)].
(* ResponseHeaders.get / __getitem__: for k, v in reversed(items) *)
Definition hlast (key : str) (l : hdrs) : option str := hfirst key (rev l).
(* ResponseHeaders.__setitem__ *)
Definition rh_set (name v : str) (l : hdrs) : hdrs := hdel (lower name) l ++ [(name, v)].
(* ResponseHeaders.pop(key, None): the FIRST match is removed *)
Fixpoint rh_pop (key : str) (l : hdrs) : option str * hdrs :=
  match l with
  | [] => (None, [])
  | kv :: l' =>
      if is_key key kv then (Some (snd kv), l')
      else let '(v, r) := rh_pop key l' in (v, kv :: r)
  end.

(* ---------- Content-Length = converter(header_getter, parse_int, str) ---------- *)
Definition parse_int (o : option str) : res (option N) :=
  match o with
  | None => Ok None
  | Some [] => Ok None
  | Some s => match parse_dec s with Some n => Ok (Some n) | None => Exc E_Value end
  end.
Definition cl_get (r : resp) : res (option N) := parse_int (hfirst K_CL (r_headers r)).
Definition cl_set (r : resp) (n : N) : resp := with_headers r (hset_plain N_CL (dec n) (r_headers r)).
Definition cl_del (r : resp) : resp := with_headers r (hdel K_CL (r_headers r)).

(* ---------- charset: CHARSET_RE = semicolon, whitespace run, charset=, then everything up to the next semicolon; re.I ---------- *)
(* CHARSET_RE.search(h) as (h[:m.start()], m.group(1), h[m.end():]) *)
Fixpoint cs_search (s : str) : option (str * str * str) :=
  match s with
  | [] => None
  | c :: s' =>
      let continue :=
        match cs_search s' with
        | Some (p, g, x) => Some (c :: p, g, x)
        | None => None
        end in
      if c =? 59 then
        match strip_prefix_ci (s2l "charset=") (drop_while is_space_str s') with
        | Some rest => let '(g, x) := span_until 59 rest in Some ([], g, x)
        | None => continue
        end
      else continue
  end.

Definition charset_of (h : hdrs) : option str :=
  match hlast K_CT h with
  | None => None
  | Some [] => None
  | Some v => match cs_search v with Some (_, g, _) => Some g | None => None end
  end.

Definition cut_charset (v : str) : str :=
  match cs_search v with Some (p, _, x) => p ++ x | None => v end.

(* _charset__set *)
Definition set_charset (c : option str) (h : hdrs) : hdrs * option str :=
  match c with
  | None =>   (* _charset__del *)
      match rh_pop K_CT h with
      | (None, _) => (h, None)
      | (Some v, h1) => (rh_set N_CT (cut_charset v) h1, None)
      end
  | Some cs =>
      match hlast K_CT h with
      | None => (h, Some E_Attr)
      | Some v => (rh_set N_CT (cut_charset v ++ s2l "; charset=" ++ cs) h, None)
      end
  end.

Definition is_xml (ct : str) : bool :=
  starts_with (s2l "application/xml") ct
  || (starts_with (s2l "application/") ct && ends_with (s2l "+xml") ct)
  || (starts_with (s2l "image/") ct && ends_with (s2l "+xml") ct).
Definition ct_has_charset (ct : str) : bool := starts_with (s2l "text/") ct || is_xml ct.

(* the shared tail of the constructor and of _content_type__set *)
Definition add_charset (ct : str) (new_charset : option str) : str :=
  match new_charset with
  | Some ((_ :: _) as cs) =>
      if str_eqb ct (s2l "text/html") || ct_has_charset ct then ct ++ s2l "; charset=" ++ cs else ct
  | _ => ct
  end.

(* _content_type__set *)
Definition set_content_type (c : cfg) (v : option str) (h : hdrs) : hdrs :=
  match v with
  | Some ((_ :: _) as ct) =>
      let has_cs := contains_sub (s2l "charset=") ct in
      let new_cs := if negb has_cs && truthy (d_charset c) then d_charset c else None in
      rh_set N_CT (add_charset ct new_cs) h
  | _ => snd (rh_pop K_CT h)
  end.

(* ---------- codecs ---------- *)
Inductive codec := CUtf8 | CLatin1 | CAscii.
Definition codec_of (name : str) : option codec :=
  let n := lower name in
  if str_eqb n (s2l "utf-8") || str_eqb n (s2l "utf8") then Some CUtf8
  else if str_eqb n (s2l "latin-1") || str_eqb n (s2l "iso-8859-1") || str_eqb n (s2l "latin1") then Some CLatin1
  else if str_eqb n (s2l "ascii") || str_eqb n (s2l "us-ascii") then Some CAscii
  else None.
Definition is_ascii (c : N) : bool := c <? 128.

(* text.encode(name) *)
Definition encode (name t : str) : res bytes :=
  match codec_of name with
  | None => Exc E_Lookup
  | Some CUtf8 => match utf8_encode t with Some b => Ok b | None => Exc E_UEnc end
  | Some CLatin1 => if forallb is_octet t then Ok t else Exc E_UEnc
  | Some CAscii => if forallb is_ascii t then Ok t else Exc E_UEnc
  end.
(* body.decode(name, 'strict') *)
Definition decode (name : str) (b : bytes) : res str :=
  match codec_of name with
  | None => match b with [] => Ok [] | _ => Exc E_Lookup end   (* CPython: b"".decode(x) is "" before any codec lookup *)
  | Some CUtf8 => match utf8_decode b with Some t => Ok t | None => Exc E_UDec end
  | Some CLatin1 => Ok b
  | Some CAscii => if forallb is_ascii b then Ok b else Exc E_UDec
  end.

Definition UTF8 := s2l "UTF-8".     (* default_body_encoding as shipped *)

(* ---------- status ---------- *)
Inductive sarg := SInt (z : Z) | SStr (s : str).

Definition is_digit (c : N) : bool := (48 <=? c) && (c <=? 57).
(* int(s) restricted to optional surrounding whitespace around ASCII digits *)
Definition py_int (s : str) : option N :=
  let t := strip_by is_space_str s in
  if forallb is_digit t then parse_dec t else None.

Fixpoint take_while (f : N -> bool) (s : str) : str :=
  match s with
  | [] => []
  | c :: s' => if f c then c :: take_while f s' else []
  end.
(* s.split()[0] *)
Definition first_token (s : str) : option str :=
  match take_while (fun c => negb (is_space_str c)) (drop_while is_space_str s) with
  | [] => None
  | t => Some t
  end.

Fixpoint zassoc (k : Z) (l : list (Z * str)) : option str :=
  match l with
  | [] => None
  | (k', v) :: l' => if Z.eqb k k' then Some v else zassoc k l'
  end.

Definition dec_z (z : Z) : str :=
  match z with
  | Zneg p => 45 :: dec (Npos p)
  | _ => dec (Z.to_N z)
  end.

(* _status_code__set *)
Definition status_of_code (code : Z) : res str :=
  match zassoc code status_reasons with
  | Some reason => Ok (dec_z code ++ [32] ++ reason)
  | None =>
      match zassoc (code / 100)%Z status_generic_reasons with
      | Some reason => Ok (dec_z code ++ [32] ++ reason)
      | None => Exc E_Key
      end
  end.

(* _status__set *)
Definition status_set (a : sarg) : res str :=
  match a with
  | SInt z => status_of_code z
  | SStr s =>
      match py_int s with
      | Some n => status_of_code (Z.of_N n)
      | None =>
          match first_token s with
          | None => Exc E_Index
          | Some tk => match py_int tk with Some _ => Ok s | None => Exc E_Value end
          end
      end
  end.

(* self._status[0] != "1" and self._status[:3] not in ("204", "205", "304") *)
Definition code_has_body (st : str) : bool :=
  negb (match st with c :: _ => c =? 49 | [] => false end)
  && negb (let p := firstn 3 st in
           str_eqb p (s2l "204") || str_eqb p (s2l "205") || str_eqb p (s2l "304")).

(* ---------- constructor ---------- *)
Inductive body_arg := BBytes (b : bytes) | BText (t : str).
Inductive charset_arg := ChMarker | ChNone | ChSome (s : str).
Record cargs := mkArgs {
  a_body : option body_arg;
  a_status : option sarg;         (* status=, or (repaired code, fixes/C02-2) status_code= / status_int= when status is not given *)
  a_headerlist : option hdrs;
  a_app : option appit;
  a_ctype : option str;
  a_cond : option bool;
  a_charset : charset_arg }.

Definition is_marker (c : charset_arg) : bool := match c with ChMarker => true | _ => false end.
Definition is_some {A} (o : option A) : bool := match o with Some _ => true | None => false end.

(* "Initialize headers": the header list and the body encoding after the Content-Type step
   (response.py:205-287), given whether the status code has a body *)
Definition mk_ct (c : cfg) (a : cargs) (has_body : bool) : hdrs * option str :=
  let hl0 := match a_headerlist a with None => [] | Some h => h end in
  let encoding0 := match a_charset a with ChSome s => Some s | _ => None end in
  let ct := if truthy (a_ctype a) then a_ctype a else d_ctype c in        (* content_type or default *)
  match ct with
  | Some ((_ :: _) as ctv) =>
      if negb (is_some (a_headerlist a)) && has_body then
        let has_cs := contains_sub (s2l "charset=") ctv in
        let enc := if has_cs then None else encoding0 in
        let new_cs := if negb has_cs && is_marker (a_charset a) && truthy (d_charset c)
                      then d_charset c else enc in
        (hl0 ++ [(N_CT, add_charset ctv new_cs)], enc)
      else (hl0, encoding0)
  | _ => (hl0, encoding0)
  end.

(* "Set up app_iter if the HTTP Status code has a body": the Content-Length write *)
Definition mk_finish (a : cargs) (st : str) (hl1 : hdrs) (cond : bool) (b : bytes) : resp :=
  let hl2 := if is_some (a_headerlist a) then hdel K_CL hl1 else hl1 in
  mkR st (hl2 ++ [(N_CL, dec (blen b))]) (AList [b]) cond.

Definition mk (c : cfg) (a : cargs) : res resp :=
  match a_app a, a_body a with
  | Some _, Some _ => Exc E_Type
  | _, _ =>
    let body := match a_body a with Some b => b | None => BBytes [] end in
    match (match a_status a with None => Ok (s2l "200 OK") | Some s => status_set s end) with
    | Exc e => Exc e
    | Ok st =>
      let has_body := code_has_body st in
      let hl1 := fst (mk_ct c a has_body) in
      let encoding1 := snd (mk_ct c a has_body) in
      let cond := match a_cond a with None => d_cond c | Some b => b end in
      match a_app a with
      | Some ap => Ok (mkR st hl1 ap cond)
      | None =>
          if has_body then
            match body with
            | BBytes b => Ok (mk_finish a st hl1 cond b)
            | BText t =>
                (* encoding = self.charset or encoding  (repaired code, fixes/C02-1: the charset the
                   Content-Type announces wins over the charset argument) *)
                let enc := if truthy (charset_of hl1) then charset_of hl1 else encoding1 in
                match enc with
                | None => Exc E_Type
                | Some e => match encode e t with Exc x => Exc x | Ok b => Ok (mk_finish a st hl1 cond b) end
                end
            end
          else Ok (mkR st hl1 (AList [[]]) cond)
      end
    end
  end.

(* ---------- operations ---------- *)
Inductive op :=
| OSetBody (b : bytes)                      (* r.body = b ; r.json = v (b = dumps(v)) *)
| ODelBody                                  (* del r.body / del r.text / del r.json *)
| OSetText (t : str)                        (* r.text = t *)
| OGetBody                                  (* r.body *)
| OGetText                                  (* r.text *)
| OWrite (b : bytes)                        (* r.write(b), r.body_file.write(b) *)
| OWriteText (t : str)                      (* r.write(text) *)
| OSetAppIter (a : appit)                     (* r.app_iter = ... ; r.body_file = file *)
| ODelAppIter                               (* del r.app_iter *)
| OEncode (gzip lazy : bool)                (* r.encode_content('gzip' | 'identity', lazy) *)
| ODecode                                   (* r.decode_content() *)
| OMd5Etag (set_md5 : bool)                 (* r.md5_etag(set_content_md5=...) *)
| OCopy (switch : bool)                     (* c = r.copy(); continue with c (true) or with r (false) *)
| OSetCharset (c : option str)              (* r.charset = c  (None: del r.charset) *)
| OSetContentType (c : option str)          (* r.content_type = c *)
| OSetStatus (s : sarg)                     (* r.status = s *)
| OSetLocation (v : option str)             (* r.location = v *)
| OSetContentLength (n : option N)          (* r.content_length = n  (also the constructor's content_length=) *)
| OCall (head : bool)                       (* r(environ, start_response), iterated and closed by the server *)
| OMd5EtagOf (b : bytes) (set_md5 : bool)   (* r.md5_etag(body=b, set_content_md5=...): the body is not read *)
| OSetCond (b : bool).                      (* r.conditional_response = b *)

Definition vstr_list (l : list str) : val := VList (map VStr l).
Definition vhdrs (h : hdrs) : val := VList (map (fun kv => VList [VStr (fst kv); VStr (snd kv)]) h).
Definition vres {A} (f : A -> val) (x : res A) : val := match x with Ok a => f a | Exc e => VErr e end.
Definition vnone_or_err (e : option str) : val := match e with None => VNone | Some x => VErr x end.

Section Model.
  (* list(gzip_app_iter(chunks)) *)
  Variable gz : list bytes -> list bytes.
  (* GzipFile(fileobj=BytesIO(b)).read(); None = it raises *)
  Variable gunzip : bytes -> option bytes.
  (* zlib.decompress(b), falling back to raw deflate; None = it raises *)
  Variable inflate : bytes -> option bytes.
  (* text_(b64encode(md5(b).digest()).replace(b"\n", b"")) *)
  Variable md5b64 : bytes -> str.
  (* urljoin(_request_uri(environ), value) after the "//" guard *)
  Variable urljoin_base : str -> str.
  Variable c : cfg.

  (* _body__set *)
  Definition set_body (b : bytes) (r : resp) : resp :=
    let r1 := with_headers r (hdel K_CMD5 (r_headers r)) in      (* self.content_md5 = None *)
    cl_set (with_app r1 (AList [b])) (blen b).

  (* _body__get *)
  Definition get_body (r : resp) : resp * res bytes :=
    match r_app r with
    | AList [b] => (r, Ok b)
    | a =>
        let body := List.concat (chunks a) in
        let r1 := with_app r (AList [body]) in
        if blen body =? 0 then (r1, Ok body)
        else match cl_get r1 with
             | Exc e => (r1, Exc e)
             | Ok None => (cl_set r1 (blen body), Ok body)
             | Ok (Some n) => if n =? blen body then (r1, Ok body) else (r1, Exc E_Assert)
             end
    end.

  (* self.charset or self.default_body_encoding; None: neither is set (AttributeError) *)
  Definition text_encoding (h : hdrs) : option str :=
    let cs := charset_of h in
    if truthy cs then cs else if truthy (d_benc c) then d_benc c else None.

  (* _text__get: the AttributeError comes before the body is read *)
  Definition get_text (r : resp) : resp * res str :=
    match text_encoding (r_headers r) with
    | None => (r, Exc E_Attr)
    | Some d =>
        match get_body r with
        | (r1, Exc e) => (r1, Exc e)
        | (r1, Ok b) => (r1, decode d b)
        end
    end.

  (* _text__set *)
  Definition set_text (t : str) (r : resp) : resp * option str :=
    match text_encoding (r_headers r) with
    | None => (r, Some E_Attr)
    | Some e => match encode e t with
                | Exc x => (r, Some x)
                | Ok b => (set_body b r, None)
                end
    end.

  (* write, after the text has been encoded *)
  Definition write_bytes (x : bytes) (r : resp) : resp * res N :=
    let r1 := match r_app r with
              | AList _ => r
              | a => cl_set (with_app r (AList (chunks a))) (sum_len (chunks a))
              end in
    let r2 := with_app r1 (AList (chunks (r_app r1) ++ [x])) in
    match cl_get r2 with
    | Exc e => (r2, Exc e)
    | Ok None => (r2, Ok (blen x))
    | Ok (Some n) => (cl_set r2 (n + blen x), Ok (blen x))
    end.

  Definition write_text (t : str) (r : resp) : resp * res N :=
    match charset_of (r_headers r) with
    | Some ((_ :: _) as cs) =>
        match encode cs t with
        | Exc x => (r, Exc x)
        | Ok b => write_bytes b r
        end
    | _ => (r, Exc E_Type)
    end.

  (* _app_iter__set / _app_iter__del *)
  Definition set_app_iter (a : appit) (r : resp) : resp := with_app (cl_del r) a.
  Definition del_app_iter (r : resp) : resp := cl_del (with_app r (AList [])).

  Definition content_encoding (r : resp) : option str := hfirst K_CE (r_headers r).

  (* decode_content *)
  Definition decode_content (r : resp) : resp * option str :=
    let ce := match content_encoding r with Some ((_ :: _) as v) => v | _ => s2l "identity" end in
    if str_eqb ce (s2l "identity") then (r, None)
    else if negb (str_eqb ce (s2l "gzip") || str_eqb ce (s2l "deflate")) then (r, Some E_Value)
    else
      match get_body r with
      | (r1, Exc e) => (r1, Some e)
      | (r1, Ok b) =>
          match (if str_eqb ce (s2l "gzip") then gunzip b else inflate b) with
          | None => (r1, Some E_Gzip)
          | Some d =>
              let r2 := set_body d r1 in
              (with_headers r2 (hdel K_CE (r_headers r2)), None)      (* self.content_encoding = None *)
          end
      end.

  (* encode_content *)
  Definition encode_content (gzip lazy : bool) (r : resp) : resp * option str :=
    if negb gzip then decode_content r
    else
      if (match content_encoding r with Some v => str_eqb v (s2l "gzip") | None => false end) then (r, None)
      else
        let g := gz (chunks (r_app r)) in
        let r1 := if lazy then cl_del (set_app_iter (AIter true g) r)
                  else cl_set (set_app_iter (AList g) r) (sum_len g) in
        (with_headers r1 (hset_plain N_CE (s2l "gzip") (r_headers r1)), None).   (* self.content_encoding = "gzip" *)

  (* serialize_etag_response for a value without a double quote *)
  Definition etag_quote (v : str) : str := [34] ++ replace_c 34 [92; 34] v ++ [34].

  (* md5_etag(body=None, set_content_md5) *)
  Definition md5_etag (set_md5 : bool) (r : resp) : resp * option str :=
    match get_body r with
    | (r1, Exc e) => (r1, Some e)
    | (r1, Ok b) =>
        let d := md5b64 b in
        let '(h1, e1) := hset N_ETAG (etag_quote (strip_by (fun x => x =? 61) d)) (r_headers r1) in
        match e1 with
        | Some e => (with_headers r1 h1, Some e)
        | None =>
            if set_md5 then
              let '(h2, e2) := hset N_CMD5 d h1 in (with_headers r1 h2, e2)
            else (with_headers r1 h1, None)
        end
    end.

  (* md5_etag(body=b, set_content_md5): only headers change *)
  Definition md5_etag_of (b : bytes) (set_md5 : bool) (h : hdrs) : hdrs * option str :=
    let d := md5b64 b in
    let '(h1, e1) := hset N_ETAG (etag_quote (strip_by (fun x => x =? 61) d)) h in
    match e1 with
    | Some e => (h1, Some e)
    | None => if set_md5 then hset N_CMD5 d h1 else (h1, None)
    end.

  (* copy(): (the response itself afterwards, the new object or the exception of its constructor) *)
  Definition copy (r : resp) : resp * res resp :=
    let cs := chunks (r_app r) in
    (with_app r (AList cs),
     mk c (mkArgs None (Some (SStr (r_status r))) (Some (r_headers r)) (Some (AList cs)) None
                  (Some (r_cond r)) ChMarker)).

  (* SCHEME_RE = re.compile(r"^[a-z]+:", re.I) *)
  Definition is_alpha (x : N) : bool := ((65 <=? x) && (x <=? 90)) || ((97 <=? x) && (x <=? 122)).
  Definition has_scheme (v : str) : bool :=
    match take_while is_alpha v, drop_while is_alpha v with
    | _ :: _, x :: _ => x =? 58
    | _, _ => false
    end.
  (* _make_location_absolute *)
  Definition abs_location (v : str) : str := if has_scheme v then v else urljoin_base v.
  (* _abs_headerlist *)
  Definition abs_headerlist (h : hdrs) : hdrs :=
    map (fun kv => if is_key K_LOC kv then (fst kv, abs_location (snd kv)) else kv) h.

  (* what the WSGI server observes, and what is left of the response afterwards *)
  Record called := mkCalled {
    sr_calls : list (str * hdrs);     (* arguments of every start_response call, in order *)
    yielded : list bytes;             (* chunks obtained by iterating the returned iterable *)
    after : resp }.

  (* __call__ (the conditional_response path is the same function when the request carries no
     conditional or Range header), iterated to exhaustion and closed by the server *)
  Definition call (head : bool) (r : resp) : called :=
    let calls := [(r_status r, abs_headerlist (r_headers r))] in
    if head then
      (* EmptyResponse(self._app_iter): yields nothing; its close is the app_iter's close *)
      mkCalled calls []
        (match r_app r with
         | AIter true _ => with_app r (AIter true [])
         | _ => r
         end)
    else
      mkCalled calls (chunks (r_app r))
        (match r_app r with
         | AIter cl _ => with_app r (AIter cl [])
         | _ => r
         end).

  (* a chunk list that contains a (symbolic) gzip stream is compared joined: zlib decides the chunking *)
  Definition canon_chunks (cs : list bytes) : list bytes :=
    if existsb (existsb (fun x => 256 <=? x)) cs then [List.concat cs] else cs.
  Definition vcalled (k : called) : val :=
    VList [VList (map (fun sh => VList [VStr (fst sh); vhdrs (snd sh)]) (sr_calls k));
           vstr_list (canon_chunks (yielded k))].

  (* one history step: the response to continue with and the observable result *)
  Definition step (r : resp) (o : op) : resp * val :=
    match o with
    | OSetBody b => (set_body b r, VNone)
    | ODelBody => (set_body [] r, VNone)
    | OSetText t => let '(r1, e) := set_text t r in (r1, vnone_or_err e)
    | OGetBody => let '(r1, x) := get_body r in (r1, vres VStr x)
    | OGetText => let '(r1, x) := get_text r in (r1, vres VStr x)
    | OWrite b => let '(r1, x) := write_bytes b r in (r1, vres (fun n => VInt (Z.of_N n)) x)
    | OWriteText t => let '(r1, x) := write_text t r in (r1, vres (fun n => VInt (Z.of_N n)) x)
    | OSetAppIter a => (set_app_iter a r, VNone)
    | ODelAppIter => (del_app_iter r, VNone)
    | OEncode g l => let '(r1, e) := encode_content g l r in (r1, vnone_or_err e)
    | ODecode => let '(r1, e) := decode_content r in (r1, vnone_or_err e)
    | OMd5Etag m => let '(r1, e) := md5_etag m r in (r1, vnone_or_err e)
    | OCopy sw =>
        match copy r with
        | (r1, Exc e) => (r1, VErr e)
        | (r1, Ok r2) => (if sw then r2 else r1, VNone)
        end
    | OSetCharset cs => let '(h, e) := set_charset cs (r_headers r) in (with_headers r h, vnone_or_err e)
    | OSetContentType ct => (with_headers r (set_content_type c ct (r_headers r)), VNone)
    | OSetStatus s =>
        match status_set s with
        | Ok st => (with_status r st, VNone)
        | Exc e => (r, VErr e)
        end
    | OSetLocation v =>
        match v with
        | None => (with_headers r (hdel K_LOC (r_headers r)), VNone)
        | Some x => let '(h, e) := hset N_LOC x (r_headers r) in (with_headers r h, vnone_or_err e)
        end
    | OSetContentLength n =>
        match n with
        | Some x => (cl_set r x, VNone)
        | None => (cl_del r, VNone)
        end
    | OCall head => let k := call head r in (after k, vcalled k)
    | OMd5EtagOf b m => let '(h, e) := md5_etag_of b m (r_headers r) in (with_headers r h, vnone_or_err e)
    | OSetCond b => (mkR (r_status r) (r_headers r) (r_app r) b, VNone)
    end.

  Definition run_ops (ops : list op) (r : resp) : resp := fold_left (fun r o => fst (step r o)) ops r.

  (* ---------- observation for the correspondence ---------- *)
  Definition snapshot (r : resp) : val :=
    VList [VStr (r_status r); vhdrs (r_headers r);
           match r_app r with
           | AList cs => VList [VStr (s2l "list"); vstr_list (canon_chunks cs)]
           | _ => VList [VStr (s2l "iter")]
           end].
  Fixpoint trace (ops : list op) (r : resp) : list val * resp :=
    match ops with
    | [] => ([], r)
    | o :: ops' =>
        let '(r1, v) := step r o in
        let '(t, rf) := trace ops' r1 in
        (VList [v; snapshot r1] :: t, rf)
    end.
  Definition run (a : cargs) (ops : list op) : val :=
    match mk c a with
    | Exc e => VErr e
    | Ok r =>
        let '(t, rf) := trace ops r in
        VList [snapshot r; VList t; vstr_list (canon_chunks (chunks (r_app rf)))]
    end.
End Model.

(* ---------- symbolic instances used by the correspondence ---------- *)
Definition GZ_OPEN : N := 1000.
Definition GZ_CLOSE : N := 1001.
(* a gzip stream of d is OPEN d CLOSE; empty input chunks produce no output chunk *)
Definition fake_gz (cs : list bytes) : list bytes :=
  [GZ_OPEN] :: filter (fun ch => match ch with [] => false | _ => true end) cs ++ [[GZ_CLOSE]].
(* split at the LAST CLOSE: what precedes it, what follows it *)
Fixpoint split_last_close (s : str) : option (str * str) :=
  match s with
  | [] => None
  | x :: s' =>
      match split_last_close s' with
      | Some (a, b) => Some (x :: a, b)
      | None => if x =? GZ_CLOSE then Some ([], s') else None
      end
  end.
(* GzipFile.read: one member, then only zero padding *)
Definition fake_gunzip (b : bytes) : option bytes :=
  match b with
  | x :: rest =>
      if x =? GZ_OPEN then
        match split_last_close rest with
        | Some (d, pad) => if forallb (fun y => y =? 0) pad then Some d else None
        | None => None
        end
      else None
  | [] => Some []          (* GzipFile.read() of an empty file is b"" *)
  end.
Definition fake_inflate (b : bytes) : option bytes := None.
(* a digest text that is header-safe and ends in '=' like base64 of 16 bytes does *)
Definition fake_md5 (b : bytes) : str := List.concat (map (fun x => dec x ++ [46]) b) ++ [61; 61].
(* urljoin("http://example.com/app/dir/page", v) for v = "/path" or a plain relative segment *)
Definition fake_urljoin (v : str) : str :=
  match v with
  | 47 :: _ => s2l "http://example.com" ++ v
  | _ => s2l "http://example.com/app/dir/" ++ v
  end.

Definition run_fake := run fake_gz fake_gunzip fake_inflate fake_md5 fake_urljoin.
