(* C11 — executable model of the text webob WRITES for an entity-tag matcher.  Definitions only.

   Mirrors
     etag.py  _AnyETag.__str__          return "*"
     etag.py  _NoETag.__str__           return ""
     etag.py  ETagMatcher.__str__       return ", ".join(map('"%s"'.__mod__, self.etags))
     etag.py  etag_property.fset        None -> environ.pop(key, None) ; else environ[key] = str(val)
   and, for the direct (not through Response) use of the two converter functions,
     descriptors.py  serialize_etag_response / parse_etag_response   (modelled in Model/C11_etag.v)

   ETagMatcher.__str__ never writes a W/ prefix and never escapes anything: every tag is put
   between two DQUOTEs as it is. *)
From Coq Require Import NArith ZArith List Bool String.
Require Import Webob.Lib.Val Webob.Lib.PyStr Webob.Lib.Rx Webob.Gen.C11_rx Webob.Model.C11_etag.
Import ListNotations.
Local Open Scope N_scope.

(* '"%s"' % t *)
Definition quote1 (t : str) : str := DQ :: t ++ [DQ].

(* the literal ", " *)
Definition COMMA_SP : str := [44; 32].

(* str(matcher) *)
Definition matcher_str (m : matcher) : str :=
  match m with
  | MAny => [42]
  | MNo => []
  | MTags l => join COMMA_SP (map quote1 l)
  end.

(* what may be assigned to request.if_match / request.if_none_match *)
Inductive setval :=
| SVNone                      (* None *)
| SVStr (s : str)             (* a header text: str(s) = s *)
| SVMatcher (m : matcher).    (* AnyETag / NoETag / ETagMatcher(l) *)

(* etag_property.fset: the value environ.get(key) has afterwards (None = key absent) *)
Definition etag_fset (v : setval) : option str :=
  match v with
  | SVNone => None
  | SVStr s => Some s
  | SVMatcher m => Some (matcher_str m)
  end.

(* ------------------------------------------------------------------ observations for the correspondence *)
Definition v_members (m : matcher) (probes : list (option str)) : val :=
  VList (map (fun p => VBool (contains m p)) probes).

(* str(m); ETagMatcher.parse(str(m), strong=True / False); then req.if_match = m and
   req.if_none_match = m: the stored header, the getter's answer, membership of the probes *)
Definition obs_str_roundtrip (m : matcher) (probes : list (option str)) : val :=
  let s := matcher_str m in
  let h := etag_fset (SVMatcher m) in
  VList [VStr s;
         v_matcher (matcher_parse true s); v_matcher (matcher_parse false s);
         v_opt h;
         v_matcher (if_match h); v_members (if_match h) probes;
         v_matcher (if_none_match h); v_members (if_none_match h) probes;
         v_members m probes].

(* serialize_etag_response(a) called directly, then parse_etag_response(that, strong=False / True) *)
Definition obs_ser_parse (a : etag_arg) : val :=
  let s := serialize_etag_response a in
  VList [VStr s; v_opt (parse_etag_response false (Some s)); v_opt (parse_etag_response true (Some s))].
