(* C14 — executable model of the parts of CPython 3.12 urllib.parse that webob's Location
   handling goes through: urlsplit / urlparse / urlunsplit / urlunparse / urljoin
   (Lib/urllib/parse.py:374-606 of 3.12.1).  Mirrors the Python code statement by statement,
   including what makes it dangerous for redirects: stripping of leading C0 controls and
   spaces, deletion of TAB/CR/LF anywhere, scheme detection with [A-Za-z][A-Za-z0-9+.-]*:,
   the '//' network location, the urljoin merge and dot-segment removal.
   Definitions only.  _checknetloc is modelled by the table of characters whose NFKC form contains a
   delimiter; _check_bracketed_host is not (a netloc carrying both '[' and ']' yields SUnsupported). *)
From Coq Require Import NArith List Bool String.
Require Import Webob.Lib.Val Webob.Lib.PyStr.
Import ListNotations.
Local Open Scope N_scope.

(* ---------- small string helpers ---------- *)
Definition is_empty (s : str) : bool := match s with [] => true | _ => false end.

(* s.find(d) >= 0 ? (s[:i], s[i+1:]) *)
Fixpoint split_first (d : N) (s : str) : option (str * str) :=
  match s with
  | [] => None
  | c :: s' =>
      if c =? d then Some ([], s')
      else match split_first d s' with
           | Some (a, b) => Some (c :: a, b)
           | None => None
           end
  end.

(* if d in s: a, b = s.split(d, 1)  else  a, b = s, '' *)
Definition split_or (d : N) (s : str) : str * str :=
  match split_first d s with Some (a, b) => (a, b) | None => (s, []) end.

(* s.rfind(d) >= 0 ? (s[:i], s[i+1:]) *)
Definition split_last (d : N) (s : str) : option (str * str) :=
  match split_first d (rev s) with
  | Some (b, a) => Some (rev a, rev b)
  | None => None
  end.

(* longest prefix without a character satisfying f, and the rest *)
Fixpoint span_until (f : N -> bool) (s : str) : str * str :=
  match s with
  | [] => ([], [])
  | c :: s' => if f c then ([], s) else let (a, b) := span_until f s' in (c :: a, b)
  end.

Fixpoint mem_str (x : str) (l : list str) : bool :=
  match l with [] => false | y :: l' => str_eqb x y || mem_str x l' end.

(* ---------- constants of urllib.parse ---------- *)
Definition c0_or_space (c : N) : bool := c <=? 32.            (* _WHATWG_C0_CONTROL_OR_SPACE *)
Definition unsafe_byte (c : N) : bool := (c =? 9) || (c =? 13) || (c =? 10).   (* _UNSAFE_URL_BYTES_TO_REMOVE *)
Definition is_ascii_alpha (c : N) : bool := ((65 <=? c) && (c <=? 90)) || ((97 <=? c) && (c <=? 122)).
Definition is_digit (c : N) : bool := (48 <=? c) && (c <=? 57).
Definition is_scheme_char (c : N) : bool :=
  is_ascii_alpha c || is_digit c || (c =? 43) || (c =? 45) || (c =? 46).     (* scheme_chars *)
Definition is_delim (c : N) : bool := (c =? 47) || (c =? 63) || (c =? 35).   (* '/?#' in _splitnetloc *)

Definition uses_relative : list str :=
  [ []; (H "667470"%string); (H "68747470"%string); (H "676f70686572"%string); (H "6e6e7470"%string); 
    (H "696d6170"%string); (H "77616973"%string); (H "66696c65"%string); (H "6874747073"%string); 
    (H "7368747470"%string); (H "6d6d73"%string); (H "70726f737065726f"%string); (H "72747370"%string); 
    (H "7274737073"%string); (H "7274737075"%string); (H "73667470"%string); (H "73766e"%string); 
    (H "73766e2b737368"%string); (H "7773"%string); (H "777373"%string) ].
Definition uses_netloc : list str :=
  [ []; (H "667470"%string); (H "68747470"%string); (H "676f70686572"%string); (H "6e6e7470"%string); 
    (H "74656c6e6574"%string); (H "696d6170"%string); (H "77616973"%string); (H "66696c65"%string); 
    (H "6d6d73"%string); (H "6874747073"%string); (H "7368747470"%string); (H "736e657773"%string); 
    (H "70726f737065726f"%string); (H "72747370"%string); (H "7274737073"%string); (H "7274737075"%string); 
    (H "7273796e63"%string); (H "73766e"%string); (H "73766e2b737368"%string); (H "73667470"%string); 
    (H "6e6673"%string); (H "676974"%string); (H "6769742b737368"%string); (H "7773"%string); 
    (H "777373"%string); (H "69746d732d7365727669636573"%string) ].
Definition uses_params : list str :=
  [ []; (H "667470"%string); (H "68646c"%string); (H "70726f737065726f"%string); (H "68747470"%string); 
    (H "696d6170"%string); (H "6874747073"%string); (H "7368747470"%string); (H "72747370"%string); 
    (H "7274737073"%string); (H "7274737075"%string); (H "736970"%string); (H "73697073"%string); 
    (H "6d6d73"%string); (H "73667470"%string); (H "74656c"%string) ].

(* ---------- urlsplit ---------- *)
Inductive split_res :=
| SOk (scheme netloc path query fragment : str)
| SValueError              (* "Invalid IPv6 URL": exactly one of '[' ']' in the netloc *)
| SUnsupported.            (* bracketed host: _check_bracketed_host (ipaddress) is outside the model *)

(* url = url.lstrip(C0_OR_SPACE); for b in '\t\r\n': url = url.replace(b, '') *)
Definition clean_url (u : str) : str := filter (fun c => negb (unsafe_byte c)) (lstrip_by c0_or_space u).
Definition clean_scheme (s : str) : str := filter (fun c => negb (unsafe_byte c)) (strip_by c0_or_space s).

(* i = url.find(':'); if i > 0 and url[0].isascii() and url[0].isalpha(): for c in url[:i]: if c not in
   scheme_chars: break; else: scheme, url = url[:i].lower(), url[i+1:] *)
Definition take_scheme (dflt url : str) : str * str :=
  match split_first 58 url with
  | Some (c :: p, rest) =>
      if is_ascii_alpha c && forallb is_scheme_char (c :: p) then (lower (c :: p), rest) else (dflt, url)
  | _ => (dflt, url)
  end.

(* if url[:2] == '//': netloc, url = _splitnetloc(url, 2) *)
Definition starts2 (a b : N) (s : str) : bool :=
  match s with x :: y :: _ => (x =? a) && (y =? b) | _ => false end.

Definition take_netloc (url : str) : str * str :=
  if starts2 47 47 url then span_until is_delim (skipn 2 url) else ([], url).

(* _checknetloc: a netloc with a character whose NFKC form contains one of / ? # @ : is refused.
   The code points below are all such characters of Unicode 15.0 (the harness recomputes the list
   with unicodedata on every run and compares). *)
Definition nfkc_delim : list N :=
  [8263; 8264; 8265; 8448; 8449; 8453; 8454; 10868; 65043; 65046; 65109; 65110; 65119; 65131;
   65283; 65295; 65306; 65311; 65312].
Definition checknetloc (netloc : str) : bool := existsb (fun c => mem_n c nfkc_delim) netloc.

Definition urlsplit (url0 scheme0 : str) : split_res :=
  let url := clean_url url0 in
  let scheme := clean_scheme scheme0 in
  let (scheme, url) := take_scheme scheme url in
  let (netloc, url) := take_netloc url in
  let lb := mem_n 91 netloc in
  let rb := mem_n 93 netloc in
  if xorb lb rb then SValueError
  else if lb && rb then SUnsupported
  else if checknetloc netloc then SValueError
  else
    let (url, fragment) := split_or 35 url in      (* if '#' in url: url, fragment = url.split('#', 1) *)
    let (url, query) := split_or 63 url in         (* if '?' in url: url, query = url.split('?', 1) *)
    SOk scheme netloc url query fragment.

(* ---------- urlparse ---------- *)
Inductive parse_res :=
| POk (scheme netloc path params query fragment : str)
| PValueError
| PUnsupported.

(* _splitparams, called only when ';' in url *)
Definition splitparams (url : str) : str * str :=
  match split_last 47 url with
  | Some (pre, lastseg) =>            (* i = url.find(';', url.rfind('/')) *)
      match split_first 59 lastseg with
      | Some (a, b) => (pre ++ 47 :: a, b)
      | None => (url, [])
      end
  | None =>
      match split_first 59 url with
      | Some (a, b) => (a, b)
      | None => (url, [])            (* unreachable: the caller checked ';' in url *)
      end
  end.

Definition urlparse (url scheme : str) : parse_res :=
  match urlsplit url scheme with
  | SValueError => PValueError
  | SUnsupported => PUnsupported
  | SOk scheme netloc path query fragment =>
      if mem_str scheme uses_params && mem_n 59 path
      then let (path, params) := splitparams path in POk scheme netloc path params query fragment
      else POk scheme netloc path [] query fragment
  end.

(* ---------- urlunsplit / urlunparse ---------- *)
Definition urlunsplit (scheme netloc url query fragment : str) : str :=
  let url :=
    if negb (is_empty netloc) || (negb (is_empty scheme) && mem_str scheme uses_netloc && negb (starts2 47 47 url))
    then
      let url := match url with
                 | [] => url
                 | c :: _ => if c =? 47 then url else 47 :: url
                 end in
      47 :: 47 :: netloc ++ url
    else url in
  let url := if is_empty scheme then url else scheme ++ 58 :: url in
  let url := if is_empty query then url else url ++ 63 :: query in
  if is_empty fragment then url else url ++ 35 :: fragment.

Definition urlunparse (scheme netloc url params query fragment : str) : str :=
  let url := if is_empty params then url else url ++ 59 :: params in
  urlunsplit scheme netloc url query fragment.

(* ---------- urljoin ---------- *)
Inductive join_res :=
| JOk (s : str)
| JValueError
| JUnsupported.

Definition dot : str := [46].
Definition dotdot : str := [46; 46].

(* segments[1:-1] = filter(None, segments[1:-1]) *)
Definition filter_middle (segs : list str) : list str :=
  match segs with
  | [] => []
  | first :: rest =>
      match rest with
      | [] => [first]
      | _ => first :: filter (fun s => negb (is_empty s)) (removelast rest) ++ [last rest []]
      end
  end.

(* for seg in segments: '..' pops (ignoring IndexError), '.' is skipped, anything else is appended.
   [acc] is the resolved path in reverse. *)
Fixpoint resolve (segs : list str) (acc : list str) : list str :=
  match segs with
  | [] => rev acc
  | seg :: segs' =>
      if str_eqb seg dotdot then resolve segs' (tl acc)
      else if str_eqb seg dot then resolve segs' acc
      else resolve segs' (seg :: acc)
  end.

Definition urljoin (base url : str) : join_res :=
  if is_empty base then JOk url
  else if is_empty url then JOk base
  else
    match urlparse base [] with
    | PValueError => JValueError
    | PUnsupported => JUnsupported
    | POk bscheme bnetloc bpath bparams bquery bfragment =>
        match urlparse url bscheme with
        | PValueError => JValueError
        | PUnsupported => JUnsupported
        | POk scheme netloc path params query fragment =>
            if negb (str_eqb scheme bscheme) || negb (mem_str scheme uses_relative) then JOk url
            else if mem_str scheme uses_netloc && negb (is_empty netloc)
            then JOk (urlunparse scheme netloc path params query fragment)
            else
              let netloc := if mem_str scheme uses_netloc then bnetloc else netloc in
              if is_empty path && is_empty params
              then JOk (urlunparse scheme netloc bpath bparams (if is_empty query then bquery else query) fragment)
              else
                let base_parts := split_c 47 bpath in
                let base_parts := if is_empty (last base_parts []) then base_parts else removelast base_parts in
                let segments :=
                  if starts_with [47] path then split_c 47 path
                  else filter_middle (base_parts ++ split_c 47 path) in
                let resolved := resolve segments [] in
                let lastseg := last segments [] in
                let resolved := if str_eqb lastseg dot || str_eqb lastseg dotdot then resolved ++ [[]] else resolved in
                let joined := join [47] resolved in
                JOk (urlunparse scheme netloc (if is_empty joined then [47] else joined) params query fragment)
        end
    end.

(* observation for the correspondence check *)
Definition str_list (l : list str) : val := VList (map VStr l).
Definition urlsplit_obs (url scheme : str) : val :=
  match urlsplit url scheme with
  | SOk a b c d e => str_list [a; b; c; d; e]
  | SValueError => VErr (H "56616c75654572726f72"%string)
  | SUnsupported => VErr (H "756e737570706f72746564"%string)
  end.
Definition urlparse_obs (url scheme : str) : val :=
  match urlparse url scheme with
  | POk a b c d e f => str_list [a; b; c; d; e; f]
  | PValueError => VErr (H "56616c75654572726f72"%string)
  | PUnsupported => VErr (H "756e737570706f72746564"%string)
  end.
Definition urljoin_obs (base url : str) : val :=
  match urljoin base url with
  | JOk s => VStr s
  | JValueError => VErr (H "56616c75654572726f72"%string)
  | JUnsupported => VErr (H "756e737570706f72746564"%string)
  end.
