(* C12 — executable model of
     descriptors.py:297-342   _rx_auth_param.findall, parse_auth_params, parse_auth, serialize_auth
     response.py:813-995      Response charset / content_type / content_type_params (CHARSET_RE, _PARAM_RE,
                              _OK_PARAM_RE, _content_type_has_charset, _is_xml)
     request.py:129-146, 285-315, 1723-1734   Request content_type, charset, detect_charset, _is_utf8
   Definitions only.  The regular expressions are hand-written scanners validated against re by the
   correspondences `auth_params`, `charset_re`, `param_re`:
     _rx_auth_param : lower-case name, blanks, equals, blanks, then either a double-quoted text matched LAZILY
        up to the first closing quote that is followed by blanks and (end of text | comma, spaces), or the
        shortest comma-free text followed by the same tail; findall.
     CHARSET_RE : semicolon, white space, charset= (ignoring case), then everything up to the next semicolon; search.
     _PARAM_RE (as repaired by fixes/C12-15): token name, equals, then a double-quoted text in which a backslash
        takes the next character with it (quoted-pair), or a possibly empty run of [a-z0-9_.-]; ignoring case;
        finditer.  The getter removes the backslash of every quoted-pair; the setter quotes a value unless
        _OK_PARAM_RE accepts it, escaping backslash and double quote. *)
From Coq Require Import ZArith NArith List Bool.
Require Import Webob.Lib.Val Webob.Lib.PyStr Webob.Lib.C12_PyInt Webob.Model.C12_Headers
               Webob.Model.C12_ByteRange Webob.Model.C12_CacheControl.
Import ListNotations.
Local Open Scope N_scope.

(* ================================================================== authorization / www_authenticate *)
Definition is_lower (c : N) : bool := (97 <=? c) && (c <=? 122).
Definition is_sptab (c : N) : bool := (c =? 32) || (c =? 9).
Definition is_sp (c : N) : bool := c =? 32.

(* blanks, then end of text or a comma and spaces: the rest to continue from *)
Definition auth_tail (s : str) : option str :=
  match drop_while is_sptab s with
  | [] => Some []
  | c :: r => if c =? 44 then Some (drop_while is_sp r) else None
  end.

(* after the opening quote: lazily extend the body (no newline) to a closing quote with a proper tail *)
Fixpoint auth_quoted (s : str) (acc : str) : option (str * str) :=
  match s with
  | [] => None
  | c :: s' =>
      if c =? 34 then
        match auth_tail s' with
        | Some r => Some (rev acc, r)
        | None => auth_quoted s' (c :: acc)
        end
      else if c =? 10 then None
      else auth_quoted s' (c :: acc)
  end.

Definition auth_bare (s : str) : str * str :=
  let '(seg, r) := span (fun c => negb (c =? 44)) s in
  (rstrip_by is_sptab seg, match r with _ :: r' => drop_while is_sp r' | [] => [] end).

Fixpoint auth_params (fuel : nat) (s : str) : list (str * str) :=
  match fuel with
  | O => []
  | S f =>
      match s with
      | [] => []
      | c :: s' =>
          if is_lower c then
            let '(nm, r0) := span is_lower s in
            match drop_while is_sptab r0 with
            | e :: r1 =>
                if e =? 61 then
                  let r2 := drop_while is_sptab r1 in
                  let '(v, rest) :=
                    match r2 with
                    | q :: r3 =>
                        if q =? 34 then
                          match auth_quoted r3 [] with
                          | Some (b, rest) => (34 :: b ++ [34], rest)
                          | None => auth_bare r2
                          end
                        else auth_bare r2
                    | [] => auth_bare r2
                    end in
                  (nm, v) :: auth_params f rest
                else auth_params f s'
            | [] => auth_params f s'
            end
          else auth_params f s'
      end
  end.

Fixpoint dset (k v : str) (d : list (str * str)) : list (str * str) :=
  match d with
  | [] => [(k, v)]
  | (k', x) :: d' => if str_eqb k' k then (k', v) :: d' else (k', x) :: dset k v d'
  end.
Definition is_dq (c : N) : bool := c =? 34.
(* parse_auth_params: r[k] = v stripped of double quotes at both ends *)
Definition parse_auth_params (s : str) : list (str * str) :=
  fold_left (fun d kv => dset (fst kv) (strip_by is_dq (snd kv)) d) (auth_params (S (length s)) s) [].

Definition known_schemes : list str :=
  [[66;97;115;105;99]; [68;105;103;101;115;116]; [87;83;83;69]; [72;77;65;67;68;105;103;101;115;116];
   [71;111;111;103;108;101;76;111;103;105;110]; [67;111;111;107;105;101]; [79;112;101;110;73;68]].
Definition s_Basic : str := [66;97;115;105;99].

Definition auth_tag : str := [97; 117; 116; 104].
Definition dict_val (d : list (str * str)) : val := VList (map (fun kv => VList [VStr (fst kv); VStr (snd kv)]) d).

Definition parse_auth (v : option str) : res val :=
  match v with
  | None => Ok VNone
  | Some s =>
      let '(authtype, _, params) := partition_c 32 s in
      if existsb (str_eqb authtype) known_schemes then
        if str_eqb authtype s_Basic && negb (existsb is_dq params)
        then Ok (VList [VStr auth_tag; VStr authtype; VStr params])
        else Ok (VList [VStr auth_tag; VStr authtype; dict_val (parse_auth_params params)])
      else Ok (VList [VStr auth_tag; VStr authtype; VStr params])
  end.

Definition kv_str (kv : str * str) : str := fst kv ++ [61; 34] ++ snd kv ++ [34].
Definition serialize_auth (v : pyv) : res (option str) :=
  match v with
  | PAuth scheme params => Ok (Some (scheme ++ [32] ++ join comma_sp (map kv_str params)))
  | PAuthS scheme params => Ok (Some (scheme ++ [32] ++ params))
  | PStr s => Ok (Some s)
  | _ => Raise TypeError
  end.
Definition conv_auth : conv := mkConv parse_auth serialize_auth.

(* ================================================================== Content-Type *)
Definition ct_name : str := [67;111;110;116;101;110;116;45;84;121;112;101].      (* Content-Type *)
Definition ct_key : str := [99;111;110;116;101;110;116;45;116;121;112;101].       (* content-type *)
Definition s_charset_eq : str := [99;104;97;114;115;101;116;61].                  (* charset= *)

(* CHARSET_RE.search: text before the match, group 1, text after the match *)
Fixpoint charset_search (fuel : nat) (pre s : str) : option (str * str * str) :=
  match fuel with
  | O => None
  | S f =>
      match s with
      | [] => None
      | c :: s' =>
          let here :=
            if c =? 59 then
              match match_ci s_charset_eq (drop_while is_space_str s') with
              | Some r => let '(v, rest) := span (fun x => negb (x =? 59)) r in Some (rev pre, v, rest)
              | None => None
              end
            else None in
          match here with
          | Some m => Some m
          | None => charset_search f (c :: pre) s'
          end
      end
  end.
Definition charset_re (s : str) : option (str * str * str) := charset_search (S (length s)) [] s.

(* ResponseHeaders: get = last line, __setitem__ = drop all then append, pop = remove the FIRST line *)
Definition ct_get (hl : pairs) : option str := hg_get_last ct_key hl.
Definition ct_put (t : str) (hl : pairs) : pairs := hg_del ct_key hl ++ [(ct_name, t)].
Fixpoint ct_pop (hl : pairs) : option str * pairs :=
  match hl with
  | [] => (None, [])
  | (k, v) :: hl' => if str_eqb (lower k) ct_key then (Some v, hl')
                     else let '(r, l) := ct_pop hl' in (r, (k, v) :: l)
  end.

Definition before_semi (s : str) : str := fst (span (fun x => negb (x =? 59)) s).
Definition after_semi (s : str) : option str :=
  match snd (span (fun x => negb (x =? 59)) s) with _ :: r => Some r | [] => None end.

(* Response.charset *)
Definition rcharset_get (hl : pairs) : val :=
  match ct_get hl with
  | None | Some [] => VNone
  | Some h => match charset_re h with Some (_, v, _) => VStr v | None => VNone end
  end.
Definition strip_charset (h : str) : str :=
  match charset_re h with Some (a, _, b) => a ++ b | None => h end.
Definition s_semi_charset : str := [59; 32] ++ s_charset_eq.
Definition rcharset_del (hl : pairs) : pairs :=
  match ct_pop hl with
  | (None, _) => hl
  | (Some h, hl') => ct_put (strip_charset h) hl'
  end.
Definition rcharset_set (v : pyv) (hl : pairs) : pairs * option str :=
  match v with
  | PNone => (rcharset_del hl, None)
  | PStr cs =>
      match ct_get hl with
      | None => (hl, Some AttributeError)
      | Some h => (ct_put (strip_charset h ++ s_semi_charset ++ cs) hl, None)
      end
  | _ => (hl, Some TypeError)
  end.

(* Response.content_type *)
Definition rct_get (hl : pairs) : val :=
  match ct_get hl with
  | None | Some [] => VNone
  | Some h => VStr (before_semi h)
  end.
Fixpoint contains (p s : str) : bool :=
  starts_with p s || match s with [] => false | _ :: s' => contains p s' end.
Definition s_text_html : str := [116;101;120;116;47;104;116;109;108].
Definition s_text_ : str := [116;101;120;116;47].
Definition s_app_xml : str := [97;112;112;108;105;99;97;116;105;111;110;47;120;109;108].
Definition s_app_ : str := [97;112;112;108;105;99;97;116;105;111;110;47].
Definition s_image_ : str := [105;109;97;103;101;47].
Definition s_plus_xml : str := [43;120;109;108].
Definition s_utf8 : str := [85;84;70;45;56].
Definition is_xml (ct : str) : bool :=
  starts_with s_app_xml ct || (starts_with s_app_ ct && ends_with s_plus_xml ct)
  || (starts_with s_image_ ct && ends_with s_plus_xml ct).
Definition ct_has_charset (ct : str) : bool := starts_with s_text_ ct || is_xml ct.
Definition rct_del (hl : pairs) : pairs := snd (ct_pop hl).
(* [dcs] = self.default_charset, a class attribute meant to be overridden ("UTF-8"; empty = None / falsy) *)
Definition rct_set (dcs : str) (v : pyv) (hl : pairs) : pairs * option str :=
  match v with
  | PNone | PStr [] => (rct_del hl, None)
  | PStr ct =>
      let has := contains s_charset_eq ct in
      let ct' := if negb has && nonempty dcs && (str_eqb ct s_text_html || ct_has_charset ct)
                 then ct ++ s_semi_charset ++ dcs else ct in
      (ct_put ct' hl, None)
  | _ => (hl, Some TypeError)
  end.

(* Response.content_type_params *)
Definition is_alnum (c : N) : bool := is_alpha c || ((48 <=? c) && (c <=? 57)).
Definition is_pvalue (c : N) : bool := is_alnum c || (c =? 95) || (c =? 46) || (c =? 45).
(* RFC 7230 tchar: the characters of a parameter name *)
Definition is_pkey (c : N) : bool :=
  is_alnum c || mem_n c [33; 35; 36; 37; 38; 39; 42; 43; 45; 46; 94; 95; 96; 124; 126].

(* the body of a quoted-string after the opening quote: characters other than quote and backslash, or a
   backslash with the next character (not LF); raw body (escapes kept) and the rest after the closing quote *)
Fixpoint quoted_esc (fuel : nat) (s : str) : option (str * str) :=
  match fuel with
  | O => None
  | S f =>
      match s with
      | [] => None
      | c :: s' =>
          if c =? 34 then Some ([], s')
          else if c =? 92 then
            match s' with
            | d :: s'' => if d =? 10 then None
                          else match quoted_esc f s'' with Some (b, r) => Some (c :: d :: b, r) | None => None end
            | [] => None
            end
          else match quoted_esc f s' with Some (b, r) => Some (c :: b, r) | None => None end
      end
  end.
(* _QUOTED_PAIR_RE.sub: drop the backslash of each quoted-pair (a backslash before LF or at the end stays) *)
Fixpoint unescape (fuel : nat) (s : str) : str :=
  match fuel with
  | O => s
  | S f =>
      match s with
      | [] => []
      | c :: s' =>
          if c =? 92 then
            match s' with
            | d :: s'' => if d =? 10 then c :: unescape f s' else d :: unescape f s''
            | [] => [c]
            end
          else c :: unescape f s'
      end
  end.
Fixpoint param_scan (fuel : nat) (s : str) : list (str * str) :=
  match fuel with
  | O => []
  | S f =>
      match s with
      | [] => []
      | c :: s' =>
          if is_pkey c then
            let '(nm, r0) := span is_pkey s in
            match r0 with
            | e :: r1 =>
                if e =? 61 then
                  match r1 with
                  | q :: r2 =>
                      if q =? 34 then
                        match quoted_esc (S (length r2)) r2 with
                        | Some (b, rest) => (nm, unescape (S (length b)) b) :: param_scan f rest
                        | None => (nm, []) :: param_scan f r1
                        end
                      else let '(v, rest) := span is_pvalue r1 in (nm, v) :: param_scan f rest
                  | [] => [(nm, [])]
                  end
                else param_scan f s'
            | [] => []
            end
          else param_scan f s'
      end
  end.
Definition rparams_get (hl : pairs) : val :=
  match ct_get hl with
  | None => dict_val []
  | Some h => match after_semi h with
              | None => dict_val []
              | Some p => dict_val (fold_left (fun d kv => dset (fst kv) (snd kv) d) (param_scan (S (length p)) p) [])
              end
  end.
Definition rparams_del (hl : pairs) : pairs :=
  ct_put (before_semi (match ct_get hl with Some h => h | None => [] end)) hl.
(* ^[a-z0-9_.-]+$ , re.I: the dollar also matches before one final newline *)
Definition ok_param (v : str) : bool :=
  let body := match rev v with 10 :: r => rev r | _ => v end in
  nonempty body && forallb is_pvalue body.
Fixpoint insert_kv (kv : str * str) (l : list (str * str)) : list (str * str) :=
  match l with
  | [] => [kv]
  | x :: l' => if str_ltb (fst kv) (fst x) then kv :: l else x :: insert_kv kv l'
  end.
Definition param_str (kv : str * str) : str :=
  let v := snd kv in
  [59; 32] ++ fst kv ++ [61] ++
  (if ok_param v then v else [34] ++ replace_c 34 [92; 34] (replace_c 92 [92; 92] v) ++ [34]).
Definition rparams_set (v : pyv) (hl : pairs) : pairs * option str :=
  match v with
  | PNone | PAuth _ [] => (rparams_del hl, None)
  | PAuth _ d =>
      let '(h, hl') := ct_pop hl in
      let base := before_semi (match h with Some x => x | None => [] end) in
      (ct_put (base ++ concat (map param_str (fold_right insert_kv [] d))) hl', None)
  | _ => (hl, Some TypeError)
  end.

(* Response content-type machine *)
Inductive ctattr := T_charset | T_content_type | T_params.
Inductive ctop :=
| TGet (a : ctattr) | TSet (a : ctattr) (v : pyv) | TDel (a : ctattr)
| TRaw (k v : str)           (* headerlist.append((k, v)) *)
| TRawDel.                   (* drop every Content-Type line *)

Definition ct_step (dcs : str) (hl : pairs) (o : ctop) : pairs * val :=
  let ev (e : option str) : val := match e with None => VNone | Some x => VErr x end in
  match o with
  | TGet T_charset => (hl, rcharset_get hl)
  | TGet T_content_type => (hl, rct_get hl)
  | TGet T_params => (hl, rparams_get hl)
  | TSet T_charset v => let '(l, e) := rcharset_set v hl in (l, ev e)
  | TSet T_content_type v => let '(l, e) := rct_set dcs v hl in (l, ev e)
  | TSet T_params v => let '(l, e) := rparams_set v hl in (l, ev e)
  | TDel T_charset => (rcharset_del hl, VNone)
  | TDel T_content_type => (rct_del hl, VNone)
  | TDel T_params => (rparams_del hl, VNone)
  | TRaw k v => (hl ++ [(k, v)], VNone)
  | TRawDel => (hg_del ct_key hl, VNone)
  end.
Fixpoint ct_run (dcs : str) (ops : list ctop) (hl : pairs) : list val :=
  match ops with
  | [] => []
  | o :: ops' => let '(hl', r) := ct_step dcs hl o in VList [r; pairs_val hl'] :: ct_run dcs ops' hl'
  end.
Definition run_ct (dcs : str) (init : pairs) (ops : list ctop) : val := VList (ct_run dcs ops init).

(* ================================================================== Request content_type / charset *)
(* _content_type_raw = environ_getter("CONTENT_TYPE", "") *)
Definition qct_get (env : option str) : val := VStr (before_semi (match env with Some t => t | None => [] end)).
Definition qct_set (v : option str) (env : option str) : option str :=
  match v with
  | None => None
  | Some value =>
      if existsb (fun c => c =? 59) value then Some value
      else match after_semi (match env with Some t => t | None => [] end) with
           | Some p => Some (value ++ [59] ++ p)
           | None => Some value
           end
  end.
(* Request.charset as determined at FIRST USE on a wrapper (detect_charset, then _is_utf8); the wrapper then keeps
   this answer (the documented per-object memo, property C01), so this is what a fresh Request answers *)
Definition qcharset_get (env : option str) : val :=
  let ctype := match env with Some t => t | None => [] end in
  let cs := match charset_re ctype with
            | Some (_, v, _) => Some (strip_by is_space_str (strip_by is_dq v))
            | None => None
            end in
  match cs with
  | None | Some [] => VStr s_utf8
  | Some c => if str_eqb (filter (fun x => negb (x =? 45)) (lower c)) [117; 116; 102; 56] then VStr s_utf8 else VStr c
  end.
