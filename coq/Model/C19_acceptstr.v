(* C19 — executable model of the serialisation and addition paths of the Accept-* header classes
   (webob/acceptparse.py), on top of the parse models of C03 (Model/C03_scan.v):

     _item_qvalue_pair_to_header_element                    (40-50)      item_q_element
     Accept._form_extension_params_segment                  (264-284)    form_ext_segment
     Accept._iterable_to_header_element                     (302-326)    accept_element
     __str__ of the four Valid classes                      (760-783, 2038-2048, 3046-3055, 4092-4102)
                                                                         str_accept / str_simple
     _python_value_to_header_str x4                         (355-394, 1807-1826, 2800-2819, 3839-3858)
                                                                         accept_value_text / simple_value_text
     __add__ / __radd__ / _add_instance_and_non_*_type of the Valid / NoHeader / Invalid classes x4
                                                                         add_hdr / add_val
     create_accept*_header, accept*_property fget/fset/fdel, copy()      fget / fset / copy_hdr

   The model is of the REPAIRED code (fixes/C19-add-empty-valid-header.patch): a valid header object whose
   header_value is '' contributes nothing instead of being joined with ', '.
   Qualities are thousandths (N); a Python number operand is [QF k] (the float k/1000) or [QI n] (the int n).
   Definitions only. *)
From Coq Require Import ZArith NArith List Bool.
Require Import Webob.Lib.Val Webob.Lib.PyStr Webob.Lib.Rx Webob.Gen.C03_regexes Webob.Model.C03_scan.
Import ListNotations.
Local Open Scope N_scope.

Definition comma_sp : str := [44; 32].                 (* ", " *)
Definition is_nil (s : str) : bool := match s with [] => true | _ => false end.

(* ---------------- numbers as Python prints them ---------------- *)
Inductive qnum := QF (k : N) | QI (n : N).
Definition q_thousandths (q : qnum) : N := match q with QF k => k | QI n => n * 1000 end.

Fixpoint dec_digits (fuel : nat) (n : N) (acc : str) : str :=
  match fuel with
  | O => acc
  | S f => let acc' := (48 + n mod 10) :: acc in
           if n / 10 =? 0 then acc' else dec_digits f (n / 10) acc'
  end.
Definition dec (n : N) : str := dec_digits 40 n [].     (* str(int), n < 10^40 *)

Definition strip_trailing0 (ds : str) : str := rev (drop_while (fun c => c =? 48) (rev ds)).
Definition frac_text (f : N) : str :=                   (* f < 1000 *)
  if f =? 0 then [48]
  else strip_trailing0 [48 + f / 100; 48 + (f / 10) mod 10; 48 + f mod 10].
(* repr(k / 1000.0): the shortest decimal of a number with at most three decimals *)
Definition float_repr (k : N) : str := dec (k / 1000) ++ 46 :: frac_text (k mod 1000).
Definition qtext (q : qnum) : str := match q with QF k => float_repr k | QI n => dec n end.
Definition q_is (v : N) (q : qnum) : bool := q_thousandths q =? v.

Definition semi_q_eq : str := [59; 113; 61].             (* ";q=" *)

(* _item_qvalue_pair_to_header_element *)
Definition item_q_element (item : str) (q : qnum) : str :=
  if q_is 1000 q then item
  else if q_is 0 q then item ++ semi_q_eq ++ [48]
  else item ++ semi_q_eq ++ qtext q.

(* Accept._form_extension_params_segment: a bare name, or name=value with the value quoted where necessary *)
Definition form_ext_segment (exts : list (str * option str)) : str :=
  flat_map (fun e => 59 :: match snd e with
                           | None => fst e
                           | Some v => fst e ++ 61 :: escape_and_quote v
                           end) exts.

(* Accept._iterable_to_header_element on (media_range, qvalue, extension_params_segment) *)
Definition accept_element (mr : str) (q : qnum) (seg : str) : str :=
  if q_is 1000 q then (if is_nil seg then mr else mr ++ semi_q_eq ++ [49] ++ seg)
  else if q_is 0 q then mr ++ semi_q_eq ++ [48] ++ seg
  else mr ++ semi_q_eq ++ qtext q ++ seg.

(* __str__ *)
Definition accept_el_text (e : accept_el) : str :=
  accept_element (el_range e) (QF (el_q e)) (form_ext_segment (el_exts e)).
Definition str_accept (p : list accept_el) : str := join comma_sp (map accept_el_text p).
Definition simple_el_text (e : str * N) : str := item_q_element (fst e) (QF (snd e)).
Definition str_simple (p : list (str * N)) : str := join comma_sp (map simple_el_text p).

(* ---------------- Python operand values ---------------- *)
Inductive sitem := SStr (s : str) | SPair (item : str) (q : qnum).
Inductive aitem := AStr (s : str) | APair (mr : str) (q : qnum) | ATriple (mr : str) (q : qnum) (seg : str).
Inductive adval := DNum (q : qnum) | DTup (q : qnum) (seg : str).
Inductive pyval (I D : Type) := PNone | PStr (s : str) | PSeq (items : list I) | PDict (items : list (str * D)).
Arguments PNone {I D}. Arguments PStr {I D}. Arguments PSeq {I D}. Arguments PDict {I D}.

(* `not value` for the operand kinds *)
Definition falsy {I D} (v : pyval I D) : bool :=
  match v with
  | PNone => true | PStr [] => true | PSeq [] => true | PDict [] => true
  | _ => false
  end.
Definition is_none {I D} (v : pyval I D) : bool := match v with PNone => true | _ => false end.

(* sorted(..., key=qvalue, reverse=True): stable, descending *)
Section Sort.
  Context {T : Type} (key : T -> N).
  Fixpoint insert_desc (x : T) (l : list T) : list T :=
    match l with
    | [] => [x]
    | y :: l' => if key y <? key x then x :: l else y :: insert_desc x l'
    end.
  Definition sort_desc (l : list T) : list T := fold_left (fun acc x => insert_desc x acc) l [].
End Sort.

Definition none_text : str := [78; 111; 110; 101].       (* str(None) *)

Definition sitem_text (i : sitem) : str :=
  match i with SStr s => s | SPair it q => item_q_element it q end.
(* AcceptCharset / AcceptEncoding / AcceptLanguage ._python_value_to_header_str *)
Definition simple_value_text (v : pyval sitem qnum) : str :=
  match v with
  | PNone => none_text
  | PStr s => s
  | PSeq l => join comma_sp (map sitem_text l)
  | PDict d => join comma_sp (map (fun kv => item_q_element (fst kv) (snd kv))
                                  (sort_desc (fun kv : str * qnum => q_thousandths (snd kv)) d))
  end.

Definition aitem_text (i : aitem) : str :=
  match i with
  | AStr s => s
  | APair mr q => accept_element mr q []
  | ATriple mr q seg => accept_element mr q seg
  end.
Definition adict_triple (kv : str * adval) : str * qnum * str :=
  match snd kv with DNum q => (fst kv, q, []) | DTup q seg => (fst kv, q, seg) end.
(* Accept._python_value_to_header_str *)
Definition accept_value_text (v : pyval aitem adval) : str :=
  match v with
  | PNone => none_text
  | PStr s => s
  | PSeq l => join comma_sp (map aitem_text l)
  | PDict d => join comma_sp (map (fun t : str * qnum * str => accept_element (fst (fst t)) (snd (fst t)) (snd t))
                                  (sort_desc (fun t : str * qnum * str => q_thousandths (snd (fst t)))
                                             (map adict_triple d)))
  end.

(* ---------------- the four families ---------------- *)
Record family (A I D : Type) := mkFam {
  f_parse : str -> option (list A);
  f_text : pyval I D -> str;
  f_empty_ok : bool;      (* Accept, Accept-Encoding: the Valid class has the `== ''` branches *)
  f_none_only : bool      (* Accept, Accept-Encoding: NoHeader/Invalid test `other is None`; the others `not other` *)
}.
Arguments f_parse {A I D}. Arguments f_text {A I D}. Arguments f_empty_ok {A I D}. Arguments f_none_only {A I D}.

Definition fam_accept := mkFam accept_el aitem adval parse_accept accept_value_text true true.
Definition fam_charset := mkFam (str * N) sitem qnum parse_accept_charset simple_value_text false false.
Definition fam_encoding := mkFam (str * N) sitem qnum parse_accept_encoding simple_value_text true true.
Definition fam_language := mkFam (str * N) sitem qnum parse_accept_language simple_value_text false false.

Inductive res (A : Type) := Raise | Ret (h : hdr A).
Arguments Raise {A}. Arguments Ret {A}.

Section Family.
  Context {A I D : Type} (F : family A I D).

  (* XValidHeader(header_value=text): raises ValueError for an invalid value *)
  Definition new_valid (text : str) : res A :=
    match f_parse F text with Some p => Ret (Valid text p) | None => Raise end.
  (* create_accept*_header(text) *)
  Definition create_text (text : str) : hdr A := create (f_parse F) (Some text).

  (* self.__add__(other), other a header object of the same family *)
  Definition add_hdr (self other : hdr A) : res A :=
    match self with
    | Valid t _ =>
        match other with
        | Valid t2 _ =>
            if f_empty_ok F then
              if is_nil t2 then new_valid t
              else if is_nil t then new_valid t2
              else Ret (create_text (t ++ comma_sp ++ t2))
            else Ret (create_text (t ++ comma_sp ++ t2))
        | _ => new_valid t
        end
    | _ =>
        match other with
        | Valid t2 _ => new_valid t2
        | _ => Ret NoHeader
        end
    end.

  (* self + v (right = false) and v + self (right = true) for a str / list / tuple / dict / None operand:
     _add_instance_and_non_*_type *)
  Definition add_val (self : hdr A) (v : pyval I D) (right : bool) : res A :=
    match self with
    | Valid t _ =>
        if falsy v then new_valid t
        else
          let o := f_text F v in
          if f_empty_ok F && is_nil o then new_valid t
          else match f_parse F o with
               | None => new_valid t
               | Some _ =>
                   if f_empty_ok F && is_nil t then new_valid o
                   else new_valid (if right then o ++ comma_sp ++ t else t ++ comma_sp ++ o)
               end
    | _ =>
        if (if f_none_only F then is_none v else falsy v) then Ret NoHeader
        else match f_parse F (f_text F v) with
             | Some p => Ret (Valid (f_text F v) p)
             | None => Ret NoHeader
             end
    end.

  (* operands of the binary operator as Python sees them *)
  Inductive opnd := OV (v : pyval I D) | OH (h : option str).
  Definition run_add (l r : opnd) : option (res A) :=
    match l, r with
    | OH a, OH b => Some (add_hdr (create (f_parse F) a) (create (f_parse F) b))
    | OH a, OV v => Some (add_val (create (f_parse F) a) v false)
    | OV v, OH b => Some (add_val (create (f_parse F) b) v true)
    | OV _, OV _ => None        (* no header object involved: not webob's code *)
    end.

  (* request.accept* : environ slot as option str *)
  Definition fget (e : option str) : hdr A := create (f_parse F) e.
  Definition fset (a : opnd) : option str :=
    match a with
    | OV PNone => None
    | OV v => Some (f_text F v)
    | OH h => match create (f_parse F) h with
              | NoHeader => None
              | Valid t _ => Some t
              | Invalid t => Some t
              end
    end.
  Definition copy_hdr (h : hdr A) : res A :=
    match h with
    | NoHeader => Ret NoHeader
    | Invalid t => Ret (Invalid t)
    | Valid t _ => new_valid t
    end.

  Definition elements (h : hdr A) : list A := match h with Valid _ p => p | _ => [] end.
End Family.
Arguments OV {I D}. Arguments OH {I D}.

(* ---------------- observations for the correspondence ---------------- *)
Definition S_valid : str := [118;97;108;105;100].
Definition S_invalid : str := [105;110;118;97;108;105;100].
Definition S_noheader : str := [110;111;104;101;97;100;101;114].
Definition S_no_header_text : str :=      (* "<no header in request>" *)
  [60;110;111;32;104;101;97;100;101;114;32;105;110;32;114;101;113;117;101;115;116;62].
Definition S_invalid_text : str :=        (* "<invalid header value>" *)
  [60;105;110;118;97;108;105;100;32;104;101;97;100;101;114;32;118;97;108;117;101;62].
Definition E_value_error : str := [86;97;108;117;101;69;114;114;111;114].

Section Obs.
  Context {A : Type} (v_parsed : option (list A) -> val) (str_of : list A -> str).
  Definition kind_hdr (h : hdr A) : val :=
    match h with NoHeader => VStr S_noheader | Invalid _ => VStr S_invalid | Valid _ _ => VStr S_valid end.
  Definition text_hdr (h : hdr A) : val :=
    match h with NoHeader => VNone | Invalid t => VStr t | Valid t _ => VStr t end.
  Definition str_hdr (h : hdr A) : val :=
    match h with
    | NoHeader => VStr S_no_header_text
    | Invalid _ => VStr S_invalid_text
    | Valid _ p => VStr (str_of p)
    end.
  (* header object built from text: [kind, parsed, str] *)
  Definition obs_hdr (h : hdr A) : val :=
    VList [kind_hdr h; match h with Valid _ p => v_parsed (Some p) | _ => VNone end; str_hdr h].
  (* result of an addition: [kind, header_value, str]  (its parsed list is the parse of header_value) *)
  Definition obs_res (r : res A) : val :=
    match r with Raise => VErr E_value_error | Ret h => VList [kind_hdr h; text_hdr h; str_hdr h] end.
  Definition obs_ores (r : option (res A)) : val :=
    match r with None => VNone | Some r => obs_res r end.
  Definition kind_res (r : res A) : val :=
    match r with Raise => VErr E_value_error | Ret h => kind_hdr h end.
End Obs.

Definition obs_accept := obs_hdr v_accept str_accept.
Definition obs_simple := obs_hdr v_simple str_simple.
Definition obs_add_accept l r := obs_ores str_accept (run_add fam_accept l r).
Definition obs_add_simple (F : family (str * N) sitem qnum) l r := obs_ores str_simple (run_add F l r).
Definition v_ostr (o : option str) : val := match o with None => VNone | Some s => VStr s end.
(* [environ value after assignment, kind and header_value the property reads back, kind of its copy()] *)
Definition obs_prop {A I D} (F : family A I D) (a : opnd) : val :=
  let e := fset F a in
  VList [v_ostr e; kind_hdr (fget F e); text_hdr (fget F e); kind_res (copy_hdr F (fget F e))].
(* quoting pair *)
Definition obs_quote (v : str) : val :=
  VList [VStr (escape_and_quote v); VStr (unquote_value (escape_and_quote v))].
