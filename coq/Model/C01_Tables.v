(* C01 — instantiation of the Section variables of C01_EnvView by finite tables, used by the
   correspondence check: the harness records what the real string-level functions
   (parse_qsl_text, GetDict.on_change's url_encode, RequestCookies._cache / _mutate_header /
   _valid_cookie_name, CacheControl.parse, serialize_cache_control, the CacheControl property
   descriptors on an UpdateDict, BaseRequest.charset) return on the strings that occur in a
   history, and the model is run with those tables.  A missing entry yields a sentinel that
   cannot match the implementation's output.  Definitions only. *)
From Coq Require Import ZArith NArith List Bool String.
Require Import Webob.Lib.Val Webob.Lib.PyStr Webob.Lib.C01_Str Webob.Model.MultiDict Webob.Model.C01_EnvView.
Import ListNotations.
Local Open Scope list_scope.

Definition props := list (str * val).      (* CacheControl.properties, sorted by name *)

Fixpoint assoc {A B} (eqb : A -> A -> bool) (k : A) (t : list (A * B)) (d : B) : B :=
  match t with
  | [] => d
  | (a, b) :: t' => if eqb a k then b else assoc eqb k t' d
  end.

Fixpoint items_eqb (a b : items) : bool :=
  match a, b with
  | [], [] => true
  | (k, v) :: a', (k', v') :: b' => str_eqb k k' && str_eqb v v' && items_eqb a' b'
  | _, _ => false
  end.
Fixpoint props_eqb (a b : props) : bool :=
  match a, b with
  | [], [] => true
  | (k, v) :: a', (k', v') :: b' => str_eqb k k' && val_eqb v v' && props_eqb a' b'
  | _, _ => false
  end.
Definition ostr_eqb (a b : option str) : bool :=
  match a, b with
  | Some x, Some y => str_eqb x y
  | None, None => true
  | _, _ => false
  end.

Record tables := mkTables {
  t_parse_qs : list (str * (items + str));
  t_urlencode : list (items * str);
  t_parse_cookie : list (str * list (str * str));
  t_valid_name : list (str * bool);
  t_cookie_edit : list ((str * str * option str) * (str * bool));
  t_parse_cc : list (str * props);
  t_ser_cc : list (props * str);
  t_cc_apply : list ((str * props) * (option props * val));
  t_charset : list (str * str) }.

Definition MISSING : str := lit "<missing table entry>".

Definition tb_parse_qs (t : tables) (s : str) : items + str := assoc str_eqb s (t_parse_qs t) (inr MISSING).
Definition tb_urlencode (t : tables) (l : items) : str := assoc items_eqb l (t_urlencode t) MISSING.
Definition tb_parse_cookie (t : tables) (s : str) : list (str * str) := assoc str_eqb s (t_parse_cookie t) [(MISSING, [])].
Definition tb_valid_name (t : tables) (s : str) : bool := assoc str_eqb s (t_valid_name t) true.
Definition tb_cookie_edit (t : tables) (h n : str) (v : option str) : str * bool :=
  assoc (fun a b => str_eqb (fst (fst a)) (fst (fst b)) && str_eqb (snd (fst a)) (snd (fst b)) && ostr_eqb (snd a) (snd b))
        (h, n, v) (t_cookie_edit t) (MISSING, false).
Definition tb_parse_cc (t : tables) (s : str) : props := assoc str_eqb s (t_parse_cc t) [(MISSING, VNone)].
Definition tb_ser_cc (t : tables) (p : props) : str := assoc props_eqb p (t_ser_cc t) MISSING.
Definition tb_cc_apply (t : tables) (o : str) (p : props) : option props * val :=
  assoc (fun a b => str_eqb (fst a) (fst b) && props_eqb (snd a) (snd b)) (o, p) (t_cc_apply t) (None, VErr MISSING).
Definition tb_charset (t : tables) (s : str) : str := assoc str_eqb s (t_charset t) MISSING.
Definition props_obs (p : props) : val := VList (map (fun kv => VList [VStr (fst kv); snd kv]) p).

Definition top := op props str.
Definition tst := st props.

Definition t_step (t : tables) (c : cfg) : tst -> top -> val * tst :=
  step props str (tb_parse_qs t) (tb_urlencode t) (tb_parse_cookie t) (tb_valid_name t) (tb_cookie_edit t)
       (tb_parse_cc t) (tb_ser_cc t) (@is_nil _) (tb_cc_apply t) props_obs (tb_charset t) c.

Definition t_trace (t : tables) (c : cfg) (probes : list (nat * getter)) (ops : list top) (s : tst) : list val :=
  trace props str (tb_parse_qs t) (tb_urlencode t) (tb_parse_cookie t) (tb_valid_name t) (tb_cookie_edit t)
        (tb_parse_cc t) (tb_ser_cc t) (@is_nil _) (tb_cc_apply t) props_obs (tb_charset t) c probes ops s.

Definition case := (tables * environ * list (nat * getter) * list top)%type.
(* the comparison with the recorded implementation output is made here, so that the harness controls the
   format of both literals *)
Definition agrees (f : case -> val) (x : case * val) : val := VBool (val_eqb (f (fst x)) (snd x)).

(* the repaired code (pinned tree + fixes/C01-*.patch) *)
Definition run_case (x : case) : val :=
  let '(t, e, probes, ops) := x in VList (t_trace t repaired probes ops (init props e)).
(* the pinned behaviour of request.py:1115-1140, for replaying the two known defects *)
Definition run_case_pinned (x : case) : val :=
  let '(t, e, probes, ops) := x in VList (t_trace t pinned probes ops (init props e)).

(* str library functions checked against CPython *)
Definition strlib (s : str) : val :=
  VList [VStr (py_upper s); VStr (py_title s); VStr (trans_name s);
         match trans_key s with Some h => VStr h | None => VNone end].
