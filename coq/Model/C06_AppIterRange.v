(* C06 — executable models of the two range iterators.
   * webob.response.AppIterRange (response.py:1563-1621): an iterator state machine
     [air_next : st -> option (chunk * st)] with [_skip_start] as its own loop, run to exhaustion;
   * webob.static.FileIter.app_iter_range (static.py:65-104): seek / limit / block loop over an
     abstract file (content + position, [read n] returns the next min(n, remaining) bytes).
   Definitions only (no proofs).  Bytes are [N]; positions and lengths are [nat]. *)
From Coq Require Import NArith List Arith Bool.
Require Import Webob.Lib.Val.
Import ListNotations.

(* Python slicing forms used by AppIterRange, for k, m > 0 *)
Definition last_k (k : nat) (c : str) : str := skipn (length c - k) c.      (* c[-k:] *)
Definition drop_last (m : nat) (c : str) : str := firstn (length c - m) c.  (* c[:-m] *)

(* state: what the wrapped iterator still has to give, and self._pos *)
Record air_st := mkAir { air_rest : list str; air_pos : nat }.

(* _skip_start: `for chunk in self.app_iter:` ... returns the first chunk reaching past `start`
   (trimmed on both sides), b"" when a chunk ends exactly at `start`, StopIteration (None) when the
   iterable ends first *)
Fixpoint skip_start (start stop : nat) (cs : list str) (p : nat) : option (str * air_st) :=
  match cs with
  | [] => None
  | c :: cs' =>
      let p' := p + length c in
      if p' <? start then skip_start start stop cs' p'
      else if p' =? start then Some ([], mkAir cs' p')
      else let c1 := last_k (p' - start) c in                          (* chunk[start - self._pos:] *)
           let c2 := if stop <? p' then drop_last (p' - stop) c1 else c1 in   (* chunk[:stop - self._pos] *)
           Some (c2, mkAir cs' p')
  end.

(* next() *)
Definition air_next (start stop : nat) (s : air_st) : option (str * air_st) :=
  if air_pos s <? start then skip_start start stop (air_rest s) (air_pos s)
  else if stop <=? air_pos s then None
  else match air_rest s with
       | [] => None                                   (* next(self.app_iter) raises StopIteration *)
       | c :: cs' =>
           let p' := air_pos s + length c in
           if p' <=? stop then Some (c, mkAir cs' p')
           else Some (drop_last (p' - stop) c, mkAir cs' p')
       end.

(* iteration to exhaustion; every call of next consumes at least one chunk or stops, so
   S (number of chunks) calls suffice *)
Fixpoint air_run (fuel : nat) (start stop : nat) (s : air_st) : list str :=
  match fuel with
  | O => []
  | S f => match air_next start stop s with
           | None => []
           | Some (c, s') => c :: air_run f start stop s'
           end
  end.

(* list(AppIterRange(iter(chunks), start, stop)) *)
Definition air (chunks : list str) (start stop : nat) : list str :=
  air_run (S (length chunks)) start stop (mkAir chunks 0).

(* body[start:stop] *)
Definition slice (b : str) (start stop : nat) : str := firstn (stop - start) (skipn start b).

(* ------------------------------------------------------------------ FileIter *)
Record file := mkFile { f_data : str; f_pos : nat }.

(* file.read(n), n >= 0, on a regular binary file *)
Definition f_read (n : nat) (f : file) : str * file :=
  let d := firstn n (skipn (f_pos f) (f_data f)) in
  (d, mkFile (f_data f) (f_pos f + length d)).

(* the `while True:` loop; limit = None | remaining byte budget (> 0 on entry of every round) *)
Fixpoint fi_loop (fuel : nat) (bs : nat) (limit : option nat) (f : file) : list str :=
  match fuel with
  | O => []
  | S k =>
      let n := match limit with Some l => Nat.min bs l | None => bs end in
      let '(d, f') := f_read n f in
      match d with
      | [] => []                                        (* if not data: return *)
      | _ :: _ =>
          match limit with
          | None => d :: fi_loop k bs None f'
          | Some l =>
              let l' := l - length d in                 (* limit -= len(data) *)
              if l' <=? 0 then [d]                      (* if limit <= 0: return *)
              else d :: fi_loop k bs (Some l') f'
          end
      end
  end.

(* list(FileIter(file).app_iter_range(seek, limit, block_size)) for seek <= limit (the only way
   conditional_response_app calls it); `if seek:` guards both the seek and `limit -= seek` *)
Definition file_iter_range (data : str) (seek : nat) (limit : option nat) (bs : nat) : list str :=
  let f := if seek =? 0 then mkFile data 0 else mkFile data seek in
  let limit' := if seek =? 0 then limit else option_map (fun l => l - seek) limit in
  fi_loop (S (length data)) bs limit' f.

(* ------------------------------------------------------------ correspondence entry points *)
Definition vchunks (l : list str) : val := VList (map VStr l).

Definition corr_air (i : list str * (nat * nat)) : val :=
  let '(cs, (a, b)) := i in vchunks (air cs a b).

Definition corr_fileiter (i : str * (nat * (option nat * nat))) : val :=
  let '(d, (seek, (limit, bs))) := i in vchunks (file_iter_range d seek limit bs).
