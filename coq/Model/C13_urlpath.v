(* C13 — executable model of webob's URL reconstruction and path manipulation.  Definitions only.
     url_quote(bytes, PATH_SAFE)      urllib.parse.quote_from_bytes (request.py:9, :60)
     unquote / url_unquote            util.py:7-25 (on well-formed %XX input; a malformed escape is EValueError,
                                      which is what the pinned int(item[:2], 16) raises on most of them and which
                                      no URL produced by url_quote contains)
     encget / encset                  request.py:104-127, descriptors.py:48-77 (environ_decoder)
     host_port host_url application_url path_url path path_qs url     request.py:368-482
     host / domain                    request.py:654-695
     path_info_pop / path_info_peek   request.py:502-547
     environ_from_url                 request.py:1504-1550, as REPAIRED by fixes/C13-blank-ipv6-server-name-port.patch
     host_port                        as REPAIRED by fixes/C13-2-host-port-empty-port.patch
   The environ is the record of the keys these functions read.  url_encoding is UTF-8 (the default) or a
   member of _LATIN_ENCODINGS. *)
From Coq Require Import NArith List Bool.
Require Import Webob.Lib.Val Webob.Lib.PyStr Webob.Lib.C13_Utf8 Webob.Gen.C13_tables Webob.Model.C13_urlsplit.
Import ListNotations.
Local Open Scope N_scope.

Inductive exn := EUnicodeDecode | EUnicodeEncode | ETypeError | EValueError.
Inductive res (A : Type) := Ok (a : A) | Raise (e : exn).
Arguments Ok {A} a.
Arguments Raise {A} e.
Definition bind {A B} (r : res A) (f : A -> res B) : res B :=
  match r with Ok a => f a | Raise e => Raise e end.
Notation "x <- r ;; k" := (bind r (fun x => k)) (at level 61, r at next level, right associativity).

Inductive encoding := Utf8 | Latin.

Record environ := mkEnv {
  e_scheme : str;                 (* wsgi.url_scheme *)
  e_http_host : option str;       (* HTTP_HOST *)
  e_server_name : str;            (* SERVER_NAME *)
  e_server_port : str;            (* SERVER_PORT *)
  e_script : option str;          (* SCRIPT_NAME (WSGI string: one code point < 256 per octet) *)
  e_path : str;                   (* PATH_INFO *)
  e_query : option str;           (* QUERY_STRING *)
  e_enc : encoding                (* webob.url_encoding *)
}.

Definition s_http : str := [104; 116; 116; 112].
Definition s_https : str := [104; 116; 116; 112; 115].
Definition s_80 : str := [56; 48].
Definition s_443 : str := [52; 52; 51].
Definition s_css : str := [58; 47; 47].       (* "://" *)

(* ------------------------------------------------------------------ text <-> bytes <-> WSGI string *)
(* str.encode(url_encoding) *)
Definition encode (enc : encoding) (text : str) : res str :=
  match enc with
  | Utf8 => if valid_text text then Ok (utf8_encode text) else Raise EUnicodeEncode
  | Latin => if forallb is_octet text then Ok text else Raise EUnicodeEncode
  end.

(* encget(key, encattr='url_encoding') on the raw WSGI string *)
Definition encget (enc : encoding) (raw : str) : res str :=
  match enc with
  | Latin => Ok raw                                            (* the _LATIN_ENCODINGS shortcut *)
  | Utf8 =>
      if forallb is_octet raw then                              (* bytes_(val, 'latin-1') *)
        match utf8_decode raw with Some t => Ok t | None => Raise EUnicodeDecode end
      else Raise EUnicodeEncode
  end.

(* encset: environ[key] = bytes_(val, encoding).decode('latin-1') *)
Definition encset (enc : encoding) (text : str) : res str := encode enc text.

Definition raw_script (e : environ) : str := match e_script e with Some s => s | None => [] end.
Definition get_script (e : environ) : res str := encget (e_enc e) (raw_script e).
Definition get_path (e : environ) : res str := encget (e_enc e) (e_path e).
Definition set_script (e : environ) (text : str) : res environ :=
  raw <- encset (e_enc e) text ;;
  Ok (mkEnv (e_scheme e) (e_http_host e) (e_server_name e) (e_server_port e) (Some raw) (e_path e) (e_query e) (e_enc e)).
Definition set_path (e : environ) (text : str) : res environ :=
  raw <- encset (e_enc e) text ;;
  Ok (mkEnv (e_scheme e) (e_http_host e) (e_server_name e) (e_server_port e) (e_script e) raw (e_query e) (e_enc e)).

(* ------------------------------------------------------------------ quote / unquote *)
Definition quote_safe (c : N) : bool := (c <? 128) && (mem_n c ALWAYS_SAFE || mem_n c PATH_SAFE).
Definition hexU (n : N) : N := if n <? 10 then 48 + n else 55 + n.       (* '%02X' *)
Definition quote_char (c : N) : str := if quote_safe c then [c] else [37; hexU (c / 16); hexU (c mod 16)].
Definition url_quote (bs : str) : str := flat_map quote_char bs.

Definition hexval (c : N) : option N :=
  if (48 <=? c) && (c <=? 57) then Some (c - 48)
  else if (65 <=? c) && (c <=? 70) then Some (c - 55)
  else if (97 <=? c) && (c <=? 102) then Some (c - 87)
  else None.

(* for item in res[1:]: string += bytes([int(item[:2], 16)]) + item[2:] *)
Fixpoint unquote_items (items : list str) : res str :=
  match items with
  | [] => Ok []
  | it :: more =>
      match it with
      | a :: b :: tail =>
          match hexval a, hexval b with
          | Some x, Some y => r <- unquote_items more ;; Ok ((16 * x + y) :: tail ++ r)
          | _, _ => Raise EValueError
          end
      | _ => Raise EValueError
      end
  end.

Definition unquote (s : str) : res str :=
  match split_c 37 s with
  | [] => Ok []
  | first :: items => r <- unquote_items items ;; Ok (first ++ r)
  end.

(* unquote(s.encode('ascii')).decode('latin-1') *)
Definition url_unquote (s : str) : res str :=
  if forallb is_ascii s then unquote s else Raise EUnicodeEncode.

(* ------------------------------------------------------------------ host, port, domain *)
(* host.rsplit(":", 1) when ':' occurs *)
Definition rsplit_colon (host : str) : str * str :=
  let (b_rev, rest) := span_until is_colon (rev host) in
  match rest with
  | _ :: a_rev => (rev a_rev, rev b_rev)
  | [] => (host, [])
  end.

(* if ":" in host and host[-1] != "]": host, port = host.rsplit(":", 1) *)
Definition has_port (host : str) : bool := mem_n 58 host && negb (last host 0 =? 93).
Definition split_host_port (host : str) : str * option str :=
  if has_port host then let (h, p) := rsplit_colon host in (h, Some p) else (host, None).

Definition host_port (e : environ) : str :=
  match e_http_host e with
  | Some host =>
      (* if not port: the scheme's default ("Host: example.com:" carries no port either; as repaired by
         fixes/C13-2-host-port-empty-port.patch) *)
      match snd (split_host_port host) with
      | Some (c :: p) => c :: p
      | _ => if str_eqb (e_scheme e) s_https then s_443 else s_80
      end
  | None => e_server_port e
  end.

Definition elide_default (scheme : str) (port : option str) : option str :=
  if str_eqb scheme s_https then
    match port with Some p => if str_eqb p s_443 then None else port | None => None end
  else if str_eqb scheme s_http then
    match port with Some p => if str_eqb p s_80 then None else port | None => None end
  else port.

Definition host_url (e : environ) : str :=
  let '(host, port) :=
    match e_http_host e with
    | Some h => split_host_port h
    | None => (e_server_name e, Some (e_server_port e))
    end in
  e_scheme e ++ s_css ++ host ++
  match elide_default (e_scheme e) port with
  | Some p => if is_empty p then [] else 58 :: p
  | None => []
  end.

Definition host (e : environ) : str :=
  match e_http_host e with
  | Some h => h
  | None => e_server_name e ++ 58 :: e_server_port e
  end.
Definition domain (e : environ) : str := fst (split_host_port (host e)).

(* ------------------------------------------------------------------ the URL forms *)
Definition quoted_script (e : environ) : res str :=
  t <- get_script e ;; bs <- encode (e_enc e) t ;; Ok (url_quote bs).
Definition quoted_path (e : environ) : res str :=
  t <- get_path e ;; bs <- encode (e_enc e) t ;; Ok (url_quote bs).

Definition application_url (e : environ) : res str :=
  qs <- quoted_script e ;; Ok (host_url e ++ qs).
Definition path_url (e : environ) : res str :=
  qp <- quoted_path e ;; a <- application_url e ;; Ok (a ++ qp).
Definition path (e : environ) : res str :=
  qs <- quoted_script e ;; qp <- quoted_path e ;; Ok (qs ++ qp).
Definition add_query (e : environ) (u : str) : str :=
  match e_query e with
  | Some q => if is_empty q then u else u ++ 63 :: q
  | None => u
  end.
Definition path_qs (e : environ) : res str := p <- path e ;; Ok (add_query e p).
Definition url (e : environ) : res str := p <- path_url e ;; Ok (add_query e p).

(* ------------------------------------------------------------------ peek / pop *)
Definition is_slash (c : N) : bool := c =? 47.
Fixpoint take_while (f : N -> bool) (s : str) : str :=
  match s with
  | [] => []
  | c :: s' => if f c then c :: take_while f s' else []
  end.

(* path.lstrip("/").split("/", 1)[0] *)
Definition path_info_peek (e : environ) : res (option str) :=
  p <- get_path e ;;
  if is_empty p then Ok None else Ok (Some (fst (span_until is_slash (drop_while is_slash p)))).

(* pattern: None, or the predicate  fun r => re.match(pattern, r) is not None *)
Definition path_info_pop (pat : option (str -> bool)) (e : environ) : res (option str * environ) :=
  p <- get_path e ;;
  if is_empty p then Ok (None, e)
  else
    let slashes := take_while is_slash p in
    let rest := drop_while is_slash p in
    let (r, after) := span_until is_slash rest in
    if match pat with None => true | Some f => f r end then
      s <- get_script e ;;
      e1 <- set_script e (s ++ slashes ++ r) ;;
      e2 <- set_path e1 after ;;
      Ok (Some r, e2)
    else Ok (None, e).

(* ------------------------------------------------------------------ environ_from_url *)
(* SCHEME_RE = re.compile(r"^[a-z]+:", re.I [| re.A]).search.  Under re.I alone the class [a-z] of a str
   pattern also matches U+0130, U+0131, U+017F and U+212A (their simple case mappings fall into a-z); with
   re.A it is the ASCII letters only.  Which of the two holds is regenerated from the live pattern object:
   SCHEME_ALPHA_EXTRA (Gen/C13_tables.v) lists the non-ASCII members of the class. *)
Definition is_alpha_ci (c : N) : bool := is_alpha c || mem_n c SCHEME_ALPHA_EXTRA.
Definition scheme_re_search (s : str) : bool :=
  let (pre, rest) := span_until (fun c => negb (is_alpha_ci c)) s in
  negb (is_empty pre) && match rest with c :: _ => c =? 58 | [] => false end.

(* the part of environ_from_url before the path is unquoted: (scheme, netloc, path[?query]) *)
Definition blank_parts (v6ok : str -> bool) (u : str) : res (str * str * str) :=
  if scheme_re_search u then
    match urlsplit v6ok u with
    | SValueError => Raise EValueError
    | SUnsupported => Raise EValueError
    | SOk scheme netloc p qs frag =>
        if negb (is_empty frag) then Raise ETypeError
        else
          let p := if is_empty qs then p else p ++ 63 :: qs in
          if negb (mem_n 58 netloc) || (last netloc 0 =? 93) then
            if str_eqb scheme s_http then Ok (scheme, netloc ++ 58 :: s_80, p)
            else if str_eqb scheme s_https then Ok (scheme, netloc ++ 58 :: s_443, p)
            else Raise ETypeError
          else Ok (scheme, netloc, p)
    end
  else Ok (s_http, [108; 111; 99; 97; 108; 104; 111; 115; 116; 58; 56; 48], u).

(* if path and "?" in path: path_info, query_string = path.split("?", 1) *)
Definition split_path_query (p : str) : str * str :=
  if mem_n 63 p then split_first 63 p else (p, []).

Definition environ_from_url (v6ok : str -> bool) (u : str) : res environ :=
  r <- blank_parts v6ok u ;;
  let '(scheme, netloc, p) := r in
  let (pi_q, query) := split_path_query p in
  path_info <- url_unquote pi_q ;;
  let (sn, sp) := rsplit_colon netloc in
  Ok (mkEnv scheme (Some netloc) sn sp (Some []) path_info (Some query) Utf8).

Definition with_enc (enc : encoding) (e : environ) : environ :=
  mkEnv (e_scheme e) (e_http_host e) (e_server_name e) (e_server_port e) (e_script e) (e_path e) (e_query e) enc.

(* ------------------------------------------------------------------ observations for the correspondence *)
Definition exn_val (e : exn) : val :=
  VErr match e with
       | EUnicodeDecode => [85;110;105;99;111;100;101;68;101;99;111;100;101;69;114;114;111;114]
       | EUnicodeEncode => [85;110;105;99;111;100;101;69;110;99;111;100;101;69;114;114;111;114]
       | ETypeError => [84;121;112;101;69;114;114;111;114]
       | EValueError => [86;97;108;117;101;69;114;114;111;114]
       end.
Definition res_val {A} (f : A -> val) (r : res A) : val :=
  match r with Ok a => f a | Raise e => exn_val e end.
Definition ostr_val (o : option str) : val := match o with Some s => VStr s | None => VNone end.

Definition obs_urls (e : environ) : val :=
  VList [VStr (host_port e); VStr (host_url e); VStr (host e); VStr (domain e);
         res_val VStr (application_url e); res_val VStr (path_url e); res_val VStr (path e);
         res_val VStr (path_qs e); res_val VStr (url e)].

Definition obs_env (e : environ) : val :=
  VList [VStr (e_scheme e); ostr_val (e_http_host e); VStr (e_server_name e); VStr (e_server_port e);
         ostr_val (e_script e); VStr (e_path e); ostr_val (e_query e)].

Definition obs_blank (v6ok : bool) (u : str) : val := res_val obs_env (environ_from_url (fun _ => v6ok) u).

Definition obs_split (v6ok : bool) (u : str) : val :=
  match urlsplit (fun _ => v6ok) u with
  | SOk a b c d f => VList [VStr a; VStr b; VStr c; VStr d; VStr f]
  | SValueError => exn_val EValueError
  | SUnsupported => VNone
  end.

(* assignment then read-back: [stored WSGI string; text read back] *)
Definition obs_setget (enc : encoding) (is_path : bool) (text : str) : val :=
  let e0 := mkEnv s_http None [104] s_80 (Some [47; 115]) [47; 112] None enc in
  res_val (fun e => VList [VStr (if is_path then e_path e else raw_script e);
                           res_val VStr (if is_path then get_path e else get_script e)])
          (if is_path then set_path e0 text else set_script e0 text).

Inductive pop_op := OPeek | OPop (pat : option bool).
Fixpoint run_pops (ops : list pop_op) (e : environ) : list val :=
  match ops with
  | [] => []
  | OPeek :: more => res_val ostr_val (path_info_peek e) :: run_pops more e
  | OPop pat :: more =>
      match path_info_pop (option_map (fun b _ => b) pat) e with
      | Ok (r, e') => VList [ostr_val r; ostr_val (e_script e'); VStr (e_path e')] :: run_pops more e'
      | Raise x => [exn_val x]
      end
  end.
Definition obs_pops (c : environ * list pop_op) : val := VList (run_pops (snd c) (fst c)).
