(* C01 — executable model of webob.Request as a view of the WSGI environ.

   What is modelled (webob at the pinned commit plus fixes/C01-*.patch; the pinned behaviour
   of the two repaired spots is kept selectable through [cfg], see [pinned] / [repaired]):
     descriptors.py:16-45   environ_getter (with / without default): get, set, set None, del
     etag.py:14-34          etag_property: set None removes the key (fixes/C01-6), del
     acceptparse.py:1726-85 accept*_property: set None = silent del
     request.py:287-315     content_type get / set (parameter preservation) / del
     request.py:654-669     host get / set / del
     headers.py:113-166     _trans_key, _trans_name, EnvironHeaders get/set/del/pop/setdefault/update/keys
     request.py:823-849     GET: cache tuple (GetDict, qs) revalidated against QUERY_STRING
     multidict.py:289-346   GetDict: every successful mutator calls on_change (QUERY_STRING and cache key refreshed)
     cookies.py:32-152      RequestCookies: _cache revalidated against HTTP_COOKIE; _mutate_header; clear
     request.py:1097-1147   cache_control get / set / del, _update_cache_control
     cachecontrol.py:8-60, 158-183  UpdateDict callback, armed before CacheControl.parse fills the dict
     request.py:129-138     charset: fixed at first use (per-wrapper memory)
   The string-level functions (parse_qsl_text, urlencode, parse_cookie, the regex edit inside
   _mutate_header, CacheControl.parse, serialize_cache_control, the cache-control property
   descriptors, detect_charset) are Section variables.
   Definitions only; proofs are in Proofs/C01_*.v. *)
From Coq Require Import ZArith NArith List Bool String.
Require Import Webob.Lib.Val Webob.Lib.PyStr Webob.Lib.C01_Str Webob.Model.MultiDict.
Import ListNotations.
Local Open Scope N_scope.
Local Open Scope list_scope.

(* ------------------------------------------------------------------ keys *)
Definition K_QS : str := lit "QUERY_STRING".
Definition K_COOKIE : str := lit "HTTP_COOKIE".
Definition K_CC : str := lit "HTTP_CACHE_CONTROL".
Definition K_CT : str := lit "CONTENT_TYPE".
Definition K_CL : str := lit "CONTENT_LENGTH".
Definition K_HOST : str := lit "HTTP_HOST".
Definition K_SNAME : str := lit "SERVER_NAME".
Definition K_SPORT : str := lit "SERVER_PORT".
Definition K_QCACHE : str := lit "webob._parsed_query_vars".
Definition K_PCACHE : str := lit "webob._parsed_post_vars".
Definition K_CKCACHE : str := lit "webob._parsed_cookies".
Definition K_CCCACHE : str := lit "webob._cache_control".
Definition K_BODYFILE : str := lit "webob._body_file".
Definition cache_keys : list str := [K_QCACHE; K_PCACHE; K_CKCACHE; K_CCCACHE; K_BODYFILE].
Definition is_cache_key (k : str) : bool := existsb (str_eqb k) cache_keys.

Definition KeyErr : str := lit "KeyError".
Definition TypeErr : str := lit "TypeError".

(* ------------------------------------------------------------------ the environ *)
Inductive eval :=
| EStr (s : str)                          (* header text / CGI variable *)
| ENone                                   (* Python None *)
| EOpq (tag : str)                        (* anything webob does not look into here (wsgi.input, flags, tuples) *)
| EQCache (id : nat) (qs : str)           (* webob._parsed_query_vars = (GetDict object, qs) *)
| ECkCache (jar : list (str * str)) (h : str)   (* webob._parsed_cookies = (dict, header) *)
| ECCCache (c : option (str * nat))       (* webob._cache_control = (header, object) | (None, None) *)
| EQForeign (its : list (str * str)) (qs : str).   (* the same tuple in a COPIED environ: the GetDict belongs to (writes
                                                       back to) the environ it was copied from; [its] = its items then *)

Definition environ := list (str * eval).   (* a Python dict: insertion ordered *)

Fixpoint env_get (k : str) (e : environ) : option eval :=
  match e with
  | [] => None
  | (k', v) :: e' => if str_eqb k' k then Some v else env_get k e'
  end.
Fixpoint env_set (k : str) (v : eval) (e : environ) : environ :=
  match e with
  | [] => [(k, v)]
  | (k', v') :: e' => if str_eqb k' k then (k', v) :: e' else (k', v') :: env_set k v e'
  end.
Definition env_del (k : str) (e : environ) : environ := filter (fun kv => negb (str_eqb (fst kv) k)) e.
Definition env_has (k : str) (e : environ) : bool := match env_get k e with Some _ => true | None => false end.
(* env.get(k, "") for the keys that hold header text *)
Definition src (k : str) (e : environ) : str := match env_get k e with Some (EStr s) => s | _ => [] end.

(* ------------------------------------------------------------------ headers.py: name <-> key *)
Definition header2key : list (str * str) :=
  [ (lit "CONTENT-TYPE", lit "CONTENT_TYPE"); (lit "CONTENT-LENGTH", lit "CONTENT_LENGTH");
    (lit "CONTENT_TYPE", lit "HTTP_CONTENT_TYPE"); (lit "CONTENT_LENGTH", lit "HTTP_CONTENT_LENGTH") ].
Definition key2header : list (str * str) :=
  [ (lit "CONTENT_TYPE", lit "Content-Type"); (lit "CONTENT_LENGTH", lit "Content-Length");
    (lit "HTTP_CONTENT_TYPE", lit "Content_Type"); (lit "HTTP_CONTENT_LENGTH", lit "Content_Length") ].
Fixpoint lookup (k : str) (t : list (str * str)) : option str :=
  match t with
  | [] => None
  | (a, b) :: t' => if str_eqb a k then Some b else lookup k t'
  end.
Definition HTTP_ : str := lit "HTTP_".

Definition trans_name (name : str) : str :=
  let u := py_upper name in
  match lookup u header2key with
  | Some k => k
  | None => HTTP_ ++ replace_cc 45 95 u          (* "-" -> "_" *)
  end.
Definition trans_key (key : str) : option str :=
  match lookup key key2header with
  | Some h => Some h
  | None => if starts_with HTTP_ key then Some (py_title (replace_cc 95 45 (skipn 5 key))) else None
  end.

(* ------------------------------------------------------------------ operations *)
Inductive handle := Fresh | Held (i : nat).    (* a view fetched now / the i-th view the caller kept *)
Inductive hkind := HGet | HCC.

Definition is_verr (v : val) : bool := match v with VErr _ => true | _ => false end.
Definition is_nil {A} (l : list A) : bool := match l with [] => true | _ => false end.

Record cfg := mkCfg { cc_reuse_needs_bound : bool;     (* fixes/C01-4: the getter reuses the cached object only when it is bound
                                                          to this environ (before: whenever the header text matches) *)
                      cc_assign_keeps_obj : bool;      (* pinned: request.py:1122-1125 caches the assigned, unbound object *)
                      cc_update_invalidates : bool }.  (* repaired: _update_cache_control drops the cached object *)
Definition repaired : cfg := mkCfg true false true.
Definition pinned : cfg := mkCfg false true false.
(* /repo before fixes/C01-4 (C01-1..3 applied) *)
Definition before_copy_fix : cfg := mkCfg false false true.

Section EnvView.
  Variable P : Type.                                   (* CacheControl.properties *)
  Variable CCOP : Type.                                (* a mutation through the CacheControl attribute / properties API *)
  Variable parse_qs : str -> items + str.              (* list(parse_qsl_text(qs)), or the exception class it raises *)
  Variable urlencode : items -> str.                   (* GetDict.on_change: url_encode of the utf-8 encoded pairs *)
  Variable parse_cookie : str -> list (str * str).     (* the dict built by RequestCookies._cache, as items *)
  Variable valid_name : str -> bool.                   (* RequestCookies._valid_cookie_name does not raise *)
  Variable cookie_edit : str -> str -> option str -> str * bool.   (* _mutate_header on the header text: new text, found *)
  Variable parse_cc : str -> P.                        (* CacheControl.parse(header).properties *)
  Variable ser_cc : P -> str.                          (* serialize_cache_control *)
  Variable cc_empty : P -> bool.
  Variable cc_apply : CCOP -> P -> option P * val.     (* Some p' : the UpdateDict was written (callback fires) *)
  Variable cc_obs : P -> val.
  Variable detect_charset : str -> str.                (* charset getter's computation from CONTENT_TYPE *)
  Variable c : cfg.

  (* bound: properties is an UpdateDict calling back into a request over THIS environ (false: a plain dict, or an
     object that belongs to the environ this one was copied from) *)
  Record ccobj := mkCC { cc_props : P; cc_bound : bool }.

  Inductive ccassign := AText (s : str) | AObj (p : P).

  Inductive getter :=
  | GKey (k : str) (dflt : option str)      (* environ.get(k, default) — environ_getter with default, etag/accept raw value *)
  | GKeyReq (k : str)                       (* environ[k] *)
  | GHdr (n : str)                          (* request.headers.get(n) *)
  | GHdrKeys                                (* list(request.headers.keys()) *)
  | GContentType
  | GHost
  | GGET
  | GCookies
  | GCC
  | GCharset.

  Inductive op :=
  | OEnvSet (k v : str)                     (* environ[k] = v   (raw edit) *)
  | OEnvDel (k : str)                       (* environ.pop(k, None) *)
  | OGetterSet (k : str) (v : option str)   (* environ_getter(k, default).fset *)
  | OGetterDel (k : str)                    (* environ_getter(k, default).fdel *)
  | OReqSet (k v : str)                     (* environ_getter(k).fset *)
  | OEtagSet (k : str) (v : option str)     (* etag_property.fset *)
  | OAcceptSet (k : str) (v : option str)   (* accept*_property.fset / fdel (v = None) *)
  | OContentTypeSet (v : option str)        (* content_type = v / del content_type *)
  | OHostSet (v : str)
  | OHostDel
  | OHdrSet (n v : str)
  | OHdrDel (n : str)
  | OHdrPop (n : str)                       (* headers.pop(n, None) *)
  | OHdrSetDefault (n v : str)
  | OHdrUpdate (l : list (str * str))
  | OHold (k : hkind)                       (* keep request.GET / request.cache_control for later use *)
  | OGetMut (h : handle) (m : MultiDict.op)
  | OCookieSet (n v : str)
  | OCookieDel (n : str)
  | OCookieClear
  | OCCMut (h : handle) (m : CCOP)
  | OCCAssign (a : ccassign)
  | OCCDel
  | ORead (w : nat) (g : getter)            (* a plain read through long-lived wrapper w *)
  | OCopyEnv.                               (* the history continues on Request(dict(environ)): a shallow copy of the environ
                                               (cache tuples included), new wrappers, no views held yet *)

  Record st := mkSt { env : environ;
                      gets : list items;            (* GetDict objects ever created: their _items *)
                      ccs : list ccobj;             (* CacheControl objects ever created *)
                      hgets : list nat;             (* GetDict objects the caller holds *)
                      hccs : list nat;
                      wcs : list (option str) }.    (* Request._charset of the long-lived wrappers *)
  Definition with_env (s : st) (e : environ) : st := mkSt e (gets s) (ccs s) (hgets s) (hccs s) (wcs s).

  (* ---------------------------------------------------------------- GET / GetDict *)
  (* request.py:823-849 *)
  Definition get_GET (s : st) : (nat + str) * st :=
    let source := src K_QS (env s) in
    let miss :=
      match (if is_nil source then inl [] else parse_qs source) with
      | inr exc => (inr exc, s)
      | inl data =>
          let id := List.length (gets s) in
          (inl id, mkSt (env_set K_QCACHE (EQCache id source) (env s)) (gets s ++ [data]) (ccs s) (hgets s) (hccs s) (wcs s))
      end in
    match env_get K_QCACHE (env s) with
    | Some (EQCache id qs) => if str_eqb qs source then (inl id, s) else miss
    | _ => miss
    end.

  (* multidict.py:297-304 *)
  Definition on_change (id : nat) (its : items) (s : st) : st :=
    let qs := urlencode its in
    mkSt (env_set K_QCACHE (EQCache id qs) (env_set K_QS (EStr qs) (env s)))
         (set_nth id its (gets s)) (ccs s) (hgets s) (hccs s) (wcs s).

  (* multidict.py:306-346: MultiDict mutator, then on_change unless it raised *)
  Definition get_mut (id : nat) (m : MultiDict.op) (s : st) : val * st :=
    let '(its', ret) := step_i (fun k => k) false md_get_other (nth id (gets s) []) m in
    if is_verr ret then (ret, s) else (ret, on_change id its' s).

  (* ---------------------------------------------------------------- cookies *)
  (* cookies.py:38-53 *)
  Definition get_cookies (s : st) : list (str * str) * st :=
    let header := src K_COOKIE (env s) in
    let miss := let jar := parse_cookie header in
                (jar, with_env s (env_set K_CKCACHE (ECkCache jar header) (env s))) in
    match env_get K_CKCACHE (env s) with
    | Some (ECkCache jar h) => if str_eqb h header then (jar, s) else miss
    | _ => miss
    end.

  (* cookies.py:55-96 *)
  Definition mutate_header (n : str) (v : option str) (s : st) : bool * st :=
    let '(had, header) := match env_get K_COOKIE (env s) with Some (EStr h) => (true, h) | _ => (false, []) end in
    let '(header', found) := cookie_edit header n v in
    let e' := if negb (is_nil header') then env_set K_COOKIE (EStr header') (env s)
              else if had then env_set K_COOKIE (EStr []) (env s)
              else env s in
    (found, with_env s e').

  (* ---------------------------------------------------------------- cache_control *)
  (* request.py:1139-1140 (+ fixes/C01-cache-control-stale-after-update.patch) *)
  Definition cc_callback (p : P) (s : st) : st :=
    let e1 := env_set K_CC (EStr (ser_cc p)) (env s) in
    with_env s (if cc_update_invalidates c then env_set K_CCCACHE (ECCCache None) e1 else e1).

  (* request.py:1097-1113; cachecontrol.py:158-183 arms the callback before filling the dict, so a parse that
     finds at least one directive re-serialises the header *)
  Definition get_CC (s : st) : nat * st :=
    let value := src K_CC (env s) in
    let miss :=
      let p := parse_cc value in
      let id := List.length (ccs s) in
      let s1 := mkSt (env s) (gets s) (ccs s ++ [mkCC p true]) (hgets s) (hccs s) (wcs s) in
      let s2 := if cc_empty p then s1 else cc_callback p s1 in
      (id, with_env s2 (env_set K_CCCACHE (ECCCache (Some (value, id))) (env s2))) in
    match env_get K_CCCACHE (env s) with
    | Some (ECCCache (Some (h, id))) =>
        if str_eqb h value
           && (negb (cc_reuse_needs_bound c)
               || match nth_error (ccs s) id with Some o => cc_bound o | None => false end)
        then (id, s) else miss
    | _ => miss
    end.

  Definition cc_mut (id : nat) (m : CCOP) (s : st) : val * st :=
    match nth_error (ccs s) id with
    | None => (VNone, s)
    | Some o =>
        match cc_apply m (cc_props o) with
        | (None, ret) => (ret, s)
        | (Some p', ret) =>
            let s1 := mkSt (env s) (gets s) (set_nth id (mkCC p' (cc_bound o)) (ccs s)) (hgets s) (hccs s) (wcs s) in
            (ret, if cc_bound o then cc_callback p' s1 else s1)
        end
    end.

  (* request.py:1115-1128 *)
  Definition cc_assign (a : ccassign) (s : st) : st :=
    match a with
    | AText t => with_env s (env_set K_CCCACHE (ECCCache None) (env_set K_CC (EStr t) (env s)))
    | AObj p =>
        if cc_assign_keeps_obj c then
          let id := List.length (ccs s) in
          mkSt (env_set K_CCCACHE (ECCCache (Some (ser_cc p, id))) (env_set K_CC (EStr (ser_cc p)) (env s)))
               (gets s) (ccs s ++ [mkCC p false]) (hgets s) (hccs s) (wcs s)
        else with_env s (env_set K_CCCACHE (ECCCache None) (env_set K_CC (EStr (ser_cc p)) (env s)))
    end.

  (* ---------------------------------------------------------------- charset (request.py:129-138) *)
  Definition get_charset (w : nat) (s : st) : str * st :=
    match nth w (wcs s) None with
    | Some cs => (cs, s)
    | None => let cs := detect_charset (src K_CT (env s)) in
              (cs, mkSt (env s) (gets s) (ccs s) (hgets s) (hccs s) (set_nth w (Some cs) (wcs s)))
    end.

  (* ---------------------------------------------------------------- reads *)
  Definition ev_val (v : eval) : val :=
    match v with
    | EStr s => VStr s
    | ENone => VNone
    | EOpq t => VList [VStr t]
    | _ => VErr (lit "cache-tuple")
    end.
  Definition oval_str (o : option str) : val := match o with Some s => VStr s | None => VNone end.
  Definition vpairs (l : list (str * str)) : val := VList (map (fun kv => VList [VStr (fst kv); VStr (snd kv)]) l).

  Definition hdr_keys (e : environ) : list str :=
    flat_map (fun kv => match trans_key (fst kv) with Some h => if is_nil h then [] else [h] | None => [] end) e.

  Definition rd (g : getter) (w : nat) (s : st) : val * st :=
    match g with
    | GKey k d => (match env_get k (env s) with Some v => ev_val v | None => oval_str d end, s)
    | GKeyReq k => (match env_get k (env s) with Some v => ev_val v | None => VErr KeyErr end, s)
    | GHdr n => (match env_get (trans_name n) (env s) with Some v => ev_val v | None => VNone end, s)
    | GHdrKeys => (VList (map VStr (hdr_keys (env s))), s)
    | GContentType => (VStr (before_c 59 (src K_CT (env s))), s)
    | GHost =>
        (match env_get K_HOST (env s) with
         | Some v => ev_val v
         | None => match env_get K_SNAME (env s), env_get K_SPORT (env s) with
                   | Some (EStr a), Some (EStr b) => VStr (a ++ [58] ++ b)
                   | Some _, Some _ => VErr (lit "not-text")
                   | _, _ => VErr KeyErr
                   end
         end, s)
    | GGET => match get_GET s with
              | (inl id, s') => (vitems (nth id (gets s') []), s')
              | (inr exc, s') => (VErr exc, s')
              end
    | GCookies => let '(jar, s') := get_cookies s in (vpairs jar, s')
    | GCC => let '(id, s') := get_CC s in
             (match nth_error (ccs s') id with Some o => cc_obs (cc_props o) | None => VErr (lit "dangling") end, s')
    | GCharset => let '(cs, s') := get_charset w s in (VStr cs, s')
    end.

  (* ---------------------------------------------------------------- one operation *)
  Definition held (k : hkind) (i : nat) (s : st) : option nat :=
    nth_error (match k with HGet => hgets s | HCC => hccs s end) i.

  (* what the copied environ looks like to the code: same keys and values; the GetDict and CacheControl objects in its
     cache tuples (and every other view object made so far) belong to the environ it was copied from *)
  Definition copy_env (s : st) : st :=
    mkSt (map (fun kv => match snd kv with
                         | EQCache id qs => (fst kv, EQForeign (nth id (gets s) []) qs)
                         | v => (fst kv, v)
                         end) (env s))
         (gets s) (map (fun o => mkCC (cc_props o) false) (ccs s)) [] [] [None; None].

  Definition step (s : st) (o : op) : val * st :=
    let e := env s in
    match o with
    | OEnvSet k v => (VNone, with_env s (env_set k (EStr v) e))
    | OEnvDel k => (VNone, with_env s (env_del k e))
    | OGetterSet k (Some v) => (VNone, with_env s (env_set k (EStr v) e))
    | OGetterSet k None => (VNone, with_env s (env_del k e))
    | OGetterDel k => if env_has k e then (VNone, with_env s (env_del k e)) else (VErr KeyErr, s)
    | OReqSet k v => (VNone, with_env s (env_set k (EStr v) e))
    | OEtagSet k (Some v) => (VNone, with_env s (env_set k (EStr v) e))
    | OEtagSet k None => (VNone, with_env s (env_del k e))      (* fixes/C01-6 (before: environ[k] = None) *)
    | OAcceptSet k (Some v) => (VNone, with_env s (env_set k (EStr v) e))
    | OAcceptSet k None => (VNone, with_env s (env_del k e))
    | OContentTypeSet None => (VNone, with_env s (env_del K_CT e))
    | OContentTypeSet (Some v) =>
        let v' := if mem_n 59 v then v
                  else match after_c 59 (src K_CT e) with Some params => v ++ [59] ++ params | None => v end in
        (VNone, with_env s (env_set K_CT (EStr v') e))
    | OHostSet v => (VNone, with_env s (env_set K_HOST (EStr v) e))
    | OHostDel => (VNone, with_env s (env_del K_HOST e))
    | OHdrSet n v => (VNone, with_env s (env_set (trans_name n) (EStr v) e))
    | OHdrDel n => if env_has (trans_name n) e then (VNone, with_env s (env_del (trans_name n) e)) else (VErr KeyErr, s)
    | OHdrPop n => match env_get (trans_name n) e with
                   | Some v => (ev_val v, with_env s (env_del (trans_name n) e))
                   | None => (VNone, s)
                   end
    | OHdrSetDefault n v => match env_get (trans_name n) e with
                            | Some x => (ev_val x, s)
                            | None => (VStr v, with_env s (env_set (trans_name n) (EStr v) e))
                            end
    | OHdrUpdate l => (VNone, with_env s (fold_left (fun e kv => env_set (trans_name (fst kv)) (EStr (snd kv)) e) l e))
    | OHold HGet => match get_GET s with
                    | (inl id, s') => (VNone, mkSt (env s') (gets s') (ccs s') (hgets s' ++ [id]) (hccs s') (wcs s'))
                    | (inr _, s') => (VNone, s')
                    end
    | OHold HCC => let '(id, s') := get_CC s in
                   (VNone, mkSt (env s') (gets s') (ccs s') (hgets s') (hccs s' ++ [id]) (wcs s'))
    | OGetMut Fresh m => match get_GET s with
                         | (inl id, s') => get_mut id m s'
                         | (inr exc, s') => (VErr exc, s')
                         end
    | OGetMut (Held i) m => match held HGet i s with Some id => get_mut id m s | None => (VNone, s) end
    | OCookieSet n v => if valid_name n then (VNone, snd (mutate_header n (Some v) s)) else (VErr TypeErr, s)
    | OCookieDel n => if valid_name n
                      then let '(found, s') := mutate_header n None s in ((if found then VNone else VErr KeyErr), s')
                      else (VErr TypeErr, s)
    | OCookieClear => (VNone, with_env s (env_set K_COOKIE (EStr []) e))
    | OCCMut Fresh m => let '(id, s') := get_CC s in cc_mut id m s'
    | OCCMut (Held i) m => match held HCC i s with Some id => cc_mut id m s | None => (VNone, s) end
    | OCCAssign a => (VNone, cc_assign a s)
    | OCCDel => (VNone, with_env s (env_del K_CCCACHE (env_del K_CC e)))
    | ORead w g => (VNone, snd (rd g w s))
    | OCopyEnv => (VNone, copy_env s)
    end.

  Definition run (ops : list op) (s : st) : st := fold_left (fun s o => snd (step s o)) ops s.

  (* ---------------------------------------------------------------- the brand-new Request *)
  Definition strip_env (e : environ) : environ := filter (fun kv => negb (is_cache_key (fst kv))) e.
  (* ... over a copy of the environ without the cache keys, and with no wrapper memory *)
  Definition strip (s : st) : st := mkSt (strip_env (env s)) (gets s) (ccs s) (hgets s) (hccs s) [].
  Definition FRESHW : nat := 0.
  Definition obsA (g : getter) (w : nat) (s : st) : val := fst (rd g w s).
  Definition obsF (g : getter) (s : st) : val := fst (rd g FRESHW (strip s)).

  (* ---------------------------------------------------------------- what the correspondence compares *)
  Definition ev_obs (s : st) (v : eval) : val :=
    match v with
    | EStr x => VStr x
    | ENone => VNone
    | EOpq t => VList [VStr t]
    | EQCache id qs => VList [vitems (nth id (gets s) []); VStr qs]
    | ECkCache jar h => VList [vpairs jar; VStr h]
    | ECCCache None => VList [VNone; VNone]
    | ECCCache (Some (h, id)) =>
        VList [VStr h; match nth_error (ccs s) id with Some o => cc_obs (cc_props o) | None => VErr (lit "dangling") end]
    | EQForeign its qs => VList [vitems its; VStr qs]
    end.
  Definition is_opq (v : eval) : bool := match v with EOpq _ => true | _ => false end.
  (* the whole environ in order (opaque values, which no modelled operation touches, are left out) *)
  Definition env_obs (s : st) : val :=
    VList (map (fun kv => VList [VStr (fst kv); ev_obs s (snd kv)]) (filter (fun kv => negb (is_opq (snd kv))) (env s))).
  (* what changed between two states: entries of the later environ (in its order) that are new or observe
     differently, then [key] alone for every key that disappeared *)
  Definition env_diff (s0 s1 : st) : val :=
    VList (flat_map (fun kv =>
                       if is_opq (snd kv) then [] else
                       let o := ev_obs s1 (snd kv) in
                       match env_get (fst kv) (env s0) with
                       | Some v0 => if val_eqb (ev_obs s0 v0) o then [] else [VList [VStr (fst kv); o]]
                       | None => [VList [VStr (fst kv); o]]
                       end) (env s1)
           ++ flat_map (fun kv => if env_has (fst kv) (env s1) then [] else [VList [VStr (fst kv)]]) (env s0)).

  (* for each probe: value through the long-lived wrapper, value through a brand-new Request (built before the read) *)
  Fixpoint observe (probes : list (nat * getter)) (s : st) : list val * st :=
    match probes with
    | [] => ([], s)
    | (w, g) :: ps =>
        let f := obsF g s in
        let '(a, s1) := rd g w s in
        let '(rest, s2) := observe ps s1 in
        (VList [a; f] :: rest, s2)
    end.

  (* per step: returned value, environ changes made by the operation, probe values, environ changes made by the
     reads; at the end the whole environ *)
  Fixpoint trace (probes : list (nat * getter)) (ops : list op) (s : st) : list val :=
    match ops with
    | [] => [env_obs s]
    | o :: ops' =>
        let '(ret, s1) := step s o in
        let '(obs, s2) := observe probes s1 in
        VList [ret; env_diff s s1; VList obs; env_diff s1 s2] :: trace probes ops' s2
    end.

  Definition init (e : environ) : st := mkSt e [] [] [] [] [None; None].
End EnvView.

Arguments env {P} s.
Arguments gets {P} s.
Arguments ccs {P} s.
Arguments hgets {P} s.
Arguments hccs {P} s.
Arguments wcs {P} s.
