(* C09 — executable model of request.py:1651-1720 `_encode_multipart` (REPAIRED code: names and
   filenames are written through q(), see fixes/C09-multipart-quote-escape.patch), and a reference
   multipart/form-data splitter in Gallina (RFC 7578 framing, quoted-string parameters with the
   backslash escapes that cgi.parse_header undoes).  The agreement of the reference splitter with
   cgi.FieldStorage on the bodies webob produces is correspondence only.  Definitions only. *)
From Coq Require Import NArith List Bool.
Require Import Webob.Lib.Val Webob.Lib.PyStr Webob.Lib.C09_Utf8.
Import ListNotations.
Local Open Scope N_scope.

Inductive mp_value :=
| MText (v : str)                                         (* a text field *)
| MFile (filename : str) (mime : option str) (content : list N).
    (* an upload; mime = mimetypes.guess_type(filename)[0], supplied by the caller *)
Definition mp_field := (str * mp_value)%type.

Definition CRLF : list N := [13; 10].
Definition DASHES : list N := [45; 45].

(* q(t): first every backslash is doubled, then every double quote gets a backslash *)
Definition q_escape (t : str) : str := replace_c 34 [92; 34] (replace_c 92 [92; 92] t).

(* Content-Disposition: form-data *)
Definition S_CDISP : str :=
  [67;111;110;116;101;110;116;45;68;105;115;112;111;115;105;116;105;111;110;58;32;102;111;114;109;45;100;97;116;97].
(* ; name=<dquote> *)
Definition S_NAME : str := [59;32;110;97;109;101;61;34].
(* ; filename=<dquote> *)
Definition S_FILENAME : str := [59;32;102;105;108;101;110;97;109;101;61;34].
(* Content-type:<space> *)
Definition S_CTYPE : str := [67;111;110;116;101;110;116;45;116;121;112;101;58;32].
Definition QUOTE : str := [34].

(* one iteration of `for name, value in vars:`; every wt(t) writes t.encode(utf8) *)
Definition enc_part (B : str) (f : mp_field) : list N :=
  let '(name, value) := f in
  DASHES ++ utf8_encode B ++ CRLF
  ++ utf8_encode S_CDISP
  ++ utf8_encode (S_NAME ++ q_escape name ++ QUOTE)
  ++ match value with
     | MText v => CRLF ++ CRLF ++ utf8_encode v ++ CRLF
     | MFile fn mime content =>
         utf8_encode (S_FILENAME ++ q_escape fn ++ QUOTE) ++ CRLF
         ++ match mime with
            | Some m => utf8_encode (S_CTYPE ++ m) ++ CRLF
            | None => []
            end
         ++ CRLF ++ content ++ CRLF
     end.

Definition encode_multipart (B : str) (fields : list mp_field) : list N :=
  concat (map (enc_part B) fields) ++ utf8_encode (DASHES ++ B ++ DASHES).

(* ------------------------------------------------------------------ reference splitter *)
Inductive dec_value :=
| DText (v : str)
| DFile (filename : str) (content : list N).
Definition dec_field := (str * dec_value)%type.

Fixpoint strip_prefix (p s : list N) : option (list N) :=
  match p, s with
  | [], _ => Some s
  | x :: p', y :: s' => if x =? y then strip_prefix p' s' else None
  | _ :: _, [] => None
  end.

(* quoted-string body up to the closing quote; backslash-backslash and backslash-dquote are escapes,
   any other backslash is literal *)
Fixpoint parse_quoted (s : list N) : option (list N * list N) :=
  match s with
  | [] => None
  | c :: s' =>
      if c =? 92 then
        match s' with
        | d :: rest =>
            if (d =? 92) || (d =? 34)
            then option_map (fun p => (d :: fst p, snd p)) (parse_quoted rest)
            else option_map (fun p => (92 :: fst p, snd p)) (parse_quoted s')
        | [] => None
        end
      else if c =? 34 then Some ([], s')
      else option_map (fun p => (c :: fst p, snd p)) (parse_quoted s')
  end.

(* skip the remaining header lines: what follows the first empty line *)
Fixpoint after_blank_line (s : list N) (at_line_start : bool) : option (list N) :=
  match s with
  | [] => None
  | c :: s' =>
      if c =? 13 then
        match s' with
        | d :: s'' =>
            if d =? 10 then (if at_line_start then Some s'' else after_blank_line s'' true)
            else after_blank_line s' false
        | [] => None
        end
      else after_blank_line s' false
  end.

(* first occurrence of the delimiter: (what precedes it, what follows it) *)
Fixpoint find_delim (D s : list N) : option (list N * list N) :=
  if starts_with D s then Some ([], skipn (length D) s)
  else match s with
       | [] => None
       | c :: s' => option_map (fun p => (c :: fst p, snd p)) (find_delim D s')
       end.

(* headers of one part: Content-Disposition: form-data; name=<q>[; filename=<q>], other lines ignored *)
Definition parse_part_headers (s : list N) : option (list N * option (list N) * list N) :=
  match strip_prefix (S_CDISP ++ S_NAME) s with
  | None => None
  | Some s1 =>
      match parse_quoted s1 with
      | None => None
      | Some (name, s2) =>
          match strip_prefix S_FILENAME s2 with
          | Some s3 =>
              match parse_quoted s3 with
              | None => None
              | Some (fn, s4) => option_map (fun c => (name, Some fn, c)) (after_blank_line s4 false)
              end
          | None => option_map (fun c => (name, None, c)) (after_blank_line s2 false)
          end
      end
  end.

Definition mk_field (name : list N) (ofn : option (list N)) (content : list N) : option dec_field :=
  match utf8_decode name with
  | None => None
  | Some n =>
      match ofn with
      | Some fnb => match utf8_decode fnb with Some fn => Some (n, DFile fn content) | None => None end
      | None => match utf8_decode content with Some v => Some (n, DText v) | None => None end
      end
  end.

(* [s] is what follows a delimiter CRLF--B *)
Fixpoint parts (fuel : nat) (D s : list N) : option (list dec_field) :=
  match fuel with
  | O => None
  | S fuel' =>
      if starts_with DASHES s then Some []              (* close delimiter *)
      else match strip_prefix CRLF s with
           | None => None
           | Some s1 =>
               match parse_part_headers s1 with
               | None => None
               | Some (name, ofn, s2) =>
                   match find_delim D s2 with
                   | None => None
                   | Some (content, s3) =>
                       match mk_field name ofn content with
                       | None => None
                       | Some f => option_map (cons f) (parts fuel' D s3)
                       end
                   end
               end
           end
  end.

Definition delimiter (B : list N) : list N := CRLF ++ DASHES ++ B.

Definition ref_decode (B body : list N) : option (list dec_field) :=
  match strip_prefix (DASHES ++ B) body with
  | Some s => parts (S (length body)) (delimiter B) s
  | None => None
  end.

(* what the decoder is expected to return for an encoded field *)
Definition dec_of (f : mp_field) : dec_field :=
  match snd f with
  | MText v => (fst f, DText v)
  | MFile fn _ content => (fst f, DFile fn content)
  end.

(* ------------------------------------------------------------------ val renderings *)
Definition v_encode_multipart (c : str * list mp_field) : val := VStr (encode_multipart (fst c) (snd c)).
Definition v_dec_field (f : dec_field) : val :=
  match snd f with
  | DText v => VList [VStr (fst f); VStr v]
  | DFile fn content => VList [VStr (fst f); VStr fn; VStr content]
  end.
Definition v_ref_decode (c : str * list N) : val :=
  match ref_decode (utf8_encode (fst c)) (snd c) with
  | Some l => VList (map v_dec_field l)
  | None => VNone
  end.
