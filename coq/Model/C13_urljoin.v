(* C13 — executable model of urllib.parse.urlparse / urlunparse / urlunsplit / urljoin of CPython 3.12
   (Lib/urllib/parse.py:374-411, 509-606) and of BaseRequest.relative_url (request.py:484-500).
   Mirrors the Python code statement by statement, including what makes urljoin deviate from RFC 3986:
   empty components dropped by urlunsplit/urlunparse, `filter(None, segments[1:-1])`, references with a
   scheme or netloc returned without dot-segment removal, params split off the last segment before the
   dot-segment loop.  Definitions only.  The tables uses_relative/uses_netloc/uses_params are regenerated
   (Gen/C13_tables.v). *)
From Coq Require Import NArith List Bool.
Require Import Webob.Lib.Val Webob.Lib.PyStr Webob.Lib.C13_Utf8 Webob.Gen.C13_tables Webob.Model.C13_urlsplit
               Webob.Model.C13_urlpath.
Import ListNotations.
Local Open Scope N_scope.

Fixpoint mem_str (x : str) (l : list str) : bool :=
  match l with [] => false | y :: l' => str_eqb x y || mem_str x l' end.
Definition nonempty (s : str) : bool := negb (is_empty s).
Definition s_dot : str := [46].
Definition s_dotdot : str := [46; 46].
Definition is_semi (c : N) : bool := c =? 59.

(* _splitparams(url): i = url.find(';', url.rfind('/')) (or url.find(';') without '/'); i < 0 -> (url, '') *)
Definition splitparams (url : str) : str * str :=
  let (last_rev, head_rev) := span_until is_slash (rev url) in
  let (a, b) := span_until is_semi (rev last_rev) in
  match b with
  | _ :: params => (rev head_rev ++ a, params)
  | [] => (url, [])
  end.

Inductive parse_res :=
| POk (scheme netloc path params query fragment : str)
| PValueError
| PUnsupported.

(* urlparse(url, scheme) *)
Definition urlparse (v6ok : str -> bool) (dflt url : str) : parse_res :=
  match urlsplit_with v6ok dflt url with
  | SValueError => PValueError
  | SUnsupported => PUnsupported
  | SOk scheme netloc path query fragment =>
      if mem_str scheme USES_PARAMS && mem_n 59 path then
        let (p, params) := splitparams path in POk scheme netloc p params query fragment
      else POk scheme netloc path [] query fragment
  end.

Definition urlunsplit (scheme netloc url query fragment : str) : str :=
  let url1 :=
    if nonempty netloc || (nonempty scheme && mem_str scheme USES_NETLOC && negb (starts_with [47; 47] url)) then
      [47; 47] ++ netloc ++
      (if nonempty url && negb (starts_with [47] url) then 47 :: url else url)
    else url in
  let url2 := if nonempty scheme then scheme ++ 58 :: url1 else url1 in
  let url3 := if nonempty query then url2 ++ 63 :: query else url2 in
  if nonempty fragment then url3 ++ 35 :: fragment else url3.

Definition urlunparse (scheme netloc url params query fragment : str) : str :=
  urlunsplit scheme netloc (if nonempty params then url ++ 59 :: params else url) query fragment.

(* segments[1:-1] = filter(None, segments[1:-1]) *)
Definition filter_mid (l : list str) : list str :=
  match l with
  | [] => []
  | x :: r =>
      match r with
      | [] => [x]
      | _ => x :: filter nonempty (removelast r) ++ [last r []]
      end
  end.

(* the resolved_path loop; the stack is kept reversed (top first) *)
Fixpoint resolve_segs (segs : list str) (stack : list str) : list str :=
  match segs with
  | [] => stack
  | seg :: more =>
      if str_eqb seg s_dotdot then resolve_segs more (tl stack)      (* pop, IndexError ignored *)
      else if str_eqb seg s_dot then resolve_segs more stack
      else resolve_segs more (seg :: stack)
  end.

(* the path part of urljoin: base_parts, segments, the resolved_path loop, '/'.join(resolved_path) *)
Definition join_path (bpath path : str) : str :=
  let bp := split_c 47 bpath in
  let base_parts := if nonempty (last bp []) then removelast bp else bp in
  let segments :=
    if starts_with [47] path then split_c 47 path
    else filter_mid (base_parts ++ split_c 47 path) in
  let resolved := rev (resolve_segs segments []) in
  let lastseg := last segments [] in
  let resolved := if str_eqb lastseg s_dot || str_eqb lastseg s_dotdot
                  then resolved ++ [[]] else resolved in
  join [47] resolved.

Inductive join_res := JOk (u : str) | JValueError | JUnsupported.

Definition urljoin (v6ok : str -> bool) (base url : str) : join_res :=
  if is_empty base then JOk url
  else if is_empty url then JOk base
  else
    match urlparse v6ok [] base with
    | PValueError => JValueError
    | PUnsupported => JUnsupported
    | POk bscheme bnetloc bpath bparams bquery bfragment =>
        match urlparse v6ok bscheme url with
        | PValueError => JValueError
        | PUnsupported => JUnsupported
        | POk scheme netloc path params query fragment =>
            if negb (str_eqb scheme bscheme) || negb (mem_str scheme USES_RELATIVE) then JOk url
            else if mem_str scheme USES_NETLOC && nonempty netloc then
              JOk (urlunparse scheme netloc path params query fragment)
            else
              let netloc := if mem_str scheme USES_NETLOC then bnetloc else netloc in
              if is_empty path && is_empty params then
                JOk (urlunparse scheme netloc bpath bparams (if is_empty query then bquery else query) fragment)
              else
                let joined := join_path bpath path in
                JOk (urlunparse scheme netloc (if is_empty joined then [47] else joined) params query fragment)
        end
    end.

Definition ends_with_slash (s : str) : bool := last s 0 =? 47.

(* BaseRequest.relative_url(other_url, to_application) *)
Inductive rel_res := ROk (u : str) | RRaise (e : exn) | RUnsupported.
Definition relative_url (v6ok : str -> bool) (e : environ) (other : str) (to_application : bool) : rel_res :=
  match (if to_application then
           a <- application_url e ;; Ok (if ends_with_slash a then a else a ++ [47])
         else path_url e) with
  | Raise x => RRaise x
  | Ok base =>
      match urljoin v6ok base other with
      | JOk u => ROk u
      | JValueError => RRaise EValueError
      | JUnsupported => RUnsupported
      end
  end.

Definition obs_rel (oks : list str) (c : environ * str * bool) : val :=
  match relative_url (fun s => mem_str s oks) (fst (fst c)) (snd (fst c)) (snd c) with
  | ROk u => VStr u
  | RRaise x => exn_val x
  | RUnsupported => VNone
  end.
Definition obs_join (oks : list str) (c : str * str) : val :=
  match urljoin (fun s => mem_str s oks) (fst c) (snd c) with
  | JOk u => VStr u
  | JValueError => exn_val EValueError
  | JUnsupported => VNone
  end.
