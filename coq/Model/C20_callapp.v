(* C20 — executable model of Request.call_application / send (get_response)
   (request.py 1322-1397, with fixes/C20-1: start_response re-raises the application's own
   exception object).  Definitions only.

   A WSGI application is described by a *script*: the events it performs while it is being
   called (before it returns its iterable), the events/chunks its iterable produces when it is
   iterated, and whether the iterable has a close() method.  Exceptions are identified by a
   number (the harness maps numbers to exception objects and compares identity). *)
From Coq Require Import ZArith NArith List Bool.
Require Import Webob.Lib.Val Webob.Lib.PyStr Webob.Model.C20_wire.
From Coq Require String.
Import String.StringSyntax.
Import ListNotations.
Local Open Scope string_scope.
Local Open Scope list_scope.
Local Open Scope N_scope.

Definition headers := list (str * str).

Inductive ev :=
| EStart (status : str) (h : headers) (exc : option N)    (* start_response(status, h[, exc_info]) *)
| EWrite (b : bytes)                                       (* write(b) — the callable start_response returned *)
| ERaise (x : N).                                          (* the application raises *)

Inductive item :=
| IEv (e : ev)              (* something the iterable does between two yields *)
| IYield (b : bytes).       (* yield b *)

Record app := mkApp {
  a_call : list ev;         (* performed inside application(environ, start_response) *)
  a_items : list item;      (* performed by iterating the returned iterable *)
  a_close : bool            (* the iterable has .close() *)
}.

(* the two lists of the closure: captured[:] and output *)
Record cst := mkCst {
  captured : option (str * headers * option N);
  output : list bytes
}.

(* one event against the closure state: new state, or the exception that propagates *)
Definition step_ev (catch : bool) (s : cst) (e : ev) : cst + N :=
  match e with
  | EStart st h exc =>
      match exc with
      | Some x => if catch then inl (mkCst (Some (st, h, exc)) (output s)) else inr x
      | None => inl (mkCst (Some (st, h, None)) (output s))
      end
  | EWrite b => inl (mkCst (captured s) (output s ++ [b]))
  | ERaise x => inr x
  end.

Fixpoint run_call (catch : bool) (s : cst) (evs : list ev) : cst + N :=
  match evs with
  | [] => inl s
  | e :: evs' => match step_ev catch s e with
                 | inl s' => run_call catch s' evs'
                 | inr x => inr x
                 end
  end.

(* output.extend(app_iter): chunks are appended as they are produced, interleaved with write() *)
Fixpoint run_items (catch : bool) (s : cst) (its : list item) : cst + N :=
  match its with
  | [] => inl s
  | IYield b :: its' => run_items catch (mkCst (captured s) (output s ++ [b])) its'
  | IEv e :: its' => match step_ev catch s e with
                     | inl s' => run_items catch s' its'
                     | inr x => inr x
                     end
  end.

(* the caller iterating the application's own iterable (returned unconsumed): the chunks it
   sees, and the exception that ends the iteration if any; write() output goes to the
   closure's list, which nobody reads any more *)
Fixpoint drain (catch : bool) (s : cst) (its : list item) : list bytes * option N :=
  match its with
  | [] => ([], None)
  | IYield b :: its' => let '(l, x) := drain catch s its' in (b :: l, x)
  | IEv e :: its' => match step_ev catch s e with
                     | inl s' => drain catch s' its'
                     | inr x => ([], Some x)
                     end
  end.

Inductive outcome :=
| Returned (status : str) (h : headers) (chunks : list bytes)
           (exc : option N)          (* captured exc_info (returned only when catch_exc_info) *)
           (closed : bool)           (* webob called app_iter.close() *)
           (own : bool)              (* the application's own iterable was returned, unconsumed *)
           (drain_exc : option N)    (* exception met by the caller while iterating it *)
| Raised (x : N) (closed : bool)
| Failed (tag : str) (closed : bool).      (* start_response never called: captured[0] -> IndexError *)

Definition is_none {T} (o : option T) : bool := match o with None => true | Some _ => false end.

Definition consumes (s : cst) : bool := negb (is_nil (output s)) || is_none (captured s).

Definition call_application (catch : bool) (a : app) : outcome :=
  match run_call catch (mkCst None []) (a_call a) with
  | inr x => Raised x false
  | inl s =>
      if consumes s then
        match run_items catch s (a_items a) with
        | inr x => Raised x (a_close a)
        | inl s' =>
            match captured s' with
            | None => Failed (A "IndexError") (a_close a)
            | Some (st, h, exc) => Returned st h (output s') exc (a_close a) false None
            end
        end
      else
        match captured s with
        | None => Failed (A "IndexError") false          (* unreachable: consumes s = false *)
        | Some (st, h, exc) =>
            let '(chunks, dx) := drain catch s (a_items a) in
            Returned st h chunks exc false true dx
        end
  end.

(* send / get_response: Response(status, list(headers), app_iter), then .body *)
Inductive sent :=
| Sent (status : str) (h : headers) (body : bytes) (closes : bool)   (* close() called, in total, once iff [closes] *)
| SRaised (x : N) (closes : bool)
| SFailed (tag : str) (closes : bool).

Definition send (catch : bool) (a : app) : sent :=
  match call_application catch a with
  | Returned st h chunks _ closed own dx =>
      match dx with
      | Some x => SRaised x (a_close a)          (* Response.body: finally iter_close(app_iter) *)
      | None => Sent st h (concat chunks) (a_close a)
      end
  | Raised x closed => SRaised x closed
  | Failed t closed => SFailed t closed
  end.

(* ------------------------------------------------------------------ the declarative side *)
(* every event of the script in the order a WSGI server would see it *)
Definition all_events (a : app) : list item := map IEv (a_call a) ++ a_items a.

Fixpoint spec_body (its : list item) : bytes :=
  match its with
  | [] => []
  | IYield b :: r => b ++ spec_body r
  | IEv (EWrite b) :: r => b ++ spec_body r
  | IEv _ :: r => spec_body r
  end.

Fixpoint last_start (its : list item) (acc : option (str * headers * option N)) :=
  match its with
  | [] => acc
  | IEv (EStart st h exc) :: r => last_start r (Some (st, h, exc))
  | _ :: r => last_start r acc
  end.

(* the first event that makes an exception propagate *)
Fixpoint first_raise (catch : bool) (its : list item) : option N :=
  match its with
  | [] => None
  | IEv (ERaise x) :: _ => Some x
  | IEv (EStart _ _ (Some x)) :: r => if catch then first_raise catch r else Some x
  | _ :: r => first_raise catch r
  end.

Definition has_write (evs : list ev) : bool :=
  existsb (fun e => match e with EWrite _ => true | _ => false end) evs.
Definition has_start (evs : list ev) : bool :=
  existsb (fun e => match e with EStart _ _ _ => true | _ => false end) evs.
(* webob consumes the iterable itself iff the application wrote before returning or has not
   called start_response yet *)
Definition webob_consumes (a : app) : bool := has_write (a_call a) || negb (has_start (a_call a)).
