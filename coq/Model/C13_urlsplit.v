(* C13 — executable model of urllib.parse.urlsplit of CPython 3.12 (Lib/urllib/parse.py:453-507), the only
   stdlib parser on the path of Request.blank / environ_from_url.  Mirrors the Python code statement by
   statement: lstrip of C0 controls and space, deletion of TAB/CR/LF anywhere, scheme detection, the '//'
   network location up to the first of "/?#", the bracket checks, fragment and query split.
   Definitions only.  External: _check_bracketed_host (ipaddress / IPvFuture regex) is the parameter [v6ok];
   _checknetloc (NFKC test, only for a non-ASCII netloc) is outside the model: SUnsupported. *)
From Coq Require Import NArith List Bool.
Require Import Webob.Lib.Val Webob.Lib.PyStr.
Import ListNotations.
Local Open Scope N_scope.

Definition is_empty (s : str) : bool := match s with [] => true | _ => false end.

(* longest prefix without a character satisfying f, and the rest (starting at that character) *)
Fixpoint span_until (f : N -> bool) (s : str) : str * str :=
  match s with
  | [] => ([], [])
  | c :: s' => if f c then ([], s) else let (a, b) := span_until f s' in (c :: a, b)
  end.

Definition c0_or_space (c : N) : bool := c <=? 32.                              (* _WHATWG_C0_CONTROL_OR_SPACE *)
Definition unsafe_byte (c : N) : bool := (c =? 9) || (c =? 13) || (c =? 10).    (* _UNSAFE_URL_BYTES_TO_REMOVE *)
Definition is_alpha (c : N) : bool := ((65 <=? c) && (c <=? 90)) || ((97 <=? c) && (c <=? 122)).
Definition is_digit (c : N) : bool := (48 <=? c) && (c <=? 57).
Definition is_scheme_char (c : N) : bool :=
  is_alpha c || is_digit c || (c =? 43) || (c =? 45) || (c =? 46).               (* scheme_chars *)
Definition is_delim (c : N) : bool := (c =? 47) || (c =? 63) || (c =? 35).      (* "/?#" in _splitnetloc *)
Definition is_colon (c : N) : bool := c =? 58.
Definition lower_ascii (c : N) : N := if (65 <=? c) && (c <=? 90) then c + 32 else c.
Definition is_ascii (c : N) : bool := c <? 128.

Inductive split_res :=
| SOk (scheme netloc path query fragment : str)
| SValueError              (* "Invalid IPv6 URL" / _check_bracketed_host refused *)
| SUnsupported.            (* non-ASCII netloc: _checknetloc is outside the model *)

(* i = url.find(':'); if i > 0 and url[0].isascii() and url[0].isalpha(): all of url[:i] in scheme_chars
   -> (url[:i].lower(), url[i+1:]) *)
Definition split_scheme (url : str) : str * str :=
  match url with
  | c0 :: _ =>
      if is_alpha c0 then
        let (pre, rest) := span_until is_colon url in
        match rest with
        | _ :: after => if forallb is_scheme_char pre then (map lower_ascii pre, after) else ([], url)
        | [] => ([], url)
        end
      else ([], url)
  | [] => ([], url)
  end.

(* netloc.partition('[')[2].partition(']')[0] *)
Definition bracket_content (netloc : str) : str :=
  let '(_, _, after) := partition_c 91 netloc in
  let '(inside, _, _) := partition_c 93 after in inside.

(* the three tests on the netloc: 0 = fine, 1 = ValueError *)
Definition netloc_bad (v6ok : str -> bool) (netloc : str) : bool :=
  let lb := mem_n 91 netloc in
  let rb := mem_n 93 netloc in
  if (lb && negb rb) || (rb && negb lb) then true
  else if lb && rb then negb (v6ok (bracket_content netloc))
  else false.

(* url.split(c, 1) when c occurs: (before, after); otherwise (url, "") *)
Definition split_first (d : N) (s : str) : str * str :=
  let (a, b) := span_until (fun c => c =? d) s in
  match b with
  | _ :: b' => (a, b')
  | [] => (a, [])
  end.

(* urlsplit(url, scheme=dflt): scheme = scheme.strip(C0 or space) with TAB/CR/LF deleted is the default *)
Definition clean_scheme (s : str) : str :=
  filter (fun c => negb (unsafe_byte c)) (strip_by c0_or_space s).

Definition urlsplit_with (v6ok : str -> bool) (dflt : str) (url0 : str) : split_res :=
  let url1 := drop_while c0_or_space url0 in
  let url2 := filter (fun c => negb (unsafe_byte c)) url1 in
  let (found, url3) := split_scheme url2 in
  let scheme := if is_empty found then clean_scheme dflt else found in
  let '(netloc, url4) :=
    match url3 with
    | 47 :: 47 :: r => span_until is_delim r
    | _ => ([], url3)
    end in
  if netloc_bad v6ok netloc then SValueError
  else
    let (url5, fragment) := split_first 35 url4 in
    let (url6, query) := split_first 63 url5 in
    if forallb is_ascii netloc then SOk scheme netloc url6 query fragment else SUnsupported.

Definition urlsplit (v6ok : str -> bool) (url0 : str) : split_res := urlsplit_with v6ok [] url0.
