(* C16 — executable model of the signed-cookie path of webob/cookies.py
     JSONSerializer / Base64Serializer          cookies.py:615-659
     SignedSerializer.__init__ / dumps / loads  cookies.py:691-742
     CookieProfile.bind / get_value             cookies.py:824-860   (get_value as REPAIRED by
                                                fixes/C16-get-value-undecodable-cookie.patch)
     CookieProfile.get_headers / _get_cookies   cookies.py:887-991   (4093-byte limit)
     SignedCookieProfile.__init__ / bind        cookies.py:1050-1102
   and of the two CPython primitives whose exact behaviour decides what "an altered token"
   decodes to:  base64.urlsafe_b64encode  and  base64.urlsafe_b64decode
   (= bytes.translate + binascii.a2b_base64 in its default, non-strict mode).
   hmac / hashlib / json are parameters (mac, dsize, ser, deser).
   Definitions only; proofs are in Proofs/C16_signed.v. *)
From Coq Require Import ZArith NArith List Bool.
Require Import Webob.Lib.Val Webob.Lib.PyStr.
Import ListNotations.
Local Open Scope N_scope.

Definition bytes := list N.            (* octets: every element < 256 *)
Definition is_byte (c : N) : bool := c <? 256.

(* the only exception class this code path lets escape is ValueError (binascii.Error,
   UnicodeEncodeError, UnicodeDecodeError and json.JSONDecodeError are subclasses of it) *)
Inductive res (A : Type) : Type :=
| Ok (a : A)
| ValueError.
Arguments Ok {A} a.
Arguments ValueError {A}.

(* ------------------------------------------------------------------ base64 *)

(* binascii table_b2a_base64 followed by the urlsafe translation '+'->'-', '/'->'_' *)
Definition b2a (i : N) : N :=
  if i <? 26 then 65 + i
  else if i <? 52 then 71 + i
  else if i <? 62 then i - 4
  else if i =? 62 then 45
  else 95.

Definition PAD : N := 61.

(* base64.urlsafe_b64encode: three octets -> four symbols, '=' padding *)
Fixpoint b64enc (bs : bytes) : bytes :=
  match bs with
  | [] => []
  | [x] => [b2a (x / 4); b2a ((x mod 4) * 16); PAD; PAD]
  | [x; y] => [b2a (x / 4); b2a ((x mod 4) * 16 + y / 16); b2a ((y mod 16) * 4); PAD]
  | x :: y :: z :: rest =>
      b2a (x / 4) :: b2a ((x mod 4) * 16 + y / 16) :: b2a ((y mod 16) * 4 + z / 64) :: b2a (z mod 64)
        :: b64enc rest
  end.

(* the urlsafe translation '-'->'+', '_'->'/' followed by table_a2b_base64:
   '+' and '-' both mean 62, '/' and '_' both mean 63; None = not in the alphabet *)
Definition a2b (c : N) : option N :=
  if (65 <=? c) && (c <=? 90) then Some (c - 65)
  else if (97 <=? c) && (c <=? 122) then Some (c - 71)
  else if (48 <=? c) && (c <=? 57) then Some (c + 4)
  else if (c =? 43) || (c =? 45) then Some 62
  else if (c =? 47) || (c =? 95) then Some 63
  else None.

(* binascii.a2b_base64(data, strict_mode=False): the loop over the input with its state
   quad_pos / leftchar / pads.  Symbols outside the alphabet are skipped; '=' is skipped unless
   it completes a quad that already holds >= 2 symbols, in which case decoding STOPS and the
   rest of the input is ignored; at the end of input quad_pos must be 0 (else binascii.Error). *)
Fixpoint a2b_loop (s : bytes) (quad : N) (leftc : N) (pads : N) : option bytes :=
  match s with
  | [] => if quad =? 0 then Some [] else None
  | c :: s' =>
      if c =? PAD then
        if 2 <=? quad then
          if 4 <=? quad + (pads + 1) then Some []            (* goto done *)
          else a2b_loop s' quad leftc (pads + 1)
        else a2b_loop s' quad leftc pads
      else
        match a2b c with
        | None => a2b_loop s' quad leftc pads
        | Some v =>
            if quad =? 0 then a2b_loop s' 1 v 0
            else if quad =? 1 then option_map (cons (leftc * 4 + v / 16)) (a2b_loop s' 2 (v mod 16) 0)
            else if quad =? 2 then option_map (cons (leftc * 16 + v / 4)) (a2b_loop s' 3 (v mod 4) 0)
            else option_map (cons (leftc * 64 + v)) (a2b_loop s' 0 0 0)
        end
  end.

(* base64.urlsafe_b64decode on a bytes object; None = binascii.Error *)
Definition b64dec (s : bytes) : option bytes := a2b_loop s 0 0 0.

(* ------------------------------------------------------------ bytes_ / utf-8 *)

(* bytes_(s) = s.encode('latin-1') for str; None = UnicodeEncodeError (a ValueError) *)
Definition latin1 (s : str) : option bytes := if forallb is_byte s then Some s else None.

Definition utf8_c (c : N) : option bytes :=
  if c <? 128 then Some [c]
  else if c <? 2048 then Some [192 + c / 64; 128 + c mod 64]
  else if c <? 65536 then
    if (55296 <=? c) && (c <=? 57343) then None      (* lone surrogate: UnicodeEncodeError *)
    else Some [224 + c / 4096; 128 + (c / 64) mod 64; 128 + c mod 64]
  else if c <? 1114112 then
    Some [240 + c / 262144; 128 + (c / 4096) mod 64; 128 + (c / 64) mod 64; 128 + c mod 64]
  else None.

Fixpoint utf8 (s : str) : option bytes :=
  match s with
  | [] => Some []
  | c :: s' => match utf8_c c, utf8 s' with
               | Some a, Some b => Some (a ++ b)
               | _, _ => None
               end
  end.

(* ------------------------------------------------------- SignedSerializer *)

(* __init__:  try: bytes_(salt or "") + bytes_(secret)   (latin-1)
              except UnicodeEncodeError: both as utf-8.   None = the constructor raises. *)
Definition salted_secret (salt secret : str) : option bytes :=
  match latin1 salt, latin1 secret with
  | Some a, Some b => Some (a ++ b)
  | _, _ => match utf8 salt, utf8 secret with
            | Some a, Some b => Some (a ++ b)
            | _, _ => None
            end
  end.

Fixpoint bytes_eqb (a b : bytes) : bool :=       (* hmac.compare_digest: full length *)
  match a, b with
  | [], [] => true
  | x :: a', y :: b' => (x =? y) && bytes_eqb a' b'
  | _, _ => false
  end.

(* "=" * (-len(bstruct) % 4) *)
Definition b64padding (t : bytes) : bytes :=
  repeat PAD ((4 - length t mod 4) mod 4)%nat.

(* what a token means to the signed serializer: the octets it is decoded to after padding repair *)
Definition decoded (t : bytes) : option bytes := b64dec (t ++ b64padding t).

Section Signed.
  Variable V : Type.
  Variable mac : bytes -> bytes -> bytes.     (* hmac.new(key, msg, digestmod).digest() *)
  Variable dsize : nat.                       (* digestmod().digest_size *)
  Variable ser : V -> bytes.                  (* serializer.dumps *)
  Variable deser : bytes -> res V.            (* serializer.loads; raises only ValueError *)
  Variable key : bytes.                       (* self.salted_secret *)

  (* dumps: urlsafe_b64encode(sig + cstruct).rstrip(b"=") *)
  Definition signed_dumps (v : V) : bytes :=
    let cstruct := ser v in
    let sig := mac key cstruct in
    rstrip_by (N.eqb PAD) (b64enc (sig ++ cstruct)).

  (* loads on a bytes token *)
  Definition signed_loads_b (t : bytes) : res V :=
    match decoded t with
    | None => ValueError                                  (* binascii.Error -> ValueError *)
    | Some fstruct =>
        let cstruct := skipn dsize fstruct in
        let expected_sig := firstn dsize fstruct in
        let sig := mac key cstruct in
        if bytes_eqb sig expected_sig then deser cstruct
        else ValueError                                   (* "Invalid signature" *)
    end.

  (* loads on what the caller passes (str or bytes): bytes_(bstruct) first *)
  Definition signed_loads (t : str) : res V :=
    match latin1 t with
    | None => ValueError                                  (* UnicodeEncodeError *)
    | Some b => signed_loads_b b
    end.

  (* ------------------------------------------------------ Base64Serializer *)
  Definition b64ser_dumps (v : V) : bytes := b64enc (ser v).
  Definition b64ser_loads (t : str) : res V :=
    match latin1 t with
    | None => ValueError
    | Some b => match b64dec b with
                | None => ValueError
                | Some c => deser c
                end
    end.
End Signed.

(* ------------------------------------------------------------ CookieProfile *)

(* outcome of  self.request.cookies.get(self.cookie_name)  *)
Inductive jar :=
| JarRaises            (* the Cookie header cannot be decoded (UnicodeDecodeError) *)
| JarMissing
| JarValue (s : str).

Section Profile.
  Variable V : Type.
  Variable loads : str -> res V.       (* self.serializer.loads *)
  Variable dumps : V -> bytes.         (* self.serializer.dumps *)

  (* get_value with a bound request (repaired code: lookup and loads inside one try) *)
  Definition get_value_bound (j : jar) : option V :=
    match j with
    | JarRaises => None
    | JarMissing => None
    | JarValue c => match loads c with
                    | Ok v => Some v
                    | ValueError => None
                    end
    end.

  (* get_value: ValueError when no request is bound *)
  Definition get_value (request : option jar) : res (option V) :=
    match request with
    | None => ValueError
    | Some j => Ok (get_value_bound j)
    end.

  (* get_headers(value) for value is not None -> _get_cookies: the 4093-byte limit, then one
     Set-Cookie per domain (or one without Domain).  mk is make_cookie for the profile's
     attributes. *)
  Variable mk : option str -> bytes -> str.
  Definition get_headers (domains : list str) (v : V) : res (list str) :=
    let bstruct := dumps v in
    if (4093 <? length bstruct)%nat then ValueError
    else match domains with
         | [] => Ok [mk None bstruct]
         | _ => Ok (map (fun d => mk (Some d) bstruct) domains)
         end.
End Profile.

(* make_cookie(name, value, path="/", domain=d) with no other attribute set, for a value made of
   octets that _value_quote leaves alone and a domain _path_quote leaves alone *)
Definition mk_cookie_plain (name : str) (dom : option str) (value : bytes) : str :=
  name ++ [61] ++ value ++
  match dom with
  | None => []
  | Some d => [59; 32; 68; 111; 109; 97; 105; 110; 61] ++ d          (* "; Domain=" *)
  end ++ [59; 32; 80; 97; 116; 104; 61; 47].                        (* "; Path=/" *)

(* SignedCookieProfile: the parameters __init__ stores and bind() copies *)
Record sprofile := mkSProfile {
  sp_secret : str;
  sp_salt : str;
  sp_name : str;
  sp_domains : list str;
  sp_request : option jar
}.

(* bind(): a new SignedCookieProfile from the stored parameters, with the request attached *)
Definition sp_bind (p : sprofile) (j : jar) : sprofile :=
  mkSProfile (sp_secret p) (sp_salt p) (sp_name p) (sp_domains p) (Some j).

Section SignedProfile.
  Variable V : Type.
  Variable mac : bytes -> bytes -> bytes.
  Variable dsize : nat.
  Variable ser : V -> bytes.
  Variable deser : bytes -> res V.

  (* None = SignedSerializer.__init__ raised UnicodeEncodeError *)
  Definition sp_get_value (p : sprofile) : option (res (option V)) :=
    match salted_secret (sp_salt p) (sp_secret p) with
    | None => None
    | Some key => Some (get_value V (signed_loads V mac dsize deser key) (sp_request p))
    end.

  Definition sp_get_headers (p : sprofile) (v : V) : option (res (list str)) :=
    match salted_secret (sp_salt p) (sp_secret p) with
    | None => None
    | Some key => Some (get_headers V (signed_dumps V mac ser key) (mk_cookie_plain (sp_name p))
                                    (sp_domains p) v)
    end.
End SignedProfile.

(* ------------------------------------------------- correspondence adaptors *)
(* hmac and json are external: the harness records every (key, msg) -> digest and
   cstruct -> value pair the REAL code obtained, and the model is run on the same answers. *)

Definition mac_table := list ((bytes * bytes) * bytes).
Definition deser_table := list (bytes * option str).    (* None = ValueError *)

Fixpoint tbl_mac (tb : mac_table) (k m : bytes) : option bytes :=
  match tb with
  | [] => None
  | ((k', m'), d) :: tb' => if bytes_eqb k k' && bytes_eqb m m' then Some d else tbl_mac tb' k m
  end.
(* an answer the implementation never obtained: a "digest" that is no octet string *)
Definition MISS : bytes := [100000].
Definition mac_of (tb : mac_table) (k m : bytes) : bytes :=
  match tbl_mac tb k m with Some d => d | None => MISS end.

Fixpoint tbl_deser (tb : deser_table) (c : bytes) : option (option str) :=
  match tb with
  | [] => None
  | (c', r) :: tb' => if bytes_eqb c c' then Some r else tbl_deser tb' c
  end.
Definition MISSV : str := [100000].
Definition deser_of (tb : deser_table) (c : bytes) : res str :=
  match tbl_deser tb c with
  | Some (Some v) => Ok v
  | Some None => ValueError
  | None => Ok MISSV
  end.

(* values are identified by their canonical JSON text; ser is a table too *)
Definition ser_table := list (str * bytes).
Fixpoint ser_of (tb : ser_table) (v : str) : bytes :=
  match tb with
  | [] => MISS
  | (v', c) :: tb' => if str_eqb v v' then c else ser_of tb' v
  end.

Definition VE : val := VErr [86; 97; 108; 117; 101; 69; 114; 114; 111; 114].   (* "ValueError" *)
Definition UEE : val :=                                                       (* "UnicodeEncodeError" *)
  VErr [85; 110; 105; 99; 111; 100; 101; 69; 110; 99; 111; 100; 101; 69; 114; 114; 111; 114].

Definition val_of_res (r : res str) : val :=
  match r with Ok v => VStr v | ValueError => VE end.
Definition val_of_obytes (r : option bytes) : val :=
  match r with Some b => VStr b | None => VE end.

(* every hmac key the implementation used is the model's salted secret *)
Definition keys_ok (tb : mac_table) (key : bytes) : bool :=
  forallb (fun e => bytes_eqb (fst (fst e)) key) tb.

Definition corr_b64dec (s : bytes) : val := val_of_obytes (b64dec s).
Definition corr_b64enc (s : bytes) : val := VStr (b64enc s).
Definition corr_salted (p : str * str) : val :=
  match salted_secret (fst p) (snd p) with Some k => VStr k | None => UEE end.

(* the hmac answer the model needs for token t is one the implementation obtained *)
Definition mac_needed_ok (mt : mac_table) (dsize : nat) (key : bytes) (t : str) : bool :=
  match latin1 t with
  | None => true
  | Some b => match decoded b with
              | None => true
              | Some f => match tbl_mac mt key (skipn dsize f) with Some _ => true | None => false end
              end
  end.

(* ((salt, secret), dsize, token, mac answers, json answers) *)
Definition corr_loads (i : (str * str) * nat * str * mac_table * deser_table) : val :=
  let '(ss, dsize, t, mt, dt) := i in
  match salted_secret (fst ss) (snd ss) with
  | None => UEE
  | Some key =>
      VList [val_of_res (signed_loads str (mac_of mt) dsize (deser_of dt) key t);
             VBool (keys_ok mt key); VBool (mac_needed_ok mt dsize key t);
             (* serializer.loads is reached only behind a valid signature *)
             VBool match signed_loads unit (mac_of mt) dsize (fun _ => Ok tt) key t with
                   | Ok _ => true
                   | ValueError => false
                   end]
  end.

(* ((salt, secret), value id, mac answers, json.dumps answers) *)
Definition corr_dumps (i : (str * str) * str * mac_table * ser_table) : val :=
  let '(ss, v, mt, st) := i in
  match salted_secret (fst ss) (snd ss) with
  | None => UEE
  | Some key => VList [VStr (signed_dumps str (mac_of mt) (ser_of st) key v); VBool (keys_ok mt key)]
  end.

Definition corr_b64ser_loads (i : str * deser_table) : val :=
  val_of_res (b64ser_loads str (deser_of (snd i)) (fst i)).
Definition corr_b64ser_dumps (i : str * ser_table) : val :=
  VStr (b64ser_dumps str (ser_of (snd i)) (fst i)).

Definition val_of_gv (r : res (option str)) : val :=
  match r with
  | ValueError => VE
  | Ok None => VNone
  | Ok (Some v) => if str_eqb v [110; 117; 108; 108] then VNone else VStr v   (* JSON null is Python None *)
  end.

(* SignedCookieProfile(secret, salt, name, hashalg=...) [.bind(request)] .get_value() *)
Definition corr_get_value (i : sprofile * option jar * nat * mac_table * deser_table) : val :=
  let '(p, bindto, dsize, mt, dt) := i in
  let p' := match bindto with Some j => sp_bind p j | None => p end in
  match salted_secret (sp_salt p') (sp_secret p'), sp_get_value str (mac_of mt) dsize (deser_of dt) p' with
  | Some key, Some r =>
      VList [val_of_gv r; VBool (keys_ok mt key);
             VBool match sp_request p' with
                   | Some (JarValue t) => mac_needed_ok mt dsize key t
                   | _ => true
                   end]
  | _, _ => UEE
  end.

(* plain CookieProfile(name) [.bind(request)] .get_value() with the default Base64Serializer *)
Definition corr_get_value_plain (i : option jar * deser_table) : val :=
  val_of_gv (get_value str (b64ser_loads str (deser_of (snd i))) (fst i)).

(* SignedCookieProfile(...).get_headers(value) -> the Set-Cookie values, or ValueError *)
Definition corr_get_headers (i : sprofile * str * mac_table * ser_table) : val :=
  let '(p, v, mt, st) := i in
  match sp_get_headers str (mac_of mt) (ser_of st) p v with
  | None => UEE
  | Some ValueError => VE
  | Some (Ok hs) => VList (map VStr hs)
  end.

(* CookieProfile(name, domains=..., serializer=<identity on bytes>).get_headers(value): the limit at
   every length, including those no base64 token can have *)
Definition corr_get_headers_raw (i : str * list str * bytes) : val :=
  let '(name, doms, v) := i in
  match get_headers bytes (fun b => b) (mk_cookie_plain name) doms v with
  | ValueError => VE
  | Ok hs => VList (map VStr hs)
  end.
