(* C17 — executable model of the POSIX os.path functions webob.static relies on
   (CPython 3.12 Lib/posixpath.py: join, normpath, abspath, isabs), over code-point
   strings.  Definitions only; tied to CPython by the `path` correspondence of
   harness/props/c17.py (os.path.join / normpath / abspath on generated spellings). *)
From Coq Require Import NArith List Bool.
Require Import Webob.Lib.Val Webob.Lib.PyStr.
Import ListNotations.
Local Open Scope N_scope.

Definition SEP : N := 47.   (* "/" *)
Definition DOT : N := 46.   (* "." *)

Definition is_sep (c : N) : bool := c =? SEP.

(* str.lstrip("/") *)
Definition lstrip_sep (s : str) : str := drop_while is_sep s.

(* s.endswith("/") *)
Definition ends_with_sep (s : str) : bool :=
  match rev s with c :: _ => c =? SEP | [] => false end.
(* s.startswith("/")  (posixpath.isabs) *)
Definition isabs (s : str) : bool :=
  match s with c :: _ => c =? SEP | [] => false end.

(* posixpath.join(a, b) for one trailing argument:
     if b.startswith(sep): path = b
     elif not path or path.endswith(sep): path += b
     else: path += sep + b *)
Definition pjoin (a b : str) : str :=
  if isabs b then b
  else match a with
       | [] => b
       | _ => if ends_with_sep a then a ++ b else a ++ SEP :: b
       end.

Definition is_empty (c : str) : bool := match c with [] => true | _ => false end.
Definition is_dot (c : str) : bool := str_eqb c [DOT].
Definition is_dotdot (c : str) : bool := str_eqb c [DOT; DOT].

Definition is_empty_list (l : list str) : bool := match l with [] => true | _ => false end.

(* the loop of normpath; [stack] is new_comps, most recent first *)
Fixpoint norm_loop (init : bool) (comps : list str) (stack : list str) : list str :=
  match comps with
  | [] => rev stack
  | c :: cs =>
      if is_empty c || is_dot c then norm_loop init cs stack
      else if negb (is_dotdot c)
              || (negb init && is_empty_list stack)
              || (match stack with s :: _ => is_dotdot s | [] => false end)
           then norm_loop init cs (c :: stack)
           else match stack with
                | _ :: st' => norm_loop init cs st'
                | [] => norm_loop init cs []
                end
  end.

(* initial_slashes: 0, 1, or 2 (exactly two leading slashes are preserved, POSIX) *)
Definition initial_slashes (s : str) : nat :=
  match s with
  | a :: b :: c :: _ => if a =? SEP then (if (b =? SEP) && negb (c =? SEP) then 2%nat else 1%nat) else 0%nat
  | [a; b] => if a =? SEP then (if b =? SEP then 2%nat else 1%nat) else 0%nat
  | [a] => if a =? SEP then 1%nat else 0%nat
  | [] => 0%nat
  end.

Definition normpath (s : str) : str :=
  match s with
  | [] => [DOT]
  | _ =>
      let k := initial_slashes s in
      let comps := norm_loop (negb (Nat.eqb k 0)) (split_c SEP s) [] in
      let p := repeat SEP k ++ join [SEP] comps in
      match p with [] => [DOT] | _ => p end
  end.

(* posixpath.abspath with the process cwd as a parameter *)
Definition abspath (cwd p : str) : str :=
  if isabs p then normpath p else normpath (pjoin cwd p).

(* ---- components of a path: the names a kernel path walk visits (empty components dropped) ---- *)
Definition comps (p : str) : list str := filter (fun c => negb (is_empty c)) (split_c SEP p).

(* a proper file name component: non-empty, not "." or "..", no separator *)
Definition proper (c : str) : bool :=
  negb (is_empty c) && negb (is_dot c) && negb (is_dotdot c) && negb (mem_n SEP c).
