(* C12 — executable model of webob/cachecontrol.py:8-233 (UpdateDict callbacks, token_re.finditer,
   exists_property / value_property with request/response typing, CacheControl.parse,
   serialize_cache_control) and of the two bindings: Response (response.py:1168-1230) and Request
   (request.py:1097-1150), as REPAIRED by fixes/C12-09 .. C12-12.  Definitions only.

   token_re: a name (ASCII letter, then letters, underscore, hyphen), white space, then optionally an equals
   sign followed by either a double-quoted string without inner double quote (group 2) or a possibly empty
   run of characters other than space, tab, double quote, comma, semicolon (group 3); used with finditer.
   need_quote_re: any character other than ASCII letters, digits, dot, underscore, hyphen; used with search. *)
From Coq Require Import ZArith NArith List Bool.
Require Import Webob.Lib.Val Webob.Lib.PyStr Webob.Lib.C12_PyInt Webob.Model.C12_Headers.
Import ListNotations.
Local Open Scope N_scope.

(* a directive value: absent value (None), int, str *)
Inductive cval := CNone | CInt (z : Z) | CStr (s : str).
(* insertion-ordered dict *)
Definition props := list (str * cval).

Fixpoint pget (k : str) (p : props) : option cval :=
  match p with
  | [] => None
  | (k', v) :: p' => if str_eqb k' k then Some v else pget k p'
  end.
Fixpoint pset (k : str) (v : cval) (p : props) : props :=
  match p with
  | [] => [(k, v)]
  | (k', x) :: p' => if str_eqb k' k then (k', v) :: p' else (k', x) :: pset k v p'
  end.
Definition pdel (k : str) (p : props) : props := filter (fun kv => negb (str_eqb (fst kv) k)) p.
Definition pmem (k : str) (p : props) : bool := match pget k p with Some _ => true | None => false end.

(* ------------------------------------------------------------------ token_re.finditer *)
Definition is_alpha (c : N) : bool := ((65 <=? c) && (c <=? 90)) || ((97 <=? c) && (c <=? 122)).
Definition is_namechar (c : N) : bool := is_alpha c || (c =? 95) || (c =? 45).
(* group 3 characters: anything but space, tab, double quote, comma, semicolon *)
Definition is_bare (c : N) : bool := negb ((c =? 32) || (c =? 9) || (c =? 34) || (c =? 44) || (c =? 59)).

Fixpoint span (f : N -> bool) (s : str) : str * str :=
  match s with
  | c :: s' => if f c then let '(a, b) := span f s' in (c :: a, b) else ([], s)
  | [] => ([], [])
  end.

(* group 2 after the opening quote: body and rest after the closing quote, if there is one *)
Fixpoint quoted (s : str) : option (str * str) :=
  match s with
  | [] => None
  | c :: s' => if c =? 34 then Some ([], s')
               else match quoted s' with Some (b, r) => Some (c :: b, r) | None => None end
  end.

(* the (name, group2-or-group3) pairs of all matches, left to right; fuel >= length *)
Fixpoint tokens (fuel : nat) (s : str) : list (str * str) :=
  match fuel with
  | O => []
  | S f =>
      match s with
      | [] => []
      | c :: s' =>
          if is_alpha c then
            let '(nm, r1) := span is_namechar s' in
            let name := c :: nm in
            let r2 := drop_while is_space_str r1 in
            match r2 with
            | 61 :: r3 =>
                match r3 with
                | 34 :: r4 =>
                    match quoted r4 with
                    | Some (body, r5) => (name, body) :: tokens f r5
                    | None => (name, []) :: tokens f r3        (* second alternative matches the empty string *)
                    end
                | _ => let '(v, r5) := span is_bare r3 in (name, v) :: tokens f r5
                end
            | _ => (name, []) :: tokens f r2
            end
          else tokens f s'
      end
  end.

(* value = group(2) or group(3) or None; then int(value) if it parses *)
Definition token_value (v : str) : cval :=
  match v with
  | [] => CNone
  | _ => match py_int v with Some z => CInt z | None => CStr v end
  end.

(* ------------------------------------------------------------------ serialize_cache_control *)
Fixpoint str_ltb (a b : str) : bool :=
  match a, b with
  | [], [] => false
  | [], _ :: _ => true
  | _ :: _, [] => false
  | x :: a', y :: b' => if x <? y then true else if y <? x then false else str_ltb a' b'
  end.
Fixpoint insert_sorted (kv : str * cval) (l : props) : props :=
  match l with
  | [] => [kv]
  | x :: l' => if str_ltb (fst kv) (fst x) then kv :: l else x :: insert_sorted kv l'
  end.
Definition sort_props (p : props) : props := fold_right insert_sorted [] p.

Definition is_plain (c : N) : bool :=
  is_alpha c || ((48 <=? c) && (c <=? 57)) || (c =? 46) || (c =? 95) || (c =? 45).
Definition cval_str (v : cval) : str :=
  match v with CNone => [] | CInt z => str_of_Z z | CStr s => s end.
Definition ser_part (kv : str * cval) : str :=
  match snd kv with
  | CNone => fst kv
  | v => let t := cval_str v in
         fst kv ++ [61] ++ (if forallb is_plain t then t else [34] ++ t ++ [34])
  end.
Definition serialize_cc (p : props) : str := join comma_sp (map ser_part (sort_props p)).

(* ------------------------------------------------------------------ the two bindings *)
(* what a callback does with the serialised properties *)
Definition cc_name : str := [67; 97; 99; 104; 101; 45; 67; 111; 110; 116; 114; 111; 108].      (* Cache-Control *)
Definition cc_key : str := [99; 97; 99; 104; 101; 45; 99; 111; 110; 116; 114; 111; 108].       (* cache-control *)

(* ResponseHeaders.get: the LAST line of that name *)
Definition hg_get_last (key : str) (hl : pairs) : option str := hg_get key (rev hl).

(* Response._update_cache_control *)
Definition resp_write (p : props) (hl : pairs) : pairs :=
  match serialize_cc p with
  | [] => hg_del cc_key hl
  | t => hg_del cc_key hl ++ [(cc_name, t)]
  end.

(* CacheControl.parse(header, updates_to=cb): props[name] = value one by one, the callback after each *)
Fixpoint parse_into {S : Type} (cb : props -> S -> S) (toks : list (str * str)) (p : props) (st : S) : props * S :=
  match toks with
  | [] => (p, st)
  | (n, v) :: toks' => let p' := pset n (token_value v) p in parse_into cb toks' p' (cb p' st)
  end.
Definition parse_cc (s : str) : props :=
  fst (parse_into (fun _ (u : unit) => u) (tokens (S (length s)) s) [] tt).

(* the Response side: header list, and the memoised object (properties, header_value) *)
Record rstate := mkR { r_hl : pairs; r_obj : option (props * str) }.

Definition hdr_text (hl : pairs) : str := match hg_get_last cc_key hl with Some t => t | None => [] end.

(* Response._cache_control__get: (state, the object's properties) *)
Definition resp_cc_get (st : rstate) : rstate * props :=
  let value := hdr_text (r_hl st) in
  match r_obj st with
  | None =>
      let '(p, hl') := parse_into resp_write (tokens (S (length value)) value) [] (r_hl st) in
      (mkR hl' (Some (p, value)), p)
  | Some (p, hv) =>
      if str_eqb hv value then (st, p)
      else
        let newp := parse_cc value in
        (* properties.clear() -> callback; properties.update(new) -> callback; header_value = value.
           (the callbacks also record header_value, fixes/C12-12; the assignment after them wins) *)
        let hl1 := resp_write [] (r_hl st) in
        let hl2 := resp_write newp hl1 in
        (mkR hl2 (Some (newp, value)), newp)
  end.

(* a mutation of obj.properties through UpdateDict: the dict operation, then the callback, which also
   records what it wrote as header_value.  [resp_cc_apply]: on the object a read just returned;
   [resp_cc_mutate]: resp.cache_control.properties... (read, then mutate) *)
Definition resp_cc_apply (f : props -> props) (st1 : rstate) (p : props) : rstate :=
  let p' := f p in
  mkR (resp_write p' (r_hl st1)) (Some (p', serialize_cc p')).
Definition resp_cc_mutate (f : props -> props) (st : rstate) : rstate :=
  let '(st1, p) := resp_cc_get st in resp_cc_apply f st1 p.

(* values assigned to resp.cache_control *)
Inductive ccv := AText (s : str) | ADict (p : props) | ANone.

(* Response._cache_control__set *)
Definition resp_cc_assign (v : ccv) (st : rstate) : rstate :=
  let text_case (t : str) :=
    match r_obj st with
    | None => mkR (match t with [] => hg_del cc_key (r_hl st) | _ => hg_del cc_key (r_hl st) ++ [(cc_name, t)] end) None
    | Some _ =>
        let newp := parse_cc t in
        let '(st1, _) := resp_cc_get st in
        let hl1 := resp_write [] (r_hl st1) in
        let hl2 := resp_write newp hl1 in
        mkR hl2 (Some (newp, serialize_cc newp))
    end in
  match v with
  | ANone => text_case []
  | AText t => text_case t
  | ADict [] => text_case []                  (* `if not value: value = ""` *)
  | ADict p =>
      let '(st1, _) := resp_cc_get st in
      let hl1 := resp_write [] (r_hl st1) in
      let hl2 := resp_write p hl1 in
      mkR hl2 (Some (p, serialize_cc p))
  end.

(* ------------------------------------------------------------------ directive attributes *)
Inductive side := Request | Response.
Definition side_eqb (a b : side) : bool :=
  match a, b with Request, Request | Response, Response => true | _, _ => false end.

Inductive dkind := Exists | Value.
(* attribute -> directive name, kind, the side it is restricted to *)
Inductive cattr :=
| A_max_stale | A_min_fresh | A_only_if_cached
| A_public | A_private | A_no_cache | A_no_store | A_no_transform | A_must_revalidate | A_proxy_revalidate
| A_max_age | A_s_maxage | A_s_max_age | A_stale_while_revalidate | A_stale_if_error.

Definition ascii (l : list N) : str := l.
Definition cattr_info (a : cattr) : str * dkind * option side :=
  match a with
  | A_max_stale => (ascii [109;97;120;45;115;116;97;108;101], Value, Some Request)
  | A_min_fresh => (ascii [109;105;110;45;102;114;101;115;104], Value, Some Request)
  | A_only_if_cached => (ascii [111;110;108;121;45;105;102;45;99;97;99;104;101;100], Exists, Some Request)
  | A_public => (ascii [112;117;98;108;105;99], Exists, Some Response)
  | A_private => (ascii [112;114;105;118;97;116;101], Value, Some Response)
  | A_no_cache => (ascii [110;111;45;99;97;99;104;101], Value, None)
  | A_no_store => (ascii [110;111;45;115;116;111;114;101], Exists, None)
  | A_no_transform => (ascii [110;111;45;116;114;97;110;115;102;111;114;109], Exists, None)
  | A_must_revalidate => (ascii [109;117;115;116;45;114;101;118;97;108;105;100;97;116;101], Exists, Some Response)
  | A_proxy_revalidate => (ascii [112;114;111;120;121;45;114;101;118;97;108;105;100;97;116;101], Exists, Some Response)
  | A_max_age => (ascii [109;97;120;45;97;103;101], Value, None)
  | A_s_maxage | A_s_max_age => (ascii [115;45;109;97;120;97;103;101], Value, Some Response)
  | A_stale_while_revalidate =>
      (ascii [115;116;97;108;101;45;119;104;105;108;101;45;114;101;118;97;108;105;100;97;116;101], Value, Some Response)
  | A_stale_if_error => (ascii [115;116;97;108;101;45;105;102;45;101;114;114;111;114], Value, Some Response)
  end.

(* Python values assigned to a directive attribute *)
Inductive dval := DNone | DTrue | DFalse | DInt (z : Z) | DStr (s : str).

Definition wrong_side (a : cattr) (sd : side) : bool :=
  match snd (cattr_info a) with Some s => negb (side_eqb s sd) | None => false end.

(* __set__: Some f = the dict operation performed (None: no dict call at all); Raise = AttributeError *)
Definition attr_set (a : cattr) (sd : side) (v : dval) (p : props) : res (option (props -> props)) :=
  if wrong_side a sd then Raise AttributeError
  else
    let '(name, kind, _) := cattr_info a in
    match kind with
    | Exists =>
        let truthy := match v with DNone | DFalse => false | DInt z => negb (z =? 0)%Z
                                 | DStr s => nonempty s | DTrue => true end in
        if truthy then Ok (Some (pset name CNone))
        else if pmem name p then Ok (Some (pdel name)) else Ok None
    | Value =>
        match v with
        | DNone => if pmem name p then Ok (Some (pdel name)) else Ok None       (* value == default *)
        | DTrue => Ok (Some (pset name CNone))
        | DFalse => Ok (Some (pset name (CStr [70;97;108;115;101])))             (* str(False); outside the value domain *)
        | DInt z => Ok (Some (pset name (CInt z)))
        | DStr s => Ok (Some (pset name (CStr s)))
        end
    end.

(* __delete__: value_property does not look at the side, exists_property goes through __set__(False) *)
Definition attr_del (a : cattr) (sd : side) (p : props) : res (option (props -> props)) :=
  let '(name, kind, _) := cattr_info a in
  match kind with
  | Exists => attr_set a sd DFalse p
  | Value => if pmem name p then Ok (Some (pdel name)) else Ok None
  end.

(* ------------------------------------------------------------------ Response histories *)
Inductive cop :=
| CGet
| CSetAttr (a : cattr) (v : dval)
| CDelAttr (a : cattr)
| CPSet (k : str) (v : cval)            (* cc.properties[k] = v *)
| CPDel (k : str)                       (* cc.properties.pop(k, None)  — a callback even when absent *)
| CPClear
| CHeader (t : str)                     (* resp.headers["Cache-Control"] = t *)
| CHeaderDel
| CAssign (v : ccv)                     (* resp.cache_control = v *)
| CAssignSelf                           (* resp.cache_control = resp.cache_control (or its own .properties) *)
| CDelete.                              (* del resp.cache_control *)

(* ResponseHeaders.__setitem__ / pop *)
Definition hl_set (t : str) (hl : pairs) : pairs := hg_del cc_key hl ++ [(cc_name, t)].

Definition rcc_step (st : rstate) (o : cop) : rstate * option str :=
  match o with
  | CGet => (fst (resp_cc_get st), None)
  | CSetAttr a v =>
      let '(st1, p) := resp_cc_get st in
      match attr_set a Response v p with
      | Raise e => (st1, Some e)
      | Ok None => (st1, None)
      | Ok (Some f) => (resp_cc_apply f st1 p, None)
      end
  | CDelAttr a =>
      let '(st1, p) := resp_cc_get st in
      match attr_del a Response p with
      | Raise e => (st1, Some e)
      | Ok None => (st1, None)
      | Ok (Some f) => (resp_cc_apply f st1 p, None)
      end
  | CPSet k v => (resp_cc_mutate (pset k v) st, None)
  | CPDel k => (resp_cc_mutate (pdel k) st, None)
  | CPClear => (resp_cc_mutate (fun _ => []) st, None)
  | CHeader t => (mkR (hl_set t (r_hl st)) (r_obj st), None)
  | CHeaderDel => (mkR (hg_del cc_key (r_hl st)) (r_obj st), None)
  | CAssign v => (resp_cc_assign v st, None)
  | CAssignSelf =>
      (* the right-hand side is read first; _cache_control__set then copies its properties (fixes/C12-14), clears
         and refills the bound object: the directives survive *)
      let '(st0, _) := resp_cc_get st in          (* the right-hand side *)
      let '(st1, p) := resp_cc_get st0 in         (* cache = self.cache_control inside the setter (may re-sync) *)
      let hl1 := resp_write [] (r_hl st1) in
      (mkR (resp_write p hl1) (Some (p, serialize_cc p)), None)
  | CDelete => (resp_cc_assign (ADict []) st, None)
  end.

(* observations after a step: the exception, the header list, then what resp.cache_control shows
   (which is itself a get) *)
Definition cval_val (v : cval) : val :=
  match v with CNone => VNone | CInt z => vint z | CStr s => VStr s end.
Definition props_val (p : props) : val := VList (map (fun kv => VList [VStr (fst kv); cval_val (snd kv)]) p).
Definition pairs_val (l : pairs) : val := VList (map (fun kv => VList [VStr (fst kv); VStr (snd kv)]) l).

Fixpoint rcc_run (ops : list cop) (st : rstate) : list val :=
  match ops with
  | [] => []
  | o :: ops' =>
      let '(st1, e) := rcc_step st o in
      let before := pairs_val (r_hl st1) in
      let '(st2, p) := resp_cc_get st1 in
      VList [match e with Some x => VErr x | None => VNone end; before; props_val p;
             VStr (serialize_cc p); pairs_val (r_hl st2)] :: rcc_run ops' st2
  end.
Definition run_resp_cc (init : pairs) (ops : list cop) : val := VList (rcc_run ops (mkR init None)).

(* ------------------------------------------------------------------ Request binding *)
(* environ text of HTTP_CACHE_CONTROL (None: absent), the heap of CacheControl objects ever bound, and the
   cache entry (header text it was parsed from / last wrote, object index) *)
Record qstate := mkQ { q_env : option str; q_heap : list props; q_cache : option (str * nat) }.

Fixpoint set_nth {A} (n : nat) (x : A) (l : list A) : list A :=
  match n, l with
  | _, [] => []
  | O, _ :: l' => x :: l'
  | S n', y :: l' => y :: set_nth n' x l'
  end.

(* Request._update_cache_control called by object number i.  Two repairs of the stale-cache defect exist:
   [drop] = true: forget the cache entry after every write (the variant in /repo);
   [drop] = false: record what the cached object wrote (fixes/C12-12 as first proposed). *)
Definition req_write (drop : bool) (i : nat) (p : props) (st : qstate) : qstate :=
  let t := serialize_cc p in
  mkQ (Some t) (set_nth i p (q_heap st))
      (if drop then None
       else match q_cache st with
            | Some (_, j) => if Nat.eqb i j then Some (t, j) else q_cache st
            | None => None
            end).

(* Request._cache_control__get: state and the index of the object returned *)
Definition req_cc_get (drop : bool) (st : qstate) : qstate * nat :=
  let value := match q_env st with Some t => t | None => [] end in
  let fresh :=
    let i := length (q_heap st) in
    let st0 := mkQ (q_env st) (q_heap st ++ [[]]) (q_cache st) in
    let '(p, st1) := parse_into (req_write drop i) (tokens (S (length value)) value) [] st0 in
    (mkQ (q_env st1) (set_nth i p (q_heap st1)) (Some (value, i)), i) in
  match q_cache st with
  | Some (h, j) => if str_eqb h value then (st, j) else fresh
  | None => fresh
  end.

Definition req_cc_mutate (drop : bool) (i : nat) (f : props -> props) (st : qstate) : qstate :=
  req_write drop i (f (nth i (q_heap st) [])) st.

Inductive qop :=
| QGet                                   (* hold = req.cache_control *)
| QSetAttr (held : bool) (a : cattr) (v : dval)     (* on the held object / on req.cache_control *)
| QDelAttr (held : bool) (a : cattr)
| QPSet (k : str) (v : cval)
| QPClear
| QHeader (t : str)                      (* the environ key is set to t *)
| QHeaderDel
| QAssign (v : ccv)
| QDelete.

(* state + index of the object the caller holds *)
Definition qcc_step (drop : bool) (sth : qstate * option nat) (o : qop) : (qstate * option nat) * option str :=
  let '(st, held) := sth in
  let target (h : bool) : qstate * nat :=
    match h, held with
    | true, Some i => (st, i)
    | _, _ => req_cc_get drop st
    end in
  match o with
  | QGet => let '(st1, i) := req_cc_get drop st in ((st1, Some i), None)
  | QSetAttr h a v =>
      let '(st1, i) := target h in
      match attr_set a Request v (nth i (q_heap st1) []) with
      | Raise e => ((st1, held), Some e)
      | Ok None => ((st1, held), None)
      | Ok (Some f) => ((req_cc_mutate drop i f st1, held), None)
      end
  | QDelAttr h a =>
      let '(st1, i) := target h in
      match attr_del a Request (nth i (q_heap st1) []) with
      | Raise e => ((st1, held), Some e)
      | Ok None => ((st1, held), None)
      | Ok (Some f) => ((req_cc_mutate drop i f st1, held), None)
      end
  | QPSet k v => let '(st1, i) := req_cc_get drop st in ((req_cc_mutate drop i (pset k v) st1, held), None)
  | QPClear => let '(st1, i) := req_cc_get drop st in ((req_cc_mutate drop i (fun _ => []) st1, held), None)
  | QHeader t => ((mkQ (Some t) (q_heap st) (q_cache st), held), None)
  | QHeaderDel => ((mkQ None (q_heap st) (q_cache st), held), None)
  | QAssign v =>
      let t := match v with AText t => t | ADict p => serialize_cc p | ANone => [] end in
      ((mkQ (Some t) (q_heap st) None, held), None)
  | QDelete => ((mkQ None (q_heap st) None, held), None)
  end.

Definition ostr (o : option str) : val := match o with Some t => VStr t | None => VNone end.
Fixpoint qcc_run (drop : bool) (ops : list qop) (sth : qstate * option nat) : list val :=
  match ops with
  | [] => []
  | o :: ops' =>
      let '((st1, held), e) := qcc_step drop sth o in
      let before := ostr (q_env st1) in
      let '(st2, i) := req_cc_get drop st1 in
      VList [match e with Some x => VErr x | None => VNone end; before; props_val (nth i (q_heap st2) []);
             ostr (q_env st2)] :: qcc_run drop ops' (st2, held)
  end.
Definition run_req_cc (drop : bool) (init : option str) (ops : list qop) : val :=
  VList (qcc_run drop ops (mkQ init [] None, None)).
