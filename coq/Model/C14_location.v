(* C14 — executable model of how webob turns a Location header into the value passed to
   start_response (REPAIRED code, see fixes/C14-*.patch):
     response.py  _request_uri, Response._make_location_absolute, _abs_headerlist,
                  Response.__call__, conditional_response_app (header flow only), filter_headers
     exc.py       _HTTPMove.__init__ / __call__, WSGIHTTPException.__call__ (header flow only)
     request.py   host_url, path_url (used by _HTTPMove for add_slash / missing location)
     descriptors.py  SCHEME_RE (hand model [has_alpha_scheme]; tied to the regenerated regex in
                  Proofs/C14_regex.v), header_getter's CR/LF refusal
   on top of Model/C14_urlsplit.v.  Definitions only. *)
From Coq Require Import NArith List Bool String Ascii.
Require Import Webob.Lib.Val Webob.Lib.PyStr Webob.Model.C14_urlsplit.
Import ListNotations.
Local Open Scope N_scope.

(* ASCII literal -> code points *)
Fixpoint A (s : string) : str :=
  match s with EmptyString => [] | String a r => N_of_ascii a :: A r end.

Definition s_http : str := Eval compute in A "http".
Definition s_https : str := Eval compute in A "https".
Definition s_css : str := Eval compute in A "://".          (* colon slash slash *)
Definition s_p80 : str := Eval compute in A ":80".
Definition s_p443 : str := Eval compute in A ":443".
Definition s_80 : str := Eval compute in A "80".
Definition s_443 : str := Eval compute in A "443".
Definition s_location : str := Eval compute in A "location".
Definition s_content_length : str := Eval compute in A "content-length".
Definition s_content_type : str := Eval compute in A "content-type".
Definition s_Content_Length : str := Eval compute in A "Content-Length".
Definition s_Content_Range : str := Eval compute in A "Content-Range".
Definition s_Content_Type : str := Eval compute in A "Content-Type".
Definition s_text_plain : str := Eval compute in A "text/plain".
Definition s_pct2f : str := Eval compute in A "/%2f".

(* ---------- the WSGI environ keys that matter ---------- *)
Record environ := mkEnv {
  e_scheme : str;                 (* wsgi.url_scheme *)
  e_http_host : option str;       (* HTTP_HOST, None = key absent *)
  e_server_name : str;            (* SERVER_NAME *)
  e_server_port : str;            (* SERVER_PORT *)
  e_script_name : option str;     (* SCRIPT_NAME, None = key absent *)
  e_path_info : option str;       (* PATH_INFO, None = key absent *)
  e_query : option str            (* QUERY_STRING *)
}.

(* ---------- urllib.parse.quote(bytes, safe) ---------- *)
Definition always_safe (c : N) : bool :=
  is_ascii_alpha c || is_digit c || (c =? 95) || (c =? 46) || (c =? 45) || (c =? 126).   (* _.-~ *)
Definition hexdigit (n : N) : N := if n <? 10 then 48 + n else 55 + n.    (* upper case *)
Definition pct (c : N) : str := [37; hexdigit (c / 16); hexdigit (c mod 16)].
Definition quote (safe : N -> bool) (bs : str) : str :=
  flat_map (fun c => if always_safe c || safe c then [c] else pct c) bs.
Definition safe_slash (c : N) : bool := c =? 47.                          (* quote's default safe='/' *)
(* request.PATH_SAFE = "/~!$&'()*+,;=:@" *)
Definition path_safe (c : N) : bool :=
  mem_n c [47; 126; 33; 36; 38; 39; 40; 41; 42; 43; 44; 59; 61; 58; 64].

Definition drop_last (n : nat) (s : str) : str := rev (skipn n (rev s)).

(* ---------- response._request_uri ---------- *)
Definition raw_host (e : environ) : str :=
  match e_http_host e with
  | Some h => if is_empty h then e_server_name e ++ 58 :: e_server_port e else h
  | None => e_server_name e ++ 58 :: e_server_port e
  end.

Definition request_uri (e : environ) : str :=
  let url := e_scheme e ++ s_css ++ raw_host e in
  let url :=
    if ends_with s_p80 url && str_eqb (e_scheme e) s_http then drop_last 3 url
    else if ends_with s_p443 url && str_eqb (e_scheme e) s_https then drop_last 4 url
    else url in
  let script_name := match e_script_name e with Some s => s | None => [47] end in
  let path_info := match e_path_info e with Some p => p | None => [] end in
  let url := url ++ quote safe_slash script_name in
  let qpath_info := quote safe_slash path_info in
  match e_script_name e with
  | None => url ++ tl qpath_info
  | Some _ => url ++ qpath_info
  end.

(* ---------- descriptors.SCHEME_RE = re.compile(r"^[a-z]+:", re.I), used with .search ---------- *)
(* [star_then inC d s]: some prefix of s is (characters in C)* followed by d *)
Fixpoint star_then (inC : N -> bool) (d : N) (s : str) : bool :=
  match s with
  | [] => false
  | c :: s' => (c =? d) || (inC c && star_then inC d s')
  end.
Definition has_alpha_scheme (v : str) : bool :=
  match v with
  | [] => false
  | c :: v' => is_ascii_alpha c && star_then is_ascii_alpha 58 v'
  end.

(* ---------- Response._make_location_absolute (repaired) ---------- *)
(* _CTL_OR_SPACE_RE.sub(_percent_encode_match, value) with _CTL_OR_SPACE_RE = [\x00-\x20] *)
Definition encode_ctl (v : str) : str :=
  flat_map (fun c => if c <=? 32 then pct c else [c]) v.
(* _COLON_IN_FIRST_SEGMENT_RE = [^/?#]*: used with .match *)
Definition colon_in_first_segment (v : str) : bool :=
  star_then (fun c => negb (is_delim c)) 58 v.

Definition relative_location (v0 : str) : str :=
  let v := encode_ctl v0 in
  if starts2 47 47 v then s_pct2f ++ skipn 2 v
  else if colon_in_first_segment v then 46 :: 47 :: v
  else v.

Definition make_location_absolute (e : environ) (v : str) : join_res :=
  if has_alpha_scheme v then JOk v
  else urljoin (request_uri e) (relative_location v).

(* the code before the repair: only the '//' prefix of the raw value was neutralised *)
Definition make_location_absolute_old (e : environ) (v : str) : join_res :=
  if has_alpha_scheme v then JOk v
  else urljoin (request_uri e) (if starts2 47 47 v then s_pct2f ++ skipn 2 v else v).

(* ---------- Response._abs_headerlist / __call__ / conditional_response_app ---------- *)
Definition header := (str * str)%type.
Inductive hres :=
| HOk (l : list header)
| HValueError
| HUnsupported.

Definition is_location (k : str) : bool := str_eqb (lower k) s_location.

Fixpoint abs_headerlist (e : environ) (hl : list header) : hres :=
  match hl with
  | [] => HOk []
  | (k, v) :: hl' =>
      if is_location k then
        match make_location_absolute e v with
        | JOk v' => match abs_headerlist e hl' with HOk r => HOk ((k, v') :: r) | err => err end
        | JValueError => HValueError
        | JUnsupported => HUnsupported
        end
      else match abs_headerlist e hl' with HOk r => HOk ((k, v) :: r) | err => err end
  end.

(* Response.__call__ without conditional_response: start_response(self.status, headerlist) *)
Definition plain_headerlist (e : environ) (hl : list header) : hres := abs_headerlist e hl.

Definition filter_headers (remove : list str) (hl : list header) : list header :=
  filter (fun kv => negb (mem_str (lower (fst kv)) remove)) hl.

(* which start_response call conditional_response_app ends in (the decision itself is C06's
   subject); the strings are the computed Content-Length / Content-Range values *)
Inductive cond_branch :=
| B304
| B416 (clen crange : str)
| B206 (clen crange : str)
| BPlain.

Definition cond_headerlist (b : cond_branch) (e : environ) (hl : list header) : hres :=
  match abs_headerlist e hl with
  | HOk h =>
      HOk match b with
          | B304 => filter_headers [s_content_length; s_content_type] h
          | B416 cl cr =>
              [(s_Content_Length, cl); (s_Content_Range, cr); (s_Content_Type, s_text_plain)]
                ++ filter_headers [s_content_length; s_content_type] h
          | B206 cl cr =>
              [(s_Content_Length, cl); (s_Content_Range, cr)] ++ filter_headers [s_content_length] h
          | BPlain => h
          end
  | err => err
  end.

Definition locations (hl : list header) : list str :=
  map snd (filter (fun kv => is_location (fst kv)) hl).

(* ---------- Request.host_url / path_url (ASCII SCRIPT_NAME / PATH_INFO only) ---------- *)
Definition host_url (e : environ) : str :=
  let scheme := e_scheme e in
  let '(host, port) :=
    match e_http_host e with
    | Some h =>
        if mem_n 58 h && negb (last h 0 =? 93)
        then match split_last 58 h with Some (a, b) => (a, Some b) | None => (h, None) end
        else (h, None)
    | None => (e_server_name e, Some (e_server_port e))
    end in
  let port :=
    if str_eqb scheme s_https
    then match port with Some p => if str_eqb p s_443 then None else port | None => None end
    else if str_eqb scheme s_http
    then match port with Some p => if str_eqb p s_80 then None else port | None => None end
    else port in
  scheme ++ s_css ++ host ++
    match port with Some p => if is_empty p then [] else 58 :: p | None => [] end.

Definition path_url (e : environ) : str :=
  host_url e
    ++ quote path_safe (match e_script_name e with Some s => s | None => [] end)
    ++ quote path_safe (match e_path_info e with Some p => p | None => [] end).

(* ---------- exc._HTTPMove ---------- *)
(* header_getter.fset: CR/LF refused *)
Definition set_header (v : str) : join_res :=
  if mem_n 10 v || mem_n 13 v then JValueError else JOk v.

Inductive init_res :=
| IOk (location : option str) (add_slash : bool)
| IValueError
| ITypeError.

(* _HTTPMove.__init__(location=..., add_slash=...) *)
Definition move_init (location : option str) (add_slash : bool) : init_res :=
  match location with
  | Some l =>
      if mem_n 10 l || mem_n 13 l then IValueError
      else if add_slash then ITypeError
      else IOk (Some l) false
  | None => IOk None add_slash
  end.

Definition bind (r : join_res) (f : str -> join_res) : join_res :=
  match r with JOk s => f s | err => err end.

(* _HTTPMove.__call__ followed by WSGIHTTPException.__call__ (Response.__call__ or
   generate_response: both emit _abs_headerlist of the headers, Location being set once) *)
Definition resolve_move (e : environ) (location : option str) : join_res :=
  let stage :=
    match location with
    | Some l => if is_empty l then JOk (path_url e) else make_location_absolute e l
    | None => JOk (path_url e)
    end in
  bind (bind stage set_header) (make_location_absolute e).

Definition add_slash_url (e : environ) : str :=
  path_url e ++ 47 :: match e_query e with
                      | Some q => if is_empty q then [] else 63 :: q
                      | None => []
                      end.

Definition move_call (e : environ) (location : option str) (add_slash : bool) : join_res :=
  if add_slash then bind (set_header (add_slash_url e)) (fun l => resolve_move e (Some l))
  else resolve_move e location.

Definition move_emit (e : environ) (location : option str) (add_slash : bool) : join_res :=
  match move_init location add_slash with
  | IOk l a => move_call e l a
  | IValueError => JValueError
  | ITypeError => JValueError          (* never compared: see move_obs *)
  end.

(* ---------- observations for the correspondence check ---------- *)
Definition e_ValueError : val := VErr (A "ValueError").
Definition e_TypeError : val := VErr (A "TypeError").
Definition e_unsupported : val := VErr (A "unsupported").

Definition join_obs (r : join_res) : val :=
  match r with JOk s => VStr s | JValueError => e_ValueError | JUnsupported => e_unsupported end.
Definition hres_obs (r : hres) : val :=
  match r with
  | HOk l => VList (map (fun kv => VList [VStr (fst kv); VStr (snd kv)]) l)
  | HValueError => e_ValueError
  | HUnsupported => e_unsupported
  end.
Definition move_obs (e : environ) (location : option str) (add_slash : bool) : val :=
  match move_init location add_slash with
  | IOk l a => join_obs (move_call e l a)
  | IValueError => e_ValueError
  | ITypeError => e_TypeError
  end.
