(* C06 — executable model of the Content-Range TEXT layer:
     webob.byterange:_rx_content_range (as used by `.match`, i.e. anchored at the start only),
     webob.byterange:ContentRange.parse, webob.descriptors:parse_content_range,
     webob.byterange:ContentRange.__str__ (= C06_ByteRange.content_range_str),
     webob.descriptors:serialize_content_range (tuple/list of 2 or 3, ContentRange, str, None shapes).
   Domain: header text made of code points < 256 (WSGI native strings), so `\d` is [0-9].
   Python ints are [Z]; int(text) of more than [int_max_str_digits] digits raises ValueError
   (sys.get_int_max_str_digits(), CPython default 4300).  Definitions only (no proofs). *)
From Coq Require Import ZArith NArith List Bool.
Require Import Webob.Lib.Val Webob.Lib.Rx Webob.Model.C06_ByteRange.
Import ListNotations.
Local Open Scope Z_scope.

(* ---------------------------------------------------------------- the pattern, written by hand;
   Proofs/C06_crtext.v checks that the pattern REGENERATED from byterange.py (Gen/C06_crx.v) is this term *)
Definition rx_lit (c : N) : rx := Cls false [(c, c)].
Definition rx_digit : rx := Cls false [(48, 57)%N].
Definition rx_digits1 : rx := Cat rx_digit (Star rx_digit).            (* \d+ *)
Definition cr_rx_spec : rx :=
  Cat (rx_lit 98) (Cat (rx_lit 121) (Cat (rx_lit 116) (Cat (rx_lit 101) (Cat (rx_lit 115) (Cat (rx_lit 32)
  (Cat (Alt (Cat rx_digits1 (Cat (rx_lit 45) rx_digits1)) (rx_lit 42))
  (Cat (rx_lit 47)
       (Alt rx_digits1 (rx_lit 42))))))))).

(* ---------------------------------------------------------------- _rx_content_range.match(value).groups() *)
Fixpoint cs_prefix (p s : str) : option str :=          (* case-sensitive: the pattern has no re.I *)
  match p with
  | [] => Some s
  | a :: p' => match s with
               | c :: s' => if (a =? c)%N then cs_prefix p' s' else None
               | [] => None
               end
  end.

(* (\d+) : the longest non-empty run of digits.  Every \d+ of the pattern is followed by a non-digit
   ('-', '/') or by nothing, so a shorter run never lets the rest match: the greedy one is the answer. *)
Definition span1 (s : str) : option (str * str) :=
  let '(d, r) := span is_digit s in if is_nil d then None else Some (d, r).

(* /(?:(\d+)|[*])   — nothing is required after it: `match`, not `fullmatch` *)
Definition match_cr_len (r : str) : option (option str) :=
  match r with
  | 47%N :: r' =>
      match span1 r' with
      | Some (d, _) => Some (Some d)
      | None => match r' with 42%N :: _ => Some None | _ => None end
      end
  | _ => None
  end.

(* groups (s, e, l): (Some (s, e) | None, Some l | None) *)
Definition match_content_range (h : str) : option (option (str * str) * option str) :=
  match cs_prefix S_bytes_sp h with
  | None => None
  | Some r0 =>
      match span1 r0 with
      | Some (d1, 45%N :: r2) =>
          match span1 r2 with
          | Some (d2, r3) =>
              match match_cr_len r3 with Some l => Some (Some (d1, d2), l) | None => None end
          | None => None
          end
      | Some _ => None
      | None =>
          match r0 with
          | 42%N :: r1 => match match_cr_len r1 with Some l => Some (None, l) | None => None end
          | _ => None
          end
      end
  end.

(* ---------------------------------------------------------------- int(digits) with CPython's length limit *)
Definition int_max_str_digits : nat := 4300.
Definition py_int (d : str) : option Z :=
  if (int_max_str_digits <? List.length d)%nat then None else Some (dec_val d).

(* ---------------------------------------------------------------- ContentRange.parse(value) *)
Inductive presult :=
| PNone                                   (* returns None *)
| PIntErr                                 (* ValueError out of int() *)
| PCtorErr                                (* ValueError out of ContentRange.__init__ (unreachable, see Proofs) *)
| PSome (c : content_range).

Definition cr_parse (h : str) : presult :=
  match match_content_range h with
  | None => PNone
  | Some (se, l) =>
      let se' := match se with
                 | None => Some (None, None)
                 | Some (d1, d2) =>
                     match py_int d1 with
                     | None => None
                     | Some s => match py_int d2 with None => None | Some e => Some (Some s, Some (e + 1)) end
                     end
                 end in
      match se' with
      | None => PIntErr
      | Some (s, e) =>
          let l' := match l with None => Some None
                    | Some d => match py_int d with None => None | Some n => Some (Some n) end end in
          match l' with
          | None => PIntErr
          | Some lv =>
              if is_cr_valid s e lv true then
                match mk_content_range s e lv with Some c => PSome c | None => PCtorErr end
              else PNone
          end
      end
  end.

(* str.strip() / str.isspace() on code points < 256 *)
Definition is_pyspace (c : N) : bool :=
  (((9 <=? c) && (c <=? 13)) || ((28 <=? c) && (c <=? 32)) || (c =? 133) || (c =? 160))%N.

(* descriptors.parse_content_range(value): value None or text *)
Definition parse_content_range (v : option str) : option content_range :=
  match v with
  | None => None
  | Some h =>
      if is_nil h || forallb is_pyspace h then None          (* not value or not value.strip() *)
      else match cr_parse h with
           | PSome c => Some c
           | _ => None                                       (* None, or ValueError caught *)
           end
  end.

(* ---------------------------------------------------------------- descriptors.serialize_content_range(value) *)
Inductive sarg :=
| ASeq (items : list (option Z))          (* list of ints / None of any length, or tuple of length 1-3 (a tuple of another
                                             length makes the error message itself raise TypeError: outside the model) *)
| ACR (c : content_range)                 (* a ContentRange object *)
| AStr (s : str)                          (* text *)
| ANoneArg.                               (* None: str(None) *)

Inductive sresult := SErr | SNone | SText (s : str).

Fixpoint lstrip_by (f : N -> bool) (s : str) : str :=
  match s with
  | c :: s' => if f c then lstrip_by f s' else s
  | [] => []
  end.
Definition strip_by (f : N -> bool) (s : str) : str := rev (lstrip_by f (rev (lstrip_by f s))).
Definition is_sp_tab (c : N) : bool := ((c =? 32) || (c =? 9))%N.        (* .strip(" \t") *)
Definition S_None : str := [78; 111; 110; 101]%N.                      (* "None" *)

Definition serialize_content_range (a : sarg) : sresult :=
  let finish (t : str) := let t' := strip_by is_sp_tab t in if is_nil t' then SNone else SText t' in
  match a with
  | ASeq [b; e] => match mk_content_range b e None with Some c => finish (content_range_str c) | None => SErr end
  | ASeq [b; e; l] => match mk_content_range b e l with Some c => finish (content_range_str c) | None => SErr end
  | ASeq _ => SErr                                                     (* len(value) not in (2, 3) *)
  | ACR c => finish (content_range_str c)
  | AStr s => finish s
  | ANoneArg => finish S_None
  end.

(* ------------------------------------------------------------ correspondence entry points *)
Definition v_cr (c : content_range) : val :=
  let '(CR a b l) := c in VList [oz a; oz b; oz l; VStr (content_range_str c)].

(* [ContentRange.parse(text), descriptors.parse_content_range(text)] *)
Definition corr_cr_parse (h : str) : val :=
  VList [match cr_parse h with
         | PNone => VNone | PIntErr => err_value | PCtorErr => err_value | PSome c => v_cr c end;
         match parse_content_range (Some h) with None => VNone | Some c => v_cr c end].

Definition corr_cr_groups (h : str) : val :=
  match match_content_range h with
  | None => VNone
  | Some (se, l) =>
      VList [match se with Some (a, _) => VStr a | None => VNone end;
             match se with Some (_, b) => VStr b | None => VNone end;
             match l with Some d => VStr d | None => VNone end]
  end.

Definition corr_cr_serialize (a : sarg) : val :=
  match serialize_content_range a with
  | SErr => err_value | SNone => VNone | SText s => VStr s
  end.

(* [groups of _rx_content_range.match(text); [ContentRange.parse(text), parse_content_range(text)]] *)
Definition corr_cr_text (h : str) : val := VList [corr_cr_groups h; corr_cr_parse h].
