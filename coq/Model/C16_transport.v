(* C16 — the transport of the signed value through an actual cookie, as an executable model built ON
   C07's model of the cookie codec (Model/C07_CookieCodec.v, read-only here):

     CookieProfile._get_cookies -> make_cookie(name, value, path="/", domain=d)      cookies.py:944-991
        = C07's make_cookie (Morsel.serialize, _value_quote, _path_quote, _valid_cookie_name)
     the user agent: keeps the cookie-pair (what stands before the first ';' of the Set-Cookie value,
        RFC 6265 5.2) and sends it back inside "Cookie: a=1; name=value; b=2"          (not webob code)
     request.cookies.get(name): RequestCookies._cache / parse_cookie / _parse_cookie / _unquote
        = C07's request_cookies (scanner model of _rx_cookie.findall, _unquote, utf-8 decode, later pair wins)
     CookieProfile.get_value on that jar = get_value of Model/C16_signed.v

   Definitions only; proofs are in Proofs/C16_transport.v.  Names of C07's model are used qualified (C07_CookieCodec.x). *)
From Coq Require Import String.
From Coq Require Import ZArith NArith List Bool.
Require Import Webob.Lib.Val Webob.Lib.PyStr Webob.Lib.C07_Utf8 Webob.Gen.C07_tables.
Require Webob.Model.C07_CookieCodec.
Require Import Webob.Model.C16_signed.
Import ListNotations.
Local Open Scope N_scope.


(* the arguments CookieProfile._get_cookies hands to make_cookie for a profile with the default attributes
   (secure=False, max_age=None, httponly=None, samesite=None, path="/"), per domain *)
Definition profile_request (name : str) (dom : option str) (value : bytes) : C07_CookieCodec.request :=
  {| C07_CookieCodec.r_name := name; C07_CookieCodec.r_value := C07_CookieCodec.CBytes value; C07_CookieCodec.r_max_age := C07_CookieCodec.MaNone; C07_CookieCodec.r_path := Some [47];
     C07_CookieCodec.r_domain := dom; C07_CookieCodec.r_secure := false; C07_CookieCodec.r_httponly := false; C07_CookieCodec.r_comment := None;
     C07_CookieCodec.r_samesite := None; C07_CookieCodec.r_date := [] |}.

(* the Set-Cookie header value the profile emits for one domain: C07's make_cookie *)
Definition set_cookie_line (name : str) (dom : option str) (value : bytes) : C07_CookieCodec.res str :=
  C07_CookieCodec.make_cookie true (profile_request name dom value).

(* user agent: the cookie-pair is everything before the first ';' *)
Fixpoint upto_semi (s : str) : str :=
  match s with
  | [] => []
  | c :: r => if c =? 59 then [] else c :: upto_semi r
  end.

(* another cookie the client holds, as webob would have emitted it: name=_value_quote(value) *)
Definition other_pair (kv : str * str) : str := fst kv ++ 61 :: C07_CookieCodec.value_quote (snd kv).

(* the Cookie request header: the echoed pair among other cookies, joined by "; " *)
Definition cookie_header (before : list (str * str)) (pair : str) (after : list (str * str)) : str :=
  join [59; 32] (map other_pair before ++ pair :: map other_pair after).

(* self.request.cookies.get(cookie_name) *)
Definition request_jar (hdr : str) (name : str) : jar :=
  match C07_CookieCodec.request_cookies hdr with
  | C07_CookieCodec.Raise _ => JarRaises
  | C07_CookieCodec.Ok d => match C07_CookieCodec.dict_get name d with
               | Some v => JarValue v
               | None => JarMissing
               end
  end.

(* Set-Cookie value -> client -> Cookie header -> request.cookies.get(name) *)
Definition echo_among (before after : list (str * str)) (name : str) (line : str) : jar :=
  request_jar (cookie_header before (upto_semi line) after) name.

(* ------------------------------------------------- correspondence adaptor *)
Definition jar_val (j : jar) : val :=
  match j with
  | JarRaises => VErr C07_CookieCodec.UnicodeDecodeError
  | JarMissing => VNone
  | JarValue v => VStr v
  end.

(* (name, domain, serialised value, cookies before, cookies after)  ->
   [Set-Cookie value; Cookie header; request.cookies.get(name); is the line of the plain shape mk_cookie_plain?] *)
Definition corr_transport (i : str * option str * bytes * list (str * str) * list (str * str)) : val :=
  let '(name, dom, value, before, after) := i in
  match set_cookie_line name dom value with
  | C07_CookieCodec.Raise e => VErr e
  | C07_CookieCodec.Ok line =>
      let hdr := cookie_header before (upto_semi line) after in
      VList [VStr line; VStr hdr; jar_val (request_jar hdr name);
             VBool (str_eqb line (mk_cookie_plain name dom value))]
  end.
