(* C17 — executable model of webob.static (DirectoryApp, FileApp, FileIter) and of the
   parts of webob.response / webob.byterange a static file response runs through
   (Response.conditional_response_app Range branch, Response.app_iter_range, AppIterRange,
   Range.range_for_length, _is_content_range_valid).

   Mirrors, branch for branch, static.py:35-62 (FileApp.__call__), 65-104 (FileIter),
   116-129 (DirectoryApp.__init__), 134-167 (DirectoryApp.__call__ WITH the containment
   test placed before the directory branch, fixes/C17-directoryapp-containment-before-index.patch),
   169-178 (index); response.py:1438-1503, 1563-1618; byterange.py:18-36, 139-155.
   Definitions only (no proofs). *)
From Coq Require Import ZArith NArith List Bool.
Require Import Webob.Lib.Val Webob.Lib.PyStr Webob.Model.C17_path.
Import ListNotations.

Definition bytes := list N.

(* ------------------------------------------------------------------ file system *)
(* what os.path.isdir / isfile / os.stat / open(.., "rb") can tell about a path
   (no symbolic links: a normalised absolute path names at most one node) *)
Inductive node :=
| NoEnt                                   (* os.stat raises OSError: ENOENT, ENOTDIR (path through a file), ENAMETOOLONG, ELOOP, EACCES on a parent *)
| Dir
| File (readable : bool) (content : bytes).

Definition fsys := str -> node.

Definition isdir (fs : fsys) (p : str) : bool := match fs p with Dir => true | _ => false end.
Definition isfile (fs : fsys) (p : str) : bool := match fs p with File _ _ => true | _ => false end.

(* finite file systems for evaluation *)
Fixpoint fs_of (l : list (str * node)) (p : str) : node :=
  match l with
  | [] => NoEnt
  | (k, n) :: l' => if str_eqb k p then n else fs_of l' p
  end.

(* ------------------------------------------------------------------ DirectoryApp *)
(* __init__: self.path = abspath(path); append os.sep unless already there *)
Definition dirapp_root (cwd path : str) : str :=
  let p := abspath cwd path in
  if ends_with_sep p then p else p ++ [SEP].

(* what __call__ needs from the request *)
Record dreq := mkDreq {
  path_info : str;       (* req.path_info (already percent-decoded) *)
  path_url : str;        (* req.path_url *)
  query_string : str     (* req.query_string *)
}.

Inductive dres :=
| D403                         (* exc.HTTPForbidden() *)
| D404 (comment : str)         (* exc.HTTPNotFound(comment=...) *)
| D301 (location : str)        (* Response(status=301, location=...) *)
| DServe (filename : str).     (* self.make_fileapp(filename) *)

(* url + ("?" + qs if qs) *)
Definition with_query (url qs : str) : str :=
  match qs with [] => url | _ => url ++ 63%N :: qs end.

(* s.rsplit("/", 1)[0] *)
Definition rsplit1_head (s : str) : str :=
  match index_of SEP (rev s) with
  | None => s
  | Some i => firstn (length s - S i) s
  end.

(* index_page: None or a string; `if self.index_page` is false for None and "" *)
Definition idx_truthy (idx : option str) : bool :=
  match idx with Some (_ :: _) => true | _ => false end.
Definition idx_str (idx : option str) : str := match idx with Some s => s | None => [] end.

(* DirectoryApp.index *)
Definition dirapp_index (idx : str) (fs : fsys) (rq : dreq) (path : str) : dres :=
  let index_path := pjoin path idx in
  if negb (isfile fs index_path) then D404 index_path
  else if negb (ends_with_sep (path_info rq))
       then D301 (with_query (path_url rq ++ [SEP]) (query_string rq))
       else DServe index_path.

(* DirectoryApp.__call__ (repaired order: containment first) *)
Definition dirapp_call (root : str) (idx : option str) (hide : bool) (fs : fsys) (rq : dreq) : dres :=
  let path := abspath [SEP] (pjoin root (lstrip_sep (path_info rq))) in
  if negb (starts_with root (path ++ [SEP])) then D403
  else if isdir fs path && idx_truthy idx then dirapp_index (idx_str idx) fs rq path
  else if idx_truthy idx && hide && ends_with (SEP :: idx_str idx) path
       then D301 (with_query (rsplit1_head (path_url rq) ++ [SEP]) (query_string rq))
  else if negb (starts_with root path) then D403
  else if negb (isfile fs path) then D404 path
  else DServe path.

(* the order of the unrepaired tree (isdir/index and hide-redirect before the only
   containment test) — kept for the refutation witness in Proofs only *)
Definition dirapp_call_unrepaired (root : str) (idx : option str) (hide : bool) (fs : fsys) (rq : dreq) : dres :=
  let path := abspath [SEP] (pjoin root (lstrip_sep (path_info rq))) in
  if isdir fs path && idx_truthy idx then dirapp_index (idx_str idx) fs rq path
  else if idx_truthy idx && hide && ends_with (SEP :: idx_str idx) path
       then D301 (with_query (rsplit1_head (path_url rq) ++ [SEP]) (query_string rq))
  else if negb (starts_with root path) then D403
  else if negb (isfile fs path) then D404 path
  else DServe path.

(* ------------------------------------------------------------------ byte ranges *)
(* _is_content_range_valid(start, stop, length) with all three given, response=False *)
Definition cr_valid (start stop length : Z) : bool :=
  if (start >=? stop)%Z then false
  else ((0 <=? start) && (start <? length))%Z.

(* Range(start, end).range_for_length(length), length not None *)
Definition range_for_length (start : Z) (end_ : option Z) (length : Z) : option (Z * Z) :=
  let '(s, e) :=
    match end_ with
    | None => ((if (start <? 0)%Z then (start + length)%Z else start), length)
    | Some e => (start, e)
    end in
  if cr_valid s e length then Some (s, Z.min e length) else None.

(* ------------------------------------------------------------------ file objects *)
(* file.read(n) on a regular file positioned before [data]: n < 0 reads everything;
   [cap] (an adversarial short read: at most S cap bytes) lets the theorems cover
   file objects that return fewer bytes than asked. *)
Definition read_size (n : Z) (cap : option nat) (avail : nat) : nat :=
  let want := if (n <? 0)%Z then avail else Nat.min (Z.to_nat n) avail in
  match cap with
  | None => want
  | Some c => Nat.min want (S c)
  end.

Definition hd_cap (caps : list nat) : option nat := match caps with c :: _ => Some c | [] => None end.

(* FileIter.app_iter_range: the `while True` loop.  [data] = bytes from the current
   file position to EOF.  Out of fuel = None. *)
Fixpoint fileiter_loop (fuel : nat) (bs : Z) (limit : option Z) (data : bytes) (caps : list nat)
  : option (list bytes) :=
  match fuel with
  | O => None
  | S f =>
      let n := match limit with Some l => Z.min bs l | None => bs end in
      let k := read_size n (hd_cap caps) (length data) in
      let chunk := firstn k data in
      match chunk with
      | [] => Some []                                   (* if not data: return *)
      | _ =>
          let rest := skipn k data in
          match limit with
          | None => option_map (cons chunk) (fileiter_loop f bs None rest (tl caps))
          | Some l =>
              let l' := (l - Z.of_nat (length chunk))%Z in
              if (l' <=? 0)%Z then Some [chunk]
              else option_map (cons chunk) (fileiter_loop f bs (Some l') rest (tl caps))
          end
      end
  end.

(* FileIter(file).app_iter_range(seek, limit, block_size) on a file holding [content] *)
Definition fileiter (seek : Z) (limit : option Z) (bs : Z) (content : bytes) (caps : list nat)
  : option (list bytes) :=
  let seeking := negb (seek =? 0)%Z in                   (* `if seek:` *)
  let data := if seeking then skipn (Z.to_nat seek) content else content in
  let limit' := if seeking then option_map (fun l => (l - seek)%Z) limit else limit in
  fileiter_loop (S (length data)) bs limit' data caps.

(* ------------------------------------------------------------------ AppIterRange *)
Definition last_k (k : nat) (c : bytes) : bytes := skipn (length c - k) c.      (* c[-k:], k > 0 *)
Definition drop_last (m : nat) (c : bytes) : bytes := firstn (length c - m) c.  (* c[:-m], m > 0 *)

Record air_st := mkAir { air_rest : list bytes; air_pos : nat }.

(* _skip_start *)
Fixpoint air_skip_start (start stop : nat) (cs : list bytes) (p : nat) : option (bytes * air_st) :=
  match cs with
  | [] => None
  | c :: cs' =>
      let p' := (p + length c)%nat in
      if (p' <? start)%nat then air_skip_start start stop cs' p'
      else if (p' =? start)%nat then Some ([], mkAir cs' p')
      else let c1 := last_k (p' - start) c in
           let c2 := if (stop <? p')%nat then drop_last (p' - stop) c1 else c1 in
           Some (c2, mkAir cs' p')
  end.

(* next / __next__ (stop is never None on this path) *)
Definition air_next (start stop : nat) (s : air_st) : option (bytes * air_st) :=
  if (air_pos s <? start)%nat then air_skip_start start stop (air_rest s) (air_pos s)
  else if (stop <=? air_pos s)%nat then None
  else match air_rest s with
       | [] => None
       | c :: cs' =>
           let p' := (air_pos s + length c)%nat in
           if (p' <=? stop)%nat then Some (c, mkAir cs' p')
           else Some (drop_last (p' - stop) c, mkAir cs' p')
       end.

Fixpoint air_run (fuel : nat) (start stop : nat) (s : air_st) : list bytes :=
  match fuel with
  | O => []
  | S f => match air_next start stop s with
           | None => []
           | Some (c, s') => c :: air_run f start stop s'
           end
  end.

(* list(AppIterRange(iter(chunks), start, stop)) *)
Definition air (chunks : list bytes) (start stop : nat) : list bytes :=
  air_run (S (length chunks)) start stop (mkAir chunks 0).

(* ------------------------------------------------------------------ FileApp *)
(* how the body iterator is produced: FileIter(file) with a block size and a read
   behaviour, or environ["wsgi.file_wrapper"](file, BLOCK_SIZE) yielding [chunks] *)
Inductive iter_kind :=
| KFileIter (bs : Z) (caps : list nat)
| KWrapper (chunks : list bytes).

Record freq := mkFreq {
  meth : str;                          (* req.method *)
  range : option (Z * option Z);       (* req.range as (start, end) or None *)
  kind : iter_kind
}.

Record resp := mkResp {
  status : Z;
  location : option str;
  content_length : option Z;
  content_range : option (option (Z * Z) * Z);   (* (start, stop) or *, / length; stop exclusive *)
  detail : str;                                  (* comment= of a DirectoryApp 404 *)
  body : option bytes                            (* None: the iterator model ran out of fuel *)
}.

Definition simple (st : Z) : resp := mkResp st None None None [] (Some []).

Definition GET : str := [71; 69; 84]%N.
Definition HEAD : str := [72; 69; 65; 68]%N.

Definition option_concat (o : option (list bytes)) : option bytes := option_map (@concat N) o.

(* the whole-body iterator: FileIter.__iter__ = app_iter_range() / the wrapper's chunks *)
Definition full_iter (k : iter_kind) (content : bytes) : option (list bytes) :=
  match k with
  | KFileIter bs caps => fileiter 0 None bs content caps
  | KWrapper chunks => Some chunks
  end.

(* Response.app_iter_range(start, stop): the iterator's own app_iter_range if it has one,
   else AppIterRange *)
Definition range_iter (k : iter_kind) (content : bytes) (start stop : Z) : option (list bytes) :=
  match k with
  | KFileIter bs caps => fileiter start (Some stop) bs content caps
  | KWrapper chunks => Some (air chunks (Z.to_nat start) (Z.to_nat stop))
  end.

(* FileApp.__call__ followed by Response.conditional_response_app, for a request without
   If-None-Match / If-Modified-Since / If-Range *)
Definition fileapp (nd : node) (rq : freq) : resp :=
  let m := meth rq in
  if negb (str_eqb m GET || str_eqb m HEAD) then simple 405
  else match nd with
  | NoEnt => simple 404                      (* os.stat raises *)
  | Dir => simple 403                        (* open() raises IsADirectoryError *)
  | File false _ => simple 403               (* open() raises PermissionError *)
  | File true content =>
      let len := Z.of_nat (length content) in
      let is_head := str_eqb m HEAD in
      match range rq with
      | Some (rs, re) =>
          match range_for_length rs re len with
          | None =>
              mkResp 416 None None (Some (None, len)) [] (Some [])
          | Some (start, stop) =>
              mkResp 206 None (Some (stop - start)%Z) (Some (Some (start, stop), len)) []
                     (if is_head then Some [] else option_concat (range_iter (kind rq) content start stop))
          end
      | None =>
          mkResp 200 None (Some len) None []
                 (if is_head then Some [] else option_concat (full_iter (kind rq) content))
      end
  end.

(* ------------------------------------------------------------------ the whole app *)
Definition serve (root : str) (idx : option str) (hide : bool) (fs : fsys) (dq : dreq) (fq : freq) : resp :=
  match dirapp_call root idx hide fs dq with
  | D403 => simple 403
  | D404 c => mkResp 404 None None None c (Some [])
  | D301 loc => mkResp 301 (Some loc) None None [] (Some [])
  | DServe p => fileapp (fs p) fq
  end.

Definition serve_unrepaired (root : str) (idx : option str) (hide : bool) (fs : fsys) (dq : dreq) (fq : freq) : resp :=
  match dirapp_call_unrepaired root idx hide fs dq with
  | D403 => simple 403
  | D404 c => mkResp 404 None None None c (Some [])
  | D301 loc => mkResp 301 (Some loc) None None [] (Some [])
  | DServe p => fileapp (fs p) fq
  end.

(* ------------------------------------------------------------------ observations (for correspondence) *)
Definition v_opt_z (o : option Z) : val := match o with Some z => VInt z | None => VNone end.
Definition v_opt_str (o : option str) : val := match o with Some s => VStr s | None => VNone end.
Definition v_chunks (o : option (list bytes)) : val :=
  match o with Some l => VList (map VStr l) | None => VErr [] end.

Definition v_dres (r : dres) : val :=
  match r with
  | D403 => VList [VInt 403]
  | D404 c => VList [VInt 404; VStr c]
  | D301 l => VList [VInt 301; VStr l]
  | DServe p => VList [VInt 200; VStr p]
  end.

Definition v_resp (r : resp) : val :=
  VList [VInt (status r); v_opt_str (location r); v_opt_z (content_length r);
         match content_range r with
         | None => VNone
         | Some (None, l) => VList [VNone; VInt l]
         | Some (Some (a, b), l) => VList [VInt a; VInt b; VInt l]
         end;
         VStr (detail r);
         match body r with Some b => VStr b | None => VErr [] end].

Definition v_range (o : option (Z * Z)) : val :=
  match o with Some (a, b) => VList [VInt a; VInt b] | None => VNone end.

(* chunk a byte string by a list of sizes (what a wsgi.file_wrapper yields); the rest is one last chunk *)
Fixpoint chunk_by (sizes : list nat) (b : bytes) : list bytes :=
  match sizes with
  | [] => match b with [] => [] | _ => [b] end
  | k :: sizes' => firstn k b :: chunk_by sizes' (skipn k b)
  end.
