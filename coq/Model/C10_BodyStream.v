(* C10 — executable model of the request-body machinery of webob.request
   (request.py: body_file getter 196-226, body getter/setter 697-727, POST 771-820 (I/O only),
   copy/copy_get 883-904, is_body_readable 910-938, make_body_seekable 940-957,
   copy_body 959-1044, call_application 1336-1337 (rewind), LimitedLengthFile.readinto 1627-1642).

   The model follows the REPAIRED code (fixes/C10-1: is_body_readable needs clen > 0;
   fixes/C10-2: the body getter raises DisconnectionError when fewer than CONTENT_LENGTH bytes
   could be read from a seekable input).

   Files (wsgi.input objects) live in a heap addressed by identity, because the code compares
   input objects by identity (`raw is not r`, `body_file is self.body_file_raw`) and because
   copy() shares wsgi.input with the original until copy_body() replaces it.

   io.BufferedReader is abstracted adversarially: every raw readinto() it issues has a size
   taken from a list supplied with the operation (the stdlib buffer size is not assumed).
   Definitions only, no proofs. *)
From Coq Require Import ZArith NArith List Bool Arith.
Require Import Webob.Lib.Val.
Import ListNotations.

Definition bytes := list N.

(* ------------------------------------------------------------------ files and the heap *)
Inductive fkind := KOrig | KMem | KTmp.      (* the server's stream | io.BytesIO | tempfile *)

Record file := mkFile { fdata : bytes; fpos : nat; fkd : fkind }.

Record heap := mkHeap { cells : nat -> file; next : nat }.

Definition upd (h : heap) (i : nat) (f : file) : heap :=
  mkHeap (fun j => if Nat.eqb j i then f else cells h j) (next h).

Definition alloc (h : heap) (f : file) : heap * nat :=
  (mkHeap (fun j => if Nat.eqb j (next h) then f else cells h j) (S (next h)), next h).

(* file.read(k) / file.read() : as much as is there, never more than asked *)
Definition fread (k : option nat) (f : file) : bytes * file :=
  let rest := skipn (fpos f) (fdata f) in
  let d := match k with Some k => firstn k rest | None => rest end in
  (d, mkFile (fdata f) (fpos f + length d) (fkd f)).

Definition fseek0 (f : file) : file := mkFile (fdata f) 0 (fkd f).

(* ------------------------------------------------------------------ results *)
Inductive res (A : Type) :=
| Ok (a : A)
| Disc            (* DisconnectionError *)
| Fuel.           (* model ran out of fuel: never happens (theorems) *)
Arguments Ok {A} a.
Arguments Disc {A}.
Arguments Fuel {A}.

(* ------------------------------------------------------------------ the request (its environ) *)
(* LimitedLengthFile wrapped in io.BufferedReader, as cached in environ['webob._body_file'] *)
Record wrapper := mkW {
  wbuf : bytes;      (* BufferedReader: bytes pulled from the raw file and not yet handed out *)
  wrem : nat;        (* LimitedLengthFile.remaining *)
  wraw : nat         (* identity of the file it wraps *)
}.

Record req := mkReq {
  cl : option Z;             (* content_length: parse_int_safe(CONTENT_LENGTH) *)
  seekable : bool;           (* webob.is_body_seekable *)
  term : option bool;        (* wsgi.input_terminated, when present *)
  legacy : bool;             (* webob.is_body_readable (fallback) *)
  inp : nat;                 (* identity of wsgi.input *)
  wrap : option wrapper;     (* webob._body_file *)
  limit : Z;                 (* request_body_tempfile_limit (class attribute) *)
  postc : option nat;        (* webob._parsed_post_vars: identity of the body file it was parsed from *)
  form : bool                (* method/content type make .POST parse the body (request.py:787-798) *)
}.

Definition set_cl (r : req) (c : option Z) : req :=
  mkReq c (seekable r) (term r) (legacy r) (inp r) (wrap r) (limit r) (postc r) (form r).
Definition set_seekable (r : req) (b : bool) : req :=
  mkReq (cl r) b (term r) (legacy r) (inp r) (wrap r) (limit r) (postc r) (form r).
Definition set_term (r : req) (t : option bool) : req :=
  mkReq (cl r) (seekable r) t (legacy r) (inp r) (wrap r) (limit r) (postc r) (form r).
Definition set_inp (r : req) (i : nat) : req :=
  mkReq (cl r) (seekable r) (term r) (legacy r) i (wrap r) (limit r) (postc r) (form r).
Definition set_wrap (r : req) (w : option wrapper) : req :=
  mkReq (cl r) (seekable r) (term r) (legacy r) (inp r) w (limit r) (postc r) (form r).
Definition set_postc (r : req) (p : option nat) : req :=
  mkReq (cl r) (seekable r) (term r) (legacy r) (inp r) (wrap r) (limit r) p (form r).
Definition set_form (r : req) (b : bool) : req :=
  mkReq (cl r) (seekable r) (term r) (legacy r) (inp r) (wrap r) (limit r) (postc r) b.

(* is_body_readable (request.py:910-934, repaired: clen > 0) *)
Definition term_flag (r : req) : bool :=
  match term r with Some b => b | None => legacy r end.

Definition readable (r : req) : bool :=
  match cl r with
  | Some c => (0 <? c)%Z
  | None => term_flag r
  end.

(* ------------------------------------------------------------------ LimitedLengthFile.readinto *)
(* buff of size a.  Returns the bytes stored into buff, or Disc; the counters move either way. *)
Definition llf_readinto (a : nat) (w : wrapper) (f : file) : res bytes * wrapper * file :=
  if Nat.eqb (wrem w) 0 then (Ok [], w, f)
  else
    let sz0 := Nat.min a (wrem w) in
    let '(d, f') := fread (Some sz0) f in
    let sz := length d in
    let w' := mkW (wbuf w) (wrem w - sz) (wraw w) in
    if Nat.ltb sz sz0 && negb (Nat.eqb (wrem w') 0) then (Disc, w', f')
    else (Ok d, w', f').

(* ------------------------------------------------------------------ io.BufferedReader over it *)
Definition default_buffer_size : nat := 8192.

Definition next_size (adv : list nat) : nat * list nat :=
  (Nat.max 1 (match adv with [] => default_buffer_size | a :: _ => a end), tl adv).

Definition enough (need : option nat) (have : nat) : bool :=
  match need with Some k => Nat.leb k have | None => false end.

(* pull from the raw file until the buffer holds `need` bytes or the raw file reports EOF.
   true = fine, false = the raw read raised (buffer is dropped, as BufferedReader does). *)
Fixpoint br_fill (fuel : nat) (need : option nat) (adv : list nat) (w : wrapper) (f : file)
  : res unit * list nat * wrapper * file :=
  match fuel with
  | 0 => (Fuel, adv, w, f)
  | S fuel' =>
      if enough need (length (wbuf w)) then (Ok tt, adv, w, f)
      else if Nat.eqb (wrem w) 0 then (Ok tt, adv, w, f)          (* readinto returns 0: EOF *)
      else
        let '(a, adv') := next_size adv in
        match llf_readinto a w f with
        | (Ok d, w', f') => br_fill fuel' need adv' (mkW (wbuf w' ++ d) (wrem w') (wraw w')) f'
        | (_, w', f') => (Disc, adv', mkW [] (wrem w') (wraw w'), f')
        end
  end.

(* BufferedReader.read(k) / .read() *)
Definition br_read (need : option nat) (adv : list nat) (w : wrapper) (f : file)
  : res bytes * list nat * wrapper * file :=
  let fuel := S (match need with Some k => k | None => wrem w end) in
  match br_fill fuel need adv w f with
  | (Ok _, adv', w', f') =>
      let d := match need with Some k => firstn k (wbuf w') | None => wbuf w' end in
      let rest := match need with Some k => skipn k (wbuf w') | None => [] end in
      (Ok d, adv', mkW rest (wrem w') (wraw w'), f')
  | (Disc, adv', w', f') => (Disc, adv', w', f')
  | (Fuel, adv', w', f') => (Fuel, adv', w', f')
  end.

(* ------------------------------------------------------------------ body_file (request.py:196-226) *)
Inductive handle :=
| HEmpty            (* a fresh io.BytesIO() *)
| HRaw              (* environ['wsgi.input'] itself *)
| HWrap.            (* the cached BufferedReader(LimitedLengthFile(wsgi.input, clen)) *)

Definition body_file (r : req) : handle * req :=
  if negb (readable r) then (HEmpty, r)
  else
    match cl r with
    | Some c =>
        if negb (seekable r) then
          match wrap r with
          | Some w => if Nat.eqb (wraw w) (inp r) then (HWrap, r)
                      else (HWrap, set_wrap r (Some (mkW [] (Z.to_nat c) (inp r))))
          | None => (HWrap, set_wrap r (Some (mkW [] (Z.to_nat c) (inp r))))
          end
        else (HRaw, r)
    | None => (HRaw, r)
    end.

(* handle.read(k) *)
Definition hread (hd : handle) (k : option nat) (adv : list nat) (h : heap) (r : req)
  : res bytes * list nat * heap * req :=
  match hd with
  | HEmpty => (Ok [], adv, h, r)
  | HRaw =>
      let '(d, f') := fread k (cells h (inp r)) in
      (Ok d, adv, upd h (inp r) f', r)
  | HWrap =>
      match wrap r with
      | Some w =>
          let '(o, adv', w', f') := br_read k adv w (cells h (wraw w)) in
          (o, adv', upd h (wraw w) f', set_wrap r (Some w'))
      | None => (Fuel, adv, h, r)       (* unreachable: HWrap is only returned with a wrapper *)
      end
  end.

(* ------------------------------------------------------------------ body setter (request.py:712-723) *)
Definition set_body (b : bytes) (h : heap) (r : req) : heap * req :=
  let '(h', i) := alloc h (mkFile b 0 KMem) in
  (h', set_seekable (set_inp (set_cl r (Some (Z.of_nat (length b)))) i) true).

(* ------------------------------------------------------------------ copy_body (request.py:959-1044) *)
(* the while loop.  acc = newbody, or what has been written to the temp file once `spilled` *)
Fixpoint cb_loop (fuel chunk : nat) (hascl : bool) (todo : nat) (acc : bytes) (spilled : bool)
         (lim : Z) (hd : handle) (adv : list nat) (h : heap) (r : req)
  : res (bytes * bool) * list nat * heap * req :=
  match fuel with
  | 0 => (Fuel, adv, h, r)
  | S fuel' =>
      if Nat.eqb todo 0 then (Ok (acc, spilled), adv, h, r)
      else
        match hread hd (Some (Nat.min todo chunk)) adv h r with
        | (Ok data, adv', h', r') =>
            match data with
            | [] => if hascl then (Disc, adv', h', r') else (Ok (acc, spilled), adv', h', r')
            | _ =>
                let acc' := acc ++ data in
                let spilled' := spilled || (lim <? Z.of_nat (length acc'))%Z in
                let todo' := if hascl then todo - length data else todo in
                cb_loop fuel' chunk hascl todo' acc' spilled' lim hd adv' h' r'
            end
        | (Disc, adv', h', r') => (Disc, adv', h', r')
        | (Fuel, adv', h', r') => (Fuel, adv', h', r')
        end
  end.

Definition copy_body (chunk : nat) (adv : list nat) (h : heap) (r : req)
  : res unit * list nat * heap * req :=
  if readable r then
    let h1 := if seekable r then upd h (inp r) (fseek0 (cells h (inp r))) else h in
    let hascl := match cl r with Some _ => true | None => false end in
    let todo := match cl r with Some c => Z.to_nat c | None => chunk end in
    let '(hd, r1) := body_file r in
    let fuel := todo + length (fdata (cells h1 (inp r))) + 2 in
    match cb_loop fuel chunk hascl todo [] false (limit r) hd adv h1 r1 with
    | (Ok (acc, spilled), adv', h2, r2) =>
        if spilled then
          let '(h3, i) := alloc h2 (mkFile acc 0 KTmp) in
          let r3 := set_cl r2 (Some (Z.of_nat (length acc))) in
          let r4 := set_seekable (set_inp r3 i) true in
          (Ok tt, adv', h3, set_term r4 (Some true))
        else
          let '(h3, r3) := set_body acc h2 r2 in (Ok tt, adv', h3, r3)
    | (Disc, adv', h2, r2) => (Disc, adv', h2, r2)
    | (Fuel, adv', h2, r2) => (Fuel, adv', h2, r2)
    end
  else
    let '(h', r') := set_body [] h r in (Ok tt, adv, h', r').

(* make_body_seekable (request.py:940-957) *)
Definition make_seekable (chunk : nat) (adv : list nat) (h : heap) (r : req)
  : res unit * list nat * heap * req :=
  if seekable r then (Ok tt, adv, upd h (inp r) (fseek0 (cells h (inp r))), r)
  else copy_body chunk adv h r.

Definition z_to_read (c : option Z) : option nat :=
  match c with Some c => Some (Z.to_nat c) | None => None end.

(* body getter (request.py:697-710, repaired) *)
Definition get_body (chunk : nat) (adv : list nat) (h : heap) (r : req)
  : res bytes * heap * req :=
  if negb (readable r) then (Ok [], h, r)
  else
    match make_seekable chunk adv h r with
    | (Ok _, adv1, h1, r1) =>
        let '(hd, r2) := body_file r1 in
        match hread hd (z_to_read (cl r2)) adv1 h1 r2 with
        | (Ok d, _, h2, r3) =>
            let h3 := upd h2 (inp r3) (fseek0 (cells h2 (inp r3))) in
            match cl r3 with
            | Some c => if (Z.of_nat (length d) <? c)%Z then (Disc, h3, r3) else (Ok d, h3, r3)
            | None => (Ok d, h3, r3)
            end
        | (Disc, _, h2, r3) => (Disc, h2, r3)
        | (Fuel, _, h2, r3) => (Fuel, h2, r3)
        end
    | (Disc, _, h1, r1) => (Disc, h1, r1)
    | (Fuel, _, h1, r1) => (Fuel, h1, r1)
    end.

(* ------------------------------------------------------------------ operations = access paths *)
Inductive op :=
| Body                         (* req.body *)
| FileRead (k : option nat)    (* req.body_file.read(k) / .read() *)
| SeekRead (k : option nat)    (* req.body_file_seekable.read(k) / .read() *)
| Copy                         (* req.copy()   -> a new request *)
| CopyGet                      (* req.copy_get() -> a new request *)
| Post                         (* req.POST on a form request: what the form parser is fed *)
| CallApp                      (* req.call_application(app): what app reads from environ['wsgi.input'] *)
| SetBody (b : bytes).         (* req.body = b   (req.text / req.json: b is the encoded text) *)

Inductive out :=
| OBytes (b : bytes)
| ODisc
| OFuel
| ONew (ok : bool)             (* copy(): a new request was created *)
| OCached                      (* POST answered from webob._parsed_post_vars, or not a form: parser not run *)
| OSkip.                       (* the application does not touch a non-seekable input *)

Definition lift_bytes (x : res bytes) : out :=
  match x with Ok b => OBytes b | Disc => ODisc | Fuel => OFuel end.

(* what a well-behaved reader takes from a file that holds the body: CONTENT_LENGTH bytes,
   or everything when the length is unknown and the input is flagged as terminated *)
Definition declared (r : req) : option nat :=
  match cl r with
  | Some c => Some (Z.to_nat c)
  | None => if term_flag r then None else Some 0
  end.

Definition rstep (chunk : nat) (o : op) (adv : list nat) (h : heap) (r : req)
  : out * heap * req * option req :=
  match o with
  | Body =>
      let '(x, h', r') := get_body chunk adv h r in (lift_bytes x, h', r', None)
  | FileRead k =>
      let '(hd, r1) := body_file r in
      let '(x, _, h', r') := hread hd k adv h r1 in (lift_bytes x, h', r', None)
  | SeekRead k =>
      (* body_file_seekable (request.py:244-257) then .read(k) on wsgi.input itself *)
      let go (adv1 : list nat) (h1 : heap) (r1 : req) :=
          let '(d, f') := fread k (cells h1 (inp r1)) in
          (OBytes d, upd h1 (inp r1) f', r1, None) in
      if seekable r then go adv h r
      else match make_seekable chunk adv h r with
           | (Ok _, adv1, h1, r1) => go adv1 h1 r1
           | (Disc, _, h1, r1) => (ODisc, h1, r1, None)
           | (Fuel, _, h1, r1) => (OFuel, h1, r1, None)
           end
  | Copy =>
      (* request.py:883-894: make_body_seekable(); env.copy(); new_req.copy_body() *)
      match make_seekable chunk adv h r with
      | (Ok _, adv1, h1, r1) =>
          match copy_body chunk adv1 h1 r1 with
          | (Ok _, _, h2, rnew) =>
              (* the wrapper cache of the copied environ is the SAME object as the original's;
                 it is stale for both (the original is seekable now).  copy_body read the shared
                 input: the original's is rewound afterwards (repaired: fixes/C10-3) *)
              (ONew true, upd h2 (inp r1) (fseek0 (cells h2 (inp r1))), r1, Some rnew)
          | (Disc, _, h2, _) => (ODisc, h2, r1, None)
          | (Fuel, _, h2, _) => (OFuel, h2, r1, None)
          end
      | (Disc, _, h1, r1) => (ODisc, h1, r1, None)
      | (Fuel, _, h1, r1) => (OFuel, h1, r1, None)
      end
  | CopyGet =>
      (* a GET without content type: .POST no longer parses *)
      let '(h', rnew) := set_body [] h r in (ONew true, h', r, Some (set_form rnew false))
  | Post =>
      (* request.py:780-820 for a form content type; the parser is external: it is handed
         body_file and reads the declared length from it *)
      let cached := match postc r with Some i => Nat.eqb i (inp r) | None => false end in
      if cached || negb (form r) then (OCached, h, r, None)
      else
        match make_seekable chunk adv h r with
        | (Ok _, adv1, h1, r1) =>
            let h2 := upd h1 (inp r1) (fseek0 (cells h1 (inp r1))) in
            let '(hd, r2) := body_file r1 in
            let want := match cl r2 with Some c => Some (Z.to_nat c) | None => Some 0 end in
            match hread hd want adv1 h2 r2 with
            | (Ok d, _, h3, r3) =>
                let h4 := upd h3 (inp r3) (fseek0 (cells h3 (inp r3))) in
                (OBytes d, h4, set_postc r3 (Some (inp r3)), None)
            | (Disc, _, h3, r3) => (ODisc, h3, r3, None)
            | (Fuel, _, h3, r3) => (OFuel, h3, r3, None)
            end
        | (Disc, _, h1, r1) => (ODisc, h1, r1, None)
        | (Fuel, _, h1, r1) => (OFuel, h1, r1, None)
        end
  | CallApp =>
      (* request.py:1336-1337: only a seekable body is rewound; the application then reads
         environ['wsgi.input'] directly.  (The model's application leaves a non-seekable
         input alone: webob neither wraps nor rewinds it on this path.) *)
      if seekable r then
        let h1 := upd h (inp r) (fseek0 (cells h (inp r))) in
        let '(d, f') := fread (declared r) (cells h1 (inp r)) in
        (OBytes d, upd h1 (inp r) f', r, None)
      else (OSkip, h, r, None)
  | SetBody b =>
      let '(h', r') := set_body b h r in (OBytes [], h', r', None)
  end.

(* ------------------------------------------------------------------ worlds and histories *)
Record world := mkWorld { wheap : heap; wreqs : list req }.

Fixpoint set_nth {A} (i : nat) (x : A) (l : list A) : list A :=
  match l, i with
  | [], _ => []
  | _ :: t, 0 => x :: t
  | y :: t, S i' => y :: set_nth i' x t
  end.

(* one step of a history: (index of the request, operation, adversary's buffer sizes) *)
Definition step := (nat * op * list nat)%type.

Definition wstep (chunk : nat) (w : world) (s : step) : out * world :=
  let '(i, o, adv) := s in
  match nth_error (wreqs w) i with
  | None => (OSkip, w)
  | Some r =>
      let '(x, h', r', new) := rstep chunk o adv (wheap w) r in
      let rs := set_nth i r' (wreqs w) in
      (x, mkWorld h' (match new with Some rn => rs ++ [rn] | None => rs end))
  end.

Fixpoint wrun (chunk : nat) (w : world) (hist : list step) : list out * world :=
  match hist with
  | [] => ([], w)
  | s :: t =>
      let '(x, w1) := wstep chunk w s in
      let '(xs, w2) := wrun chunk w1 t in
      (x :: xs, w2)
  end.

(* the initial world: one request over the server's stream *)
Definition init_req (c : option Z) (sk : bool) (tm : option bool) (lg : bool) (lim : Z) : req :=
  mkReq c sk tm lg 0 None lim None true.

Definition init_world (s : bytes) (c : option Z) (sk : bool) (tm : option bool) (lg : bool) (lim : Z) : world :=
  mkWorld (mkHeap (fun _ => mkFile s 0 KOrig) 1) [init_req c sk tm lg lim].

(* ------------------------------------------------------------------ observations for the correspondence *)
Definition kind_val (k : fkind) : val :=
  match k with KOrig => VInt 0 | KMem => VInt 1 | KTmp => VInt 2 end.

(* large bodies are written as [pattern n] in the case files and compared by length + digest *)
Fixpoint pattern_from (n : nat) (i : N) : bytes :=
  match n with 0 => [] | S n' => (i mod 251)%N :: pattern_from n' (i + 1)%N end.
Definition pattern (n : nat) : bytes := pattern_from n 0%N.

Definition digest (b : bytes) : N :=
  fold_left (fun acc c => ((acc * 31 + c + 1) mod 1000003)%N) b 7%N.

Definition bytes_val (b : bytes) : val :=
  if Nat.leb (length b) 64 then VStr b
  else VList [VInt (Z.of_nat (length b)); VInt (Z.of_N (digest b))].

Definition out_val (x : out) : val :=
  match x with
  | OBytes b => bytes_val b
  | ODisc => VErr [68%N]          (* "D" *)
  | OFuel => VErr [70%N]          (* "F" *)
  | ONew _ => VInt 1
  | OCached => VInt 2
  | OSkip => VNone
  end.

Definition oz (c : option Z) : val := match c with Some z => VInt z | None => VNone end.

(* after each step: result, then for the request acted on: CONTENT_LENGTH, seekable flag,
   is_body_readable, kind and position of its wsgi.input; and how far the server's stream
   has been consumed *)
Definition obs_req (h : heap) (r : req) : list val :=
  [oz (cl r); VBool (seekable r); VBool (readable r);
   kind_val (fkd (cells h (inp r))); VInt (Z.of_nat (fpos (cells h (inp r))))].

Fixpoint wobs (chunk : nat) (w : world) (hist : list step) : list val :=
  match hist with
  | [] => []
  | s :: t =>
      let '(x, w1) := wstep chunk w s in
      let i := fst (fst s) in
      let o := match nth_error (wreqs w1) i with
               | Some r => obs_req (wheap w1) r
               | None => []
               end in
      VList (out_val x :: VInt (Z.of_nat (fpos (cells (wheap w1) 0))) :: o) :: wobs chunk w1 t
  end.

Definition run_obs (chunk : nat) (s : bytes) (c : option Z) (sk : bool) (tm : option bool) (lg : bool)
           (lim : Z) (hist : list step) : val :=
  VList (wobs chunk (init_world s c sk tm lg lim) hist).

(* ------------------------------------------------------------------ two requests alive at the same time *)
(* Two independent requests (two environs, two server streams: files 0 and 1) in ONE heap: the model has no
   state outside the environ records and the files they point to, so whatever one request does cannot reach
   the other (theorem C10_two_live_independent).  Copies of either get the indices 2, 3, ... *)
Definition init_req_at (i : nat) (c : option Z) (sk : bool) (tm : option bool) (lg : bool) (lim : Z) : req :=
  mkReq c sk tm lg i None lim None true.

Definition init_world2 (s1 : bytes) (c1 : option Z) (sk1 : bool) (tm1 : option bool) (lg1 : bool) (lim1 : Z)
                       (s2 : bytes) (c2 : option Z) (sk2 : bool) (tm2 : option bool) (lg2 : bool) (lim2 : Z) : world :=
  mkWorld (mkHeap (fun j => if Nat.eqb j 0 then mkFile s1 0 KOrig else mkFile s2 0 KOrig) 2)
          [init_req_at 0 c1 sk1 tm1 lg1 lim1; init_req_at 1 c2 sk2 tm2 lg2 lim2].

Definition run_obs2 (chunk : nat)
           (a : bytes * option Z * bool * option bool * bool * Z)
           (b : bytes * option Z * bool * option bool * bool * Z) (hist : list step) : val :=
  let '(s1, c1, sk1, tm1, lg1, lim1) := a in
  let '(s2, c2, sk2, tm2, lg2, lim2) := b in
  VList (wobs chunk (init_world2 s1 c1 sk1 tm1 lg1 lim1 s2 c2 sk2 tm2 lg2 lim2) hist).

(* the same observations for a request whose method / content type make .POST parse the body ([f] = true) or not *)
Definition run_obs_form (chunk : nat) (f : bool) (s : bytes) (c : option Z) (sk : bool) (tm : option bool) (lg : bool)
           (lim : Z) (hist : list step) : val :=
  let w := init_world s c sk tm lg lim in
  VList (wobs chunk (mkWorld (wheap w) (map (fun r => set_form r f) (wreqs w))) hist).
