(* C15 — the cookie scanner of webob/cookies.py WITH SPANS, and the codec pieces the jar operations use.
   Definitions only, no proofs.

     _rx_cookie.finditer / findall  ->  [scan]: the header cut into entries (gap before the match, key, the
                                        text matched by \s*=\s*, raw value) and the text after the last match;
                                        a match's span is exactly [e_key ++ e_sep ++ e_val]
     _unquote / _rx_unquote.sub     ->  [unquote]
     _value_quote, _path_quote      ->  [value_quote], [path_quote]
     _valid_cookie_name             ->  [valid_cookie_name_res]
     parse_cookie, RequestCookies._cache -> [parse_cookie], [request_cookies]

   The alphabets and tables come from Gen/C15_tables.v, regenerated from the source tree on every run by
   harness/props/c15.py, which also checks (CPython's re._parser, fail-closed) that _rx_cookie and _rx_unquote
   still have the structure mirrored here:
     (LEGAL+?) \s*=\s* ( Q(?:BQ|.)*?Q | \w{3},\s[\w\d-]{9,11}\s[\d:]{8}\sGMT | (?:LEGAL|B(?:[0-3][0-7][0-7]|.))* )
   (writing Q for the double quote and B for the backslash)
   The scanner follows the one of Model/C07_CookieCodec.v (same regex); it is repeated here, returning spans,
   so that C15 owns what it depends on.  Characters are N, byte strings are lists of N < 256. *)
From Coq Require Import String.
From Coq Require Import ZArith NArith List Bool.
Require Import Webob.Lib.Val Webob.Lib.PyStr Webob.Gen.C15_tables.
Import ListNotations.
Local Open Scope N_scope.

(* ------------------------------------------------------------------ results *)
Inductive res (A : Type) :=
| Ok (a : A)
| Raise (exc : str).
Arguments Ok {A} a.
Arguments Raise {A} exc.

Definition AssertionError : str := H "417373657274696f6e4572726f72"%string.
Definition IndexError : str := H "496e6465784572726f72"%string.
Definition KeyError : str := H "4b65794572726f72"%string.
Definition TypeError : str := H "547970654572726f72"%string.
Definition ValueError : str := H "56616c75654572726f72"%string.
Definition UnicodeEncodeError : str := H "556e69636f6465456e636f64654572726f72"%string.
Definition UnicodeDecodeError : str := H "556e69636f64654465636f64654572726f72"%string.

(* ------------------------------------------------------------------ alphabets *)
Definition is_allowed (c : N) : bool := mem_n c allowed_cookie_bytes.   (* _allowed_cookie_bytes *)
Definition is_token (c : N) : bool := mem_n c valid_token_bytes.        (* _valid_token_bytes *)
Definition is_legal (c : N) : bool := mem_n c legal_bytes.              (* _re_legal_char *)
(* bytes patterns: \s = [ \t\n\r\f\v], \w = [a-zA-Z0-9_], \d = [0-9] (checked against the live regex by gen) *)
Definition is_ws (c : N) : bool := ((9 <=? c) && (c <=? 13)) || (c =? 32).
Definition is_digit (c : N) : bool := (48 <=? c) && (c <=? 57).
Definition is_word (c : N) : bool :=
  is_digit c || ((65 <=? c) && (c <=? 90)) || ((97 <=? c) && (c <=? 122)) || (c =? 95).
Definition is03 (c : N) : bool := (48 <=? c) && (c <=? 51).
Definition is07 (c : N) : bool := (48 <=? c) && (c <=? 55).

(* bytes.lower(): ASCII only *)
Definition blower_c (c : N) : N := if (65 <=? c) && (c <=? 90) then c + 32 else c.
Definition blower (s : str) : str := map blower_c s.

Fixpoint mem_str (s : str) (l : list str) : bool :=
  match l with [] => false | x :: l' => str_eqb x s || mem_str s l' end.

Definition is_ascii (s : list N) : bool := forallb (fun c => c <? 128) s.
Definition is_latin1 (s : list N) : bool := forallb (fun c => c <? 256) s.

(* ------------------------------------------------------------------ output side *)
Definition escape_char (c : N) : str := nth (N.to_nat c) escape_map [].
Definition path_escape_char (c : N) : str := nth (N.to_nat c) path_escape_map [].

(* cookies.py _value_quote: leftovers = v.translate(None, allowed); quoted iff leftovers *)
Definition value_quote (v : str) : str :=
  if forallb is_allowed v then v
  else 34 :: flat_map escape_char v ++ [34].

(* cookies.py _path_quote = _domain_quote = _max_age_quote *)
Definition path_quote (v : str) : str := flat_map path_escape_char v.

(* cookies.py _valid_cookie_name on a bytes key:
     not (key.translate(None, token) or key[0] == '$' or key.lower() in _c_keys)
   key[0] of the empty key raises IndexError *)
Definition valid_cookie_name_res (key : str) : res bool :=
  if negb (forallb is_token key) then Ok false
  else match key with
       | [] => Raise IndexError
       | c :: _ => Ok (negb ((c =? 36) || mem_str (blower key) c_keys))
       end.
Definition valid_cookie_name (key : str) : bool :=
  match valid_cookie_name_res key with Ok b => b | Raise _ => false end.

(* ------------------------------------------------------------------ _unquote *)
Definition unq_oct (a b d : N) : N := nth (N.to_nat ((a - 48) * 64 + (b - 48) * 8 + (d - 48))) ch_unquote_oct 0.
Definition unq_single (a : N) : N := nth (N.to_nat a) ch_unquote_single 0.

(* _rx_unquote.sub(_ch_unquote, v):  \\([0-3][0-7][0-7]|.)  scanned left to right ('.' does not match LF) *)
Fixpoint unq_scan (s : str) : str :=
  match s with
  | [] => []
  | c :: s1 =>
      if c =? 92 then
        match s1 with
        | [] => [c]
        | a :: s2 =>
            match s2 with
            | b :: d :: s4 =>
                if is03 a && is07 b && is07 d then unq_oct a b d :: unq_scan s4
                else if a =? 10 then c :: unq_scan s1
                else unq_single a :: unq_scan s2
            | _ =>
                if a =? 10 then c :: unq_scan s1
                else unq_single a :: unq_scan s2
            end
        end
      else c :: unq_scan s1
  end.

(* _unquote: strip one pair of surrounding double quotes (v[0] == v[-1] == DQUOTE), then unescape *)
Definition strip_quotes (v : str) : str :=
  match v with
  | [] => []
  | c :: t => if (c =? 34) && (last v 0 =? 34) then removelast t else v
  end.
Definition unquote (v : str) : str := unq_scan (strip_quotes v).

(* ------------------------------------------------------------------ _rx_cookie *)
(* greedy \s* : the white space taken and what follows *)
Fixpoint span_ws (s : str) : str * str :=
  match s with
  | [] => ([], [])
  | c :: s1 => if is_ws c then let '(a, r) := span_ws s1 in (c :: a, r) else ([], s)
  end.

(* \s*=\s* : the text it matches and what follows.  The value alternatives always match (the third may be
   empty), so there is never any backtracking into the white space. *)
Definition eq_sep (s : str) : option (str * str) :=
  let '(w1, r1) := span_ws s in
  match r1 with
  | c :: r2 => if c =? 61 then let '(w2, r3) := span_ws r2 in Some (w1 ++ 61 :: w2, r3) else None
  | [] => None
  end.

(* lazy key: the shortest non-empty run of legal characters that is followed by \s*= .
   Returns key, separator text, rest. *)
Fixpoint match_key (s : str) : option (str * str * str) :=
  match s with
  | [] => None
  | c :: s1 =>
      if is_legal c then
        match eq_sep s1 with
        | Some (sp, r) => Some ([c], sp, r)
        | None => match match_key s1 with
                  | Some (k, sp, r) => Some (c :: k, sp, r)
                  | None => None
                  end
        end
      else None
  end.

Definition pre {A} (c : N) (o : option (str * A)) : option (str * A) :=
  match o with Some (b, r) => Some (c :: b, r) | None => None end.

(* alternative 1, after the opening quote: lazy (?:BQ|.)*? then the closing quote.  Returns the body including
   the closing quote.  When the scan after a BQ pair fails, the engine backtracks to that pair, lets '.' take
   the backslash and closes at the quote. *)
Fixpoint q_body (s : str) : option (str * str) :=
  match s with
  | [] => None
  | c :: s1 =>
      if c =? 34 then Some ([34], s1)
      else if c =? 92 then
        match s1 with
        | d :: s2 =>
            if d =? 34 then
              match q_body s2 with
              | Some (b, r) => Some (92 :: 34 :: b, r)
              | None => Some ([92; 34], s2)
              end
            else pre c (q_body s1)
        | [] => None
        end
      else if c =? 10 then None
      else pre c (q_body s1)
  end.

Definition alt_quoted (s : str) : option (str * str) :=
  match s with
  | c :: s1 => if c =? 34 then pre 34 (q_body s1) else None
  | [] => None
  end.

(* exactly n characters satisfying p *)
Fixpoint take_exact (p : N -> bool) (n : nat) (s : str) : option (str * str) :=
  match n with
  | O => Some ([], s)
  | S n' => match s with
            | c :: s1 => if p c then pre c (take_exact p n' s1) else None
            | [] => None
            end
  end.

(* at most n characters satisfying p (greedy) *)
Fixpoint take_upto (p : N -> bool) (n : nat) (s : str) : str * str :=
  match n with
  | O => ([], s)
  | S n' => match s with
            | c :: s1 => if p c then let '(a, r) := take_upto p n' s1 in (c :: a, r) else ([], s)
            | [] => ([], s)
            end
  end.

Definition one (p : N -> bool) (s : str) : option (str * str) :=
  match s with c :: s1 => if p c then Some ([c], s1) else None | [] => None end.

Definition seq2 (f g : str -> option (str * str)) (s : str) : option (str * str) :=
  match f s with
  | Some (a, r) => match g r with Some (b, r') => Some (a ++ b, r') | None => None end
  | None => None
  end.

Definition is_datec (c : N) : bool := is_word c || (c =? 45).
Definition is_timec (c : N) : bool := is_digit c || (c =? 58).

(* alternative 2: \w{3},\s[\w\d-]{9,11}\s[\d:]{8}\sGMT.  The class [\w\d-] and \s are disjoint, so the
   greedy {9,11} never gives anything back usefully: the run (cut at 11) must be followed by \s. *)
Definition date_run (s : str) : option (str * str) :=
  let '(a, r) := take_upto is_datec 11 s in
  if (9 <=? length a)%nat then Some (a, r) else None.

Definition alt_expires (s : str) : option (str * str) :=
  seq2 (take_exact is_word 3)
  (seq2 (one (N.eqb 44))
  (seq2 (one is_ws)
  (seq2 date_run
  (seq2 (one is_ws)
  (seq2 (take_exact is_timec 8)
  (seq2 (one is_ws)
  (seq2 (one (N.eqb 71)) (seq2 (one (N.eqb 77)) (one (N.eqb 84)))))))))) s.

(* alternative 3: greedy (?:LEGAL|\\(?:[0-3][0-7][0-7]|.))*, nothing follows it in the pattern *)
Definition pre2 (l : str) (p : str * str) : str * str := (l ++ fst p, snd p).

Fixpoint u_body (s : str) : str * str :=
  match s with
  | [] => ([], [])
  | c :: s1 =>
      if is_legal c then pre2 [c] (u_body s1)
      else if c =? 92 then
        match s1 with
        | [] => ([], s)
        | a :: s2 =>
            match s2 with
            | b :: d :: s4 =>
                if is03 a && is07 b && is07 d then pre2 [c; a; b; d] (u_body s4)
                else if a =? 10 then ([], s)
                else pre2 [c; a] (u_body s2)
            | _ =>
                if a =? 10 then ([], s)
                else pre2 [c; a] (u_body s2)
            end
        end
      else ([], s)
  end.

Definition match_val (s : str) : str * str :=
  match alt_quoted s with
  | Some p => p
  | None => match alt_expires s with
            | Some p => p
            | None => u_body s
            end
  end.

(* one match of _rx_cookie anchored at the start of s: key, \s*=\s* text, raw value, rest *)
Definition match_at (s : str) : option (str * str * str * str) :=
  match match_key s with
  | Some (k, sp, r) => let '(v, r') := match_val r in Some (k, sp, v, r')
  | None => None
  end.

(* one match together with the unmatched text in front of it; the span of the match (match.span()) starts
   after [e_gap] and covers [e_key ++ e_sep ++ e_val]; group(1) is [e_key], group(2) is [e_val] *)
Record entry := mkEntry { e_gap : str; e_key : str; e_sep : str; e_val : str }.
Definition e_text (e : entry) : str := e_key e ++ e_sep e ++ e_val e.

Definition push (c : N) (r : list entry * str) : list entry * str :=
  match r with
  | ([], tail) => ([], c :: tail)
  | (e :: es, tail) => (mkEntry (c :: e_gap e) (e_key e) (e_sep e) (e_val e) :: es, tail)
  end.

(* finditer: leftmost match, continue after it; no match at this position: move one character on.
   A match is never empty, so [length s] steps always suffice; fuel = S (length s).  Result: the entries and
   the text after the last match. *)
Fixpoint scan_fuel (fuel : nat) (s : str) : list entry * str :=
  match fuel with
  | O => ([], s)
  | S f =>
      match s with
      | [] => ([], [])
      | c :: s1 =>
          match match_at s with
          | Some (k, sp, v, r) => let '(es, tail) := scan_fuel f r in (mkEntry [] k sp v :: es, tail)
          | None => push c (scan_fuel f s1)
          end
      end
  end.
Definition scan (s : str) : list entry * str := scan_fuel (S (length s)) s.

Definition flatten (es : list entry) : str := flat_map (fun e => e_gap e ++ e_text e) es.

(* _rx_cookie.findall *)
Definition findall (s : str) : list (str * str) := map (fun e => (e_key e, e_val e)) (fst (scan s)).

(* _parse_cookie / parse_cookie (on the latin-1 octets of the header) *)
Definition parse_cookie_raw (s : str) : list (str * str) :=
  map (fun kv => (fst kv, unquote (snd kv))) (findall s).
Definition parse_cookie (s : str) : list (str * str) :=
  filter (fun kv => valid_cookie_name (fst kv)) (parse_cookie_raw s).

(* dict assignment d[k] = v on an insertion-ordered association list *)
Fixpoint dict_set {B} (k : str) (v : B) (d : list (str * B)) : list (str * B) :=
  match d with
  | [] => [(k, v)]
  | (k', v') :: d' => if str_eqb k' k then (k', v) :: d' else (k', v') :: dict_set k v d'
  end.

Fixpoint dict_get {B} (k : str) (d : list (str * B)) : option B :=
  match d with
  | [] => None
  | (k', v) :: d' => if str_eqb k' k then Some v else dict_get k d'
  end.

Fixpoint dict_del {B} (k : str) (d : list (str * B)) : list (str * B) :=
  match d with
  | [] => []
  | (k', v) :: d' => if str_eqb k' k then d' else (k', v) :: dict_del k d'
  end.

(* ------------------------------------------------------------------ observation values for the harness *)
Definition res_val {A} (f : A -> val) (r : res A) : val :=
  match r with Ok a => f a | Raise e => VErr e end.
Definition pairs_val (l : list (str * str)) : val :=
  VList (map (fun kv => VList [VStr (fst kv); VStr (snd kv)]) l).
Definition entry_val (e : entry) : val := VList [VStr (e_gap e); VStr (e_key e); VStr (e_sep e); VStr (e_val e)].
(* what finditer shows: for every match the text before it since the previous match, group(1), the text between
   the groups, group(2); then the text after the last match *)
Definition scan_val (s : str) : val :=
  let '(es, tail) := scan s in VList [VList (map entry_val es); VStr tail].
