(* C17 — the Range header TEXT layer of a static file response: from the text of the request's
   Range header to (status, Content-Range text, Content-Length text, body bytes), as
   FileApp(...)(GET) + Response.conditional_response_app compute it for a request without
   If-None-Match / If-Modified-Since / If-Range.

   The byte-range text functions are C06's model, used read-only (Model/C06_ByteRange.v:
   match_range = _rx_range.match, range_parse = Range.parse, range_content_range =
   Range.content_range, range_str = Range.__str__, content_range_str = ContentRange.__str__,
   mk_content_range = ContentRange.__init__); the iterators are C17's (Model/C17_static.v:
   full_iter, range_iter).  New here: descriptors.parse_range (the empty-value test and the
   ValueError of int() on more than sys.get_int_max_str_digits() = 4300 digits),
   ContentRange.parse with _rx_content_range, the 416 body text, and the composite.
   Mirrors descriptors.py:239-247, byterange.py:6, 128-146, response.py:1516-1560.
   Domain as in C06: header text of code points < 256 (WSGI native strings).
   Definitions only (no proofs). *)
From Coq Require Import ZArith NArith List Bool.
Require Import Webob.Lib.Val Webob.Model.C17_static.
Require Webob.Model.C06_ByteRange.
Import ListNotations.
Module B := Webob.Model.C06_ByteRange.
Local Open Scope Z_scope.

(* ---------------------------------------------------------------- req.range *)
(* sys.get_int_max_str_digits(): int(s) raises ValueError for a digit string longer than this *)
Definition INT_MAX_STR_DIGITS : nat := 4300.
Definition int_refuses (d : str) : bool := (INT_MAX_STR_DIGITS <? length d)%nat.

(* descriptors.parse_range(environ.get("HTTP_RANGE")):
     if not value: return None
     try: return Range.parse(value)  except ValueError: return None
   Range.parse calls int() on every non-empty group it gets to (start first, then end; on the
   suffix form only end), and the answer is None as soon as one of them is refused, so the
   order does not matter. *)
Definition req_range (h : option str) : option B.range :=
  match h with
  | None => None
  | Some [] => None
  | Some t =>
      match B.match_range t with
      | None => None
      | Some (d1, d2) => if int_refuses d1 || int_refuses d2 then None else B.range_parse t
      end
  end.

(* ---------------------------------------------------------------- ContentRange.parse *)
Definition S_bytes_sp : str := [98; 121; 116; 101; 115; 32]%N.     (* "bytes " *)
Fixpoint strip_prefix (p s : str) : option str :=
  match p with
  | [] => Some s
  | a :: p' => match s with
               | c :: s' => if (a =? c)%N then strip_prefix p' s' else None
               | [] => None
               end
  end.

(* (?:(\d+)|[*]) at the head of s: the group (None for "*") and the rest *)
Definition digits_or_star (s : str) : option (option str * str) :=
  match s with
  | [] => None
  | c :: r =>
      if (c =? 42)%N then Some (None, r)
      else let '(d, r') := B.span B.is_digit s in
           match d with [] => None | _ => Some (Some d, r') end
  end.

(* "/" then (?:(\d+)|[*]) *)
Definition after_slash (se : option (str * str)) (r : str) : option (option (str * str) * option str) :=
  match r with
  | [] => None
  | c :: r' =>
      if (c =? 47)%N then
        match digits_or_star r' with
        | Some (l, _) => Some (se, l)
        | None => None
        end
      else None
  end.

(* _rx_content_range.match(value) = "bytes (?:(\d+)-(\d+)|[*])/(?:(\d+)|[*])", not anchored at the
   end: the groups (s, e, l).  Digits, '-', '*', '/' are pairwise disjoint, so the alternative is
   decided by the first character and the greedy scan is the only match. *)
Definition match_content_range (v : str) : option (option (str * str) * option str) :=
  match strip_prefix S_bytes_sp v with
  | None => None
  | Some [] => None
  | Some (c :: r1) =>
      if (c =? 42)%N then after_slash None r1
      else
        let '(d1, r2) := B.span B.is_digit (c :: r1) in
        match d1, r2 with
        | _ :: _, c2 :: r3 =>
            if (c2 =? 45)%N then
              let '(d2, r4) := B.span B.is_digit r3 in
              match d2 with
              | _ :: _ => after_slash (Some (d1, d2)) r4
              | [] => None
              end
            else None
        | _, _ => None
        end
  end.

(* ContentRange.parse(value) for a value whose digit groups int() accepts *)
Definition cr_parse (v : str) : option B.content_range :=
  match match_content_range v with
  | None => None
  | Some (se, l) =>
      let s := match se with Some (d1, _) => Some (B.dec_val d1) | None => None end in
      let e := match se with Some (_, d2) => Some (B.dec_val d2 + 1) | None => None end in
      let l' := option_map B.dec_val l in
      if B.is_cr_valid s e l' true then B.mk_content_range s e l' else None
  end.

(* ---------------------------------------------------------------- the 416 body *)
(* "Requested range not satisfiable: " *)
Definition S_not_satisfiable : str :=
  [82; 101; 113; 117; 101; 115; 116; 101; 100; 32; 114; 97; 110; 103; 101; 32; 110; 111; 116; 32;
   115; 97; 116; 105; 115; 102; 105; 97; 98; 108; 101; 58; 32]%N.
Definition body_416 (r : B.range) : bytes := S_not_satisfiable ++ B.range_str r.

(* ---------------------------------------------------------------- the composite *)
Record tresp := mkT {
  t_status : Z;
  t_content_range : option str;      (* the Content-Range header, text *)
  t_content_length : str;            (* the Content-Length header, text *)
  t_body : option bytes              (* None: the iterator model ran out of fuel *)
}.

(* GET of a readable regular file holding [content], Range header text [h] (None: no header).
   None = an exception leaves the application (ContentRange.__init__ refusing what
   range_for_length produced; never happens, see Proofs). *)
Definition serve_range_text (k : iter_kind) (content : bytes) (h : option str) : option tresp :=
  let len := Z.of_nat (length content) in
  match req_range h with
  | None => Some (mkT 200 None (B.int_str len) (option_concat (full_iter k content)))
  | Some r =>
      match B.range_content_range r (Some len) with
      | None => None
      | Some None =>
          let b := body_416 r in
          Some (mkT 416 (Some (B.content_range_str (B.CR None None (Some len))))
                    (B.int_str (Z.of_nat (length b))) (Some b))
      | Some (Some (B.CR (Some start) (Some stop) _ as cr)) =>
          Some (mkT 206 (Some (B.content_range_str cr)) (B.int_str (stop - start))
                    (option_concat (range_iter k content start stop)))
      | Some (Some _) => None           (* content_range.start is None: the assert *)
      end
  end.

(* ---------------------------------------------------------------- observations (for correspondence) *)
Definition v_tresp (o : option tresp) : val :=
  match o with
  | None => VErr []
  | Some r => VList [VInt (t_status r);
                     match t_content_range r with Some s => VStr s | None => VNone end;
                     VStr (t_content_length r);
                     match t_body r with Some b => VStr b | None => VErr [] end]
  end.

Definition v_cr (o : option B.content_range) : val :=
  match o with
  | None => VNone
  | Some (B.CR s e l) => VList [B.oz s; B.oz e; B.oz l]
  end.

Definition v_req_range (o : option B.range) : val :=
  match o with
  | None => VNone
  | Some (B.Range s e as r) => VList [VInt s; B.oz e; VStr (B.range_str r)]
  end.
