(* C08 — executable model of webob.multidict.GetDict (multidict.py:290-358): a MultiDict whose every
   successful mutation is written back (on_change) and whose refused writes are rolled back to the
   last written item list.  Definitions only.  The url-encoding of the written pairs is C09's subject;
   here the environ holds the pair list that QUERY_STRING encodes. *)
From Coq Require Import ZArith NArith List Bool.
Require Import Webob.Lib.Val Webob.Lib.PyStr Webob.Model.MultiDict.
Import ListNotations.

Record gd := mkGd { g_items : items;      (* self._items *)
                    g_written : items;    (* self._written: snapshot taken by the last successful on_change *)
                    g_env : items }.      (* what environ["QUERY_STRING"] encodes *)

Inductive gop :=
| GOk (o : op)          (* an operation of the MultiDict interface with text arguments *)
| GBadAdd (k : str)     (* d.add(k, None): a value that cannot be encoded; on_change refuses it *)
| GBadSet (k : str).    (* d[k] = None: the old pairs of k are removed from self._items directly (no write-back of the
                           deletion), the pair is appended, on_change refuses it and restores the snapshot *)

Definition AttributeError : str := [65;116;116;114;105;98;117;116;101;69;114;114;111;114]%N.
Definition is_err (v : val) : bool := match v with VErr _ => true | _ => false end.

Definition gstep (g : gd) (o : gop) : gd * val :=
  match o with
  | GOk OCopy => (g, VNone)                       (* copy() returns an untracked MultiDict; g itself is untouched *)
  | GOk o' =>
      let '(l', ret) := step_i (fun k => k) false md_get_other (g_items g) o' in
      if is_err ret
      then (mkGd l' (g_written g) (g_env g), ret) (* MultiDict.<op> raised: on_change is not reached *)
      else (mkGd l' l' l', ret)                   (* on_change: QUERY_STRING and the snapshot follow the items *)
  | GBadAdd k =>
      (* MultiDict.add appends (k, None); on_change cannot encode it, restores self._items[:] = self._written, re-raises *)
      (mkGd (g_written g) (g_written g) (g_env g), VErr AttributeError)
  | GBadSet k =>
      (mkGd (g_written g) (g_written g) (g_env g), VErr AttributeError)
  end.

Definition gobserve (g : gd) : val := VList [vitems (g_items g); vitems (g_env g)].

Fixpoint grun (ops : list gop) (g : gd) : list val :=
  match ops with
  | [] => []
  | o :: ops' => let '(g', r) := gstep g o in VList [r; gobserve g'] :: grun ops' g'
  end.
Definition run_getdict (init : items) (ops : list gop) : val := VList (grun ops (mkGd init init init)).

(* NoVars (multidict.py:450-520): every mutator raises KeyError, every observation is that of the empty list *)
Definition novars_step (o : op) : val :=
  match o with OCopy => VNone | _ => VErr KeyError end.
