(* C12 — the two attribute tables (response.py:759-811, request.py:263-276, 1093-1185) as data, and
   the machine that runs get / set / del / raw-header operations on a Response header list or a
   Request environ.  Definitions only. *)
From Coq Require Import ZArith NArith List Bool String Ascii.
Require Import Webob.Lib.Val Webob.Lib.PyStr Webob.Lib.C12_PyInt Webob.Model.C12_Headers Webob.Model.C12_ByteRange
               Webob.Model.C12_Dates Webob.Model.C12_CacheControl Webob.Model.C12_AuthCT.
Import ListNotations.

(* ASCII literal -> str *)
Fixpoint s_ (s : string) : str :=
  match s with
  | EmptyString => []
  | String a r => N_of_ascii a :: s_ r
  end.

(* variants of the source the model is parametric in (read from the live tree by the harness) *)
Record cfg := mkCfg { rx_range_anchored : bool;        (* _rx_range ends with " *$" *)
                      suffix_zero_none : bool;         (* Range.parse("bytes=-0") is None *)
                      now_local : fields;              (* _now(): naive local wall clock *)
                      now_utc : Z }.                   (* POSIX time of the same instant *)

(* the instance of parse_date the attribute machine runs: parsedate_tz restricted to the canonical form
   (the harness only feeds it canonical-shaped date texts); time.mktime is then never reached *)
Definition no_local (f : fields) : res Z := Raise ValueError.
Definition cdate (g : cfg) : conv := conv_date (now_utc g) parse_imf no_local.
Definition cdate_delta (g : cfg) : conv := conv_date_delta (now_utc g) parse_imf no_local.

(* ---------------- Response ---------------- *)
Inductive rattr :=
| R_allow | R_vary | R_content_language
| R_content_length | R_age
| R_content_encoding | R_content_location | R_content_md5 | R_content_disposition
| R_accept_ranges | R_location | R_pragma | R_server
| R_content_range
| R_date | R_expires | R_last_modified | R_retry_after
| R_www_authenticate.

Definition rattr_header (a : rattr) : str :=
  s_ match a with
     | R_allow => "Allow" | R_vary => "Vary" | R_content_language => "Content-Language"
     | R_content_length => "Content-Length" | R_age => "Age"
     | R_content_encoding => "Content-Encoding" | R_content_location => "Content-Location"
     | R_content_md5 => "Content-MD5" | R_content_disposition => "Content-Disposition"
     | R_accept_ranges => "Accept-Ranges" | R_location => "Location" | R_pragma => "Pragma"
     | R_server => "Server"
     | R_content_range => "Content-Range"
     | R_date => "Date" | R_expires => "Expires" | R_last_modified => "Last-Modified"
     | R_retry_after => "Retry-After"
     | R_www_authenticate => "WWW-Authenticate"
     end.

Definition rattr_conv (g : cfg) (a : rattr) : conv :=
  match a with
  | R_allow | R_vary | R_content_language => conv_list
  | R_content_length | R_age => conv_int
  | R_content_range => conv_content_range
  | R_date | R_expires | R_last_modified => cdate g
  | R_retry_after => cdate_delta g
  | R_www_authenticate => conv_auth
  | _ => conv_str
  end.

(* ---------------- Request ---------------- *)
Inductive qattr :=
| Q_max_forwards | Q_content_length | Q_server_port
| Q_pragma | Q_referer | Q_user_agent
| Q_range
| Q_date | Q_if_modified_since | Q_if_unmodified_since
| Q_authorization.

Definition qattr_key (a : qattr) : str :=
  s_ match a with
     | Q_max_forwards => "HTTP_MAX_FORWARDS" | Q_content_length => "CONTENT_LENGTH"
     | Q_server_port => "SERVER_PORT"
     | Q_pragma => "HTTP_PRAGMA" | Q_referer => "HTTP_REFERER" | Q_user_agent => "HTTP_USER_AGENT"
     | Q_range => "HTTP_RANGE"
     | Q_date => "HTTP_DATE" | Q_if_modified_since => "HTTP_IF_MODIFIED_SINCE"
     | Q_if_unmodified_since => "HTTP_IF_UNMODIFIED_SINCE"
     | Q_authorization => "HTTP_AUTHORIZATION"
     end.
(* environ_getter(key, None, ...) has a default; environ_getter("SERVER_PORT") has none *)
Definition qattr_dflt (a : qattr) : bool := match a with Q_server_port => false | _ => true end.
Definition qattr_conv (g : cfg) (a : qattr) : conv :=
  match a with
  | Q_max_forwards | Q_content_length | Q_server_port => conv_int
  | Q_range => conv_range (rx_range_anchored g) (suffix_zero_none g)
  | Q_date | Q_if_modified_since | Q_if_unmodified_since => cdate g
  | Q_authorization => conv_auth
  | _ => conv_str
  end.

(* ---------------- operations ---------------- *)
Inductive hop (A : Type) :=
| HGet (a : A)
| HSet (a : A) (v : pyv)
| HDel (a : A)
| HRaw (k v : str)        (* resp.headerlist.append((k, v))  /  req.environ[k] = v *)
| HRawDel (k : str).      (* drop every header named k       /  req.environ.pop(k, None) *)
Arguments HGet {A}. Arguments HSet {A}. Arguments HDel {A}. Arguments HRaw {A}. Arguments HRawDel {A}.

Definition rv (r : res val) : val := match r with Ok v => bigv v | Raise e => VErr e end.
Definition ev (e : option str) : val := match e with None => VNone | Some x => VErr x end.
Definition vpairs (l : pairs) : val := VList (map (fun kv => VList [VStr (fst kv); VStr (snd kv)]) l).

Definition rstep (g : cfg) (hl : pairs) (o : hop rattr) : pairs * val :=
  match o with
  | HGet a => (hl, rv (resp_get (rattr_conv g a) (rattr_header a) hl))
  | HSet a v => let '(hl', e) := resp_set (rattr_conv g a) (rattr_header a) v hl in (hl', ev e)
  | HDel a => (resp_del (rattr_header a) hl, VNone)
  | HRaw k v => (hl ++ [(k, v)], VNone)
  | HRawDel k => (hg_del (lower k) hl, VNone)
  end.

Definition qstep (g : cfg) (env : pairs) (o : hop qattr) : pairs * val :=
  match o with
  | HGet a => (env, rv (req_get (qattr_conv g a) (qattr_dflt a) (qattr_key a) env))
  | HSet a v => let '(e', x) := req_set (qattr_conv g a) (qattr_key a) v env in (e', ev x)
  | HDel a => let '(e', x) := eg_del (qattr_dflt a) (qattr_key a) env in (e', ev x)
  | HRaw k v => (env_put k v env, VNone)
  | HRawDel k => (env_remove k env, VNone)
  end.

(* run a history: result of every step and the store after it.  The request store is observed
   through a fixed list of watched keys *)
Fixpoint rrun (g : cfg) (ops : list (hop rattr)) (hl : pairs) : list val :=
  match ops with
  | [] => []
  | o :: ops' => let '(hl', r) := rstep g hl o in VList [r; vpairs hl'] :: rrun g ops' hl'
  end.
Definition run_resp (g : cfg) (init : pairs) (ops : list (hop rattr)) : val := VList (rrun g ops init).

Definition watch (keys : list str) (env : pairs) : val :=
  VList (map (fun k => oval (env_get k env)) keys).
Fixpoint qrun (g : cfg) (keys : list str) (ops : list (hop qattr)) (env : pairs) : list val :=
  match ops with
  | [] => []
  | o :: ops' => let '(e', r) := qstep g env o in VList [r; watch keys e'] :: qrun g keys ops' e'
  end.
Definition run_req (g : cfg) (keys : list str) (init : pairs) (ops : list (hop qattr)) : val :=
  VList (qrun g keys ops init).
