(* C12 — executable model of webob/datetime_utils.py:62-123 (parse_date, serialize_date, parse_date_delta,
   serialize_date_delta) as REPAIRED by fixes/C12-04 .. C12-07, together with the stdlib functions they
   call: calendar.timegm, email.utils.mktime_tz, datetime.fromtimestamp(t, UTC), email.utils.formatdate
   (usegmt=True).  email.utils.parsedate_tz is a PARAMETER of parse_date ([pd]); [parse_imf] is its
   behaviour on the canonical IMF-fixdate form that formatdate produces.  time.mktime (used by mktime_tz
   when the text names no zone) is a parameter as well ([mk_local]): it is the only place where the
   process time zone could enter, and the canonical form never reaches it.  Definitions only. *)
From Coq Require Import ZArith NArith List Bool.
Require Import Webob.Lib.Val Webob.Lib.PyStr Webob.Lib.C12_PyInt Webob.Lib.C12_Civil Webob.Model.C12_Headers.
Import ListNotations.
Local Open Scope Z_scope.

(* (year, month, day, hour, minute, second) *)
Definition fields := (Z * Z * Z * Z * Z * Z)%type.

(* datetime.date(year, month, 1): ValueError unless 1 <= year <= 9999 and 1 <= month <= 12 *)
Definition date_ok (y m : Z) : bool := (1 <=? y) && (y <=? 9999) && (1 <=? m) && (m <=? 12).

(* calendar.timegm *)
Definition timegm (f : fields) : res Z :=
  let '(y, m, d, hh, mi, ss) := f in
  if date_ok y m
  then Ok ((((days_from_civil y m 1 + d - 1) * 24 + hh) * 60 + mi) * 60 + ss)
  else Raise ValueError.

(* datetime.fromtimestamp(t, UTC) / datetime.utcfromtimestamp for integer t: 0001-01-01 .. 9999-12-31 *)
Definition ts_min : Z := -62135596800.
Definition ts_max : Z := 253402300799.
Definition fields_of_ts (t : Z) : fields :=
  let days := t / 86400 in
  let sod := t mod 86400 in
  let '(y, m, d) := civil_from_days days in
  (y, m, d, sod / 3600, (sod / 60) mod 60, sod mod 60).
Definition fromtimestamp (t : Z) : res fields :=
  if (ts_min <=? t) && (t <=? ts_max) then Ok (fields_of_ts t) else Raise ValueError.

(* ------------------------------------------------------------------ formatdate(t, usegmt=True) *)
Definition wd_name (w : Z) : N * N * N :=
  match w with
  | 0 => (77, 111, 110)%N | 1 => (84, 117, 101)%N | 2 => (87, 101, 100)%N | 3 => (84, 104, 117)%N
  | 4 => (70, 114, 105)%N | 5 => (83, 97, 116)%N | _ => (83, 117, 110)%N
  end.
Definition mon_name (m : Z) : N * N * N :=
  match m with
  | 1 => (74, 97, 110)%N | 2 => (70, 101, 98)%N | 3 => (77, 97, 114)%N | 4 => (65, 112, 114)%N
  | 5 => (77, 97, 121)%N | 6 => (74, 117, 110)%N | 7 => (74, 117, 108)%N | 8 => (65, 117, 103)%N
  | 9 => (83, 101, 112)%N | 10 => (79, 99, 116)%N | 11 => (78, 111, 118)%N | _ => (68, 101, 99)%N
  end.
Definition dg (n : Z) : N := (48 + Z.to_N n)%N.

(* '%s, %02d %s %04d %02d:%02d:%02d GMT' for fields in their proper ranges *)
Definition format_fields (w : Z) (f : fields) : str :=
  let '(y, m, d, hh, mi, ss) := f in
  let '(w1, w2, w3) := wd_name w in
  let '(m1, m2, m3) := mon_name m in
  [w1; w2; w3; 44; 32; dg (d / 10); dg (d mod 10); 32; m1; m2; m3; 32;
   dg (y / 1000); dg ((y / 100) mod 10); dg ((y / 10) mod 10); dg (y mod 10); 32;
   dg (hh / 10); dg (hh mod 10); 58; dg (mi / 10); dg (mi mod 10); 58; dg (ss / 10); dg (ss mod 10);
   32; 71; 77; 84]%N.

Definition format_date (t : Z) : res str :=
  match fromtimestamp t with
  | Ok f => Ok (format_fields (weekday_of_days (t / 86400)) f)
  | Raise e => Raise e
  end.

(* ------------------------------------------------------------------ parsedate_tz on the canonical form *)
(* the 10-tuple of parsedate_tz, reduced to what mktime_tz reads: fields and the zone offset (None: no zone) *)
Definition ptuple := (fields * option Z)%type.

Definition mon_lookup (a b c : N) : option Z :=
  (fix go (l : list Z) : option Z :=
     match l with
     | [] => None
     | m :: l' => let '(x, y, z) := mon_name m in
                  if ((x =? a) && (y =? b) && (z =? c))%N then Some m else go l'
     end) [1; 2; 3; 4; 5; 6; 7; 8; 9; 10; 11; 12].
Definition wd_known (a b c : N) : bool :=
  existsb (fun w => let '(x, y, z) := wd_name w in ((x =? a) && (y =? b) && (z =? c))%N) [0; 1; 2; 3; 4; 5; 6].

Definition dv (c : N) : Z := Z.of_N (c - 48).

(* "Www, DD Mon YYYY HH:MM:SS GMT": day name not cross-checked (parsedate_tz skips it); numeric fields not
   range-checked (parsedate_tz does not); years below 100 get the POSIX two-digit-year treatment *)
Definition parse_imf (s : str) : option ptuple :=
  match s with
  | [w1; w2; w3; c4; c5; d1; d2; c8; m1; m2; m3; c12; y1; y2; y3; y4; c17; h1; h2; c20; i1; i2; c23; s1; s2; c26; g; m; t] =>
      if (wd_known w1 w2 w3 && (c4 =? 44) && (c5 =? 32) && (c8 =? 32) && (c12 =? 32) && (c17 =? 32) && (c20 =? 58)
          && (c23 =? 58) && (c26 =? 32) && (g =? 71) && (m =? 77) && (t =? 84)
          && forallb is_digit [d1; d2; y1; y2; y3; y4; h1; h2; i1; i2; s1; s2])%N
      then match mon_lookup m1 m2 m3 with
           | Some mo =>
               let yy := ((dv y1 * 10 + dv y2) * 10 + dv y3) * 10 + dv y4 in
               let yy := if yy <? 100 then (if yy >? 68 then yy + 1900 else yy + 2000) else yy in
               Some ((yy, mo, dv d1 * 10 + dv d2, dv h1 * 10 + dv h2, dv i1 * 10 + dv i2, dv s1 * 10 + dv s2), Some 0)
           | None => None
           end
      else None
  | _ => None
  end.

(* ------------------------------------------------------------------ parse_date *)
Definition dt_tag : str := [100; 116]%N.
(* an aware datetime in UTC / a naive one, as the harness observes them *)
Definition dt_val (f : fields) (off : option Z) : val :=
  let '(y, m, d, hh, mi, ss) := f in
  VList [VStr dt_tag; VInt y; VInt m; VInt d; VInt hh; VInt mi; VInt ss;
         match off with Some o => VInt o | None => VNone end].

Section ParseDate.
  Variable pd : str -> option ptuple.            (* email.utils.parsedate_tz: a tuple or None *)
  Variable mk_local : fields -> res Z.           (* time.mktime: depends on the process zone, may raise *)

  (* email.utils.mktime_tz *)
  Definition mktime_tz (t : ptuple) : res Z :=
    match snd t with
    | None => mk_local (fst t)
    | Some off => match timegm (fst t) with Ok x => Ok (x - off) | Raise e => Raise e end
    end.

  (* parse_date WITHOUT the try/except of fixes/C12-04 *)
  Definition parse_date_unguarded (v : option str) : res val :=
    match v with
    | None | Some [] => Ok VNone
    | Some s =>
        match pd s with
        | None => Ok VNone
        | Some t => match mktime_tz t with
                    | Raise e => Raise e
                    | Ok x => match fromtimestamp x with
                              | Raise e => Raise e
                              | Ok f => Ok (dt_val f (Some 0))
                              end
                    end
        end
    end.

  (* parse_date: (ValueError, OverflowError, OSError) -> None *)
  Definition parse_date (v : option str) : res val :=
    match parse_date_unguarded v with
    | Raise _ => Ok VNone
    | r => r
    end.
End ParseDate.

(* ------------------------------------------------------------------ serialize_date *)
Section Now.
  (* the POSIX time of the instant _now() (a naive local wall-clock reading) denotes *)
  Variable now_utc : Z.

  (* the POSIX second a date value denotes (naive datetimes are UTC by convention) *)
  Definition instant (v : pyv) : res Z :=
    match v with
    | PDateTime y mo d h mi s None => timegm (y, mo, d, h, mi, s)
    | PDateTime y mo d h mi s (Some off) =>
        match timegm (y, mo, d, h, mi, s) with Ok x => Ok (x - off) | Raise e => Raise e end
    | PDate y mo d => timegm (y, mo, d, 0, 0, 0)
    | PInt z => Ok z
    | PDelta secs => Ok (now_utc + secs)
    | _ => Raise ValueError
    end.

  Definition serialize_date (v : pyv) : res (option str) :=
    match v with
    | PStr s => Ok (Some s)
    | _ => match instant v with
           | Raise e => Raise e
           | Ok t => match format_date t with Ok s => Ok (Some s) | Raise e => Raise e end
           end
    end.

  Definition conv_date pd mk_local : conv := mkConv (parse_date pd mk_local) serialize_date.

  (* ---------------------------------------------------------------- delta seconds *)
  (* timedelta(seconds=v): OverflowError beyond 999999999 days; datetime + timedelta: OverflowError outside
     years 1..9999.  As repaired by fixes/C12-16 the result is _now().astimezone(UTC) + delta: an aware UTC
     datetime like the one parse_date gives.  parse_date_delta WITHOUT the try/except of fixes/C12-05 *)
  Definition max_delta_days : Z := 999999999.
  Definition now_plus (secs : Z) : res fields :=
    if (Z.abs (secs / 86400) >? max_delta_days) then Raise OverflowError
    else let t := now_utc + secs in
         if (ts_min <=? t) && (t <=? ts_max) then Ok (fields_of_ts t) else Raise OverflowError.

  Definition parse_date_delta_unguarded pd mk_local (v : option str) : res val :=
    match v with
    | None | Some [] => Ok VNone
    | Some s =>
        match py_int s with
        | None => parse_date pd mk_local v
        | Some z => match now_plus z with
                    | Ok f => Ok (dt_val f (Some 0))
                    | Raise e => Raise e
                    end
        end
    end.
  Definition parse_date_delta pd mk_local (v : option str) : res val :=
    match parse_date_delta_unguarded pd mk_local v with
    | Raise _ => Ok VNone
    | r => r
    end.

  (* serialize_date_delta: numbers are seconds *)
  Definition serialize_date_delta (v : pyv) : res (option str) :=
    match v with
    | PInt z => if Nat.leb (ndigits z) max_str_digits then Ok (Some (str_of_Z z)) else Raise ValueError
    | _ => serialize_date v
    end.
  Definition conv_date_delta pd mk_local : conv := mkConv (parse_date_delta pd mk_local) serialize_date_delta.
End Now.
