(* C10 — the TEXT layer of CONTENT_LENGTH: webob.descriptors.parse_int / parse_int_safe
   (descriptors.py:269-281) and BaseRequest.content_length = converter(environ_getter("CONTENT_LENGTH",
   None), parse_int_safe, serialize_int) (request.py:266-271), composed with the body model of
   Model/C10_BodyStream.v.  Definitions only, no proofs.

       def parse_int(value):                      def parse_int_safe(value):
           if value is None or value == "":           if value is None or value == "":
               return None                                return None
           return int(value)                          try:
                                                          return int(value)
                                                      except ValueError:
                                                          return None

   int(str) is CPython's: the model is C12's [py_int] (Lib/C12_PyInt.v, reused read-only; tied to CPython
   3.12 by C12's `py_int` correspondence and, for this file, by the two C10 correspondences
   `parse_int_safe-texts` and `content-length-texts` of harness/props/c10.py):
     - surrounding whitespace \t \n \v \f \r SP, NEL (0x85), NBSP (0xA0) is ignored; 0x1C-0x1F is not;
     - one optional sign, then decimal digits with single underscores allowed BETWEEN digits;
     - more than 4300 digit characters (sys.get_int_max_str_digits(); leading zeros count) is a ValueError;
     - anything else is a ValueError.
   DOMAIN: texts whose code points are < 256 (a WSGI environ value is a latin-1 native string, PEP 3333);
   decimal digits beyond U+00FF (which int() also accepts) are outside it.

   What the body code does with the result (request.py, is_body_readable / body_file):
     text absent, "", or not an int() literal  ->  content_length is None: the body is empty and nothing is
                                                   read, unless the environ marks the input as terminated
     parses to z <= 0 ("0", "00", "-1", "-0")  ->  not readable: empty body, nothing read
     parses to z > 0                           ->  exactly the first z bytes *)
From Coq Require Import ZArith NArith List Bool.
Require Import Webob.Lib.Val Webob.Model.C10_BodyStream.
Require Webob.Lib.C12_PyInt.
Import ListNotations.

(* int(s); None stands for ValueError *)
Definition py_int (s : str) : option Z := C12_PyInt.py_int s.

Inductive pint :=
| PNone                (* returns None *)
| PInt (z : Z)         (* returns the int *)
| PValueError.         (* raises ValueError *)

(* descriptors.parse_int: the environ value (None = key absent) *)
Definition parse_int (value : option str) : pint :=
  match value with
  | None => PNone
  | Some [] => PNone
  | Some s => match py_int s with Some z => PInt z | None => PValueError end
  end.

(* descriptors.parse_int_safe: the same under `except ValueError: return None` *)
Definition parse_int_safe (value : option str) : option Z :=
  match parse_int value with
  | PInt z => Some z
  | PNone | PValueError => None
  end.

(* the total text -> option Z function on an environ text that is present *)
Definition parse_int_safe_text (s : str) : option Z := parse_int_safe (Some s).

(* BaseRequest.content_length (getter): parse_int_safe(environ.get("CONTENT_LENGTH")) *)
Definition content_length (cl_text : option str) : option Z := parse_int_safe cl_text.

(* is_body_readable on a fresh environ, from the text *)
Definition readable_text (cl_text : option str) (tm : option bool) (lg : bool) : bool :=
  readable (mkReq (content_length cl_text) false tm lg 0 None 0%Z None true).

(* observations for the correspondences *)
Definition pint_val (p : pint) : val :=
  match p with
  | PNone => VNone
  | PInt z => C12_PyInt.vint z
  | PValueError => VErr C12_PyInt.ValueError
  end.
Definition ozbig (o : option Z) : val := match o with Some z => C12_PyInt.vint z | None => VNone end.

(* [parse_int_safe(t), parse_int(t)] *)
Definition parse_obs (t : option str) : val := VList [ozbig (parse_int_safe t); pint_val (parse_int t)].

(* a request built over an environ whose CONTENT_LENGTH is the TEXT [t]:
   [content_length, is_body_readable, observations of the history] *)
Definition run_obs_text (chunk : nat) (s : bytes) (t : option str) (sk : bool) (tm : option bool) (lg : bool)
           (lim : Z) (hist : list step) : val :=
  VList [ozbig (content_length t); VBool (readable_text t tm lg);
         run_obs chunk s (content_length t) sk tm lg lim hist].
