(* C09 — executable model of webob's query / urlencoded-form codec (REPAIRED code, see
   fixes/C09-unquote-malformed-escape.patch):
     util.py:7-33        _hextobyte, unquote
     util.py:40-52       parse_qsl_text
     urllib.parse        quote_plus / urlencode on bytes pairs (stdlib: modelled, validated, not verified)
     multidict.py:289-357 GetDict.on_change and the mutators that call it
     request.py:827-852  BaseRequest.GET (cache in environ['webob._parsed_query_vars'])
     request.py:861-868  BaseRequest.params
     request.py:1798-1812 Transcoder.transcode_query (REPAIRED: fixes/C09-9-transcode-bare-names.patch)
   Definitions only (no proofs). *)
From Coq Require Import ZArith NArith List Bool.
Require Import Webob.Lib.Val Webob.Lib.PyStr Webob.Lib.C09_Utf8 Webob.Model.MultiDict.
Import ListNotations.
Local Open Scope N_scope.

(* outcome of a Python call that may raise one of the two Unicode errors *)
Inductive res (A : Type) :=
| Ok (a : A)
| UnicodeDecodeError
| UnicodeEncodeError.
Arguments Ok {A} a.
Arguments UnicodeDecodeError {A}.
Arguments UnicodeEncodeError {A}.

(* ---------------------------------------------------------------- util.unquote *)

(* one key character of _hextobyte: 0-9 A-F a-f *)
Definition hexval (c : N) : option N :=
  if (48 <=? c) && (c <=? 57) then Some (c - 48)
  else if (65 <=? c) && (c <=? 70) then Some (c - 55)
  else if (97 <=? c) && (c <=? 102) then Some (c - 87)
  else None.

(* try: _hextobyte[item[:2]] + item[2:]   except KeyError: b"%" + item *)
Definition unq_item (item : str) : str :=
  match item with
  | a :: b :: tl =>
      match hexval a, hexval b with
      | Some x, Some y => (16 * x + y) :: tl
      | _, _ => 37 :: item
      end
  | _ => 37 :: item
  end.

Definition unquote (s : str) : str :=
  match s with
  | [] => []                                      (* if not string: return b"" *)
  | _ =>
      match split_c 37 s with                     (* res = string.split(b"%") *)
      | r0 :: ((_ :: _) as rest) =>               (* len(res) != 1 *)
          fold_left (fun acc item => acc ++ unq_item item) rest r0
      | _ => s
      end
  end.

(* ---------------------------------------------------------------- util.parse_qsl_text *)

Definition plus_to_space (s : str) : str := replace_c 43 [32] s.   (* qs.replace(b"+", b" ") *)
Definition nonempty (s : str) : bool := match s with [] => false | _ => true end.

(* [s2 for s1 in qs.split(b"&") for s2 in s1.split(b";") if s2] *)
Definition qs_pairs (qs : str) : list str :=
  filter nonempty (flat_map (split_c 59) (split_c 38 qs)).

Section Parse.
  (* bytes.decode(encoding), always errors='strict': None = UnicodeDecodeError *)
  Variable decode : list N -> option str.

  (* nv = name_value.split(b"=", 1); missing value -> "" ; decode name, then value *)
  Definition parse_pair (nv : str) : option (str * str) :=
    let '(n, _, v) := partition_c 61 nv in
    match decode (unquote n) with
    | None => None
    | Some n' =>
        match decode (unquote v) with
        | None => None
        | Some v' => Some (n', v')
        end
    end.

  Fixpoint parse_pairs (l : list str) : option items :=
    match l with
    | [] => Some []
    | nv :: l' =>
        match parse_pair nv with
        | None => None
        | Some p => option_map (cons p) (parse_pairs l')
        end
    end.

  Definition parse_qsl_text (qs : str) : res items :=
    if forallb is_octet qs                                  (* qs.encode("latin-1") *)
    then match parse_pairs (qs_pairs (plus_to_space qs)) with
         | Some l => Ok l
         | None => UnicodeDecodeError
         end
    else UnicodeEncodeError.
End Parse.

(* ---------------------------------------------------------------- urllib.parse.quote_plus / urlencode *)

Definition always_safe (c : N) : bool :=
  ((65 <=? c) && (c <=? 90)) || ((97 <=? c) && (c <=? 122)) || ((48 <=? c) && (c <=? 57))
  || (c =? 95) || (c =? 46) || (c =? 45) || (c =? 126).

Definition hex_upper (n : N) : N := if n <? 10 then 48 + n else 55 + n.     (* '%02X' *)

Definition quote_plus_byte (c : N) : str :=
  if always_safe c then [c]
  else if c =? 32 then [43]
  else [37; hex_upper (c / 16); hex_upper (c mod 16)].

Definition quote_plus (b : list N) : str := flat_map quote_plus_byte b.

(* urlencode(list of (bytes, bytes)) *)
Definition urlencode_b (l : list (list N * list N)) : str :=
  join [38] (map (fun kv => quote_plus (fst kv) ++ [61] ++ quote_plus (snd kv)) l).

(* GetDict.on_change: env["QUERY_STRING"] = url_encode([(k.encode("utf8"), v.encode("utf8")) ...]);
   also urlencode(list of (str, str)), which quotes the UTF-8 encoding of each string *)
Definition on_change (l : items) : str :=
  urlencode_b (map (fun kv => (utf8_encode (fst kv), utf8_encode (snd kv))) l).

(* ---------------------------------------------------------------- BaseRequest.GET with its cache *)

Record rq := mkRq { rq_qs : str;                              (* environ['QUERY_STRING'] *)
                    rq_cache : option (items * str) }.        (* environ['webob._parsed_query_vars'] *)

Definition parse_utf8 := parse_qsl_text utf8_decode.

(* the GET property: returns the (possibly cached) variables and the new environ *)
Definition get_vars (r : rq) : res items * rq :=
  let reparse :=
    match (match rq_qs r with [] => Ok [] | _ => parse_utf8 (rq_qs r) end) with
    | Ok l => (Ok l, mkRq (rq_qs r) (Some (l, rq_qs r)))
    | e => (e, r)
    end in
  match rq_cache r with
  | Some (vars, q) => if str_eqb q (rq_qs r) then (Ok vars, r) else reparse
  | None => reparse
  end.

Inductive rq_op :=
| RGet (o : op)            (* req.GET.<op> *)
| RSetQS (s : str).        (* req.environ['QUERY_STRING'] = s (by anybody) *)

Definition is_err (v : val) : bool := match v with VErr _ => true | _ => false end.
Definition is_copy (o : op) : bool := match o with OCopy => true | _ => false end.

Definition E_UnicodeDecodeError : str :=
  [85;110;105;99;111;100;101;68;101;99;111;100;101;69;114;114;111;114].
Definition E_UnicodeEncodeError : str :=
  [85;110;105;99;111;100;101;69;110;99;111;100;101;69;114;114;111;114].

Definition res_err {A} (r : res A) : val :=
  match r with
  | Ok _ => VNone
  | UnicodeDecodeError => VErr E_UnicodeDecodeError
  | UnicodeEncodeError => VErr E_UnicodeEncodeError
  end.

(* one step; the returned val is the op's return value / exception *)
Definition rq_step (r : rq) (o : rq_op) : rq * val :=
  match o with
  | RSetQS s => (mkRq s (rq_cache r), VNone)
  | RGet o' =>
      match get_vars r with
      | (Ok l, r1) =>
          let '(l', ret) := step_i (fun k => k) false md_get_other l o' in
          if is_err ret || is_copy o'
          then (r1, ret)                       (* raised before on_change / untracked copy *)
          else let q := on_change l' in (mkRq q (Some (l', q)), ret)
      | (e, r1) => (r1, res_err e)
      end
  end.

(* observation after a step: [ret; list(req.GET.items()) or the exception; QUERY_STRING] *)
Definition rq_observe (r : rq) : val * rq :=
  match get_vars r with
  | (Ok l, r1) => (vitems l, r1)
  | (e, r1) => (res_err e, r1)
  end.

Fixpoint rq_run (ops : list rq_op) (r : rq) : list val :=
  match ops with
  | [] => []
  | o :: ops' =>
      let '(r1, ret) := rq_step r o in
      let '(obs, r2) := rq_observe r1 in
      VList [ret; obs; VStr (rq_qs r2)] :: rq_run ops' r2
  end.
Definition run_request_get (qs0 : str) (ops : list rq_op) : val := VList (rq_run ops (mkRq qs0 None)).

(* ---------------------------------------------------------------- params *)
(* NestedMultiDict(self.GET, self.POST) *)
Definition params_items (get post : items) : items := nested_items [get; post].

(* ---------------------------------------------------------------- Transcoder.transcode_query *)
Section Transcode.
  Variable decode : list N -> option str.     (* bytes.decode(charset) of the source charset *)
  (* "&".join(quote_plus(name) for name, _ in q): names without values keep that form *)
  Definition bare_names (l : items) : str :=
    join [38] (map (fun kv => quote_plus (utf8_encode (fst kv))) l).
  Definition transcode_query (q : str) : res str :=
    match parse_qsl_text decode q with                       (* parsed first: errors surface for every q *)
    | Ok l => if mem_n 61 q then Ok (on_change l)            (* url_encode(list of (str, str)) *)
              else Ok (bare_names l)                         (* "=" not in q_orig *)
    | UnicodeDecodeError => UnicodeDecodeError
    | UnicodeEncodeError => UnicodeEncodeError
    end.
End Transcode.

(* bytes.decode('latin-1') never fails (bytes are octets; anything else is not a bytes object) *)
Definition latin1_decode (b : list N) : option str := if forallb is_octet b then Some b else None.

(* bytes.decode('ascii').  Transcoder(charset, errors).transcode_query calls parse_qsl_text(q, charset), which
   decodes strictly whatever `errors` is: the handler does not reach the query / urlencoded path, and the model
   says so by having no such parameter *)
Definition ascii_decode_strict (b : list N) : option str := if forallb (fun c => c <? 128) b then Some b else None.

(* ---------------------------------------------------------------- val renderings for the correspondence *)
Definition v_unquote (s : str) : val := VStr (unquote s).
Definition v_res_items (r : res items) : val := match r with Ok l => vitems l | e => res_err e end.
Definition v_parse (qs : str) : val := v_res_items (parse_utf8 qs).
Definition v_parse_latin1 (qs : str) : val := v_res_items (parse_qsl_text latin1_decode qs).
Definition v_on_change (l : items) : val := VStr (on_change l).
Definition v_res_str (r : res str) : val := match r with Ok s => VStr s | e => res_err e end.
Definition v_transcode_latin1 (q : str) : val := v_res_str (transcode_query latin1_decode q).
Definition v_transcode_ascii (q : str) : val := v_res_str (transcode_query ascii_decode_strict q).
Definition v_utf8_decode (b : list N) : val :=
  match utf8_decode b with Some s => VStr s | None => VErr E_UnicodeDecodeError end.
Definition v_utf8_encode (s : str) : val := VStr (utf8_encode s).
