(* C18 — executable model of webob.exc error-response generation.  Definitions only.

   Mirrors (src/webob):
     util.py   html_escape                       -> html_escape
     exc.py    no_escape, strip_tags             -> no_escape, strip_tags (three re.sub as scanners)
               string.Template.safe_substitute   -> tmpl_parse + subst      (stdlib, modelled)
               WSGIHTTPException._make_body      -> make_body (args table incl. environ / header slots)
               html_body / plain_body / json_body-> html_body / plain_body / json_body (json.dumps of
                                                    a three-key dict of str, ensure_ascii, modelled)
               generate_response                 -> choose (acceptable_offers for the two fixed offers,
                                                    fed with the real parser's ranges) + generate
               __call__                          -> call  (has_body / empty_body / HEAD)
               status_map construction loop      -> build_status_map
   The class table (code, title, explanation, template, flags) is regenerated from the live module
   into Gen/C18_exctable.v on every run. *)
From Coq Require Import NArith List Bool String Ascii.
Require Import Webob.Lib.Val Webob.Lib.PyStr.
Import ListNotations.
Local Open Scope N_scope.

(* ASCII literal -> str *)
Fixpoint A (s : string) : str :=
  match s with
  | EmptyString => []
  | String a r => N_of_ascii a :: A r
  end.

(* ------------------------------------------------------------------ class table entry *)
Record excls := mkCls {
  c_name : str;
  c_code : N;                (* 0 when the class has no (truthy) code *)
  c_title : str;
  c_expl : str;              (* explanation after the module-level whitespace normalisation *)
  c_tmpl : str;              (* body_template_obj.template *)
  c_custom : bool;           (* body_template_obj is not WSGIHTTPException.body_template_obj *)
  c_empty : bool;            (* empty_body *)
  c_family : bool;           (* issubclass(value, (HTTPOk, HTTPRedirection, HTTPClientError, HTTPServerError)) *)
  c_excluded : bool;         (* value in (HTTPRedirection, HTTPClientError, HTTPServerError) *)
  c_public : bool            (* not name.startswith("_") *)
}.

Record tcfg := mkCfg { html_tmpl : str; plain_tmpl : str }.

(* caller/request supplied text *)
Record inp := mkInp {
  i_detail : str;                    (* self.detail or "" *)
  i_comment : str;                   (* self.comment or "" *)
  i_headers : list (str * str);      (* self.headers.items() when the body is made *)
  i_environ : list (str * str)       (* str-valued environ entries *)
}.

(* ------------------------------------------------------------------ str(int) *)
Fixpoint dec_fuel (fuel : nat) (n : N) (acc : str) : str :=
  match fuel with
  | O => acc
  | S f => let acc' := (48 + n mod 10) :: acc in
           if n / 10 =? 0 then acc' else dec_fuel f (n / 10) acc'
  end.
Definition dec (n : N) : str := dec_fuel (S (N.to_nat (N.size n))) n [].

(* ------------------------------------------------------------------ util.html_escape
   html.escape(s, quote=True) followed by .encode("ascii", "xmlcharrefreplace") *)
Definition esc_char (c : N) : str :=
  if c =? 38 then A "&amp;"
  else if c =? 60 then A "&lt;"
  else if c =? 62 then A "&gt;"
  else if c =? 34 then A "&quot;"
  else if c =? 39 then A "&#x27;"
  else if c <? 128 then [c]
  else A "&#" ++ dec c ++ A ";".
Definition html_escape (s : str) : str := flat_map esc_char s.

Definition no_escape (s : str) : str := s.

(* ------------------------------------------------------------------ string.Template
   pattern  \$(?:(\$)|((?a:[_a-z][_a-z0-9]* ))|{((?a:[_a-z][_a-z0-9]* ))}|())   re.IGNORECASE *)
Definition is_id_start (c : N) : bool :=
  (c =? 95) || ((97 <=? c) && (c <=? 122)) || ((65 <=? c) && (c <=? 90)).
Definition is_idc (c : N) : bool := is_id_start c || ((48 <=? c) && (c <=? 57)).

Fixpoint take_while (f : N -> bool) (s : str) : str :=
  match s with
  | c :: r => if f c then c :: take_while f r else []
  | [] => []
  end.

Inductive item :=
| C (c : N)                       (* literal character *)
| V (name : str) (braced : bool). (* $name or ${name} *)

Definition raw (name : str) (braced : bool) : str :=
  if braced then 36 :: 123 :: name ++ [125] else 36 :: name.

(* left-to-right scan; [skip] = characters of an already recognised placeholder still to pass *)
Fixpoint tmpl_scan (skip : nat) (s : str) : list item :=
  match s with
  | [] => []
  | c :: r =>
    match skip with
    | S k => tmpl_scan k r
    | O =>
      if c =? 36 then
        match r with
        | [] => [C 36]
        | d :: r' =>
          if d =? 36 then C 36 :: tmpl_scan 1 r
          else if is_id_start d then
            let nm := take_while is_idc r in V nm false :: tmpl_scan (List.length nm) r
          else if d =? 123 then
            let nm := take_while is_idc r' in
            match nm with
            | [] => C 36 :: tmpl_scan 0 r
            | n0 :: _ =>
              if is_id_start n0 && (nth (List.length nm) r' 0 =? 125)
              then V nm true :: tmpl_scan (List.length nm + 2) r
              else C 36 :: tmpl_scan 0 r
            end
          else C 36 :: tmpl_scan 0 r
        end
      else C c :: tmpl_scan 0 r
    end
  end.
Definition tmpl_parse (s : str) : list item := tmpl_scan 0 s.

(* safe_substitute: a missing name leaves the placeholder text *)
Definition subst_item (f : str -> option str) (it : item) : str :=
  match it with
  | C c => [c]
  | V n b => match f n with Some v => v | None => raw n b end
  end.
Definition subst (its : list item) (f : str -> option str) : str := flat_map (subst_item f) its.

(* substitute: a missing name raises KeyError *)
Fixpoint subst_strict (its : list item) (f : str -> option str) : option str :=
  match its with
  | [] => Some []
  | C c :: r => option_map (cons c) (subst_strict r f)
  | V n _ :: r => match f n, subst_strict r f with
                  | Some v, Some t => Some (v ++ t)
                  | _, _ => None
                  end
  end.

(* ------------------------------------------------------------------ _make_body *)
(* dict semantics: the last assignment to a key wins *)
Fixpoint assoc_last (k : str) (l : list (str * str)) : option str :=
  match l with
  | [] => None
  | (k', v) :: r => match assoc_last k r with
                    | Some x => Some x
                    | None => if str_eqb k' k then Some v else None
                    end
  end.

Definition nonempty (s : str) : bool := match s with [] => false | _ => true end.

Definition html_comment (esc : str -> str) (comment : str) : str :=
  if nonempty comment then A "<!-- " ++ esc comment ++ A " -->" else [].

Definition base_args (esc : str -> str) (cl : excls) (i : inp) (n : str) : option str :=
  if str_eqb n (A "explanation") then Some (esc (c_expl cl))
  else if str_eqb n (A "detail") then Some (esc (i_detail i))
  else if str_eqb n (A "comment") then Some (esc (i_comment i))
  else if str_eqb n (A "html_comment") then Some (html_comment esc (i_comment i))
  else None.

Definition lower_keys (l : list (str * str)) : list (str * str) :=
  map (fun kv => (lower (fst kv), snd kv)) l.

(* value of an environ / header slot (custom templates only); headers are written last *)
Definition override (i : inp) (n : str) : option str :=
  match assoc_last n (lower_keys (i_headers i)) with
  | Some v => Some v
  | None => assoc_last n (i_environ i)
  end.

Definition args (esc : str -> str) (cl : excls) (i : inp) (n : str) : option str :=
  if c_custom cl then
    match override i n with
    | Some v => Some (esc v)
    | None => base_args esc cl i n
    end
  else base_args esc cl i n.

Definition make_body (esc : str -> str) (cl : excls) (i : inp) : str :=
  subst (tmpl_parse (c_tmpl cl)) (args esc cl i).

(* ------------------------------------------------------------------ strip_tags *)
Definition has_gt (s : str) : bool := existsb (N.eqb 62) s.

(* br_re = <br.*?>  (re.I | re.S)  -> "\n" *)
Definition is_br (r : str) : bool :=
  match r with
  | b :: r2 :: rest => (lower_c b =? 98) && (lower_c r2 =? 114) && has_gt rest
  | _ => false
  end.
Fixpoint sub_br (inside : bool) (s : str) : str :=
  match s with
  | [] => []
  | c :: r =>
    if inside then (if c =? 62 then sub_br false r else sub_br true r)
    else if (c =? 60) && is_br r then 10 :: sub_br true r
    else c :: sub_br false r
  end.

(* comment_re = <!--|-->  -> "" *)
Fixpoint sub_cm (skip : nat) (s : str) : str :=
  match s with
  | [] => []
  | c :: r =>
    match skip with
    | S k => sub_cm k r
    | O => if starts_with (A "<!--") s then sub_cm 3 r
           else if starts_with (A "-->") s then sub_cm 2 r
           else c :: sub_cm 0 r
    end
  end.

(* tag_re = <.*?>  (re.S)  -> "" *)
Fixpoint sub_tag (inside : bool) (s : str) : str :=
  match s with
  | [] => []
  | c :: r =>
    if inside then (if c =? 62 then sub_tag false r else sub_tag true r)
    else if (c =? 60) && has_gt r then sub_tag true r
    else c :: sub_tag false r
  end.

Definition strip_tags (v : str) : str :=
  let v := map (fun c => if c =? 10 then 32 else c) v in
  let v := filter (fun c => negb (c =? 13)) v in
  let v := sub_br false v in
  let v := sub_cm 0 v in
  sub_tag false v.

(* ------------------------------------------------------------------ the three bodies *)
Definition status_of (cl : excls) : str := dec (c_code cl) ++ 32 :: c_title cl.

Definition outer_args (status title body : str) (n : str) : option str :=
  if str_eqb n (A "status") then Some status
  else if str_eqb n (A "body") then Some body
  else if str_eqb n (A "title") then Some title
  else None.

Definition html_body (cfg : tcfg) (cl : excls) (i : inp) : option str :=
  let body := make_body html_escape cl i in
  subst_strict (tmpl_parse (html_tmpl cfg))
               (fun n => if str_eqb n (A "title") then None else outer_args (status_of cl) [] body n).

Definition plain_body (cfg : tcfg) (cl : excls) (i : inp) : option str :=
  let body := strip_tags (make_body no_escape cl i) in
  subst_strict (tmpl_parse (plain_tmpl cfg)) (outer_args (status_of cl) (c_title cl) body).

(* json.dumps(str) with ensure_ascii=True *)
Definition hexd (n : N) : N := if n <? 10 then 48 + n else 87 + n.
Definition hex4 (n : N) : str :=
  [hexd (n / 4096 mod 16); hexd (n / 256 mod 16); hexd (n / 16 mod 16); hexd (n mod 16)].
Definition jesc (c : N) : str :=
  if c =? 34 then [92; 34]
  else if c =? 92 then [92; 92]
  else if c =? 10 then [92; 110]
  else if c =? 13 then [92; 114]
  else if c =? 9 then [92; 116]
  else if c =? 12 then [92; 102]
  else if c =? 8 then [92; 98]
  else if (32 <=? c) && (c <=? 126) then [c]
  else if c <? 65536 then 92 :: 117 :: hex4 c
  else let v := c - 65536 in
       (92 :: 117 :: hex4 (55296 + v / 1024)) ++ (92 :: 117 :: hex4 (56320 + v mod 1024)).
Definition jstr (s : str) : str := 34 :: flat_map jesc s ++ [34].

(* the dict built by json_formatter, in insertion order *)
Definition json_dict (cl : excls) (i : inp) : list (str * str) :=
  [(A "message", make_body no_escape cl i); (A "code", status_of cl); (A "title", c_title cl)].

Fixpoint json_members (l : list (str * str)) : str :=
  match l with
  | [] => []
  | [(k, v)] => jstr k ++ A ": " ++ jstr v
  | (k, v) :: r => jstr k ++ A ": " ++ jstr v ++ A ", " ++ json_members r
  end.
Definition json_dumps (l : list (str * str)) : str := 123 :: json_members l ++ [125].
Definition json_body (cl : excls) (i : inp) : str := json_dumps (json_dict cl i).

(* ------------------------------------------------------------------ generate_response: format choice
   Accept.acceptable_offers(["text/html", "application/json"]) on the ranges the real parser
   produced (lower-cased type/subtype, qvalue in thousandths, whether media-type params exist). *)
Record mrange := mkRange { r_ts : str; r_q : N; r_params : bool }.
Inductive accept_in := AInvalid | AValid (rs : list mrange).
Inductive fmt := FHtml | FJson | FPlain.

Fixpoint split_slash (s : str) : str * str :=      (* str.split("/", 1) of a string containing "/" *)
  match s with
  | [] => ([], [])
  | c :: r => if c =? 47 then ([], r) else let p := split_slash r in (c :: fst p, snd p)
  end.

(* offers carry no media-type parameters *)
Definition specificity (oty osub : str) (r : mrange) : option N :=
  let p := split_slash (r_ts r) in
  if str_eqb oty (fst p) && str_eqb osub (snd p) then
    (if negb (r_params r) then Some 3 else None)       (* () == non-empty params is False -> continue *)
  else if str_eqb (snd p) (A "*") && str_eqb oty (fst p) then Some 2
  else if str_eqb (r_ts r) (A "*/*") then Some 1
  else None.

(* the dict entry of one offer: (qvalue, specificity); replaced only by a strictly more specific range *)
Definition range_step (oty osub : str) (e : option (N * N)) (r : mrange) : option (N * N) :=
  match specificity oty osub r with
  | None => e
  | Some sp => match e with
               | Some (_, sp0) => if sp <=? sp0 then e else Some (r_q r, sp)
               | None => Some (r_q r, sp)
               end
  end.
Definition offer_entry (oty osub : str) (rs : list mrange) : option (N * N) :=
  fold_left (range_step oty osub) rs None.

(* (offer, qvalue, offer_index) with qvalue != 0, sorted by (qvalue, -index) descending *)
Definition qent := (fmt * N * N)%type.
Definition before (a b : qent) : bool :=           (* a sorts strictly before b under reverse=True *)
  let '(_, qa, ia) := a in let '(_, qb, ib) := b in
  (qb <? qa) || ((qa =? qb) && (ia <? ib)).
Fixpoint insert_desc (x : qent) (l : list qent) : list qent :=
  match l with
  | [] => [x]
  | y :: r => if before y x || negb (before x y) then y :: insert_desc x r else x :: l
  end.
Definition sort_desc (l : list qent) : list qent := fold_left (fun acc x => insert_desc x acc) l [].

Definition acceptable (rs : list mrange) : list qent :=
  let ent (f : fmt) (idx : N) (oty osub : str) : list qent :=
      match offer_entry oty osub rs with
      | Some (q, _) => if q =? 0 then [] else [(f, q, idx)]
      | None => []
      end in
  sort_desc (ent FHtml 0 (A "text") (A "html") ++ ent FJson 1 (A "application") (A "json")).

Definition choose (a : accept_in) : fmt :=
  match a with
  | AInvalid => FHtml                          (* AcceptInvalidHeader: every offer, qvalue 1.0, offer order *)
  | AValid rs => match acceptable rs with
                 | (f, _, _) :: _ => f
                 | [] => FPlain
                 end
  end.

(* ------------------------------------------------------------------ text -> bytes (Response body, UTF-8) *)
Definition utf8_c (c : N) : str :=
  if c <? 128 then [c]
  else if c <? 2048 then [192 + c / 64; 128 + c mod 64]
  else if c <? 65536 then [224 + c / 4096; 128 + (c / 64) mod 64; 128 + c mod 64]
  else [240 + c / 262144; 128 + (c / 4096) mod 64; 128 + (c / 64) mod 64; 128 + c mod 64].
Definition utf8 (s : str) : str := flat_map utf8_c s.

(* ------------------------------------------------------------------ generate_response / __call__ *)
Record resp := mkResp { rs_status : str; rs_ctype : option str; rs_body : option str (* None: raised *) }.

Definition generate (cfg : tcfg) (cl : excls) (i : inp) (a : accept_in) : resp :=
  match choose a with
  | FHtml => mkResp (status_of cl) (Some (A "text/html")) (option_map utf8 (html_body cfg cl i))
  | FJson => mkResp (status_of cl) (Some (A "application/json")) (Some (utf8 (json_body cl i)))
  | FPlain => mkResp (status_of cl) (Some (A "text/plain")) (option_map utf8 (plain_body cfg cl i))
  end.

(* Response.content_type of the exception itself (sent as is on the HEAD / has_body / empty_body path):
   the last Content-Type header up to the first ";" *)
Definition own_ctype (i : inp) : option str :=
  match assoc_last (A "content-type") (lower_keys (i_headers i)) with
  | Some (c :: v) => Some (take_while (fun x => negb (x =? 59)) (c :: v))
  | _ => None
  end.

(* [explicit]: None when the application supplied no body (then one is generated on call), else the body the
   instance holds when it is called - possibly empty (Response.__init__ drops a body= given to the constructor
   of a 204 / 205 / 304 class; a body assigned afterwards is kept - and then sent as is) *)
Definition call (cfg : tcfg) (cl : excls) (i : inp) (a : accept_in) (is_head : bool)
           (explicit : option str) : resp :=
  let own := match explicit with Some b => b | None => [] end in
  let has_body := match explicit with Some _ => true | None => false end in   (* a supplied body may be empty *)
  if has_body || c_empty cl || is_head then
    mkResp (status_of cl) (own_ctype i)
           (Some (if is_head then [] else own))
  else generate cfg cl i a.

Definition resp_val (r : resp) : val :=
  VList [VStr (rs_status r);
         match rs_ctype r with Some c => VStr c | None => VNone end;
         match rs_body r with Some b => VStr b | None => VErr (A "KeyError") end].

(* ------------------------------------------------------------------ status_map construction *)
Fixpoint dict_set (m : list (N * str)) (k : N) (v : str) : list (N * str) :=
  match m with
  | [] => [(k, v)]
  | (k', v') :: r => if k' =? k then (k', v) :: r else (k', v') :: dict_set r k v
  end.
Definition in_status_map (c : excls) : bool :=
  negb (c_code c =? 0) && negb (c_excluded c) && c_family c && c_public c.
Definition build_status_map (cls : list excls) : list (N * str) :=
  fold_left (fun m c => if in_status_map c then dict_set m (c_code c) (c_name c) else m) cls [].
Fixpoint map_get (k : N) (m : list (N * str)) : option str :=
  match m with
  | [] => None
  | (k', v) :: r => if k' =? k then Some v else map_get k r
  end.

Fixpoint find_class (cls : list excls) (name : str) : option excls :=
  match cls with
  | [] => None
  | c :: r => if str_eqb (c_name c) name then Some c else find_class r name
  end.

(* a class instantiated with body_template=t *)
Definition with_template (c : excls) (t : option str) : excls :=
  match t with
  | None => c
  | Some t => mkCls (c_name c) (c_code c) (c_title c) (c_expl c) t true (c_empty c)
                    (c_family c) (c_excluded c) (c_public c)
  end.

(* ------------------------------------------------------------------ one instance answering several requests
   The state an exception instance carries from one call to the next, as far as the body can see it, is its
   header list; generate_response deletes Content-Length from it (`del self.content_length`).
   A redirect (_HTTPMove.__call__) sets self.location to the location resolved for the request being served
   (Response._make_location_absolute, an input here: [q_location]) - the header setter removes every Location
   header and appends the new one - and restores the application's value in a `finally`. *)
Record reqst := mkReq { q_environ : list (str * str); q_accept : accept_in; q_head : bool;
                        q_location : option str }.

Definition not_cl (kv : str * str) : bool := negb (str_eqb (lower (fst kv)) (A "content-length")).
Definition not_loc (kv : str * str) : bool := negb (str_eqb (lower (fst kv)) (A "location")).

(* the header list while the request is served *)
Definition with_location (hs : list (str * str)) (loc : option str) : list (str * str) :=
  match loc with
  | None => hs
  | Some l => filter not_loc hs ++ [(A "Location", l)]
  end.

Definition obj_step (cfg : tcfg) (cl : excls) (detail comment : str) (explicit : option str)
           (hs : list (str * str)) (r : reqst) : list (str * str) * resp :=
  (if match explicit with Some _ => true | None => false end || c_empty cl || q_head r then hs else filter not_cl hs,
   call cfg cl (mkInp detail comment (with_location hs (q_location r)) (q_environ r))
        (q_accept r) (q_head r) explicit).

Fixpoint history (cfg : tcfg) (cl : excls) (detail comment : str) (explicit : option str)
         (hs : list (str * str)) (rs : list reqst) : list resp :=
  match rs with
  | [] => []
  | r :: rest => let p := obj_step cfg cl detail comment explicit hs r in
                 snd p :: history cfg cl detail comment explicit (fst p) rest
  end.
