(* C05 — executable model of webob.acceptparse.AcceptLanguageValidHeader.basic_filtering / .lookup
   (acceptparse.py:4196-4335, 4497-4728, with the C05-lookup-empty-range repair) and of the
   invalid/no-header variants (4891-4902, 4963-5040).  Definitions only, no proofs.

   Input of both methods is `self.parsed`: the list of (language-range, qvalue) pairs in header
   order.  qvalues are thousandths (the header grammar allows at most three decimals, float() of
   those is injective and monotone, so sorting/comparing floats = sorting/comparing thousandths).
   `default` is modelled as a value: [LDefault] stands for "returns default, calling it if it is
   callable"; [dflt_none] says whether the argument is None. *)
From Coq Require Import ZArith NArith List Bool.
Require Import Webob.Lib.Val Webob.Lib.PyStr.
Import ListNotations.
Local Open Scope N_scope.

Definition star : str := [42].           (* "*" *)
Definition dash : N := 45.               (* "-" *)
Definition parsed := list (str * N).     (* (range, qvalue in thousandths), header order *)

(* ---- list.sort(key=..., reverse=...) : stable in both directions -------------------------- *)
Section Sort.
  Context {A : Type}.
  Variable desc : bool.
  Variable key : A -> N.
  (* "x may stay in front of y" *)
  Definition kle (x y : A) : bool := if desc then key y <=? key x else key x <=? key y.
  Fixpoint insert_k (x : A) (l : list A) : list A :=
    match l with
    | [] => [x]
    | y :: l' => if kle x y then x :: l else y :: insert_k x l'
    end.
  Fixpoint sort_k (l : list A) : list A :=
    match l with
    | [] => []
    | x :: l' => insert_k x (sort_k l')
    end.
End Sort.

Definition in_strs (r : str) (l : list str) : bool := existsb (str_eqb r) l.

(* ---- basic_filtering ---------------------------------------------------------------------- *)
(* nested function match(tag, range_): tag == range_ or tag.startswith(range_ + "-") *)
Definition bf_match (tag range : str) : bool :=
  str_eqb tag range || starts_with (range ++ [dash]) tag.

(* loop state: not_acceptable_ranges (set), acceptable_ranges (dict, insertion order),
   asterisk_qvalue/asterisk_position *)
Definition bf_tables := (list str * list (str * (N * nat)) * option (N * nat))%type.

Definition in_keys (r : str) (d : list (str * (N * nat))) : bool :=
  existsb (fun e => str_eqb r (fst e)) d.

Definition bf_scan_step (pos : nat) (e : str * N) (st : bf_tables) : bf_tables :=
  let '(nacc, acc, ast) := st in
  let '(r, q) := e in
  if str_eqb r star then
    match ast with
    | None => (nacc, acc, Some (q, pos))
    | Some _ => st
    end
  else if negb (in_keys r acc) && negb (in_strs r nacc) then
    if q =? 0 then (nacc ++ [r], acc, ast) else (nacc, acc ++ [(r, (q, pos))], ast)
  else st.

Fixpoint bf_scan (pos : nat) (lp : parsed) (st : bf_tables) : bf_tables :=
  match lp with
  | [] => st
  | e :: lp' => bf_scan (S pos) lp' (bf_scan_step pos e st)
  end.

Definition range_row := (str * N * nat)%type.     (* (range_, qvalue, position_in_header) *)
Definition rr_q (x : range_row) : N := snd (fst x).
Definition rr_pos (x : range_row) : N := N.of_nat (snd x).

Definition bf_sorted_ranges (acc : list (str * (N * nat))) : list range_row :=
  let l := map (fun e => (fst e, fst (snd e), snd (snd e))) acc in
  sort_k true rr_q (sort_k false rr_pos l).

Fixpoint bf_first_match (tag : str) (ranges : list range_row) : option (N * nat) :=
  match ranges with
  | [] => None
  | (r, q, pos) :: rs => if bf_match tag r then Some (q, pos) else bf_first_match tag rs
  end.

(* body of the `for index, tag in enumerate(lowercased_tags)` loop: the (qvalue, position) the
   tag is appended with, or None when it is skipped *)
Definition bf_tag (nacc : list str) (ranges : list range_row) (ast : option (N * nat)) (tag : str)
  : option (N * nat) :=
  if existsb (bf_match tag) nacc then None
  else match bf_first_match tag ranges with
       | Some m => Some m
       | None => match ast with
                 | Some (q, pos) => if q =? 0 then None else Some (q, pos)
                 | None => None
                 end
       end.

Definition tag_row := (nat * N * nat)%type.       (* (index into language_tags, qvalue, position) *)
Definition tr_idx (x : tag_row) : nat := fst (fst x).
Definition tr_q (x : tag_row) : N := snd (fst x).
Definition tr_pos (x : tag_row) : N := N.of_nat (snd x).

Fixpoint bf_filter (nacc : list str) (ranges : list range_row) (ast : option (N * nat))
         (index : nat) (ltags : list str) : list tag_row :=
  match ltags with
  | [] => []
  | t :: ts =>
      match bf_tag nacc ranges ast t with
      | Some (q, pos) => (index, q, pos) :: bf_filter nacc ranges ast (S index) ts
      | None => bf_filter nacc ranges ast (S index) ts
      end
  end.

Definition bf_rows (p : parsed) (tags : list str) : list tag_row :=
  let lp := map (fun e => (lower (fst e), snd e)) p in
  let ltags := map lower tags in
  let '(nacc, acc, ast) := bf_scan 0 lp ([], [], None) in
  let ranges := bf_sorted_ranges acc in
  let filtered := bf_filter nacc ranges ast 0 ltags in
  sort_k true tr_q (sort_k false tr_pos filtered).

Definition basic_filtering (p : parsed) (tags : list str) : list (str * N) :=
  map (fun x => (nth (tr_idx x) tags [], tr_q x)) (bf_rows p tags).

(* ---- lookup ------------------------------------------------------------------------------- *)
Inductive lres :=
| LTag (t : str)      (* a str is returned: an offered tag or default_tag, original spelling *)
| LDefault            (* `default` is returned (called first if callable) *)
| LTypeError          (* default_tag and default both None *)
| LValueError         (* default_range == "*" *)
| LFuel.              (* model artefact: the truncation loop ran out of fuel (proved unreachable) *)

(* str.isalpha() / str.isdigit() of a one-character string, code points < 256 *)
Definition is_alpha_c (c : N) : bool :=
  ((65 <=? c) && (c <=? 90)) || ((97 <=? c) && (c <=? 122)) ||
  (c =? 170) || (c =? 181) || (c =? 186) ||
  ((192 <=? c) && (c <=? 214)) || ((216 <=? c) && (c <=? 246)) || ((248 <=? c) && (c <=? 255)).
Definition is_digit_c (c : N) : bool :=
  ((48 <=? c) && (c <=? 57)) || (c =? 178) || (c =? 179) || (c =? 185).
(* len(s) == 1 and (s.isdigit() or s.isalpha()) *)
Definition singleton (s : str) : bool :=
  match s with
  | [c] => is_digit_c c || is_alpha_c c
  | _ => false
  end.

(* the `for index, tag in enumerate(lowered_tags)` loop inside best_match: returns tags[index] *)
Fixpoint lk_scan (nacc : list str) (range : str) (tags ltags : list str) : option str :=
  match tags, ltags with
  | t :: ts, lt :: lts =>
      if in_strs lt nacc then lk_scan nacc range ts lts
      else if str_eqb lt range then Some t
      else lk_scan nacc range ts lts
  | _, _ => None
  end.

(* subtags[-2] *)
Definition before_last (subtags : list str) : option str :=
  match rev subtags with
  | _ :: b :: _ => Some b
  | _ => None
  end.

Inductive bm_res := BMHit (t : str) | BMNone | BMFuel.

(* the `while True` loop of best_match; one unit of fuel per iteration *)
Fixpoint bm_loop (fuel : nat) (nacc : list str) (tags ltags : list str)
         (range : str) (subtags : list str) : bm_res :=
  match fuel with
  | O => BMFuel
  | S fuel' =>
      match lk_scan nacc range tags ltags with
      | Some t => BMHit t
      | None =>
          match before_last subtags with
          | None => BMNone                                  (* IndexError: break *)
          | Some b =>
              let subtags1 := if singleton b then removelast subtags else subtags in
              let subtags2 := removelast subtags1 in
              match subtags2 with
              | [] => BMNone                                (* repaired code: `if not subtags: break` *)
              | _ => bm_loop fuel' nacc tags ltags (join [dash] subtags2) subtags2
              end
          end
      end
  end.

Definition best_match (nacc : list str) (tags ltags : list str) (range : str) : bm_res :=
  let subtags := split_c dash range in
  bm_loop (S (length subtags)) nacc tags ltags range subtags.

(* first loop of lookup: asterisk_q0_found, not_acceptable_ranges, acceptable_ranges *)
Definition lk_tables := (bool * list str * list (str * N))%type.
Definition lk_scan_step (e : str * N) (st : lk_tables) : lk_tables :=
  let '(a0, nacc, acc) := st in
  let '(r, q) := e in
  if str_eqb r star then (if q =? 0 then (true, nacc, acc) else st)
  else if q =? 0 then (a0, nacc ++ [lower r], acc)
  else (a0, nacc, acc ++ [(r, q)]).
Definition lk_tables_of (p : parsed) : lk_tables :=
  fold_left (fun st e => lk_scan_step e st) p (false, [], []).

(* `for range_ in acceptable_ranges: match = best_match(range_.lower()) ...` *)
Fixpoint lk_ranges (nacc : list str) (tags ltags : list str) (ranges : list str) : bm_res :=
  match ranges with
  | [] => BMNone
  | r :: rs =>
      match best_match nacc tags ltags (lower r) with
      | BMNone => lk_ranges nacc tags ltags rs
      | res => res
      end
  end.

Definition lookup (p : parsed) (tags : list str) (default_range default_tag : option str)
           (dflt_none : bool) : lres :=
  match default_tag, dflt_none with
  | None, true => LTypeError
  | _, _ =>
  if match default_range with Some r => str_eqb r star | None => false end then LValueError else
  let '(a0, nacc, acc) := lk_tables_of p in
  let ranges := map fst (sort_k true (@snd str N) acc) in
  let ltags := map lower tags in
  match lk_ranges nacc tags ltags ranges with
  | BMHit t => LTag t
  | BMFuel => LFuel
  | BMNone =>
      let cascade_tag :=
        match default_tag with
        | Some dt => if in_strs (lower dt) nacc then LDefault else LTag dt
        | None => LDefault
        end in
      if a0 then LDefault
      else match default_range with
           | Some dr =>
               match best_match nacc tags ltags (lower dr) with
               | BMHit t => LTag t
               | BMFuel => LFuel
               | BMNone => cascade_tag
               end
           | None => cascade_tag
           end
  end
  end.

(* ---- invalid / missing header (class _AcceptLanguageInvalidOrNoHeader) --------------------- *)
Definition basic_filtering_nohdr (tags : list str) : list (str * N) := [].
Definition lookup_nohdr (default_tag : option str) (dflt_none : bool) : lres :=
  match default_tag, dflt_none with
  | None, true => LTypeError
  | Some dt, _ => LTag dt
  | None, false => LDefault
  end.

(* ---- observation values for the correspondence check ---------------------------------------- *)
Definition bf_val (p : parsed) (tags : list str) : val :=
  VList (map (fun e => VList [VStr (fst e); VInt (Z.of_N (snd e))]) (basic_filtering p tags)).

Definition lres_val (r : lres) : val :=
  match r with
  | LTag t => VStr t
  | LDefault => VInt 0
  | LTypeError => VErr [84; 121; 112; 101; 69; 114; 114; 111; 114]                (* "TypeError" *)
  | LValueError => VErr [86; 97; 108; 117; 101; 69; 114; 114; 111; 114]           (* "ValueError" *)
  | LFuel => VErr [102; 117; 101; 108]                                            (* "fuel" *)
  end.

Definition lookup_args := (parsed * list str * option str * option str * bool)%type.
Definition lookup_val (a : lookup_args) : val :=
  let '(p, tags, dr, dt, dn) := a in lres_val (lookup p tags dr dt dn).
Definition lookup_nohdr_val (a : option str * bool) : val :=
  lres_val (lookup_nohdr (fst a) (snd a)).

(* ---- histories of calls on ONE header object ---------------------------------------------------
   The only state of an AcceptLanguageValidHeader is `_header_value`, `_parsed` (and `_parsed_nonzero`
   derived from it once in __init__).  basic_filtering builds new lists from `self.parsed`; lookup works
   on `list(self.parsed)`; neither assigns to the instance.  A step therefore hands the parsed list on
   unchanged; the observation after each call is (answer, `.parsed` as it reads afterwards). *)
Inductive hop :=
| HFilter (tags : list str)
| HLookup (tags : list str) (default_range default_tag : option str) (dflt_none : bool).

Definition hop_answer (p : parsed) (o : hop) : val :=
  match o with
  | HFilter tags => bf_val p tags
  | HLookup tags dr dt dn => lres_val (lookup p tags dr dt dn)
  end.

Definition hstep (p : parsed) (o : hop) : parsed * val := (p, hop_answer p o).

Definition parsed_val (p : parsed) : val :=
  VList (map (fun e => VList [VStr (fst e); VInt (Z.of_N (snd e))]) p).

Fixpoint run_history (p : parsed) (ops : list hop) : list val :=
  match ops with
  | [] => []
  | o :: ops' => let '(p', a) := hstep p o in VList [a; parsed_val p'] :: run_history p' ops'
  end.

Definition history_val (c : parsed * list hop) : val := VList (run_history (fst c) (snd c)).
