(* C08 — executable model of webob.multidict.MultiDict / webob.headers.ResponseHeaders
   / NestedMultiDict and of the Response.headers <-> Response.headerlist aliasing.
   Mirrors the code paths of multidict.py:99-283, headers.py:8-98, response.py:484-519.
   Definitions only (no proofs) so the model still runs when a proof breaks. *)
From Coq Require Import ZArith NArith List Bool.
Require Import Webob.Lib.Val Webob.Lib.PyStr.
Import ListNotations.

Definition item := (str * str)%type.
Definition items := list item.

(* value or default used by pop/setdefault/get: Python None or a string *)
Definition oval (o : option str) : val := match o with Some s => VStr s | None => VNone end.

Inductive op :=
| OSet (k v : str)                 (* d[k] = v *)
| OAdd (k v : str)                 (* d.add(k, v) *)
| ODel (k : str)                   (* del d[k] *)
| OPop (k : str) (dflt : option (option str))  (* d.pop(k) / d.pop(k, default) *)
| OPopItem                         (* d.popitem() *)
| OSetDefault (k : str) (d : option str)
| OUpdate (l : items)              (* d.update(list_of_pairs)  — also dict / kwargs forms *)
| OUpdateMD (l : items)            (* d.update(MultiDict(l)) : Mapping protocol, key by key *)
| OExtend (l : items)              (* d.extend(list | dict | MultiDict) *)
| OExtendSelf                      (* d.extend(d), d.extend(d.items()), d.extend(iter(d.items())): the argument aliases d *)
| OClear
| OCopy.                           (* d = d.copy() *)

Section MD.
  (* key normalisation: identity for MultiDict, str.lower for ResponseHeaders *)
  Variable norm : str -> str.
  (* true: the ResponseHeaders overrides are in force *)
  Variable rh : bool.

  Definition keq (a b : str) : bool := str_eqb (norm a) (norm b).

  (* ---------- implementation-shaped definitions ---------- *)

  Fixpoint find_first (key : str) (l : items) : option str :=
    match l with
    | [] => None
    | (k, v) :: l' => if keq k key then Some v else find_first key l'
    end.

  (* __getitem__: for k, v in reversed(self._items) *)
  Definition getitem_i (key : str) (l : items) : option str := find_first key (rev l).

  (* getall: list comprehension *)
  Definition getall_i (key : str) (l : items) : list str :=
    map snd (filter (fun kv => keq (fst kv) key) l).

  (* __delitem__: for i in range(len-1, -1, -1): if match: del items[i]; found = True *)
  Fixpoint del_scan (key : str) (l : items) : items * bool :=
    match l with
    | [] => ([], false)
    | (k, v) :: l' =>
        let '(r, f) := del_scan key l' in
        if keq k key then (r, true) else ((k, v) :: r, f)
    end.
  Definition del_i (key : str) (l : items) : items * bool :=
    let '(r, f) := del_scan key (rev l) in (rev r, f).

  (* __setitem__: MultiDict = try del / append; ResponseHeaders = slice-assign filter / append *)
  Definition setitem_i (key v : str) (l : items) : items :=
    if rh then filter (fun kv => negb (keq (fst kv) key)) l ++ [(key, v)]
    else fst (del_i key l) ++ [(key, v)].

  (* pop: first match is removed *)
  Fixpoint pop_i (key : str) (l : items) : option (str * items) :=
    match l with
    | [] => None
    | (k, v) :: l' =>
        if keq k key then Some (v, l')
        else match pop_i key l' with
             | None => None
             | Some (x, r) => Some (x, (k, v) :: r)
             end
    end.

  Definition setdefault_i (key : str) (d : option str) (l : items) : val * items :=
    match find_first key l with
    | Some v => (VStr v, l)
    | None =>
        (* a None default is stored as Python None; the model keeps values as
           strings, so the harness only issues string defaults *)
        match d with
        | Some dv => (VStr dv, l ++ [(key, dv)])
        | None => (VNone, l)
        end
    end.

  (* MutableMapping.update over a sequence of pairs: self[k] = v in turn *)
  Fixpoint update_i (u : items) (l : items) : items :=
    match u with
    | [] => l
    | (k, v) :: u' => update_i u' (setitem_i k v l)
    end.

  (* MutableMapping.update over a Mapping: for key in other: self[key] = other[key];
     the other mapping is a plain MultiDict (identity keys are looked up through
     its own __getitem__, modelled by [get_other]) *)
  Variable get_other : str -> items -> option str.
  Fixpoint update_md_go (keys : list str) (other : items) (l : items) : items :=
    match keys with
    | [] => l
    | k :: ks =>
        match get_other k other with
        | Some v => update_md_go ks other (setitem_i k v l)
        | None => update_md_go ks other l     (* unreachable: k comes from other *)
        end
    end.
  Definition update_md_i (other l : items) : items := update_md_go (map fst other) other l.

  Definition err (s : str) : val := VErr s.
  Definition KeyError : str := [75;101;121;69;114;114;111;114]%N.
  Definition IndexError : str := [73;110;100;101;120;69;114;114;111;114]%N.

  (* one operation: new item list and the returned value / raised exception *)
  Definition step_i (l : items) (o : op) : items * val :=
    match o with
    | OSet k v => (setitem_i k v l, VNone)
    | OAdd k v => (l ++ [(k, v)], VNone)
    | ODel k => let '(r, f) := del_i k l in if f then (r, VNone) else (l, err KeyError)
    | OPop k d =>
        match pop_i k l with
        | Some (v, r) => (r, VStr v)
        | None => match d with
                  | Some dv => (l, oval dv)
                  | None => (l, err KeyError)
                  end
        end
    | OPopItem =>
        match rev l with
        | [] => (l, err IndexError)
        | (k, v) :: r => (rev r, VList [VStr k; VStr v])
        end
    | OSetDefault k d => let '(v, r) := setdefault_i k d l in (r, v)
    | OUpdate u => (update_i u l, VNone)
    | OUpdateMD u => (update_md_i u l, VNone)
    | OExtend u => (l ++ u, VNone)
    | OExtendSelf => (l ++ l, VNone)
    | OClear => ([], VNone)
    | OCopy => (l, VNone)
    end.

  (* ---------- observations ---------- *)

  Definition vitems (l : items) : val := VList (map (fun kv => VList [VStr (fst kv); VStr (snd kv)]) l).

  Definition getone_i (key : str) (l : items) : val :=
    match getall_i key l with
    | [v] => VStr v
    | _ => err KeyError
    end.

  (* insertion-ordered dict as association list, keyed up to [dkey] *)
  Fixpoint assoc_get {A} (dk : str) (d : list (str * A)) : option A :=
    match d with
    | [] => None
    | (k, a) :: d' => if str_eqb k dk then Some a else assoc_get dk d'
    end.
  Fixpoint assoc_set {A} (dk : str) (a : A) (d : list (str * A)) : list (str * A) :=
    match d with
    | [] => [(dk, a)]
    | (k, b) :: d' => if str_eqb k dk then (k, a) :: d' else (k, b) :: assoc_set dk a d'
    end.

  (* dict_of_lists: r.setdefault(key', []).append(val); key' = key (MultiDict) or key.lower() (RH) *)
  Definition dkey (k : str) : str := if rh then norm k else k.
  Fixpoint dol_go (l : items) (r : list (str * list str)) : list (str * list str) :=
    match l with
    | [] => r
    | (k, v) :: l' =>
        let k' := dkey k in
        match assoc_get k' r with
        | Some vs => dol_go l' (assoc_set k' (vs ++ [v]) r)
        | None => dol_go l' (r ++ [(k', [v])])
        end
    end.
  Definition dict_of_lists_i (l : items) : list (str * list str) := dol_go l [].

  (* MultiDict.mixed: result/multi dictionaries *)
  Fixpoint mixed_go (l : items) (res : list (str * (bool * list str))) : list (str * (bool * list str)) :=
    match l with
    | [] => res
    | (k, v) :: l' =>
        match assoc_get k res with
        | Some (_, vs) => mixed_go l' (assoc_set k (true, vs ++ [v]) res)
        | None => mixed_go l' (res ++ [(k, (false, [v]))])
        end
    end.
  Definition mixed_val (e : bool * list str) : val :=
    match e with
    | (false, [v]) => VStr v
    | (_, vs) => VList (map VStr vs)
    end.
  Definition mixed_i (l : items) : val :=
    if rh then
      VList (map (fun kv => VList [VStr (fst kv);
                                   match snd kv with [v] => VStr v | vs => VList (map VStr vs) end])
                 (dict_of_lists_i l))
    else VList (map (fun kv => VList [VStr (fst kv); mixed_val (snd kv)]) (mixed_go l [])).

  Definition observe (probe : list str) (l : items) : val :=
    VList [ vitems l;
            VInt (Z.of_nat (length l));
            VList (map (fun k => VList [ match getitem_i k l with Some v => VStr v | None => err KeyError end;
                                         VList (map VStr (getall_i k l));
                                         getone_i k l;
                                         VBool (existsb (fun kv => keq (fst kv) k) l) ]) probe);
            VList (map (fun kv => VList [VStr (fst kv); VList (map VStr (snd kv))]) (dict_of_lists_i l));
            mixed_i l ].

  (* run a history, recording return value and full observation after every step *)
  Fixpoint run_i (probe : list str) (ops : list op) (l : items) : list val :=
    match ops with
    | [] => []
    | o :: ops' => let '(l', r) := step_i l o in VList [r; observe probe l'] :: run_i probe ops' l'
    end.
End MD.

Definition md_get_other := getitem_i (fun k => k).
Definition run_multidict (probe : list str) (init : items) (ops : list op) : val :=
  VList (run_i (fun k => k) false md_get_other probe ops init).
Definition run_respheaders (probe : list str) (init : items) (ops : list op) : val :=
  VList (run_i lower true md_get_other probe ops init).

(* ---------- NestedMultiDict ---------- *)
Definition nested_getitem (ds : list items) (key : str) : option str :=
  (fix go (ds : list items) :=
     match ds with
     | [] => None
     | d :: ds' => match getitem_i (fun k => k) key d with Some v => Some v | None => go ds' end
     end) ds.
Definition nested_getall (ds : list items) (key : str) : list str :=
  flat_map (getall_i (fun k => k) key) ds.
Definition nested_contains (ds : list items) (key : str) : bool :=
  existsb (fun d => existsb (fun kv => str_eqb (fst kv) key) d) ds.
Definition nested_len (ds : list items) : nat := fold_left (fun a d => a + length d)%nat ds 0%nat.
Definition nested_items (ds : list items) : items := flat_map (fun d => d) ds.
Definition observe_nested (probe : list str) (ds : list items) : val :=
  VList [ vitems (nested_items ds);
          VInt (Z.of_nat (nested_len ds));
          VList (map (fun k => VList [ match nested_getitem ds k with Some v => VStr v | None => err KeyError end;
                                       VList (map VStr (nested_getall ds k));
                                       match nested_getall ds k with [v] => VStr v | _ => err KeyError end;
                                       VBool (nested_contains ds k) ]) probe);
          VList (map (fun kv => VList [VStr (fst kv); VList (map VStr (snd kv))])
                     (dict_of_lists_i (fun k => k) false (nested_items ds)));
          mixed_i (fun k => k) false (nested_items ds) ].

(* ---------- Response.headers / Response.headerlist aliasing (heap of list objects) ---------- *)
Record resp := mkResp { heap : list items;   (* list objects, addressed by index *)
                        hl : nat;            (* Response._headerlist *)
                        hv : option nat }.   (* Response._headers: the list object the memoised view wraps *)

Inductive rop :=
| RVia (o : op)              (* resp.headers.<op> *)
| RAppend (k v : str)        (* resp.headerlist.append((k, v)) — direct mutation of the list object *)
| RDelFirst                  (* del resp.headerlist[0:1] *)
| RSetList (l : items)       (* resp.headerlist = <new list object> *)
| RSetHeaders (l : items)    (* resp.headers = mapping *)
| RDelList                   (* del resp.headerlist *)
| RStale (c : nat) (k v : str). (* append to list object number c held by the caller (possibly a replaced one) *)

Fixpoint set_nth {A} (n : nat) (x : A) (l : list A) : list A :=
  match n, l with
  | _, [] => []
  | O, _ :: l' => x :: l'
  | S n', y :: l' => y :: set_nth n' x l'
  end.
Definition cell (r : resp) (c : nat) : items := nth c (heap r) [].

Definition rstep (r : resp) (o : rop) : resp * val :=
  match o with
  | RVia o' =>
      (* _headers__get: memoise a view on the current list object, then operate through it *)
      let c := match hv r with Some c => c | None => hl r end in
      let '(l', ret) := step_i lower true md_get_other (cell r c) o' in
      (mkResp (set_nth c l' (heap r)) (hl r) (Some c), ret)
  | RAppend k v => (mkResp (set_nth (hl r) (cell r (hl r) ++ [(k, v)]) (heap r)) (hl r) (hv r), VNone)
  | RDelFirst => (mkResp (set_nth (hl r) (tl (cell r (hl r))) (heap r)) (hl r) (hv r), VNone)
  | RSetList l => (mkResp (heap r ++ [l]) (length (heap r)) None, VNone)
  | RSetHeaders l => (mkResp (heap r ++ [l]) (length (heap r)) None, VNone)
  | RDelList => (mkResp (heap r ++ [[]]) (length (heap r)) None, VNone)
  | RStale c k v =>
      if Nat.ltb c (length (heap r))
      then (mkResp (set_nth c (cell r c ++ [(k, v)]) (heap r)) (hl r) (hv r), VNone)
      else (r, VNone)
  end.

(* what resp.headers shows / what resp.headerlist holds *)
Definition view_items (r : resp) : items := cell r (match hv r with Some c => c | None => hl r end).
Definition list_items (r : resp) : items := cell r (hl r).

Fixpoint rrun (probe : list str) (ops : list rop) (r : resp) : list val :=
  match ops with
  | [] => []
  | o :: ops' =>
      let '(r', ret) := rstep r o in
      VList [ret; vitems (list_items r'); observe lower true probe (view_items r')] :: rrun probe ops' r'
  end.
Definition run_response_headers (probe : list str) (init : items) (ops : list rop) : val :=
  VList (rrun probe ops (mkResp [init] 0 None)).
