(* C06 — executable model of Response.conditional_response_app (response.py:1408-1491, as repaired
   by fixes/C06-1-inm-guard.patch), IfRange / IfRangeDate membership (etag.py:113-158, as repaired
   by fixes/C06-5-if-range-bad-date.patch), filter_headers (response.py:1506-1507) and
   Response.app_iter_range (response.py:1493-1503).
   The request and response are given as the facts the code reads through its typed accessors
   (req.if_none_match, req.if_modified_since, req.range's header text, req.if_range, resp.etag /
   etag_strong, resp.last_modified, resp.status / status_code, resp.content_length,
   "Content-Range" in resp.headers, as repaired by fixes/C06-6) plus the header list and the app_iter.  Dates are POSIX seconds.
   Definitions only (no proofs). *)
From Coq Require Import ZArith NArith List Bool String.
Require Import Webob.Lib.Val Webob.Lib.PyStr Webob.Model.C06_ByteRange Webob.Model.C06_AppIterRange.
Import ListNotations.
Local Open Scope string_scope.

Definition S_GET : str := H "474554".   (* GET *)
Definition S_HEAD : str := H "48454144".   (* HEAD *)
Definition S_304 : str := H "333034204e6f74204d6f646966696564".   (* 304 Not Modified *)
Definition S_206 : str := H "323036205061727469616c20436f6e74656e74".   (* 206 Partial Content *)
Definition S_416 : str := H "343136205265717565737465642052616e6765204e6f74205361746973666961626c65".   (* 416 Requested Range Not Satisfiable *)
Definition S_CL : str := H "436f6e74656e742d4c656e677468".   (* Content-Length *)
Definition S_CR : str := H "436f6e74656e742d52616e6765".   (* Content-Range *)
Definition S_CT : str := H "436f6e74656e742d54797065".   (* Content-Type *)
Definition S_text_plain : str := H "746578742f706c61696e".   (* text/plain *)
Definition S_cl : str := H "636f6e74656e742d6c656e677468".   (* content-length *)
Definition S_ct : str := H "636f6e74656e742d74797065".   (* content-type *)
Definition S_msg : str := H "5265717565737465642072616e6765206e6f74207361746973666961626c653a20".   (* Requested range not satisfiable:  *)
Local Close Scope string_scope.
Local Open Scope Z_scope.

(* req.if_none_match: NoETag (header absent or empty) | AnyETag ("*") | ETagMatcher(tags); parsed
   with strong=False, so the tags of weak and strong entries alike *)
Inductive inm := InmAbsent | InmStar | InmTags (tags : list str).

(* req.if_range: IfRange(AnyETag) for an absent header | IfRange(AnyETag) for "*" |
   IfRange(ETagMatcher(strong tags)) | IfRangeDate(parse_date(value)) *)
Inductive ifrange := IfrAbsent | IfrStar | IfrTags (tags : list str) | IfrDate (d : option Z).

(* the response's app_iter: a plain iterable of chunks (wrapped in AppIterRange) or an object
   with its own app_iter_range (static.FileIter over a file, reading `bs` bytes at a time) *)
Inductive app_iter :=
| AList (chunks : list str)
| AFile (data : str) (bs : nat)
| ANoRange (chunks : list str).   (* an app_iter whose own app_iter_range(start, stop) returns None *)

Record cin := mkIn {
  q_method : str;                 (* environ["REQUEST_METHOD"] *)
  q_inm : inm;
  q_ims : option Z;               (* req.if_modified_since *)
  q_range : option str;           (* environ.get("HTTP_RANGE") *)
  q_ifr : ifrange;
  r_status : str;                 (* resp.status, e.g. "200 OK" *)
  r_code : Z;                     (* resp.status_code *)
  r_etag : option (str * bool);   (* resp.etag and whether the header carries W/ *)
  r_lm : option Z;                (* resp.last_modified *)
  r_clen : option Z;              (* resp.content_length *)
  r_has_cr : bool;                (* "Content-Range" in resp.headers: any text, valid or not *)
  r_headers : list (str * str);   (* resp._abs_headerlist(environ), no Location among them *)
  r_app : app_iter
}.

Fixpoint mem_str (x : str) (l : list str) : bool :=
  match l with [] => false | y :: l' => str_eqb x y || mem_str x l' end.

Definition is_safe (m : str) : bool := str_eqb m S_GET || str_eqb m S_HEAD.   (* m in ("GET", "HEAD") *)
Definition is_head (m : str) : bool := str_eqb m S_HEAD.

(* resp.etag_strong: None for an absent or weak ETag *)
Definition etag_strong (e : option (str * bool)) : option str :=
  match e with Some (t, false) => Some t | _ => None end.

(* `req.if_modified_since and self.last_modified` then `self.last_modified <= req.if_modified_since` *)
Definition ims_check (i : cin) : bool :=
  match q_ims i, r_lm i with
  | Some ims, Some lm => lm <=? ims
  | _, _ => false
  end.

(* status304, response.py:1426-1438 *)
Definition status304 (i : cin) : bool :=
  match q_inm i with
  | InmStar => true                                   (* if if_none_match is AnyETag *)
  | InmTags tags =>
      match r_etag i with
      | Some (t, _) => mem_str t tags                 (* elif if_none_match and etag is not None *)
      | None => ims_check i                           (* elif if_modified_since and last_modified *)
      end
  | InmAbsent => ims_check i                          (* NoETag is falsy *)
  end.

(* `self in req.if_range` *)
Definition if_range_ok (i : cin) : bool :=
  match q_ifr i with
  | IfrAbsent => true                                 (* etag_strong in AnyETag *)
  | IfrStar => true
  | IfrTags tags => match etag_strong (r_etag i) with Some t => mem_str t tags | None => false end
  | IfrDate d => match r_lm i, d with Some lm, Some d0 => lm <=? d0 | _, _ => false end
  end.

(* req.range *)
Definition req_range (i : cin) : option range :=
  match q_range i with None => None | Some h => range_parse h end.

Inductive decision :=
| D304
| D416 (r : range) (length : Z)
| D206 (start stop length : Z)
| DFull
| DRaise.                                            (* ContentRange constructor refusing: unreachable *)

(* the branch structure of conditional_response_app *)
Definition decide (i : cin) : decision :=
  if is_safe (q_method i) && status304 i then D304
  else
    match req_range i with
    | None => DFull
    | Some rg =>
        if if_range_ok i && negb (r_has_cr i) && is_safe (q_method i) && (r_code i =? 200) then
          match r_clen i with
          | None => DFull
          | Some l =>
              match range_content_range rg (Some l) with
              | None => DRaise
              | Some None => D416 rg l
              | Some (Some (CR (Some s) (Some e) _)) => D206 s e l
              | Some (Some _) => DRaise                (* assert content_range.start is not None *)
              end
          end
        else DFull
    end.

(* filter_headers(hlist, remove_headers) *)
Definition filter_headers (hl : list (str * str)) (remove : list str) : list (str * str) :=
  filter (fun h => negb (mem_str (lower (fst h)) remove)) hl.

(* iterating the whole app_iter *)
Definition app_chunks (a : app_iter) : list str :=
  match a with
  | AList cs => cs
  | AFile d bs => file_iter_range d 0 None bs
  | ANoRange cs => cs
  end.

(* Response.app_iter_range(start, stop), iterated; None when the app_iter's own method declines *)
Definition app_range_chunks (a : app_iter) (start stop : nat) : option (list str) :=
  match a with
  | AList cs => Some (air cs start stop)
  | AFile d bs => Some (file_iter_range d start (Some stop) bs)
  | ANoRange _ => None
  end.

(* what the WSGI server sees: status line, header list, the chunks of the body *)
Definition cond_resp_app (i : cin) : option (str * list (str * str) * list str) :=
  let head := is_head (q_method i) in
  match decide i with
  | D304 => Some (S_304, filter_headers (r_headers i) [S_cl; S_ct], [])
  | D416 rg l =>
      let body := S_msg ++ range_str rg in
      match mk_content_range None None (Some l) with      (* ContentRange(None, None, self.content_length) *)
      | None => None                                      (* ValueError for a negative Content-Length *)
      | Some c =>
          Some (S_416,
                (S_CL, int_str (Z.of_nat (List.length body)))
                  :: (S_CR, content_range_str c)
                  :: (S_CT, S_text_plain)
                  :: filter_headers (r_headers i) [S_cl; S_ct],
                if head then [] else [body])
      end
  | D206 s e l =>
      match app_range_chunks (r_app i) (Z.to_nat s) (Z.to_nat e) with
      | Some chunks =>                                    (* if app_iter is not None *)
          Some (S_206,
                (S_CL, int_str (e - s))
                  :: (S_CR, content_range_str (CR (Some s) (Some e) (Some l)))
                  :: filter_headers (r_headers i) [S_cl],
                if head then [] else chunks)
      | None => Some (r_status i, r_headers i, if head then [] else app_chunks (r_app i))
      end
  | DFull => Some (r_status i, r_headers i, if head then [] else app_chunks (r_app i))
  | DRaise => None
  end.

(* ------------------------------------------------------------ correspondence entry point *)
Definition v_headers (hl : list (str * str)) : val :=
  VList (map (fun h => VList [VStr (fst h); VStr (snd h)]) hl).

Definition corr_cond (i : cin) : val :=
  match cond_resp_app i with
  | None => err_value
  | Some (st, hl, body) => VList [VStr st; v_headers hl; VStr (List.concat body)]
  end.
