(* C07 — executable model of webob/cookies.py:serialize_cookie_date (243-260), definitions only.

     if v is None: return None            elif bytes: return v        elif str: v.encode("ascii")
     elif int: v = timedelta(seconds=v)
     if timedelta: v = datetime.utcnow() + v
     if datetime/date: v = v.timetuple()
     r = time.strftime("%%s, %d-%%s-%%04d %H:%M:%S GMT", v)
     return bytes_(r % (weekdays[v[6]], months[v[1]], v[0]), "ascii")
   (as REPAIRED by fixes/C07-5-cookie-date-year-padding.patch; before it the year went through strftime's %Y,
   which glibc does not pad: [cd_fields_unpadded])

   [weekdays] and [months] are REGENERATED from the source (Gen/C07_dates.v; months[0] is None).
   The final formatting step is [cd_fields]: what time.strftime + the two table look-ups do with a time tuple
   (year, month, day, hour, minute, second, weekday) of non-negative integers.  strftime (CPython timemodule.c
   checktm/gettmarg + glibc) : month > 12, day > 31, hour > 23, minute > 59, second > 61 raise ValueError; month 0 and
   day 0 are silently taken as 1 BY STRFTIME ONLY (months[0] is still what the code looks up: "None");
   %d %H %M %S are two digits, zero padded; the year is "%04d" % v[0] ([pad4]).
   The datetime/int/timedelta paths are [cd_of_ts]: the instant utcnow()+v as whole seconds since the epoch,
   turned into fields by the civil-from-days algorithm (Lib/C12_Civil.v, day 0 = 1970-01-01; weekday 0 = Monday),
   datetime's range 0001-01-01 .. 9999-12-31 (OverflowError outside).  The clock itself (utcnow) is an input. *)
From Coq Require Import String.
From Coq Require Import ZArith NArith List Bool.
Require Import Webob.Lib.Val Webob.Lib.PyStr Webob.Lib.C07_Utf8 Webob.Gen.C07_tables Webob.Model.C07_CookieCodec.
Require Import Webob.Gen.C07_dates Webob.Lib.C12_Civil.
Import ListNotations.
Local Open Scope N_scope.

Definition OverflowError : str := H "4f766572666c6f774572726f72"%string.
Definition none_text : str := H "4e6f6e65"%string.            (* "%s" % None *)

(* %02d for a value below 100 *)
Definition pad2 (n : N) : str := [48 + n / 10; 48 + n mod 10].

(* weekdays[w] *)
Definition weekday_name (w : N) : res str :=
  match nth_error weekdays (N.to_nat w) with Some s => Ok s | None => Raise IndexError end.
(* "%s" % months[m] *)
Definition month_name (m : N) : res str :=
  match nth_error months (N.to_nat m) with
  | Some (Some s) => Ok s
  | Some None => Ok none_text
  | None => Raise IndexError
  end.

(* "%04d" % y for y >= 0 *)
Definition pad4 (y : N) : str :=
  if y <? 1000 then [48; 48 + y / 100; 48 + (y / 10) mod 10; 48 + y mod 10] else n_to_str y.

(* the rendered text from its parts; [yt] is the year as text *)
Definition cd_text (wn : str) (d : N) (mn : str) (yt : str) (hh mi ss : N) : str :=
  wn ++ 44 :: 32 :: (pad2 d ++ 45 :: mn ++ 45 :: yt) ++ 32 :: (pad2 hh ++ 58 :: pad2 mi ++ 58 :: pad2 ss) ++ [32; 71; 77; 84].

(* time.strftime(...) % (weekdays[v[6]], months[v[1]]) on the tuple (y, m, d, hh, mi, ss, w, 1, 0) *)
Definition cd_fields_gen (year_text : N -> str) (w d m y hh mi ss : N) : res str :=
  if (12 <? m) || (31 <? d) || (23 <? hh) || (59 <? mi) || (61 <? ss) then Raise ValueError
  else
    match weekday_name w with
    | Raise e => Raise e
    | Ok wn =>
        match month_name m with
        | Raise e => Raise e
        | Ok mn => Ok (cd_text wn (if d =? 0 then 1 else d) mn (year_text y) hh mi ss)
        end
    end.
Definition cd_fields := cd_fields_gen pad4.
(* the UNREPAIRED code: "%Y" through glibc's strftime, no padding *)
Definition cd_fields_unpadded := cd_fields_gen n_to_str.

(* the fields Python produces itself (datetime.timetuple, time.gmtime) *)
Definition fields_ok (w d m y hh mi ss : N) : bool :=
  (w <? 7) && (1 <=? d) && (d <=? 31) && (1 <=? m) && (m <=? 12) && (y <=? 9999)
  && (hh <? 24) && (mi <? 60) && (ss <=? 61).

(* datetime -> timetuple: the instant as whole seconds since 1970-01-01T00:00:00 *)
Definition ts_min : Z := (-62135596800)%Z.
Definition ts_max : Z := 253402300799%Z.
Definition cd_of_ts (t : Z) : res str :=
  if ((ts_min <=? t) && (t <=? ts_max))%Z then
    let days := (t / 86400)%Z in
    let sod := (t mod 86400)%Z in
    let '(y, m, d) := civil_from_days days in
    cd_fields (Z.to_N (weekday_of_days days)) (Z.to_N d) (Z.to_N m) (Z.to_N y)
              (Z.to_N (sod / 3600)) (Z.to_N ((sod / 60) mod 60)) (Z.to_N (sod mod 60))
  else Raise OverflowError.

(* serialize_cookie_date(int) / (timedelta) at clock reading [now] (whole seconds): utcnow() + timedelta(seconds=v) *)
Definition cd_of_delta (now v : Z) : res str := cd_of_ts (now + v).

(* observation values for the harness *)
Definition cd_fields_val (x : N * N * N * N * N * N * N) : val :=
  let '(w, d, m, y, hh, mi, ss) := x in res_val VStr (cd_fields w d m y hh mi ss).
Definition cd_of_ts_val (t : Z) : val := res_val VStr (cd_of_ts t).
