(* C04 — executable model of content negotiation in webob/acceptparse.py (definitions only, no proofs).

   Mirrors, in the same order and with the same data structures:
     Accept.parse_offer / _parse_media_type_params / _process_quoted_string_token   acceptparse.py:329-353, 480-530
       (with fixes/C04-offer-trailing-newline.patch: the media type regex is anchored with \Z, and
        fixes/C04-2-acceptoffer-instances-normalised.patch: AcceptOffer instances are validated and lower-cased)
     Accept._parse_and_normalize_offers                                             acceptparse.py:516-534
     AcceptValidHeader.acceptable_offers  (dict keyed by offer, strict improvement,
       q=0 filter, sort by (q, -index) reverse=True)                                acceptparse.py:900-1013
     AcceptValidHeader.accept_html, _AcceptInvalidOrNoHeader.acceptable_offers/accept_html   879-897, 1335-1381
     AcceptCharsetValidHeader.acceptable_offers                                     acceptparse.py:2093-2160
     AcceptEncodingValidHeader.acceptable_offers (identity rule)                    acceptparse.py:3106-3187
   Qualities are N thousandths (float("0.5") -> 500); strings are code-point lists.                *)
From Coq Require Import ZArith NArith List Bool String.
Require Import Webob.Lib.Val Webob.Lib.PyStr Webob.Lib.C04_Sort.
Import ListNotations.

Definition params := list (str * str).

(* ------------------------------------------------------------------ character classes *)
(* tchar_re = [!#$%&'*+\-.^_`|~0-9A-Za-z] *)
Definition is_tchar (c : N) : bool :=
  ((c =? 33) || ((35 <=? c) && (c <=? 39)) || (c =? 42) || (c =? 43) || (c =? 45) || (c =? 46)
   || ((48 <=? c) && (c <=? 57)) || ((65 <=? c) && (c <=? 90)) || ((94 <=? c) && (c <=? 122))
   || (c =? 124) || (c =? 126))%N.
(* OWS_re = [ \t]* *)
Definition is_ows (c : N) : bool := ((c =? 32) || (c =? 9))%N.
(* qdtext_re = [\t \x21\x23-\x5b\x5d-\x7e\x80-\xff] *)
Definition is_qdtext (c : N) : bool :=
  ((c =? 9) || (c =? 32) || (c =? 33) || ((35 <=? c) && (c <=? 91)) || ((93 <=? c) && (c <=? 126))
   || ((128 <=? c) && (c <=? 255)))%N.
(* second character of quoted_pair_re = [\t \x21-\x7e\x80-\xff] *)
Definition is_qpchar (c : N) : bool :=
  ((c =? 9) || (c =? 32) || ((33 <=? c) && (c <=? 126)) || ((128 <=? c) && (c <=? 255)))%N.

Fixpoint span (f : N -> bool) (s : str) : str * str :=
  match s with
  | [] => ([], [])
  | c :: s' => if f c then let r := span f s' in (c :: fst r, snd r) else ([], s)
  end.

(* ------------------------------------------------------------------ media type scanner *)
(* after the opening DQUOTE: (raw text between the quotes, rest after the closing DQUOTE) *)
Fixpoint qs_body (s : str) : option (str * str) :=
  match s with
  | [] => None
  | c :: s' =>
      if (c =? 34)%N then Some ([], s')
      else if (c =? 92)%N then
        match s' with
        | d :: s'' =>
            if is_qpchar d then
              match qs_body s'' with Some (a, b) => Some (c :: d :: a, b) | None => None end
            else None
        | [] => None
        end
      else if is_qdtext c then
        match qs_body s' with Some (a, b) => Some (c :: a, b) | None => None end
      else None
  end.

(* (?![qQ]=) in front of  token "=" : the parameter name is not exactly q / Q *)
Definition is_q_name (n : str) : bool :=
  match n with [c] => ((c =? 113) || (c =? 81))%N | _ => false end.

(* *( OWS ";" OWS (?![qQ]=) token "=" ( token / quoted-string ) ) up to the END of the string;
   values are returned as matched (quoted-strings still quoted), like parameters_compiled_re.findall *)
Fixpoint params_loop (fuel : nat) (s : str) : option params :=
  match s with
  | [] => Some []
  | _ :: _ =>
      match fuel with
      | O => None
      | S fuel' =>
          match snd (span is_ows s) with
          | c :: s2 =>
              if (c =? 59)%N then
                let s3 := snd (span is_ows s2) in
                let name := fst (span is_tchar s3) in
                match name, snd (span is_tchar s3) with
                | _ :: _, e :: s5 =>
                    if negb (e =? 61)%N || is_q_name name then None
                    else
                      match s5 with
                      | d :: s6 =>
                          if (d =? 34)%N then
                            match qs_body s6 with
                            | Some (body, s7) =>
                                match params_loop fuel' s7 with
                                | Some ps => Some ((name, 34%N :: body ++ [34%N]) :: ps)
                                | None => None
                                end
                            | None => None
                            end
                          else
                            match fst (span is_tchar s5) with
                            | [] => None
                            | v =>
                                match params_loop fuel' (snd (span is_tchar s5)) with
                                | Some ps => Some ((name, v) :: ps)
                                | None => None
                                end
                            end
                      | [] => None
                      end
                | _, _ => None
                end
              else None
          | [] => None
          end
      end
  end.

(* re.sub(r"\\(?![\\])", "", x): drop every backslash that is not followed by a backslash *)
Fixpoint drop_lone_bs (s : str) : str :=
  match s with
  | [] => []
  | c :: s' =>
      if (c =? 92)%N && negb (match s' with d :: _ => (d =? 92)%N | [] => false end)
      then drop_lone_bs s' else c :: drop_lone_bs s'
  end.
(* .replace("\\\\", "\\") *)
Fixpoint replace_bsbs (s : str) : str :=
  match s with
  | c :: s' =>
      match s' with
      | d :: s'' => if (c =? 92)%N && (d =? 92)%N then 92%N :: replace_bsbs s'' else c :: replace_bsbs s'
      | [] => [c]
      end
  | [] => []
  end.
Definition process_quoted_string_token (tok : str) : str :=
  replace_bsbs (drop_lone_bs (removelast (tl tok))).        (* token[1:-1] *)

Definition dq : str := [34%N].
(* _parse_media_type_params: unquote the values that start and end with a DQUOTE *)
Definition unquote_param (p : str * str) : str * str :=
  if starts_with dq (snd p) && ends_with dq (snd p) then (fst p, process_quoted_string_token (snd p)) else p.

Definition poffer := (str * str * params)%type.      (* AcceptOffer(type, subtype, params) *)
Definition star : str := [42%N].
Definition star_star : str := [42%N; 47%N; 42%N].
Definition lower_names (ps : params) : params := map (fun p => (lower (fst p), snd p)) ps.

(* Accept.parse_offer on a str: None = ValueError *)
Definition parse_offer_str (s : str) : option poffer :=
  let t := fst (span is_tchar s) in
  match t, snd (span is_tchar s) with
  | _ :: _, c :: s2 =>
      if (c =? 47)%N then
        let st := fst (span is_tchar s2) in
        let s3 := snd (span is_tchar s2) in
        match st with
        | [] => None
        | _ :: _ =>
            match params_loop (S (List.length s3)) s3 with
            | None => None
            | Some raw =>
                if str_eqb t star || str_eqb st star then None
                else Some (lower t, lower st, lower_names (map unquote_param raw))
            end
        end
      else None
  | _, _ => None
  end.

(* an element of `offers`: a str, or an AcceptOffer instance *)
Inductive offer :=
| OStr (s : str)
| OObj (ty st : str) (ps : params).

(* token_compiled_re.fullmatch *)
Definition is_token (s : str) : bool := match s with [] => false | _ :: _ => forallb is_tchar s end.

(* with fixes/C04-2-acceptoffer-instances-normalised.patch: a pre-parsed offer is held to the rules of its text
   form - token components, no parameter named q, no wildcard - and is lower-cased like a str offer *)
Definition parse_offer (o : offer) : option poffer :=
  match o with
  | OStr s => parse_offer_str s
  | OObj ty st ps =>
      if is_token ty && is_token st
         && forallb (fun p => is_token (fst p)) ps && negb (existsb (fun p => is_q_name (fst p)) ps)
      then if str_eqb ty star || str_eqb st star then None
           else Some (lower ty, lower st, lower_names ps)
      else None
  end.

Fixpoint params_eqb (a b : params) : bool :=
  match a, b with
  | [], [] => true
  | (n, v) :: a', (m, w) :: b' => str_eqb n m && str_eqb v w && params_eqb a' b'
  | _, _ => false
  end.

(* dict-key equality of offers: a str never equals a namedtuple *)
Definition offer_eqb (a b : offer) : bool :=
  match a, b with
  | OStr x, OStr y => str_eqb x y
  | OObj t1 s1 p1, OObj t2 s2 p2 => str_eqb t1 t2 && str_eqb s1 s2 && params_eqb p1 p2
  | _, _ => false
  end.

Fixpoint enum_from {A} (n : nat) (l : list A) : list (nat * A) :=
  match l with
  | [] => []
  | x :: l' => (n, x) :: enum_from (S n) l'
  end.

Record item := mkI { i_idx : nat; i_key : offer; i_po : poffer }.

(* _parse_and_normalize_offers: [index, parsed_offer] for the offers that parse; the offer itself
   (offers[offer_index] in the caller) is carried along *)
Definition pan_one (io : nat * offer) : list item :=
  match parse_offer (snd io) with
  | Some p => [mkI (fst io) (snd io) p]
  | None => []
  end.
Definition parse_and_normalize (offers : list offer) : list item :=
  flat_map pan_one (enum_from 0 offers).

(* ------------------------------------------------------------------ Accept: ranges *)
(* one element of AcceptValidHeader.parsed: (media_range, qvalue, media_type_params) *)
Definition raw_range := (str * N * params)%type.

Record lrange := mkR { r_ts : str; r_ty : str; r_st : str; r_q : N; r_ps : params }.

(* lowercased_ranges entry, with  range_type, range_subtype = range_type_subtype.split("/", 1)
   hoisted out of the loop (None = the unpacking ValueError, which Accept.parse cannot cause) *)
Definition lower_range (r : raw_range) : option lrange :=
  let ts := lower (fst (fst (partition_c 59 (fst (fst r))))) in
  match partition_c 47 ts with
  | (ty, true, st) => Some (mkR ts ty st (snd (fst r)) (lower_names (snd r)))
  | _ => None
  end.

Fixpoint lower_ranges (l : list raw_range) : option (list lrange) :=
  match l with
  | [] => Some []
  | r :: l' =>
      match lower_range r, lower_ranges l' with
      | Some x, Some xs => Some (x :: xs)
      | _, _ => None
      end
  end.

(* the specificity table of acceptable_offers; 0 = `continue` *)
Definition specificity (r : lrange) (po : poffer) : nat :=
  if str_eqb (fst (fst po)) (r_ty r) && str_eqb (snd (fst po)) (r_st r) then
    match r_ps r with
    | [] => 3
    | _ :: _ => if params_eqb (snd po) (r_ps r) then 4 else 0
    end
  else if str_eqb (r_st r) star && str_eqb (fst (fst po)) (r_ty r) then 2
  else if str_eqb (r_ts r) star_star then 1
  else 0.

(* ------------------------------------------------------------------ Accept: the dict loop *)
Record entry := mkE { e_q : N; e_idx : nat; e_sp : nat }.   (* (qvalue, offer_index, specificity) *)
Definition dict := list (offer * entry).                    (* insertion ordered *)

Fixpoint dget (k : offer) (d : dict) : option entry :=
  match d with
  | [] => None
  | (k', e) :: d' => if offer_eqb k' k then Some e else dget k d'
  end.
Fixpoint dset (k : offer) (e : entry) (d : dict) : dict :=
  match d with
  | [] => [(k, e)]
  | (k', e') :: d' => if offer_eqb k' k then (k', e) :: d' else (k', e') :: dset k e d'
  end.

(* body of `for (range...) in lowercased_ranges` *)
Definition range_step (k : offer) (idx : nat) (po : poffer) (d : dict) (r : lrange) : dict :=
  let sp := specificity r po in
  if (sp =? 0)%nat then d
  else match dget k d with
       | Some e => if (sp <=? e_sp e)%nat then d else dset k (mkE (r_q r) idx sp) d
       | None => dset k (mkE (r_q r) idx sp) d
       end.

(* body of `for offer_index, parsed_offer in lowercased_offers_parsed` *)
Definition offer_step (rs : list lrange) (d : dict) (it : item) : dict :=
  fold_left (range_step (i_key it) (i_idx it) (i_po it)) rs d.

(* (offer, qvalue, offer_index) *)
Record qent (K : Type) := mkQ { x_key : K; x_q : N; x_idx : nat }.
Arguments mkQ {K}. Arguments x_key {K}. Arguments x_q {K}. Arguments x_idx {K}.

(* key=lambda t: (t[1], -t[2]) compared as tuples:  a <= b *)
Definition key_q_negidx_leb {K} (a b : qent K) : bool :=
  (x_q a <? x_q b)%N || ((x_q a =? x_q b)%N && (x_idx b <=? x_idx a)%nat).

Definition accept_offers (rs : list lrange) (offers : list offer) : list (offer * N) :=
  let d := fold_left (offer_step rs) (parse_and_normalize offers) [] in
  let l := map (fun ke => mkQ (fst ke) (e_q (snd ke)) (e_idx (snd ke)))
               (filter (fun ke => negb (e_q (snd ke) =? 0)%N) d) in
  map (fun x => (x_key x, x_q x)) (py_sort key_q_negidx_leb true l).

Definition html_offers : list offer :=
  [OStr (H "746578742f68746d6c");                               (* text/html *)
   OStr (H "6170706c69636174696f6e2f7868746d6c2b786d6c");       (* application/xhtml+xml *)
   OStr (H "6170706c69636174696f6e2f786d6c");                   (* application/xml *)
   OStr (H "746578742f786d6c")].                                (* text/xml *)

Definition accept_html (rs : list lrange) : bool :=
  match accept_offers rs html_offers with [] => false | _ :: _ => true end.

(* _AcceptInvalidOrNoHeader.acceptable_offers *)
Definition nohdr_offers (offers : list offer) : list (offer * N) :=
  map (fun it => (i_key it, 1000%N)) (parse_and_normalize offers).

(* ------------------------------------------------------------------ Accept-Charset / Accept-Encoding *)
Record cstate := mkC { c_acc : list (str * N); c_nacc : list str; c_ast : option N }.

Fixpoint aget (k : str) (l : list (str * N)) : option N :=
  match l with
  | [] => None
  | (k', q) :: l' => if str_eqb k' k then Some q else aget k l'
  end.
Definition smem (k : str) (l : list str) : bool := existsb (fun c => str_eqb c k) l.

(* body of `for charset, qvalue in lowercased_parsed` *)
Definition hdr_step (st : cstate) (cq : str * N) : cstate :=
  if str_eqb (fst cq) star then
    match c_ast st with
    | None => mkC (c_acc st) (c_nacc st) (Some (snd cq))
    | Some _ => st
    end
  else if negb (match aget (fst cq) (c_acc st) with Some _ => true | None => false end)
          && negb (smem (fst cq) (c_nacc st)) then
    if (snd cq =? 0)%N then mkC (c_acc st) (c_nacc st ++ [fst cq]) (c_ast st)
    else mkC (c_acc st ++ [cq]) (c_nacc st) (c_ast st)
  else st.

Definition identity : str := H "6964656e74697479".

(* body of `for index, offer in enumerate(lowercased_offers)`: the matched qvalue, if any *)
Definition offer_q (enc : bool) (sorted : list (str * N)) (nacc : list str) (ast : option N) (o : str) : option N :=
  if smem o nacc then None
  else match find (fun cq => str_eqb o (fst cq)) sorted with
       | Some cq => Some (snd cq)
       | None =>
           match ast with
           | Some a => if negb (a =? 0)%N then Some a else None     (* `if asterisk_qvalue:` ; 0.0 != 0.0 is False *)
           | None => if enc && str_eqb o identity then Some 1000%N else None
           end
       end.

Definition snd_leb (a b : str * N) : bool := (snd a <=? snd b)%N.
Definition idx_leb {K} (a b : qent K) : bool := (x_idx a <=? x_idx b)%nat.
Definition q_leb {K} (a b : qent K) : bool := (x_q a <=? x_q b)%N.

Definition simple_offers (enc : bool) (parsed : list (str * N)) (offers : list str) : list (str * N) :=
  let lowercased_parsed := map (fun cq => (lower (fst cq), snd cq)) parsed in
  let st := fold_left hdr_step lowercased_parsed (mkC [] [] None) in
  let sorted := py_sort snd_leb true (c_acc st) in
  let filtered :=
    flat_map (fun io => match offer_q enc sorted (c_nacc st) (c_ast st) (lower (snd io)) with
                        | Some q => [mkQ (snd io) q (fst io)]
                        | None => []
                        end) (enum_from 0 offers) in
  map (fun x => (x_key x, x_q x)) (py_sort q_leb true (py_sort idx_leb false filtered)).

Definition charset_offers := simple_offers false.
Definition encoding_offers := simple_offers true.

(* ------------------------------------------------------------------ observation values for the correspondence *)
Definition params_val (ps : params) : val := VList (map (fun p => VList [VStr (fst p); VStr (snd p)]) ps).
Definition offer_val (o : offer) : val :=
  match o with
  | OStr s => VStr s
  | OObj ty st ps => VList [VStr ty; VStr st; params_val ps]
  end.
Definition value_error : val := VErr (H "56616c75654572726f72").

Definition c04_parse_offer (s : str) : val :=
  match parse_offer_str s with
  | Some po => VList [VStr (fst (fst po)); VStr (snd (fst po)); params_val (snd po)]
  | None => value_error
  end.

Definition result_val {K} (f : K -> val) (l : list (K * N)) : val :=
  VList (map (fun oq => VList [f (fst oq); VInt (Z.of_N (snd oq))]) l).

Definition c04_accept (raw : list raw_range) (offers : list offer) : val :=
  match lower_ranges raw with
  | Some rs => result_val offer_val (accept_offers rs offers)
  | None => value_error
  end.
Definition c04_accept_html (raw : list raw_range) : val :=
  match lower_ranges raw with
  | Some rs => VBool (accept_html rs)
  | None => value_error
  end.
Definition c04_accept_nohdr (offers : list offer) : val := result_val offer_val (nohdr_offers offers).
Definition c04_charset (parsed : list (str * N)) (offers : list str) : val :=
  result_val VStr (charset_offers parsed offers).
Definition c04_encoding (parsed : list (str * N)) (offers : list str) : val :=
  result_val VStr (encoding_offers parsed offers).
