(* C18 — an exception instance is stateless as far as its responses go: the responses of a history of calls
   on ONE instance are those of fresh, identically constructed instances. *)
From Coq Require Import NArith List Bool Lia ZifyBool ZifyNat ZifyN String Ascii.
Require Import Webob.Lib.Val Webob.Lib.PyStr Webob.Model.C18_ExcBody Webob.Spec.C18_HtmlTok
               Webob.Spec.C18_Flat Webob.Proofs.C18_skeleton.
Import ListNotations.
Local Open Scope N_scope.

Definition cl_name : str := A "content-length".

Lemma str_eqb_neq : forall a b, a <> b -> str_eqb a b = false.
Proof. intros a b H. destruct (str_eqb a b) eqn:E; auto. apply str_eqb_eq in E. contradiction. Qed.

Lemma assoc_filter : forall n hs, n <> cl_name ->
  assoc_last n (lower_keys (filter not_cl hs)) = assoc_last n (lower_keys hs).
Proof.
  intros n hs Hn. induction hs as [|[k v] hs IH]; [reflexivity|].
  cbn [filter]. unfold not_cl at 1. cbn [fst].
  destruct (str_eqb (lower k) (A "content-length")) eqn:E; cbn [negb].
  - apply str_eqb_eq in E. unfold lower_keys in *. cbn [map fst snd assoc_last]. rewrite <- IH.
    destruct (assoc_last n (map (fun kv => (lower (fst kv), snd kv)) (filter not_cl hs))); [reflexivity|].
    rewrite E. rewrite str_eqb_neq; [reflexivity|]. intros H. apply Hn. symmetry. exact H.
  - unfold lower_keys in *. cbn [map fst snd assoc_last]. rewrite IH. reflexivity.
Qed.

Lemma idc_name_not_cl : forall n, forallb is_idc n = true -> n <> cl_name.
Proof. intros n H ->. vm_compute in H. discriminate. Qed.

Lemma subst_ext : forall its f g, (forall n b, In (V n b) its -> f n = g n) -> subst its f = subst its g.
Proof.
  induction its as [|it r IH]; intros f g H; [reflexivity|].
  unfold subst in *. cbn [flat_map]. rewrite (IH f g) by (intros; eapply H; right; eauto). f_equal.
  destruct it as [c|n b]; [reflexivity|]. cbn [subst_item]. rewrite (H n b) by (left; reflexivity). reflexivity.
Qed.

Section Filter.
Variables (cl : excls) (d c : str) (hs env : list (str * str)).
Let i1 := mkInp d c (filter not_cl hs) env.
Let i2 := mkInp d c hs env.

Lemma override_filter : forall n, n <> cl_name -> override i1 n = override i2 n.
Proof. intros n Hn. unfold override, i1, i2. cbn [i_headers i_environ]. rewrite assoc_filter by exact Hn. reflexivity. Qed.

Lemma args_filter : forall esc n, n <> cl_name -> args esc cl i1 n = args esc cl i2 n.
Proof.
  intros esc n Hn. unfold args. rewrite override_filter by exact Hn. reflexivity.
Qed.

Lemma make_body_filter : forall esc, make_body esc cl i1 = make_body esc cl i2.
Proof.
  intros esc. unfold make_body. apply subst_ext. intros n b Hin.
  apply args_filter. apply idc_name_not_cl. eapply parse_names_ok; eauto.
Qed.

Lemma own_ctype_filter : own_ctype i1 = own_ctype i2.
Proof.
  unfold own_ctype, i1, i2. cbn [i_headers]. rewrite assoc_filter; [reflexivity|].
  intros H. vm_compute in H. discriminate.
Qed.

Lemma call_filter : forall cfg a hd ex, call cfg cl i1 a hd ex = call cfg cl i2 a hd ex.
Proof.
  intros cfg a hd ex. unfold call. rewrite own_ctype_filter.
  destruct (match ex with Some _ => true | None => false end || c_empty cl || hd); [reflexivity|].
  unfold generate, html_body, plain_body, json_body, json_dict. rewrite !make_body_filter. reflexivity.
Qed.
End Filter.

Lemma filter_idem : forall hs, filter not_cl (filter not_cl hs) = filter not_cl hs.
Proof.
  induction hs as [|kv hs IH]; [reflexivity|]. cbn [filter].
  destruct (not_cl kv) eqn:E; [cbn [filter]; rewrite E, IH; reflexivity | exact IH].
Qed.

Lemma filter_comm : forall {T} (f g : T -> bool) l, filter f (filter g l) = filter g (filter f l).
Proof.
  intros T f g. induction l as [|x l IH]; [reflexivity|]. cbn [filter].
  destruct (g x) eqn:Eg; destruct (f x) eqn:Ef; cbn [filter]; rewrite ?Eg, ?Ef, IH; reflexivity.
Qed.

(* deleting Content-Length and installing the resolved Location commute *)
Lemma with_location_filter : forall hs loc,
  with_location (filter not_cl hs) loc = filter not_cl (with_location hs loc).
Proof.
  intros hs [l|]; [|reflexivity]. cbn [with_location].
  rewrite filter_app, (filter_comm not_loc not_cl). reflexivity.
Qed.

Theorem history_stateless : forall cfg cl d c ex hs rs,
  history cfg cl d c ex hs rs =
  map (fun r => call cfg cl (mkInp d c (with_location hs (q_location r)) (q_environ r))
                     (q_accept r) (q_head r) ex) rs.
Proof.
  intros cfg cl d c ex hs rs.
  assert (G : forall rs hs', (hs' = hs \/ hs' = filter not_cl hs) ->
              history cfg cl d c ex hs' rs =
              map (fun r => call cfg cl (mkInp d c (with_location hs (q_location r)) (q_environ r))
                                 (q_accept r) (q_head r) ex) rs).
  { induction rs0 as [|r rest IH]; intros hs' Hh; [reflexivity|].
    cbn [history map obj_step fst snd]. f_equal.
    - destruct Hh as [-> | ->]; [reflexivity|]. rewrite with_location_filter. apply call_filter.
    - apply IH.
      destruct (match ex with Some _ => true | None => false end || c_empty cl || q_head r); [exact Hh|].
      destruct Hh as [-> | ->]; [right; reflexivity | right; apply filter_idem]. }
  apply G. left; reflexivity.
Qed.
