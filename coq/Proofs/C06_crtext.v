(* C06 — Content-Range text layer: ContentRange.parse o str(ContentRange) is the identity on every
   response-valid (start, stop, length); the parser never yields an invalid ContentRange and its constructor
   call never raises; the Content-Range header of the modelled 206 / 416 responses parses back to the slice
   served; the regenerated pattern is the one the scanner was written for. *)
From Coq Require Import ZArith NArith List Bool Lia.
From Coq Require String.
Require Import Webob.Lib.Val Webob.Lib.Rx Webob.Model.C06_ByteRange Webob.Model.C06_AppIterRange
               Webob.Model.C06_CondResp Webob.Model.C06_ContentRangeText Webob.Spec.C06_Rfc
               Webob.Proofs.C06_range Webob.Proofs.C06_text Webob.Proofs.C06_decision Webob.Gen.C06_crx.
Import ListNotations.
Local Open Scope Z_scope.

(* ---------------------------------------------------------------- the regenerated pattern *)
Lemma gen_rx_is_spec : cr_rx = cr_rx_spec /\ cr_rx_groups = 3%N.
Proof. split; reflexivity. Qed.

(* ---------------------------------------------------------------- scanner pieces on rendered text *)
Lemma cs_prefix_bytes : forall x, cs_prefix S_bytes_sp (S_bytes_sp ++ x) = Some x.
Proof. intros x. reflexivity. Qed.

Lemma span1_digits : forall ds c r, digits ds -> ds <> [] -> is_digit c = false ->
  span1 (ds ++ c :: r) = Some (ds, c :: r).
Proof.
  intros ds c r Hd Hn Hc. unfold span1. rewrite (span_digits ds c r Hd Hc).
  destruct ds; [contradiction|reflexivity].
Qed.

Lemma span1_digits_end : forall ds, digits ds -> ds <> [] -> span1 ds = Some (ds, []).
Proof.
  intros ds Hd Hn. unfold span1. rewrite (span_digits_end ds Hd). destruct ds; [contradiction|reflexivity].
Qed.

Definition len_text (l : option Z) : str := match l with None => [42%N] | Some n => int_str n end.
Definition len_ok (l : option Z) : Prop := match l with None => True | Some n => 0 <= n end.

Lemma match_cr_len_text : forall l, len_ok l ->
  match_cr_len (47%N :: len_text l) = Some (option_map nat_str l).
Proof.
  intros [n|] Hl; cbn [len_text match_cr_len option_map]; [|reflexivity].
  cbn in Hl. rewrite (int_str_nonneg n Hl).
  rewrite (span1_digits_end _ (nat_str_digits n Hl) (nat_str_nonempty n)). reflexivity.
Qed.

Lemma content_range_str_unfold : forall s e l,
  content_range_str (CR s e l) =
  S_bytes_sp ++ match s, e with
                | Some s0, Some e0 => int_str s0 ++ 45%N :: int_str (e0 - 1) ++ 47%N :: len_text l
                | _, _ => 42%N :: 47%N :: len_text l
                end.
Proof. intros [s|] [e|] [l|]; reflexivity. Qed.

Lemma match_cr_star : forall l, len_ok l ->
  match_content_range (S_bytes_sp ++ 42%N :: 47%N :: len_text l) = Some (None, option_map nat_str l).
Proof.
  intros l Hl. unfold match_content_range. rewrite cs_prefix_bytes.
  change (span1 (42%N :: 47%N :: len_text l)) with (@None (str * str)).
  cbv beta iota. rewrite (match_cr_len_text l Hl). reflexivity.
Qed.

Lemma match_cr_span : forall s e l, 0 <= s -> 0 <= e -> len_ok l ->
  match_content_range (S_bytes_sp ++ int_str s ++ 45%N :: int_str e ++ 47%N :: len_text l)
  = Some (Some (nat_str s, nat_str e), option_map nat_str l).
Proof.
  intros s e l Hs He Hl. unfold match_content_range. rewrite cs_prefix_bytes.
  rewrite (int_str_nonneg s Hs), (int_str_nonneg e He).
  rewrite (span1_digits _ 45%N _ (nat_str_digits s Hs) (nat_str_nonempty s) eq_refl).
  rewrite (span1_digits _ 47%N _ (nat_str_digits e He) (nat_str_nonempty e) eq_refl).
  rewrite (match_cr_len_text l Hl). reflexivity.
Qed.

(* ---------------------------------------------------------------- int() within CPython's digit limit *)
Definition fits (n : Z) : Prop := (List.length (nat_str n) <= int_max_str_digits)%nat.
Definition fits_opt (l : option Z) : Prop := match l with None => True | Some n => fits n end.

Lemma py_int_nat_str : forall n, 0 <= n -> fits n -> py_int (nat_str n) = Some n.
Proof.
  intros n Hn Hf. unfold py_int, fits in *.
  destruct (Nat.ltb_spec int_max_str_digits (List.length (nat_str n))) as [Hlt|Hle]; [lia|].
  now rewrite (dec_val_nat_str n Hn).
Qed.

(* ---------------------------------------------------------------- validity: response=True implies the constructor's check *)
Lemma valid_resp_ctor : forall s e l, is_cr_valid s e l true = true -> is_cr_valid s e l false = true.
Proof.
  intros [s|] [e|] [l|]; cbn [is_cr_valid andb]; intros H; try exact H.
  revert H. zb; cbn; try discriminate; intros _; try reflexivity; lia.
Qed.

(* what response-validity says *)
Definition cr_wf (s e l : option Z) : Prop :=
  match s, e with
  | None, None => len_ok l
  | Some s0, Some e0 => 0 <= s0 < e0 /\ match l with None => True | Some n => e0 <= n end
  | _, _ => False
  end.

Lemma valid_resp_spec : forall s e l, is_cr_valid s e l true = true <-> cr_wf s e l.
Proof.
  intros [s|] [e|] [l|]; cbn [is_cr_valid cr_wf len_ok andb]; split; intros H;
    try discriminate; try contradiction; try exact I; try reflexivity.
  - revert H. zb; cbn; try discriminate; intros _; lia.
  - zb; cbn; try reflexivity; lia.
  - apply andb_true_iff in H as [H1 H2]. apply Z.leb_le in H1. apply Z.ltb_lt in H2. split; [lia|exact I].
  - apply andb_true_iff; split; [apply Z.leb_le|apply Z.ltb_lt]; lia.
  - apply Z.leb_le; exact H.
  - apply Z.leb_le in H; exact H.
Qed.

(* ---------------------------------------------------------------- parse (str cr) = cr *)
Definition fits_cr (s e l : option Z) : Prop :=
  match s, e with
  | Some s0, Some e0 => fits s0 /\ fits (e0 - 1)
  | _, _ => True
  end /\ fits_opt l.

Theorem cr_roundtrip : forall s e l,
  is_cr_valid s e l true = true -> fits_cr s e l ->
  cr_parse (content_range_str (CR s e l)) = PSome (CR s e l).
Proof.
  intros s e l Hv [Hf Hfl].
  pose proof (valid_resp_ctor _ _ _ Hv) as Hc.
  pose proof (proj1 (valid_resp_spec _ _ _) Hv) as Hw.
  rewrite content_range_str_unfold. unfold cr_parse.
  assert (Hlen : len_ok l).
  { destruct s as [s|], e as [e|]; cbn [cr_wf] in Hw; try contradiction; [|exact Hw].
    destruct l as [n|]; cbn; [lia|exact I]. }
  assert (Hl' : match l with None => Some None
                | Some n => match py_int (nat_str n) with None => None | Some k => Some (Some k) end end = Some l).
  { destruct l as [n|]; [|reflexivity]. cbn in Hlen, Hfl. now rewrite (py_int_nat_str n Hlen Hfl). }
  destruct s as [s|], e as [e|]; cbn [cr_wf] in Hw; try contradiction.
  - destruct Hw as [Hse _]. destruct Hf as [Hfs Hfe].
    rewrite (match_cr_span s (e - 1) l) by (try lia; exact Hlen).
    rewrite (py_int_nat_str s) by (try lia; exact Hfs).
    rewrite (py_int_nat_str (e - 1)) by (try lia; exact Hfe).
    replace (e - 1 + 1) with e by lia.
    destruct l as [n|]; cbn [option_map]; cbn [option_map] in Hl'.
    + destruct (py_int (nat_str n)) as [k|]; [|discriminate]. injection Hl' as ->.
      rewrite Hv. unfold mk_content_range. rewrite Hc. reflexivity.
    + rewrite Hv. unfold mk_content_range. rewrite Hc. reflexivity.
  - rewrite (match_cr_star l Hlen).
    destruct l as [n|]; cbn [option_map]; cbn [option_map] in Hl'.
    + destruct (py_int (nat_str n)) as [k|]; [|discriminate]. injection Hl' as ->.
      rewrite Hv. unfold mk_content_range. rewrite Hc. reflexivity.
    + rewrite Hv. unfold mk_content_range. rewrite Hc. reflexivity.
Qed.

Lemma content_range_str_not_blank : forall c,
  parse_content_range (Some (content_range_str c)) =
  match cr_parse (content_range_str c) with PSome c' => Some c' | _ => None end.
Proof. intros [s e l]. rewrite content_range_str_unfold. reflexivity. Qed.

Theorem header_roundtrip : forall s e l,
  is_cr_valid s e l true = true -> fits_cr s e l ->
  parse_content_range (Some (content_range_str (CR s e l))) = Some (CR s e l).
Proof. intros s e l Hv Hf. rewrite content_range_str_not_blank, (cr_roundtrip s e l Hv Hf). reflexivity. Qed.

(* the constructor accepts more than the parser: stop > length.  There the text does NOT read back. *)
Theorem cr_roundtrip_gap : forall s e l,
  is_cr_valid (Some s) (Some e) (Some l) false = true -> l < e -> fits s -> fits (e - 1) -> fits l ->
  cr_parse (content_range_str (CR (Some s) (Some e) (Some l))) = PNone.
Proof.
  intros s e l Hc Hle Hfs Hfe Hfl.
  assert (Hb : 0 <= s < e /\ s < l).
  { revert Hc. cbn [is_cr_valid andb]. zb; cbn; try discriminate; intros _; lia. }
  rewrite content_range_str_unfold. unfold cr_parse.
  rewrite (match_cr_span s (e - 1) (Some l)) by (cbn; lia).
  rewrite (py_int_nat_str s), (py_int_nat_str (e - 1)) by (try lia; assumption).
  cbn [option_map]. rewrite (py_int_nat_str l) by (try lia; assumption).
  replace (e - 1 + 1) with e by lia.
  assert (Hr : is_cr_valid (Some s) (Some e) (Some l) true = false).
  { cbn [is_cr_valid andb]. zb; cbn; try reflexivity; lia. }
  now rewrite Hr.
Qed.

(* ---------------------------------------------------------------- the parser never returns an invalid ContentRange *)
Theorem cr_parse_sound : forall h s e l, cr_parse h = PSome (CR s e l) ->
  is_cr_valid s e l true = true /\ cr_wf s e l.
Proof.
  intros h s e l H. unfold cr_parse in H.
  destruct (match_content_range h) as [[se lg]|]; [|discriminate].
  destruct (match se with
            | None => Some (None, None)
            | Some (d1, d2) =>
                match py_int d1 with
                | None => None
                | Some s0 => match py_int d2 with None => None | Some e0 => Some (Some s0, Some (e0 + 1)) end
                end
            end) as [[s1 e1]|]; [|discriminate].
  destruct (match lg with None => Some None
            | Some d => match py_int d with None => None | Some n => Some (Some n) end end) as [lv|]; [|discriminate].
  destruct (is_cr_valid s1 e1 lv true) eqn:Hv; [|discriminate].
  unfold mk_content_range in H. rewrite (valid_resp_ctor _ _ _ Hv) in H.
  injection H as -> -> ->. split; [exact Hv | apply valid_resp_spec; exact Hv].
Qed.

Theorem cr_parse_ctor_never_raises : forall h, cr_parse h <> PCtorErr.
Proof.
  intros h H. unfold cr_parse in H.
  destruct (match_content_range h) as [[se lg]|]; [|discriminate].
  destruct (match se with
            | None => Some (None, None)
            | Some (d1, d2) =>
                match py_int d1 with
                | None => None
                | Some s0 => match py_int d2 with None => None | Some e0 => Some (Some s0, Some (e0 + 1)) end
                end
            end) as [[s1 e1]|]; [|discriminate].
  destruct (match lg with None => Some None
            | Some d => match py_int d with None => None | Some n => Some (Some n) end end) as [lv|]; [|discriminate].
  destruct (is_cr_valid s1 e1 lv true) eqn:Hv; [|discriminate].
  unfold mk_content_range in H. rewrite (valid_resp_ctor _ _ _ Hv) in H. discriminate.
Qed.

Theorem parse_content_range_sound : forall v s e l, parse_content_range v = Some (CR s e l) -> cr_wf s e l.
Proof.
  intros [h|] s e l H; [|discriminate]. unfold parse_content_range in H.
  destruct (is_nil h || forallb is_pyspace h); [discriminate|].
  destruct (cr_parse h) as [| | |c] eqn:Hp; try discriminate. injection H as ->.
  exact (proj2 (cr_parse_sound _ _ _ _ Hp)).
Qed.

(* ---------------------------------------------------------------- serialize_content_range *)
Lemma lstrip_by_head : forall f c s, f c = false -> lstrip_by f (c :: s) = c :: s.
Proof. intros f c s H. cbn [lstrip_by]. now rewrite H. Qed.

(* a tuple/list of 2 or 3 is refused exactly when the constructor refuses it; other lengths always *)
Theorem serialize_seq_refused : forall items,
  serialize_content_range (ASeq items) = SErr <->
  match items with
  | [b; e] => is_cr_valid b e None false = false
  | [b; e; l] => is_cr_valid b e l false = false
  | _ => True
  end.
Proof.
  assert (Hfin : forall c, (let t' := strip_by is_sp_tab (content_range_str c) in
                            if is_nil t' then SNone else SText t') <> SErr).
  { intros c. cbv zeta. destruct (is_nil _); discriminate. }
  intros [|b [|e [|l [|x r]]]]; cbn [serialize_content_range]; try (split; [intros _; exact I | reflexivity]).
  - unfold mk_content_range. destruct (is_cr_valid b e None false); split; intros H;
      try reflexivity; try discriminate. exfalso; exact (Hfin _ H).
  - unfold mk_content_range. destruct (is_cr_valid b e l false); split; intros H;
      try reflexivity; try discriminate. exfalso; exact (Hfin _ H).
Qed.

(* ---------------------------------------------------------------- the 206 / 416 of the response model *)
Theorem resp_206_cr_parses : forall i s e L,
  decide i = D206 s e L -> app_ok (r_app i) -> serves_ranges (r_app i) ->
  fits s -> fits (e - 1) -> fits L ->
  exists cl v rest chunks,
    cond_resp_app i = Some (S_206, cl :: (S_CR, v) :: rest, chunks)
    /\ parse_content_range (Some v) = Some (CR (Some s) (Some e) (Some L))
    /\ concat chunks = sent_body i (slice (body_of (r_app i)) (Z.to_nat s) (Z.to_nat e)).
Proof.
  intros i s e L Hd Hok Hs Hfs Hfe HfL.
  destruct (resp_206 i s e L Hd Hok Hs) as (chunks & Hr & Hb).
  destruct (decide_206_bounds _ _ _ _ Hd) as (_ & H0 & Hse & HeL).
  eexists _, _, _, chunks. split; [exact Hr|]. split; [|exact Hb].
  change (S_bytes_sp ++ int_str s ++ [45%N] ++ int_str (e - 1) ++ [47%N] ++ int_str L)
    with (content_range_str (CR (Some s) (Some e) (Some L))).
  apply header_roundtrip.
  - apply valid_resp_spec. cbn. lia.
  - repeat split; assumption.
Qed.

Theorem resp_416_cr_parses : forall i rg L, decide i = D416 rg L -> 0 <= L -> fits L ->
  exists cl v rest body,
    cond_resp_app i = Some (S_416, cl :: (S_CR, v) :: rest, body)
    /\ parse_content_range (Some v) = Some (CR None None (Some L)).
Proof.
  intros i rg L Hd HL HfL.
  destruct (resp_416 i rg L Hd HL) as (cl & body & Hr & _).
  eexists _, _, _, body. split; [exact Hr|].
  change (S_bytes_sp ++ [42%N; 47%N] ++ int_str L) with (content_range_str (CR None None (Some L))).
  apply header_roundtrip.
  - apply valid_resp_spec. exact HL.
  - split; [exact I | exact HfL].
Qed.

(* ---------------------------------------------------------------- the hypotheses are satisfiable *)
Import String.
Lemma fits_by_computation : forall n, (List.length (nat_str n) <=? int_max_str_digits)%nat = true -> fits n.
Proof. intros n H. apply Nat.leb_le, H. Qed.

Example cr_roundtrip_ex :
  is_cr_valid (Some 0) (Some 50) (Some 100) true = true /\ fits_cr (Some 0) (Some 50) (Some 100)
  /\ content_range_str (CR (Some 0) (Some 50) (Some 100)) = H "627974657320302d34392f313030"%string      (* bytes 0-49/100 *)
  /\ cr_parse (H "627974657320302d34392f313030"%string) = PSome (CR (Some 0) (Some 50) (Some 100)).
Proof.
  split; [reflexivity|]. split; [|split; vm_compute; reflexivity].
  repeat split; apply fits_by_computation; vm_compute; reflexivity.
Qed.

(* ContentRange(0, 50, 10) is accepted by the constructor, prints "bytes 0-49/10", and that text is refused *)
Example cr_roundtrip_gap_ex :
  mk_content_range (Some 0) (Some 50) (Some 10) = Some (CR (Some 0) (Some 50) (Some 10))
  /\ cr_parse (content_range_str (CR (Some 0) (Some 50) (Some 10))) = PNone.
Proof. split; vm_compute; reflexivity. Qed.

(* trailing text is ignored by the parser (`match`, not `fullmatch`): "bytes 0-4/10, x" *)
Example cr_parse_trailing_ex :
  cr_parse (H "627974657320302d342f31302c2078"%string) = PSome (CR (Some 0) (Some 5) (Some 10)).
Proof. vm_compute. reflexivity. Qed.

Example serialize_ex :
  serialize_content_range (ASeq [Some 0; Some 5]) = SText (H "627974657320302d342f2a"%string)              (* bytes 0-4/* *)
  /\ serialize_content_range (ASeq [None; None; Some 7]) = SText (H "6279746573202a2f37"%string)           (* bytes */7 *)
  /\ serialize_content_range (ASeq [Some 5; Some 5; Some 7]) = SErr
  /\ serialize_content_range (ASeq [Some 1]) = SErr
  /\ serialize_content_range (AStr (H "20092009"%string)) = SNone
  /\ serialize_content_range (AStr (H "6279746573202a2f370a"%string)) = SText (H "6279746573202a2f370a"%string).  (* LF kept *)
Proof. repeat split; vm_compute; reflexivity. Qed.
