(* C01 — every getter is a function of the environ alone; long-lived wrapper = brand-new Request;
   writes land under the standard key; the charset is the only per-wrapper memory. *)
From Coq Require Import ZArith NArith List Bool String Lia.
Require Import Webob.Lib.Val Webob.Lib.PyStr Webob.Lib.C01_Str Webob.Model.MultiDict Webob.Model.C01_EnvView
               Webob.Spec.C01_View Webob.Proofs.C08_multidict Webob.Proofs.C01_env Webob.Proofs.C01_inv.
Import ListNotations.
Local Open Scope list_scope.

Lemma getter_eq_charset (g : getter) : {g = GCharset} + {g <> GCharset}.
Proof. destruct g; (left; reflexivity) || (right; discriminate). Qed.

Section Coherent.
  Variable P : Type.
  Variable CCOP : Type.
  Variable parse_qs : str -> items + str.
  Variable urlencode : items -> str.
  Variable parse_cookie : str -> list (str * str).
  Variable valid_name : str -> bool.
  Variable cookie_edit : str -> str -> option str -> str * bool.
  Variable parse_cc : str -> P.
  Variable ser_cc : P -> str.
  Variable cc_empty : P -> bool.
  Variable cc_apply : CCOP -> P -> option P * val.
  Variable cc_obs : P -> val.
  Variable detect_charset : str -> str.
  Hypothesis qs_roundtrip : forall l, parse_qs (urlencode l) = inl l.
  Hypothesis qs_empty : parse_qs [] = inl [].

  Notation st := (st P).
  Notation op := (op P CCOP).
  Notation Inv := (Inv P parse_qs parse_cookie parse_cc).
  Notation spec_val := (spec_val P parse_qs parse_cookie parse_cc cc_obs detect_charset).
  Notation get_GET := (get_GET P parse_qs).
  Notation get_cookies := (get_cookies P parse_cookie).
  Notation get_CC := (get_CC P parse_cc ser_cc cc_empty repaired).
  Notation rd := (rd P parse_qs parse_cookie parse_cc ser_cc cc_empty cc_obs detect_charset repaired).
  Notation obsA := (obsA P parse_qs parse_cookie parse_cc ser_cc cc_empty cc_obs detect_charset repaired).
  Notation obsF := (obsF P parse_qs parse_cookie parse_cc ser_cc cc_empty cc_obs detect_charset repaired).
  Notation step := (step P CCOP parse_qs urlencode parse_cookie valid_name cookie_edit parse_cc ser_cc cc_empty
                         cc_apply cc_obs detect_charset repaired).
  Notation run := (run P CCOP parse_qs urlencode parse_cookie valid_name cookie_edit parse_cc ser_cc cc_empty
                       cc_apply cc_obs detect_charset repaired).

  (* ---------------------------------------------------------------- the view is a function of the environ *)
  Lemma rd_spec g w s : Inv s -> g <> GCharset -> obsA g w s = spec_val g (env s).
  Proof.
    intros I Hg. unfold C01_EnvView.obsA. destruct g; cbn [C01_EnvView.rd fst Spec.C01_View.spec_val]; try reflexivity.
    - (* GET *)
      destruct (get_GET_spec P parse_qs parse_cookie parse_cc s I) as [_ R].
      destruct (get_GET s) as [[id|exc] s']; cbn [fst snd] in *.
      + destruct R as [l [Hl Hq]]. rewrite Hq. f_equal. apply (nth_error_nth_default _ _ _ _ Hl).
      + destruct R as [Hq _]. rewrite Hq. reflexivity.
    - (* cookies *)
      destruct (get_cookies_spec P parse_qs parse_cookie parse_cc s I) as [_ R].
      destruct (get_cookies s) as [jar s']; cbn [fst snd] in *. rewrite R. reflexivity.
    - (* cache_control *)
      destruct (get_CC_spec P parse_qs parse_cookie parse_cc ser_cc cc_empty s I) as [_ [o [Ho [_ Hp]]]].
      destruct (get_CC s) as [id s']; cbn [fst snd] in *. rewrite Ho, Hp. reflexivity.
    - congruence.
  Qed.

  Lemma spec_strip g e : wf_getter g -> spec_val g (strip_env e) = spec_val g e.
  Proof.
    intros W. destruct g; cbn [Spec.C01_View.spec_val wf_getter] in *.
    - rewrite env_get_strip, W. reflexivity.
    - rewrite env_get_strip, W. reflexivity.
    - rewrite env_get_strip, trans_name_noncache. reflexivity.
    - rewrite hdr_keys_strip. reflexivity.
    - rewrite src_strip by exact noncache_CT. reflexivity.
    - rewrite !env_get_strip, noncache_HOST, noncache_SNAME, noncache_SPORT. reflexivity.
    - rewrite src_strip by exact noncache_QS. reflexivity.
    - rewrite src_strip by exact noncache_COOKIE. reflexivity.
    - rewrite src_strip by exact noncache_CC. reflexivity.
    - rewrite src_strip by exact noncache_CT. reflexivity.
  Qed.

  Lemma Inv_strip s : Inv s -> Inv (strip P s).
  Proof.
    intros [Iq Ik Ic Ig Ih]. unfold strip. split; cbn [env gets ccs hgets hccs]; auto.
    - intros id qs E. rewrite env_get_strip, cache_QCACHE in E. discriminate.
    - intros jar h E. rewrite env_get_strip, cache_CKCACHE in E. discriminate.
    - intros h id E. rewrite env_get_strip, cache_CCCACHE in E. discriminate.
  Qed.

  Theorem view_is_function_of_environ g w s :
    Inv s -> wf_getter g -> g <> GCharset -> obsA g w s = spec_val g (strip_env (env s)).
  Proof. intros I W Hg. rewrite spec_strip by exact W. apply rd_spec; auto. Qed.

  Theorem fresh_is_function_of_environ g s :
    Inv s -> wf_getter g -> obsF g s = spec_val g (strip_env (env s)).
  Proof.
    intros I W. destruct (getter_eq_charset g) as [->|Hg].
    - unfold C01_EnvView.obsF. cbn. reflexivity.
    - unfold C01_EnvView.obsF. change (fst (rd g FRESHW (strip P s))) with (obsA g FRESHW (strip P s)).
      rewrite rd_spec by (auto using Inv_strip). reflexivity.
  Qed.

  (* ---------------------------------------------------------------- C01_coherent *)
  Theorem coherent ops s0 g w :
    Inv s0 -> Forall (wf_op P CCOP) ops -> wf_getter g -> g <> GCharset ->
    obsA g w (run ops s0) = obsF g (run ops s0).
  Proof.
    intros I W Wg Hg.
    assert (I' : Inv (run ops s0)) by (apply (run_inv P CCOP parse_qs urlencode); auto).
    rewrite view_is_function_of_environ by auto. rewrite fresh_is_function_of_environ by auto. reflexivity.
  Qed.

  (* ---------------------------------------------------------------- charset: the documented per-wrapper memory *)
  Definition wcs_mono (s s' : st) : Prop :=
    forall w cs, nth w (wcs s) None = Some cs -> nth w (wcs s') None = Some cs.

  Lemma wcs_mono_refl s : wcs_mono s s. Proof. intros w cs H. exact H. Qed.
  Lemma wcs_mono_eq s s' : wcs s' = wcs s -> wcs_mono s s'.
  Proof. intros E w cs H. rewrite E. exact H. Qed.

  Lemma nth_set_nth_other {A} (l : list A) i j x d : i <> j -> nth j (set_nth i x l) d = nth j l d.
  Proof.
    revert i j. induction l as [|y l IH]; intros i j Hne; destruct i, j; cbn; auto; try congruence.
  Qed.

  Lemma wcs_get_GET s : wcs (snd (get_GET s)) = wcs s.
  Proof.
    unfold C01_EnvView.get_GET.
    destruct (env_get K_QCACHE (env s)) as [[| | |id qs| | |]|];
      try destruct (str_eqb qs (src K_QS (env s)));
      destruct (if is_nil (src K_QS (env s)) then inl [] else parse_qs (src K_QS (env s))); reflexivity.
  Qed.
  Lemma wcs_get_mut id m s : wcs (snd (C01_EnvView.get_mut P urlencode id m s)) = wcs s.
  Proof.
    unfold C01_EnvView.get_mut. destruct (step_i _ _ _ _ m) as [its' ret]. destruct (is_verr ret); reflexivity.
  Qed.
  Lemma wcs_get_cookies s : wcs (snd (get_cookies s)) = wcs s.
  Proof.
    unfold C01_EnvView.get_cookies.
    destruct (env_get K_CKCACHE (env s)) as [[| | | |jar h| |]|]; try destruct (str_eqb h (src K_COOKIE (env s))); reflexivity.
  Qed.
  Lemma wcs_mutate_header n v s : wcs (snd (C01_EnvView.mutate_header P cookie_edit n v s)) = wcs s.
  Proof.
    unfold C01_EnvView.mutate_header.
    destruct (match env_get K_COOKIE (env s) with Some (EStr h) => (true, h) | _ => (false, []) end) as [had header].
    destruct (cookie_edit header n v) as [h' f]. reflexivity.
  Qed.
  Lemma wcs_get_CC s : wcs (snd (get_CC s)) = wcs s.
  Proof.
    unfold C01_EnvView.get_CC.
    destruct (env_get K_CCCACHE (env s)) as [[| | | | |[[h id]|]|]|];
      try destruct (str_eqb h (src K_CC (env s)) && _);
      destruct (cc_empty (parse_cc (src K_CC (env s)))); reflexivity.
  Qed.
  Lemma wcs_cc_mut id m s : wcs (snd (C01_EnvView.cc_mut P CCOP ser_cc cc_apply repaired id m s)) = wcs s.
  Proof.
    unfold C01_EnvView.cc_mut. destruct (nth_error (ccs s) id) as [o|]; [|reflexivity].
    destruct (cc_apply m (cc_props P o)) as [[p'|] ret]; [|reflexivity]. destruct (cc_bound P o); reflexivity.
  Qed.

  Lemma wcs_rd g w s : wcs_mono s (snd (rd g w s)).
  Proof.
    destruct g; cbn [C01_EnvView.rd snd]; try apply wcs_mono_refl.
    - apply wcs_mono_eq. pose proof (wcs_get_GET s) as E. destruct (get_GET s) as [[id|exc] s']; exact E.
    - apply wcs_mono_eq. pose proof (wcs_get_cookies s) as E. destruct (get_cookies s) as [jar s']; exact E.
    - apply wcs_mono_eq. pose proof (wcs_get_CC s) as E. destruct (get_CC s) as [id s']; exact E.
    - unfold get_charset. destruct (nth w (wcs s) None) eqn:E; cbn [snd]; [apply wcs_mono_refl|].
      intros w' cs H. cbn [wcs]. destruct (Nat.eq_dec w w') as [->|Hne]; [congruence|].
      rewrite nth_set_nth_other by exact Hne. exact H.
  Qed.

  Lemma wcs_step s o : o <> OCopyEnv P CCOP -> wcs_mono s (snd (step s o)).
  Proof.
    intros Hcopy. destruct o; cbn [C01_EnvView.step]; try (apply wcs_mono_eq; reflexivity).
    - destruct v; apply wcs_mono_eq; reflexivity.
    - destruct (env_has k (env s)); apply wcs_mono_eq; reflexivity.
    - destruct v; apply wcs_mono_eq; reflexivity.
    - destruct v; apply wcs_mono_eq; reflexivity.
    - destruct v; apply wcs_mono_eq; reflexivity.
    - destruct (env_has (trans_name n) (env s)); apply wcs_mono_eq; reflexivity.
    - destruct (env_get (trans_name n) (env s)); apply wcs_mono_eq; reflexivity.
    - destruct (env_get (trans_name n) (env s)); apply wcs_mono_eq; reflexivity.
    - destruct k.
      + apply wcs_mono_eq. pose proof (wcs_get_GET s) as E. destruct (get_GET s) as [[id|exc] s']; exact E.
      + apply wcs_mono_eq. pose proof (wcs_get_CC s) as E. destruct (get_CC s) as [id s']; exact E.
    - apply wcs_mono_eq. destruct h as [|i].
      + pose proof (wcs_get_GET s) as E. destruct (get_GET s) as [[id|exc] s']; cbn [snd] in *; [|exact E].
        rewrite wcs_get_mut. exact E.
      + destruct (held P HGet i s); cbn [snd]; [apply wcs_get_mut|reflexivity].
    - apply wcs_mono_eq. destruct (valid_name n); cbn [snd]; [apply wcs_mutate_header|reflexivity].
    - apply wcs_mono_eq. destruct (valid_name n); cbn [snd]; [|reflexivity].
      pose proof (wcs_mutate_header n None s) as E.
      destruct (C01_EnvView.mutate_header P cookie_edit n None s) as [f s']. exact E.
    - apply wcs_mono_eq. destruct h as [|i].
      + pose proof (wcs_get_CC s) as E. destruct (get_CC s) as [id s']; cbn [snd] in *. rewrite wcs_cc_mut. exact E.
      + destruct (held P HCC i s); cbn [snd]; [apply wcs_cc_mut|reflexivity].
    - apply wcs_mono_eq. cbn [snd]. unfold cc_assign. destruct a; reflexivity.
    - cbn [snd]. apply wcs_rd.
    - congruence.
  Qed.

  Theorem charset_sticky ops : Forall (fun o => o <> OCopyEnv P CCOP) ops -> forall s w cs,
    nth w (wcs s) None = Some cs ->
    nth w (wcs (run ops s)) None = Some cs /\ obsA GCharset w (run ops s) = VStr cs.
  Proof.
    intros Hops.
    assert (K : forall s w cs, nth w (wcs s) None = Some cs -> nth w (wcs (run ops s)) None = Some cs).
    { induction Hops as [|o ops Ho Hops IH]; intros s w cs H; cbn; [exact H|]. apply IH. apply wcs_step; assumption. }
    intros s w cs H. split; [apply K; exact H|].
    unfold C01_EnvView.obsA. cbn [C01_EnvView.rd]. unfold get_charset. rewrite (K _ _ _ H). reflexivity.
  Qed.

  (* first use: the value is computed from the CONTENT_TYPE of that moment and remembered *)
  Theorem charset_first_use w s :
    nth w (wcs s) None = None -> (w < List.length (wcs s))%nat ->
    obsA GCharset w s = VStr (detect_charset (src K_CT (env s))) /\
    nth w (wcs (snd (rd GCharset w s))) None = Some (detect_charset (src K_CT (env s))).
  Proof.
    intros H Hw. unfold C01_EnvView.obsA. cbn [C01_EnvView.rd]. unfold get_charset. rewrite H. cbn [fst snd wcs].
    split; [reflexivity|]. revert w H Hw. generalize (wcs s). induction l as [|x l IH]; intros w H Hw; cbn in Hw; [lia|].
    destruct w; cbn; [reflexivity|]. apply IH; [exact H|lia].
  Qed.

  (* a wrapper that has not used its charset yet agrees with a brand-new Request on it as well *)
  Theorem charset_unprimed_coherent w s :
    nth w (wcs s) None = None -> obsA GCharset w s = obsF GCharset s.
  Proof.
    intros H. unfold C01_EnvView.obsA, C01_EnvView.obsF. cbn [C01_EnvView.rd]. unfold get_charset. rewrite H.
    cbn [strip wcs nth FRESHW fst env]. rewrite src_strip by exact noncache_CT. reflexivity.
  Qed.

  (* ---------------------------------------------------------------- writes land under the standard key *)
  Theorem getter_set_lands s k v :
    env_get k (env (snd (step s (OGetterSet P CCOP k (Some v))))) = Some (EStr v) /\
    env_get k (env (snd (step s (OGetterSet P CCOP k None)))) = None /\
    forall k', str_eqb k k' = false ->
      env_get k' (env (snd (step s (OGetterSet P CCOP k (Some v))))) = env_get k' (env s) /\
      env_get k' (env (snd (step s (OGetterSet P CCOP k None)))) = env_get k' (env s).
  Proof.
    cbn [C01_EnvView.step snd with_env env]. repeat split.
    - apply env_get_set_same.
    - apply env_get_del_same.
    - apply env_get_set_other; auto.
    - apply env_get_del_other; auto.
  Qed.

  Theorem header_set_lands s n v :
    env_get (trans_name n) (env (snd (step s (OHdrSet P CCOP n v)))) = Some (EStr v) /\
    (forall k', str_eqb (trans_name n) k' = false ->
       env_get k' (env (snd (step s (OHdrSet P CCOP n v)))) = env_get k' (env s)) /\
    obsA (GHdr n) 0 (snd (step s (OHdrSet P CCOP n v))) = VStr v.
  Proof.
    cbn [C01_EnvView.step snd with_env env]. repeat split.
    - apply env_get_set_same.
    - intros k' H. apply env_get_set_other; auto.
    - unfold C01_EnvView.obsA. cbn [C01_EnvView.rd fst with_env env]. rewrite env_get_set_same. reflexivity.
  Qed.

  Theorem header_del_lands s n :
    env_has (trans_name n) (env s) = true ->
    env_get (trans_name n) (env (snd (step s (OHdrDel P CCOP n)))) = None.
  Proof.
    intros H. cbn [C01_EnvView.step]. rewrite H. cbn [snd with_env env]. apply env_get_del_same.
  Qed.

  (* a successful mutation through ANY GetDict handle (current or stale) is written back: QUERY_STRING is the
     encoding of that view's items, and a brand-new Request reports exactly those items *)
  Theorem get_mut_lands s id m :
    Inv s ->
    let r := C01_EnvView.get_mut P urlencode id m s in
    is_verr (fst r) = false ->
    (id < List.length (gets s))%nat ->
    exists its', nth_error (gets (snd r)) id = Some its' /\
                 env_get K_QS (env (snd r)) = Some (EStr (urlencode its')) /\
                 obsF GGET (snd r) = vitems its'.
  Proof.
    intros I. cbv zeta.
    pose proof (get_mut_inv P parse_qs urlencode parse_cookie parse_cc qs_roundtrip qs_empty s id m I) as I'.
    revert I'. unfold C01_EnvView.get_mut.
    destruct (step_i (fun k => k) false md_get_other (nth id (gets s) []) m) as [its' ret].
    destruct (is_verr ret) eqn:Ev; cbn [fst snd]; intros I' Hret Hid; [congruence|].
    specialize (I' Hid).
    exists its'.
    assert (Eq : env_get K_QS (env (on_change P urlencode id its' s)) = Some (EStr (urlencode its'))).
    { unfold on_change. cbn [env].
      rewrite env_get_set_other by (apply str_eqb_false_sym; apply noncache_neq; [exact noncache_QS|exact cache_QCACHE]).
      apply env_get_set_same. }
    split; [unfold on_change; cbn [gets]; apply nth_error_set_nth_same; exact Hid|].
    split; [exact Eq|].
    rewrite fresh_is_function_of_environ by (auto; exact Logic.I).
    cbn [Spec.C01_View.spec_val]. rewrite src_strip by exact noncache_QS. unfold src. rewrite Eq.
    rewrite (qdata_urlencode parse_qs urlencode qs_roundtrip qs_empty). reflexivity.
  Qed.

  Theorem cookie_set_lands s n v :
    valid_name n = true ->
    let header := match env_get K_COOKIE (env s) with Some (EStr h) => h | _ => [] end in
    fst (cookie_edit header n (Some v)) <> [] ->
    env_get K_COOKIE (env (snd (step s (OCookieSet P CCOP n v)))) = Some (EStr (fst (cookie_edit header n (Some v)))).
  Proof.
    intros Hv header Hne. cbn [C01_EnvView.step]. rewrite Hv. cbn [snd]. unfold C01_EnvView.mutate_header.
    assert (E : (match env_get K_COOKIE (env s) with Some (EStr h) => (true, h) | _ => (false, []) end)
                = (match env_get K_COOKIE (env s) with Some (EStr _) => true | _ => false end, header)).
    { unfold header. destruct (env_get K_COOKIE (env s)) as [[| | | | | |]|]; reflexivity. }
    rewrite E. destruct (cookie_edit header n (Some v)) as [h' f] eqn:Ed. cbn [fst] in *.
    destruct h' as [|c0 h']; [congruence|]. cbn [is_nil negb snd with_env env]. apply env_get_set_same.
  Qed.

  (* a write through any bound CacheControl handle lands in HTTP_CACHE_CONTROL and drops the cached object *)
  Theorem cc_mut_lands s id m o p' ret :
    Inv s ->
    nth_error (ccs s) id = Some o -> cc_bound P o = true -> cc_apply m (cc_props P o) = (Some p', ret) ->
    let s' := snd (C01_EnvView.cc_mut P CCOP ser_cc cc_apply repaired id m s) in
    env_get K_CC (env s') = Some (EStr (ser_cc p')) /\
    env_get K_CCCACHE (env s') = Some (ECCCache None) /\
    obsF GCC s' = cc_obs (parse_cc (ser_cc p')).
  Proof.
    intros I Ho Hb Ha. cbv zeta.
    pose proof (cc_mut_inv P CCOP parse_qs parse_cookie parse_cc ser_cc cc_apply s id m I) as I'.
    revert I'. unfold C01_EnvView.cc_mut. rewrite Ho, Ha, Hb. cbn [snd]. intros I'.
    assert (E1 : env_get K_CC (env (C01_EnvView.cc_callback P ser_cc repaired p'
                    (mkSt P (env s) (gets s) (set_nth id (mkCC P p' true) (ccs s)) (hgets s) (hccs s) (wcs s))))
                 = Some (EStr (ser_cc p'))).
    { unfold C01_EnvView.cc_callback. cbn [cc_update_invalidates repaired with_env env].
      rewrite env_get_set_other by (apply str_eqb_false_sym; apply noncache_neq; [exact noncache_CC|exact cache_CCCACHE]).
      apply env_get_set_same. }
    split; [exact E1|]. split.
    - unfold C01_EnvView.cc_callback. cbn [cc_update_invalidates repaired with_env env]. apply env_get_set_same.
    - rewrite fresh_is_function_of_environ by (auto; exact Logic.I).
      cbn [Spec.C01_View.spec_val]. rewrite src_strip by exact noncache_CC. unfold src. rewrite E1. reflexivity.
  Qed.
  (* ---------------------------------------------------------------- a further wrapper over a COPY of the environ *)
  (* the view fetched in the copied environ is bound to the copy, whatever the copied cache tuple says, so a write
     through it lands in the copy's HTTP_CACHE_CONTROL (and nowhere else: the model has no other environ to write) *)
  Theorem copy_independent s m : Inv s ->
    let s1 := copy_env P s in
    let id := fst (get_CC s1) in
    let s2 := snd (get_CC s1) in
    exists o, nth_error (ccs s2) id = Some o /\ cc_bound P o = true /\
              cc_props P o = parse_cc (src K_CC (env s)) /\
              forall p' ret, cc_apply m (cc_props P o) = (Some p', ret) ->
                env_get K_CC (env (snd (C01_EnvView.cc_mut P CCOP ser_cc cc_apply repaired id m s2))) = Some (EStr (ser_cc p')).
  Proof.
    intros I. cbv zeta.
    pose proof (copy_env_inv P parse_qs parse_cookie parse_cc s I) as I1.
    destruct (get_CC_spec P parse_qs parse_cookie parse_cc ser_cc cc_empty _ I1) as [I2 [o [Ho [Hb Hp]]]].
    exists o. split; [exact Ho|]. split; [exact Hb|]. split.
    - rewrite Hp. unfold copy_env, src. cbn [env].
      assert (E : forall e, env_get K_CC (map (fun kv : str * eval => match snd kv with
                                                   | EQCache id qs => (fst kv, EQForeign (nth id (gets s) []) qs)
                                                   | v => (fst kv, v)
                                                   end) e)
                            = match env_get K_CC e with Some (EQCache id qs) => Some (EQForeign (nth id (gets s) []) qs) | x => x end).
      { induction e as [|[k0 v0] e IH]; cbn [map env_get]; [reflexivity|].
        destruct v0; cbn [fst snd env_get]; destruct (str_eqb k0 K_CC); auto. }
      rewrite E. destruct (env_get K_CC (env s)) as [[| | | | | |]|]; reflexivity.
    - intros p' ret Ha.
      apply (cc_mut_lands _ _ _ _ _ _ I2 Ho Hb Ha).
  Qed.
End Coherent.
