(* C14 — the regular expressions of the Location code, regenerated from the source on every run
   (Gen/C14_regexes.v), denote exactly the hand-written functions the model uses. *)
From Coq Require Import NArith List Bool Lia ZifyBool ZifyN.
Require Import Webob.Lib.Val Webob.Lib.PyStr Webob.Lib.Rx Webob.Lib.RxEquiv
               Webob.Model.C14_urlsplit Webob.Model.C14_location Webob.Spec.C14_origin Webob.Gen.C14_regexes.
Import ListNotations.
Local Open Scope N_scope.

(* "some prefix of v is in the language of r": pattern.match(v), or pattern.search(v) with a leading ^ *)
Definition prefix_match (r : rx) (v : str) : Prop := exists p q, v = p ++ q /\ matches r p.

Definition colon : rx := Cls false [(58, 58)].
Definition run_then_colon (rs : ranges) : rx := Cat (Star (Cls false rs)) colon.

Lemma star_cls_forall rs w : matches (Star (Cls false rs)) w -> forallb (in_ranges rs) w = true.
Proof.
  intros H. remember (Star (Cls false rs)) as R eqn:ER. induction H; try discriminate; [reflexivity|].
  injection ER as ->. apply inv_cls in H as (c & -> & Hc). cbn [app forallb]. unfold cmem in Hc. rewrite xorb_false_l in Hc.
  rewrite Hc, IHmatches2 by reflexivity. reflexivity.
Qed.

Lemma star_then_app f d w r : forallb f w = true -> star_then f d (w ++ d :: r) = true.
Proof.
  induction w as [|c w IH]; cbn [app star_then forallb]; intros H.
  - rewrite N.eqb_refl. reflexivity.
  - apply andb_true_iff in H as [Hc Hw]. rewrite Hc, (IH Hw). apply orb_true_r.
Qed.

Lemma star_then_prefix rs v :
  star_then (in_ranges rs) 58 v = true <-> prefix_match (run_then_colon rs) v.
Proof.
  split.
  - induction v as [|c v IH]; cbn [star_then]; [discriminate|]. intros H.
    apply orb_true_iff in H as [H | H].
    + apply N.eqb_eq in H. subst c. exists [58], v. split; [reflexivity|].
      change [58] with ([] ++ [58]). constructor; [constructor|]. constructor. reflexivity.
    + apply andb_true_iff in H as [Hc H]. destruct (IH H) as (p & q & -> & Hm).
      apply inv_cat in Hm as (w1 & w2 & -> & H1 & H2).
      exists ((c :: w1) ++ w2), q. split; [reflexivity|]. constructor; [|exact H2].
      change (c :: w1) with ([c] ++ w1). constructor; [|exact H1]. constructor. unfold cmem. rewrite xorb_false_l. exact Hc.
  - intros (p & q & -> & Hm). apply inv_cat in Hm as (w1 & w2 & -> & H1 & H2).
    apply inv_cls in H2 as (c & -> & Hc). unfold cmem in Hc. rewrite xorb_false_l in Hc. unfold in_ranges in Hc.
    assert (c = 58) as -> by lia. rewrite <- app_assoc. cbn [app]. apply star_then_app. apply star_cls_forall. exact H1.
Qed.

Lemma star_then_ext f g d v : (forall c, In c v -> f c = g c) -> star_then f d v = star_then g d v.
Proof.
  induction v as [|c v IH]; intros H; [reflexivity|]. cbn [star_then]. rewrite (H c (or_introl eq_refl)).
  rewrite IH; [reflexivity|]. intros x Hx. apply H. right. exact Hx.
Qed.

Lemma prefix_match_equiv a b v :
  (forall w, matches a w <-> matches b w) -> (prefix_match a v <-> prefix_match b v).
Proof.
  intros Hab. split; intros (p & q & -> & Hm); exists p, q; (split; [reflexivity|]); apply Hab; exact Hm.
Qed.

Lemma all_chars w : Forall (fun c => in_ranges [] c = false) w.
Proof. induction w; constructor; auto. Qed.

(* ---------- SCHEME_RE = ^[a-z]+: with re.I, used with .search ---------- *)
Definition alpha_ranges : ranges := [(65, 90); (97, 122)].
Definition spec_scheme : rx := Cat (Cls false alpha_ranges) (run_then_colon alpha_ranges).

Lemma alpha_ranges_ok c : in_ranges alpha_ranges c = is_ascii_alpha c.
Proof. unfold alpha_ranges, in_ranges, is_ascii_alpha. rewrite orb_false_r. reflexivity. Qed.

Lemma has_alpha_scheme_spec v : has_alpha_scheme v = true <-> prefix_match spec_scheme v.
Proof.
  unfold has_alpha_scheme, spec_scheme. split.
  - destruct v as [|c v]; [discriminate|]. intros H. apply andb_true_iff in H as [Hc H].
    rewrite (star_then_ext _ (in_ranges alpha_ranges)) in H by (intros; symmetry; apply alpha_ranges_ok).
    apply star_then_prefix in H as (p & q & -> & Hm). exists (c :: p), q. split; [reflexivity|].
    change (c :: p) with ([c] ++ p). constructor; [|exact Hm]. constructor. unfold cmem. rewrite xorb_false_l.
    rewrite alpha_ranges_ok. exact Hc.
  - intros (p & q & -> & Hm). apply inv_cat in Hm as (w1 & w2 & -> & H1 & H2).
    apply inv_cls in H1 as (c & -> & Hc). unfold cmem in Hc. rewrite xorb_false_l in Hc. rewrite alpha_ranges_ok in Hc.
    cbn [app]. rewrite Hc. cbn [andb].
    rewrite (star_then_ext _ (in_ranges alpha_ranges)) by (intros; symmetry; apply alpha_ranges_ok).
    apply star_then_prefix. exists w2, q. split; [reflexivity | exact H2].
Qed.

Lemma gen_scheme_re_lang w : matches gen_scheme_re w <-> matches spec_scheme w.
Proof. apply (equiv_check_sound 200 []); [vm_compute; reflexivity | apply all_chars]. Qed.

Theorem scheme_re_spec :
  gen_scheme_re_anchored = true /\
  forall v, has_alpha_scheme v = true <-> prefix_match gen_scheme_re v.
Proof.
  split; [reflexivity|]. intros v. rewrite has_alpha_scheme_spec. symmetry.
  apply prefix_match_equiv. exact gen_scheme_re_lang.
Qed.

(* ---------- _COLON_IN_FIRST_SEGMENT_RE = [^/?#]*: used with .match ---------- *)
Definition nondelim_ranges : ranges := [(0, 34); (36, 46); (48, 62); (64, 1114111)].

Lemma nondelim_ranges_ok c : c <= 1114111 -> in_ranges nondelim_ranges c = negb (is_delim c).
Proof. intros H. unfold nondelim_ranges, in_ranges, is_delim. lia. Qed.

Lemma gen_colon_lang w : matches gen_colon_first_segment w <-> matches (run_then_colon nondelim_ranges) w.
Proof. apply (equiv_check_sound 200 []); [vm_compute; reflexivity | apply all_chars]. Qed.

Theorem colon_re_spec :
  forall v, code_points v -> (colon_in_first_segment v = true <-> prefix_match gen_colon_first_segment v).
Proof.
  intros v Hv. unfold colon_in_first_segment.
  rewrite (star_then_ext _ (in_ranges nondelim_ranges)).
  - rewrite star_then_prefix. symmetry. apply prefix_match_equiv. exact gen_colon_lang.
  - intros c Hc. symmetry. apply nondelim_ranges_ok. unfold code_points in Hv. rewrite Forall_forall in Hv. auto.
Qed.

(* ---------- _CTL_OR_SPACE_RE = [\x00-\x20] used with .sub, one character at a time ---------- *)
Theorem ctl_class_spec : forall c, in_ranges gen_ctl_or_space c = (c <=? 32).
Proof. intros c. unfold gen_ctl_or_space, in_ranges. lia. Qed.
