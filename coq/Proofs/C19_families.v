(* C19 — the generic `+` / property / copy theorems instantiated for Accept-Charset, Accept-Encoding and
   Accept-Language (no side condition: parsing distributes over ", " for ALL texts of these families). *)
From Coq Require Import ZArith NArith List Bool Lia.
Require Import Webob.Lib.Val Webob.Lib.PyStr Webob.Lib.Rx Webob.Gen.C03_regexes Webob.Model.C03_scan
               Webob.Model.C19_acceptstr Webob.Spec.C19_spec Webob.Proofs.C19_valid Webob.Proofs.C19_simple Webob.Proofs.C19_add.
Import ListNotations.
Local Open Scope N_scope.


Lemma simple_falsy_text (v : pyval sitem qnum) : falsy v = true -> is_none v = false -> simple_value_text v = [].
Proof.
  destruct v as [|s|l|d]; try discriminate; intros H _.
  - destruct s; [reflexivity|discriminate].
  - destruct l; [reflexivity|discriminate].
  - destruct d; [reflexivity|discriminate].
Qed.

Lemma charset_join a b pa pb : all_ok a -> all_ok b ->
  f_parse fam_charset a = Some pa -> f_parse fam_charset b = Some pb -> a <> [] -> b <> [] ->
  f_parse fam_charset (a ++ comma_sp ++ b) = Some (pa ++ pb) /\ all_ok (a ++ comma_sp ++ b).
Proof. intros _ _ Ha Hb Hane Hbne. split; [|exact I]. apply charset_parse_join; assumption. Qed.
Lemma encoding_join a b pa pb : all_ok a -> all_ok b ->
  f_parse fam_encoding a = Some pa -> f_parse fam_encoding b = Some pb -> a <> [] -> b <> [] ->
  f_parse fam_encoding (a ++ comma_sp ++ b) = Some (pa ++ pb) /\ all_ok (a ++ comma_sp ++ b).
Proof. intros _ _ Ha Hb Hane Hbne. split; [|exact I]. apply encoding_parse_join; assumption. Qed.
Lemma language_join a b pa pb : all_ok a -> all_ok b ->
  f_parse fam_language a = Some pa -> f_parse fam_language b = Some pb -> a <> [] -> b <> [] ->
  f_parse fam_language (a ++ comma_sp ++ b) = Some (pa ++ pb) /\ all_ok (a ++ comma_sp ++ b).
Proof. intros _ _ Ha Hb Hane Hbne. split; [|exact I]. apply language_parse_join; assumption. Qed.

Lemma charset_empty : if f_empty_ok fam_charset then f_parse fam_charset [] = Some [] else f_parse fam_charset [] = None.
Proof. unfold fam_charset; cbn [f_empty_ok f_parse]. unfold parse_accept_charset, parse_simple. rewrite empty_charset. reflexivity. Qed.
Lemma encoding_empty : if f_empty_ok fam_encoding then f_parse fam_encoding [] = Some [] else f_parse fam_encoding [] = None.
Proof. unfold fam_encoding; cbn [f_empty_ok f_parse]. unfold parse_accept_encoding, parse_simple. rewrite empty_encoding. reflexivity. Qed.
Lemma language_empty : if f_empty_ok fam_language then f_parse fam_language [] = Some [] else f_parse fam_language [] = None.
Proof. unfold fam_language; cbn [f_empty_ok f_parse]. unfold parse_accept_language, parse_simple. rewrite empty_language. reflexivity. Qed.

Section Simple3.
  Variable F : family (str * N) sitem qnum.
  Hypothesis Htext : f_text F = simple_value_text.
  Hypothesis Hjoin : forall a b pa pb, all_ok a -> all_ok b ->
    f_parse F a = Some pa -> f_parse F b = Some pb -> a <> [] -> b <> [] ->
    f_parse F (a ++ comma_sp ++ b) = Some (pa ++ pb) /\ all_ok (a ++ comma_sp ++ b).
  Hypothesis Hempty : if f_empty_ok F then f_parse F [] = Some [] else f_parse F [] = None.

  Lemma Hfalsy : forall v, falsy v = true -> is_none v = false -> f_text F v = [].
  Proof. intros v. rewrite Htext. apply simple_falsy_text. Qed.

  Theorem simple_add_val self v right : wf_hdr F all_ok self ->
    exists h, add_val F self v right = Ret h /\ wf_hdr F all_ok h /\
              elements h = if right then contrib F v ++ elements self else elements self ++ contrib F v.
  Proof. intros H. apply (add_val_spec F all_ok Hjoin Hempty Hfalsy); [exact H|intros; exact I]. Qed.

  Theorem simple_add_hdr self other : wf_hdr F all_ok self -> wf_hdr F all_ok other ->
    exists h, add_hdr F self other = Ret h /\ wf_hdr F all_ok h /\ elements h = elements self ++ elements other.
  Proof. apply (add_hdr_spec F all_ok Hjoin Hempty). Qed.

  (* every header object made from text (the create functions, the request properties) is well formed *)
  Theorem simple_create_wf h : wf_hdr F all_ok (create (f_parse F) h).
  Proof. apply create_wf_ok. intros; exact I. Qed.
End Simple3.

Definition charset_add_val := simple_add_val fam_charset eq_refl charset_join charset_empty.
Definition charset_add_hdr := simple_add_hdr fam_charset charset_join charset_empty.
Definition encoding_add_val := simple_add_val fam_encoding eq_refl encoding_join encoding_empty.
Definition encoding_add_hdr := simple_add_hdr fam_encoding encoding_join encoding_empty.
Definition language_add_val := simple_add_val fam_language eq_refl language_join language_empty.
Definition language_add_hdr := simple_add_hdr fam_language language_join language_empty.

Theorem created_wf_simple h :
  wf_hdr fam_charset all_ok (create parse_accept_charset h) /\
  wf_hdr fam_encoding all_ok (create parse_accept_encoding h) /\
  wf_hdr fam_language all_ok (create parse_accept_language h).
Proof.
  split; [exact (simple_create_wf fam_charset h)|]. split; [exact (simple_create_wf fam_encoding h)|exact (simple_create_wf fam_language h)].
Qed.

Theorem simple_fixpoint w p :
  (parse_accept_charset w = Some p -> exists p', parse_accept_charset (str_simple p) = Some p' /\ str_simple p' = str_simple p) /\
  (parse_accept_encoding w = Some p -> exists p', parse_accept_encoding (str_simple p) = Some p' /\ str_simple p' = str_simple p) /\
  (parse_accept_language w = Some p -> exists p', parse_accept_language (str_simple p) = Some p' /\ str_simple p' = str_simple p).
Proof.
  split; [|split]; intros H; exists p; (split; [|reflexivity]).
  - apply (charset_roundtrip w p H).
  - apply (encoding_roundtrip w p H).
  - apply (language_roundtrip w p H).
Qed.
