(* C16 — witnesses that the hypotheses of the conditional theorems are satisfiable *)
From Coq Require Import ZArith NArith List Bool Lia ZifyBool ZifyNat ZifyN.
Require Import Webob.Lib.Val Webob.Lib.PyStr Webob.Model.C16_signed Webob.Proofs.C16_signed.
Import ListNotations.
Local Open Scope N_scope.

(* the unforgeability hypothesis is satisfiable: with the toy mac, the token issued for v = 2 exhibits no valid
   tag for any other message *)
Lemma toy_unforgeable_instance :
  forall c, c <> toy_ser 2 ->
    decoded (signed_dumps nat toy_mac toy_ser [1; 2; 3] 2%nat) <> Some (toy_mac [1; 2; 3] c ++ c).
Proof.
  intros c Hne H.
  assert (E : decoded (signed_dumps nat toy_mac toy_ser [1; 2; 3] 2%nat) = Some [5; 65; 65])
    by (vm_compute; reflexivity).
  rewrite E in H. unfold toy_mac in H. cbn [app] in H. inversion H as [[H1 H2]].
  apply Hne. symmetry. exact H2.
Qed.

(* the browser-leg hypothesis is satisfiable: a user agent that echoes what stands between "name=" and
   the first ';' *)
Fixpoint take_until (x : N) (s : str) : str :=
  match s with
  | [] => []
  | c :: s' => if c =? x then [] else c :: take_until x s'
  end.
Definition toy_echo (name h : str) : jar := JarValue (take_until 59 (skipn (length name + 1) h)).

Lemma take_until_app x a r : Forall (fun c => c <> x) a -> take_until x (a ++ x :: r) = a.
Proof.
  induction 1 as [|c a Hc _ IH]; cbn.
  - rewrite N.eqb_refl. reflexivity.
  - destruct (c =? x) eqn:E; [apply N.eqb_eq in E; contradiction|]. rewrite IH. reflexivity.
Qed.

Lemma toy_echo_plain name dom tok :
  Forall (fun c => is_b64url c = true) tok ->
  toy_echo name (mk_cookie_plain name dom tok) = JarValue tok.
Proof.
  intros H. unfold toy_echo, mk_cookie_plain. f_equal.
  replace (length name + 1)%nat with (length (name ++ [61])) by (rewrite app_length; reflexivity).
  rewrite (app_assoc name [61]). rewrite skipn_app, skipn_all, Nat.sub_diag. cbn [skipn app].
  assert (HF : Forall (fun c => c <> 59) tok).
  { eapply Forall_impl; [|exact H]. intros c Hc. unfold is_b64url in Hc. lia. }
  destruct dom as [d|]; cbn [app]; rewrite <- ?app_assoc; cbn [app]; apply take_until_app, HF.
Qed.
