(* C01 — header names are case-insensitive: EnvironHeaders addresses the environ through
   _trans_name, which depends on the name only through str.upper. *)
From Coq Require Import ZArith NArith List Bool String Lia.
Require Import Webob.Lib.Val Webob.Lib.PyStr Webob.Lib.C01_Str Webob.Model.MultiDict Webob.Model.C01_EnvView
               Webob.Proofs.C08_multidict Webob.Proofs.C01_env.
Import ListNotations.
Local Open Scope list_scope.

Definition latin1 : list N := map N.of_nat (seq 0 256).

Lemma in_latin1 c : (c < 256)%N -> In c latin1.
Proof.
  intros H. unfold latin1. rewrite <- (N2Nat.id c). apply in_map. apply in_seq. lia.
Qed.

Lemma upper_lower_sweep :
  forallb (fun c => str_eqb (upper_c1 (lower_c c)) (upper_c1 c)) latin1 = true.
Proof. vm_compute. reflexivity. Qed.

Lemma lower_c_big c : (256 <= c)%N -> lower_c c = c.
Proof.
  intros H. unfold lower_c.
  replace (c <=? 90)%N with false by (symmetry; apply N.leb_gt; lia).
  replace (c <=? 222)%N with false by (symmetry; apply N.leb_gt; lia).
  rewrite !andb_false_r. reflexivity.
Qed.

Lemma upper_lower_c c : upper_c1 (lower_c c) = upper_c1 c.
Proof.
  destruct (N.lt_ge_cases c 256) as [Hlt|Hge].
  - pose proof upper_lower_sweep as S. rewrite forallb_forall in S.
    specialize (S c (in_latin1 c Hlt)). apply str_eqb_eq in S. exact S.
  - rewrite lower_c_big by exact Hge. reflexivity.
Qed.

Lemma py_upper_lower n : py_upper (lower n) = py_upper n.
Proof.
  unfold py_upper, lower. induction n as [|c n IH]; cbn [map flat_map]; [reflexivity|].
  rewrite upper_lower_c, IH. reflexivity.
Qed.

(* str.lower-equal names translate to the same environ key — for every string, not only latin-1 *)
Theorem header_name_ci n1 n2 : lower n1 = lower n2 -> trans_name n1 = trans_name n2.
Proof.
  intros H. unfold trans_name. rewrite <- (py_upper_lower n1), <- (py_upper_lower n2), H. reflexivity.
Qed.
