(* C05 — facts about the model of list.sort(key=..., reverse=...) (stable insertion sort) and small
   string lemmas shared by the two C05 proof files. *)
From Coq Require Import NArith List Bool Lia Sorted Permutation.
Require Import Webob.Lib.Val Webob.Lib.PyStr Webob.Model.C05_AcceptLang.
Import ListNotations.
Local Open Scope N_scope.

(* ------------------------------------------------------------------ strings *)
Lemma str_eqb_refl s : str_eqb s s = true.
Proof. induction s as [|c s IH]; cbn; [reflexivity|]. rewrite N.eqb_refl, IH. reflexivity. Qed.

Lemma str_eqb_eq a : forall b, str_eqb a b = true <-> a = b.
Proof.
  induction a as [|x a IH]; intros [|y b]; cbn; split; intros H; try reflexivity; try discriminate.
  - apply andb_true_iff in H as [H1 H2]. apply N.eqb_eq in H1. apply IH in H2. congruence.
  - injection H as -> ->. rewrite N.eqb_refl. apply str_eqb_refl.
Qed.

Lemma str_eqb_neq a b : str_eqb a b = false <-> a <> b.
Proof.
  split.
  - intros H E. apply str_eqb_eq in E. congruence.
  - intros H. destruct (str_eqb a b) eqn:E; [|reflexivity]. apply str_eqb_eq in E. contradiction.
Qed.

Lemma str_eqb_sym a b : str_eqb a b = str_eqb b a.
Proof.
  destruct (str_eqb a b) eqn:E1, (str_eqb b a) eqn:E2; try reflexivity.
  - apply str_eqb_eq in E1. subst. rewrite str_eqb_refl in E2. discriminate.
  - apply str_eqb_eq in E2. subst. rewrite str_eqb_refl in E1. discriminate.
Qed.

Lemma in_strs_In r l : in_strs r l = true <-> In r l.
Proof.
  unfold in_strs. rewrite existsb_exists. split.
  - intros [x [Hx E]]. apply str_eqb_eq in E. subst. exact Hx.
  - intros H. exists r. split; [exact H | apply str_eqb_refl].
Qed.

Lemma in_strs_false r l : in_strs r l = false <-> ~ In r l.
Proof.
  split.
  - intros H Hin. apply in_strs_In in Hin. congruence.
  - intros H. destruct (in_strs r l) eqn:E; [|reflexivity]. apply in_strs_In in E. contradiction.
Qed.

Lemma starts_with_spec p : forall s, starts_with p s = true <-> exists rest, s = p ++ rest.
Proof.
  induction p as [|x p IH]; intros s; cbn.
  - split; [intros _; exists s; reflexivity | reflexivity].
  - destruct s as [|y s]; cbn.
    + split; [discriminate | intros [rest H]; discriminate].
    + rewrite andb_true_iff, N.eqb_eq, IH. split.
      * intros [-> [rest ->]]. exists rest. reflexivity.
      * intros [rest H]. injection H as -> ->. split; [reflexivity | exists rest; reflexivity].
Qed.

(* ------------------------------------------------------------------ sorting *)
Lemma SS_True {A} (l : list A) : StronglySorted (fun _ _ => True) l.
Proof. induction l; constructor; auto. apply Forall_forall. auto. Qed.

Section SortLemmas.
  Context {A : Type}.
  Variable desc : bool.
  Variable key : A -> N.
  Notation kle := (kle desc key).
  Notation insert_k := (insert_k desc key).
  Notation sort_k := (sort_k desc key).

  (* x's key is strictly ahead of y's in the sort direction *)
  Definition kstrict (x y : A) : Prop := if desc then key y < key x else key x < key y.
  (* order by key, ties by R *)
  Definition lexR (R : A -> A -> Prop) (x y : A) : Prop := kstrict x y \/ (key x = key y /\ R x y).

  Lemma kle_false x y : kle x y = false -> kstrict y x.
  Proof. unfold C05_AcceptLang.kle, kstrict. destruct desc; intros H; apply N.leb_gt in H; exact H. Qed.

  Lemma kle_true x y : kle x y = true -> kstrict x y \/ key x = key y.
  Proof. unfold C05_AcceptLang.kle, kstrict. destruct desc; intros H; apply N.leb_le in H; lia. Qed.

  Lemma kle_refl_eq x y : key x = key y -> kle x y = true.
  Proof. unfold C05_AcceptLang.kle. intros ->. destruct desc; apply N.leb_refl. Qed.

  Lemma lexR_key_trans R x y z : (kstrict x y \/ key x = key y) -> lexR R y z -> kstrict x z \/ key x = key z.
  Proof. unfold lexR, kstrict. destruct desc; intros [H|H] [H'|[H' _]]; lia. Qed.

  Lemma insert_k_perm x l : Permutation (insert_k x l) (x :: l).
  Proof.
    induction l as [|y l IH]; cbn; [reflexivity|].
    destruct (kle x y); [reflexivity|].
    rewrite IH. apply perm_swap.
  Qed.

  Lemma sort_k_perm l : Permutation (sort_k l) l.
  Proof.
    induction l as [|x l IH]; cbn; [reflexivity|].
    rewrite insert_k_perm. constructor. exact IH.
  Qed.

  Lemma sort_k_In x l : In x (sort_k l) <-> In x l.
  Proof.
    split; apply Permutation_in; [apply sort_k_perm | apply Permutation_sym, sort_k_perm].
  Qed.

  Lemma insert_k_lex R x s :
    StronglySorted (lexR R) s -> Forall (R x) s -> StronglySorted (lexR R) (insert_k x s).
  Proof.
    induction s as [|y s IH]; intros Hs Hx; cbn.
    - constructor; [constructor | constructor].
    - apply StronglySorted_inv in Hs as [Hs Hy].
      apply Forall_cons_iff in Hx as [Hxy Hxs].
      destruct (kle x y) eqn:E.
      + constructor; [constructor; assumption|].
        apply kle_true in E.
        constructor.
        * destruct E as [E|E]; [left; exact E | right; split; assumption].
        * rewrite Forall_forall in *. intros z Hz.
          destruct (lexR_key_trans R x y z E (Hy z Hz)) as [H|H]; [left; exact H|].
          right. split; [exact H | apply Hxs; exact Hz].
      + constructor; [apply IH; assumption|].
        apply kle_false in E.
        rewrite Forall_forall in *. intros z Hz.
        apply (Permutation_in _ (insert_k_perm x s)) in Hz. destruct Hz as [<-|Hz].
        * left. exact E.
        * apply Hy. exact Hz.
  Qed.

  (* a stable sort of a list that is already ordered by R is ordered by (key, then R) *)
  Lemma sort_k_lex R l : StronglySorted R l -> StronglySorted (lexR R) (sort_k l).
  Proof.
    induction l as [|x l IH]; intros Hl; cbn; [constructor|].
    apply StronglySorted_inv in Hl as [Hl Hx].
    apply insert_k_lex; [apply IH; exact Hl|].
    rewrite Forall_forall in *. intros z Hz. apply Hx. apply sort_k_In. exact Hz.
  Qed.

  Lemma insert_k_stable k x s :
    filter (fun y => key y =? k) (insert_k x s) =
    (if key x =? k then [x] else []) ++ filter (fun y => key y =? k) s.
  Proof.
    induction s as [|y s IH]; cbn.
    - destruct (key x =? k); reflexivity.
    - destruct (kle x y) eqn:E; cbn.
      + destruct (key x =? k); reflexivity.
      + rewrite IH. destruct (key x =? k) eqn:Ex, (key y =? k) eqn:Ey; cbn; try reflexivity.
        apply N.eqb_eq in Ex, Ey. rewrite kle_refl_eq in E; [discriminate | congruence].
  Qed.

  (* stability: elements with equal keys keep their relative order *)
  Lemma sort_k_stable k l :
    filter (fun y => key y =? k) (sort_k l) = filter (fun y => key y =? k) l.
  Proof.
    induction l as [|x l IH]; cbn; [reflexivity|].
    rewrite insert_k_stable, IH. destruct (key x =? k); reflexivity.
  Qed.

  Lemma sort_k_sorted l : StronglySorted (fun x y => kstrict x y \/ key x = key y) (sort_k l).
  Proof.
    pose proof (sort_k_lex (fun _ _ => True) l (SS_True l)) as H.
    induction H as [|x s Hs IH Hx]; constructor; [exact IH|].
    rewrite Forall_forall in *. intros z Hz. destruct (Hx z Hz) as [H|[H _]]; [left|right]; exact H.
  Qed.
End SortLemmas.

(* the first element of a sorted list that satisfies f is ahead of every other one that does *)
Lemma find_sorted_first {A} (R : A -> A -> Prop) (f : A -> bool) l x :
  StronglySorted R l -> find f l = Some x ->
  In x l /\ f x = true /\ forall y, In y l -> f y = true -> y = x \/ R x y.
Proof.
  induction l as [|a l IH]; intros Hs Hf; cbn in *; [discriminate|].
  apply StronglySorted_inv in Hs as [Hs Ha].
  destruct (f a) eqn:E.
  - injection Hf as <-. split; [left; reflexivity|]. split; [exact E|].
    intros y [<-|Hy] _; [left; reflexivity|]. right. rewrite Forall_forall in Ha. apply Ha. exact Hy.
  - destruct (IH Hs Hf) as [Hin [Hfx Hmin]]. split; [right; exact Hin|]. split; [exact Hfx|].
    intros y [<-|Hy] Hfy; [congruence|]. apply Hmin; assumption.
Qed.

Lemma find_none_iff {A} (f : A -> bool) l : find f l = None <-> forall y, In y l -> f y = false.
Proof.
  split; [apply find_none|].
  induction l as [|a l IH]; intros H; cbn; [reflexivity|].
  rewrite (H a (or_introl eq_refl)). apply IH. intros y Hy. apply H. right. exact Hy.
Qed.
