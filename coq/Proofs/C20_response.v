(* C20 — Response.from_file inverts the wire form and Response.__str__. *)
From Coq Require Import ZArith NArith List Bool Lia.
Require Import Webob.Lib.Val Webob.Lib.PyStr Webob.Model.C20_wire Webob.Spec.C20_spec Webob.Proofs.C20_lib.
From Coq Require String.
Import String.StringSyntax.
Import ListNotations.
Local Open Scope string_scope.
Local Open Scope list_scope.
Local Open Scope N_scope.

Notation spb := is_space_bytes.

Ltac norm_app := repeat first [ rewrite <- app_assoc | progress (cbn [app]) ].

Lemma spb_32 : spb 32 = true. Proof. reflexivity. Qed.
Lemma spb_58 : spb 58 = false. Proof. reflexivity. Qed.

Lemma crlf_spb : Forall (fun c => spb c = true) CRLF.
Proof. repeat constructor. Qed.

Lemma no_lf_hline p : good_name (fst p) -> good_value (snd p) -> no_lf (hline p).
Proof.
  intros [_ [Hn _]] [Hv _]. unfold hline. apply no_lf_app.
  - eapply Forall_impl; [|exact Hn]. intros c [_ H]. exact H.
  - apply no_lf_app; [|assumption]. repeat constructor; discriminate.
Qed.

Definition after_colon (v : str) : str := match v with [] => [] | _ => 32 :: v end.

(* one header line, with or without its line terminator, through strip / partition / strip *)
Lemma header_line_parse n v E :
  good_name n -> good_value v -> Forall (fun c => spb c = true) E ->
  exists c line,
    strip_by spb (hline (n, v) ++ E) = c :: line /\
    partition_c 58 (c :: line) = (n, true, after_colon v) /\
    strip_by spb (after_colon v) = v.
Proof.
  intros [Hnn [Hnc Hnt]] [Hvl Hvt] HE. unfold hline, COLON_SP. cbn [fst snd].
  destruct n as [|c n]; [contradiction|].
  pose proof (tight_first _ _ _ Hnt) as Hc.
  assert (Hcol : Forall (fun x => x <> 58) (c :: n)).
  { eapply Forall_impl; [|exact Hnc]. intros x [H _]. exact H. }
  exists c. destruct v as [|v0 v].
  - (* empty value: "name: " strips to "name:" *)
    exists (n ++ [58]). split; [|split].
    + unfold strip_by, lstrip_by. cbn [app]. rewrite drop_while_keep by assumption.
      replace (c :: (n ++ [58; 32]) ++ E) with (((c :: n) ++ [58]) ++ (32 :: E))
        by (norm_app; reflexivity).
      rewrite rstrip_pad by (constructor; [reflexivity|assumption]).
      rewrite rstrip_keep by reflexivity. reflexivity.
    + change (c :: n ++ [58]) with ((c :: n) ++ 58 :: []). apply partition_first. assumption.
    + reflexivity.
  - exists (n ++ 58 :: 32 :: v0 :: v). split; [|split].
    + unfold strip_by, lstrip_by. cbn [app]. rewrite drop_while_keep by assumption.
      destruct (tight_last spb (v0 :: v)) as [x [z [Ex Hz]]]; [discriminate|assumption|].
      rewrite Ex.
      replace (c :: (n ++ 58 :: 32 :: x ++ [z]) ++ E) with ((((c :: n) ++ 58 :: 32 :: x) ++ [z]) ++ E)
        by (norm_app; reflexivity).
      rewrite rstrip_pad by assumption. rewrite rstrip_keep by assumption.
      norm_app. reflexivity.
    + change (c :: n ++ 58 :: 32 :: v0 :: v) with ((c :: n) ++ 58 :: 32 :: v0 :: v).
      apply partition_first. assumption.
    + pose proof (strip_pad spb [32] (v0 :: v) []) as P. cbn [app] in P. rewrite app_nil_r in P.
      apply P; [repeat constructor|constructor|assumption].
Qed.

(* the header loop on a CRLF-joined message: header lines, then either the end of the file or a
   blank line followed by b *)
Lemma rhdr_loop_join hl : forall fuel acc tl b,
  good_headers hl -> (length hl < fuel)%nat ->
  (tl = [] /\ b = [] \/ tl = [[]; b]) ->
  rhdr_loop fuel acc (join CRLF (map hline hl ++ tl)) = Ok (rev acc ++ hl, b).
Proof.
  induction hl as [|[n v] hl IH]; intros fuel acc tl b Hg Hf Htl.
  - destruct fuel as [|f]; [cbn in Hf; lia|]. cbn [map app].
    destruct Htl as [ [-> ->] | -> ].
    + cbn. rewrite app_nil_r. reflexivity.
    + cbn. rewrite app_nil_r. reflexivity.
  - destruct fuel as [|f]; [cbn in Hf; lia|].
    inversion Hg as [|? ? [Hn Hv] Hg']; subst. cbn [fst snd] in Hn, Hv.
    cbn [map app rhdr_loop].
    rewrite readline_join by (apply (no_lf_hline (n, v)); assumption).
    set (E := match map hline hl ++ tl with [] => [] | _ :: _ => CRLF end).
    assert (HE : Forall (fun c => spb c = true) E).
    { unfold E. destruct (map hline hl ++ tl); [constructor|apply crlf_spb]. }
    destruct (header_line_parse n v E Hn Hv HE) as [c [line [E1 [E2 E3]]]].
    rewrite E1, E2. cbn [negb]. rewrite E3.
    rewrite IH with (b := b); [|assumption|cbn in Hf; lia|assumption].
    cbn [rev]. rewrite <- app_assoc. reflexivity.
Qed.

(* ------------------------------------------------------------------ the status line *)
Lemma http11_vis : all_vis (A "HTTP/1.1").
Proof. repeat constructor; cbv; discriminate. Qed.

Lemma digit_vis c : is_digit c = true -> vis c.
Proof. unfold is_digit, vis. intros H. apply andb_true_iff in H as [H1 H2]. apply N.leb_le in H1, H2. lia. Qed.

Lemma digits_vis s : all_digits s -> all_vis s.
Proof. intros H. eapply Forall_impl; [|exact H]. intros c. apply digit_vis. Qed.

Lemma space_of_str text c : space_of text c = true -> is_space_str c = true.
Proof.
  destruct text; cbn [space_of]; [auto|]. unfold is_space_bytes, is_space_str. intros H.
  apply orb_true_iff in H as [H|H].
  - rewrite H. reflexivity.
  - apply N.eqb_eq in H. subst. reflexivity.
Qed.

Lemma spb_str c : spb c = true -> is_space_str c = true.
Proof. apply (space_of_str false). Qed.

Lemma sint_str c : is_space_int c = true -> is_space_str c = true.
Proof.
  unfold is_space_int, is_space_str. intros H.
  apply orb_true_iff in H as [H|H]; [apply orb_true_iff in H as [H|H]|].
  - apply spb_str in H. exact H.
  - rewrite H. rewrite !orb_true_r. reflexivity.
  - rewrite H. rewrite !orb_true_r. reflexivity.
Qed.

Lemma space_of_32 text : space_of text 32 = true.
Proof. destruct text; reflexivity. Qed.

(* status = code SP reason, as a whole *)
Lemma status_tight sp st code reason :
  (forall c, sp c = true -> is_space_str c = true) ->
  st = code ++ 32 :: reason -> code <> [] -> all_digits code -> reason <> [] ->
  tightb is_space_str reason = true -> tightb sp st = true.
Proof.
  intros Hsp -> Hc Hd Hr Ht. destruct code as [|c0 code]; [contradiction|].
  inversion Hd as [|? ? Hc0 _]; subst.
  apply (tightb_weaken sp is_space_str _ Hsp).
  change ((c0 :: code) ++ 32 :: reason) with ((c0 :: code) ++ [32] ++ reason). rewrite app_assoc.
  change ((c0 :: code) ++ [32]) with (c0 :: (code ++ [32])).
  apply tightb_app; [|assumption|assumption].
  apply digit_vis in Hc0. apply (vis_not_space true). assumption.
Qed.

Lemma status_ok_good st : good_status st -> status_ok st = Ok tt.
Proof.
  intros [code [reason [E [Hc [Hd [Hr [Hl Ht]]]]]]]. unfold status_ok.
  assert (Hti : tightb is_space_int st = true) by (eapply status_tight; eauto using sint_str).
  rewrite E in Hti |- *. rewrite py_int_with_space by assumption.
  destruct (split_first is_space_str code reason) as [tl Etl]; [reflexivity|assumption| |].
  { eapply Forall_impl; [|apply digits_vis; exact Hd]. intros c Hv. apply (vis_not_space true). assumption. }
  rewrite Etl. rewrite py_int_digits by assumption. reflexivity.
Qed.

(* the first line of the wire form *)

Lemma wire_status text st E :
  good_status st -> Forall (fun c => spb c = true) E ->
  exists st0,
    strip_by spb (A "HTTP/1.1 " ++ st ++ E) = st0 /\
    starts_with (A "HTTP/") st0 = true /\
    exists num txt, split_ws_max (space_of text) 2 st0 = [A "HTTP/1.1"; num; txt] /\ num ++ 32 :: txt = st.
Proof.
  intros Hg HE. pose proof Hg as [code [reason [Est [Hc [Hd [Hr [Hl Ht]]]]]]].
  exists (A "HTTP/1.1 " ++ st). split; [|split].
  - pose proof (strip_pad spb [] (A "HTTP/1.1 " ++ st) E) as P.
    rewrite app_nil_l, <- app_assoc in P. apply P; [constructor|assumption|].
    change (A "HTTP/1.1 " ++ st) with ((72 :: A "TTP/1.1 ") ++ st).
    apply tightb_app; [reflexivity| |].
    + rewrite Est. destruct code; [contradiction|discriminate].
    + eapply status_tight; eauto using spb_str.
  - reflexivity.
  - exists code, reason. split; [|rewrite Est; reflexivity].
    destruct reason as [|r0 reason]; [contradiction|].
    rewrite Est. change (A "HTTP/1.1 " ++ code ++ 32 :: r0 :: reason) with (A "HTTP/1.1" ++ 32 :: code ++ 32 :: r0 :: reason).
    apply split_three.
    + apply space_of_32.
    + discriminate.
    + assumption.
    + apply all_vis_no_sp. apply http11_vis.
    + apply all_vis_no_sp. apply digits_vis. assumption.
    + pose proof (tight_first _ _ _ Ht) as H0.
      destruct (space_of text r0) eqn:Es; [|reflexivity]. apply space_of_str in Es. congruence.
Qed.

(* ------------------------------------------------------------------ Content-Length *)
Lemma declared_clen r : declared_length r ->
  resp_clen (r_headers r) = Ok (Z.of_nat (length (r_body r))).
Proof.
  unfold declared_length, resp_clen. intros ->.
  destruct (dec_len (r_body r)) eqn:E; [exfalso; exact (dec_len_nonnil _ E)|].
  rewrite <- E. unfold dec_len. rewrite py_int_dec. f_equal. lia.
Qed.

(* ------------------------------------------------------------------ wire form as a joined message *)
Lemma flat_lines_join (hl : list (str * str)) (x : str) :
  flat_map (fun p => hline p ++ CRLF) hl ++ CRLF ++ x = join CRLF (map hline hl ++ [[]; x]).
Proof.
  induction hl as [|p hl IH]; [reflexivity|].
  cbn [flat_map map app]. rewrite <- !app_assoc, IH.
  destruct (map hline hl ++ [[]; x]) as [|l1 L1] eqn:E; [destruct (map hline hl); discriminate|].
  reflexivity.
Qed.

Lemma join_cons (sep a : str) (L : list str) : L <> [] -> join sep (a :: L) = a ++ sep ++ join sep L.
Proof. destruct L; [contradiction|reflexivity]. Qed.

Lemma wire_head_join r x :
  wire_head r ++ x = join CRLF ((A "HTTP/1.1 " ++ r_status r) :: map hline (r_headers r) ++ [[]; x]).
Proof.
  rewrite join_cons by (destruct (map hline (r_headers r)); discriminate).
  unfold wire_head. rewrite <- !app_assoc. rewrite flat_lines_join. reflexivity.
Qed.

Lemma good_status_no_lf st : good_status st -> no_lf st.
Proof.
  intros [code [reason [-> [Hc [Hd [Hr [Hl Ht]]]]]]]. apply no_lf_app.
  - apply all_vis_no_lf, digits_vis. assumption.
  - constructor; [discriminate|assumption].
Qed.

(* ------------------------------------------------------------------ main theorem *)
(* [tb] is what the file carries for the body (the body itself in a binary file, its text in a
   text file) and [trailing] whatever follows in the file *)
Theorem response_wire_roundtrip_gen : forall text conv cw r tb trailing,
  good_status (r_status r) -> good_headers (r_headers r) -> declared_length r ->
  conv tb = Ok (r_body r) ->
  read_body cw (Some (Z.of_nat (length (r_body r)))) (tb ++ trailing) = (tb, trailing) ->
  resp_from_file text conv cw (wire_head r ++ tb ++ trailing) = Ok (cl_last r, trailing).
Proof.
  intros text conv cw r tb trailing Hs Hh Hd Hconv Hread.
  rewrite wire_head_join. unfold resp_from_file.
  rewrite readline_join.
  2:{ apply no_lf_app; [repeat constructor; discriminate|apply good_status_no_lf; assumption]. }
  assert (Hne : map hline (r_headers r) ++ [[]; tb ++ trailing] <> []) by (destruct (map hline (r_headers r)); discriminate).
  destruct (map hline (r_headers r) ++ [[]; tb ++ trailing]) as [|l0 L] eqn:EL; [contradiction|].
  rewrite <- EL. clear Hne.
  destruct (wire_status text (r_status r) CRLF Hs crlf_spb) as [st0 [E0 [Hhttp [num [txt [Esplit Est]]]]]].
  rewrite <- app_assoc, E0, Hhttp, Esplit.
  rewrite rhdr_loop_join with (b := tb ++ trailing); [|assumption| |right; reflexivity].
  2:{ rewrite EL. pose proof (f_equal (@length str) EL) as HL. rewrite app_length, map_length in HL. cbn [length] in *.
      assert (length (r_headers r) <= length (join CRLF (l0 :: L)))%nat; [|lia].
      rewrite <- EL. clear. induction (r_headers r) as [|p hl IH]; [cbn; lia|].
      cbn [map app]. destruct (map hline hl ++ [[]; tb ++ trailing]) as [|l1 L1] eqn:E; [destruct (map hline hl); discriminate|].
      change (join CRLF (hline p :: l1 :: L1)) with (hline p ++ CRLF ++ join CRLF (l1 :: L1)).
      rewrite !app_length. cbn [length CRLF]. lia. }
  cbn [rev app negb]. rewrite andb_false_r. cbn [andb]. rewrite Est. rewrite status_ok_good by assumption.
  rewrite declared_clen by assumption. rewrite Hread, Hconv. reflexivity.
Qed.

(* binary file: the wire form itself, followed by anything *)
Theorem response_wire_roundtrip : forall text r trailing,
  good_status (r_status r) -> good_headers (r_headers r) -> declared_length r ->
  resp_from_file text conv_id one_byte (resp_wire r ++ trailing) = Ok (cl_last r, trailing).
Proof.
  intros text r trailing Hs Hh Hd.
  replace (resp_wire r ++ trailing) with (wire_head r ++ r_body r ++ trailing).
  - apply response_wire_roundtrip_gen; try assumption; [reflexivity|]. apply read_body_exact.
  - unfold resp_wire, wire_head. rewrite <- !app_assoc. reflexivity.
Qed.

(* text file: the body as text t that encodes (character widths cw) to exactly the declared number
   of bytes — followed by anything: Content-Length is counted in bytes, not in characters *)
Theorem response_wire_roundtrip_text : forall conv cw r t trailing,
  good_status (r_status r) -> good_headers (r_headers r) -> declared_length r ->
  conv t = Ok (r_body r) -> sane_widths cw t -> text_width cw t = length (r_body r) ->
  resp_from_file true conv cw (wire_head r ++ t ++ trailing) = Ok (cl_last r, trailing).
Proof.
  intros conv cw r t trailing Hs Hh Hd Hc Hw Hlen.
  apply response_wire_roundtrip_gen; try assumption.
  rewrite <- Hlen. apply read_body_width. assumption.
Qed.

(* ------------------------------------------------------------------ Response.__str__ *)
(* the status line of str(resp) carries no HTTP-version *)
Lemma str_status st E :
  good_status st -> Forall (fun c => spb c = true) E ->
  strip_by spb (st ++ E) = st /\ starts_with (A "HTTP/") st = false.
Proof.
  intros Hg HE. pose proof Hg as [code [reason [Est [Hc [Hd [Hr [Hl Ht]]]]]]]. split.
  - pose proof (strip_pad spb [] st E) as P. rewrite app_nil_l in P. apply P; [constructor|assumption|].
    eapply status_tight; eauto using spb_str.
  - rewrite Est. destruct code as [|c0 code]; [contradiction|].
    inversion Hd as [|? ? Hc0 _]; subst.
    change (starts_with (A "HTTP/") ((c0 :: code) ++ 32 :: reason))
      with ((72 =? c0) && starts_with (A "TTP/") (code ++ 32 :: reason)).
    destruct (72 =? c0) eqn:E72; [|reflexivity]. apply N.eqb_eq in E72. subst. discriminate.
Qed.


(* from_file on a CRLF-joined message whose first line is the bare status *)
Lemma str_parse text conv cw st hl (tl : list str) b :
  good_status st -> good_headers hl -> (text = false -> ascii_only st = true) ->
  (tl = [] /\ b = [] \/ tl = [[]; b]) ->
  resp_from_file text conv cw (join CRLF (st :: map hline hl ++ tl)) =
  match resp_clen hl with
  | Er x => Er x
  | Ok n =>
      let '(raw, s3) := read_body cw (Some n) b in
      match conv raw with
      | Er x => Er x
      | Ok body => Ok (mkResp st (filter (fun p => negb (is_cl p)) hl ++ [(n_CL, dec_len body)]) body, s3)
      end
  end.
Proof.
  intros Hs Hh Hasc Htl. unfold resp_from_file.
  rewrite readline_join by (apply good_status_no_lf; assumption).
  remember (match map hline hl ++ tl with [] => [] | _ :: _ => CRLF end) as E eqn:EE.
  assert (HE : Forall (fun c => spb c = true) E).
  { subst E. destruct (map hline hl ++ tl); [constructor|apply crlf_spb]. }
  destruct (str_status st E Hs HE) as [E0 Hhttp]. rewrite E0, Hhttp.
  assert (Hdec : negb text && negb false && negb (ascii_only st) = false).
  { destruct text; [reflexivity|]. rewrite Hasc by reflexivity. reflexivity. }
  rewrite rhdr_loop_join with (b := b); [|assumption|apply headers_fuel|assumption].
  rewrite Hdec.
  cbn [rev app]. rewrite status_ok_good by assumption. reflexivity.
Qed.

Theorem response_str_roundtrip : forall text conv cw r t,
  good_status (r_status r) -> good_headers (r_headers r) -> declared_length r ->
  (text = false -> ascii_only (r_status r) = true) ->
  conv t = Ok (r_body r) -> conv [] = Ok [] -> sane_widths cw t -> text_width cw t = length (r_body r) ->
  resp_from_file text conv cw (resp_str r t) = Ok (cl_last r, []).
Proof.
  intros text conv cw [st hl body] t Hs Hh Hd Hasc Hc Hc0 Hw Hlen.
  pose proof (declared_clen _ Hd) as Hcl.
  unfold resp_str, cl_last. cbn [r_status r_headers r_body] in *.
  destruct body as [|b0 body].
  - rewrite (str_parse text conv cw st hl _ []); [|assumption|assumption|assumption|left; split; reflexivity].
    rewrite Hcl. cbn. rewrite Hc0. reflexivity.
  - rewrite (str_parse text conv cw st hl _ t); [|assumption|assumption|assumption|right; reflexivity].
    rewrite Hcl.
    assert (Hread : read_body cw (Some (Z.of_nat (length (b0 :: body)))) t = (t, [])).
    { rewrite <- Hlen. rewrite <- (app_nil_r t) at 2. apply read_body_width. assumption. }
    rewrite Hread, Hc. reflexivity.
Qed.
