(* C07 — Morsel.serialize / make_cookie / Response.set_cookie: the emitted line is printable ASCII, the
   reference splitter recovers exactly the name, the value and the requested attributes, and the requests
   the statement forbids raise. *)
From Coq Require Import String.
From Coq Require Import ZArith NArith List Bool Lia ZifyBool ZifyNat ZifyN.
Require Import Webob.Lib.Val Webob.Lib.PyStr Webob.Lib.C07_Utf8 Webob.Gen.C07_tables Webob.Model.C07_CookieCodec
               Webob.Spec.C07_CookieSpec Webob.Spec.C07_Requested
               Webob.Proofs.C07_tables Webob.Proofs.C07_output Webob.Proofs.C07_input.
Import ListNotations.
Local Open Scope N_scope.

(* ---------------------------------------------------------------- the reference splitter on a joined line *)
Definition no59 (s : str) : bool := forallb (fun c => negb (c =? 59)) s.
Definition no61 (s : str) : bool := forallb (fun c => negb (c =? 61)) s.

Lemma split_c_no59 p : no59 p = true -> split_c 59 p = [p].
Proof.
  induction p as [|c p IH]; cbn [no59 forallb split_c]; intros Hn; [reflexivity|].
  apply andb_true_iff in Hn as [Hc Hp]. replace (c =? 59) with false by lia.
  rewrite (IH Hp). reflexivity.
Qed.

Lemma split_c_app59 p rest : no59 p = true -> split_c 59 (p ++ 59 :: rest) = p :: split_c 59 rest.
Proof.
  induction p as [|c p IH]; cbn [no59 forallb split_c app]; intros Hn.
  - reflexivity.
  - apply andb_true_iff in Hn as [Hc Hp]. replace (c =? 59) with false by lia.
    rewrite (IH Hp). reflexivity.
Qed.

Lemma join_semi_cons2 h y t : join_semi (h :: y :: t) = h ++ 59 :: 32 :: join_semi (y :: t).
Proof. reflexivity. Qed.

Lemma split_join t : forall h, Forall (fun p => no59 p = true) (h :: t) ->
  split_c 59 (join_semi (h :: t)) = h :: map (cons 32) t.
Proof.
  induction t as [|y t IH]; intros h Hf.
  - inversion Hf; subst. cbn [map]. apply split_c_no59. assumption.
  - inversion Hf as [|? ? Hh Hyt]; subst. rewrite join_semi_cons2.
    rewrite split_c_app59 by exact Hh.
    change (split_c 59 (32 :: join_semi (y :: t)))
      with (match split_c 59 (join_semi (y :: t)) with [] => [[32]] | f :: fs => (32 :: f) :: fs end).
    rewrite (IH y Hyt). reflexivity.
Qed.

Lemma ref_components_join h t : Forall (fun p => no59 p = true) (h :: t) ->
  ref_components (join_semi (h :: t)) = h :: t.
Proof.
  intros Hf. unfold ref_components. rewrite split_join by exact Hf.
  f_equal. rewrite map_map. cbn [strip1]. apply map_id.
Qed.

Lemma partition_key k v : no61 k = true -> partition_c 61 (k ++ 61 :: v) = (k, true, v).
Proof.
  induction k as [|c k IH]; cbn [no61 forallb partition_c app]; intros Hn.
  - reflexivity.
  - apply andb_true_iff in Hn as [Hc Hk]. replace (c =? 61) with false by lia.
    rewrite (IH Hk). reflexivity.
Qed.

Lemma partition_flag k : no61 k = true -> partition_c 61 k = (k, false, []).
Proof.
  induction k as [|c k IH]; cbn [no61 forallb partition_c]; intros Hn; [reflexivity|].
  apply andb_true_iff in Hn as [Hc Hk]. replace (c =? 61) with false by lia.
  rewrite (IH Hk). reflexivity.
Qed.

(* components: key with an optional raw value *)
Definition comp := (str * option str)%type.
Definition render_comp (c : comp) : str :=
  match snd c with Some raw => fst c ++ 61 :: raw | None => fst c end.
Definition comp_ok (c : comp) : bool :=
  no59 (fst c) && no61 (fst c) && match snd c with Some raw => no59 raw | None => true end.
Definition comp_denote (c : comp) : str * option str := (fst c, option_map denote_value (snd c)).

Lemma no59_app a b : no59 (a ++ b) = no59 a && no59 b.
Proof. apply forallb_app. Qed.

Lemma render_comp_no59 c : comp_ok c = true -> no59 (render_comp c) = true.
Proof.
  destruct c as [k [raw|]]; unfold comp_ok, render_comp; cbn [fst snd]; intros Hk.
  - rewrite no59_app. cbn [no59 forallb]. fold (no59 raw). lia.
  - lia.
Qed.

Lemma ref_attr_comp c : comp_ok c = true -> ref_attr (render_comp c) = comp_denote c.
Proof.
  destruct c as [k [raw|]]; unfold comp_ok, render_comp, comp_denote, ref_attr; cbn [fst snd option_map]; intros Hk.
  - rewrite partition_key by lia. reflexivity.
  - rewrite partition_flag by lia. reflexivity.
Qed.

Theorem ref_parse_comps name raw cs :
  comp_ok (name, Some raw) = true -> forallb comp_ok cs = true ->
  ref_parse (join_semi (map render_comp ((name, Some raw) :: cs)))
  = Some (name, denote_value raw, map comp_denote cs).
Proof.
  intros Hh Hcs. unfold ref_parse. cbn [map].
  rewrite ref_components_join.
  - change (render_comp (name, Some raw)) with (name ++ 61 :: raw).
    unfold comp_ok in Hh. cbn [fst snd] in Hh. rewrite partition_key by lia.
    f_equal. f_equal. rewrite map_map. apply map_ext_in. intros c Hc.
    apply ref_attr_comp. rewrite forallb_forall in Hcs. apply Hcs, Hc.
  - constructor; [apply render_comp_no59, Hh|].
    apply Forall_forall. intros p Hp. apply in_map_iff in Hp as (c & <- & Hc).
    apply render_comp_no59. rewrite forallb_forall in Hcs. apply Hcs, Hc.
Qed.

(* ---------------------------------------------------------------- Morsel.serialize as a list of components *)
Definition cpart (nm : str) (q : quoter) (o : option str) : list comp :=
  match truthy o with Some v => [(nm, Some (quote_with q v))] | None => [] end.
Definition cplain (nm : str) (o : option str) : list comp :=
  match truthy o with Some v => [(nm, Some v)] | None => [] end.
Definition cflag (nm : str) (b : bool) : list comp := if b then [(nm, None)] else [].

Definition attr_comps (m : morsel) : list comp :=
  cpart A_Comment QValue (m_comment m) ++ cpart A_Domain QPath (m_domain m)
  ++ cpart A_MaxAge QPath (m_maxage m) ++ cpart A_Path QPath (m_path m)
  ++ cplain A_expires (m_expires m)
  ++ cflag A_secure (m_secure m) ++ cflag A_HttpOnly (m_httponly m)
  ++ cplain A_SameSite (m_samesite m).

Definition head_comp (m : morsel) : comp := (m_name m, Some (value_quote (m_value m))).

(* the table-driven loop over _c_valkeys/_c_renames is this fixed sequence: Comment (value quoter), Domain,
   Max-Age, Path (path quoter).  Closed by computation on the regenerated table. *)
Lemma mg_comment m : morsel_get m (H "636f6d6d656e74"%string) = m_comment m. Proof. reflexivity. Qed.
Lemma mg_domain m : morsel_get m (H "646f6d61696e"%string) = m_domain m. Proof. reflexivity. Qed.
Lemma mg_maxage m : morsel_get m (H "6d61782d616765"%string) = m_maxage m. Proof. reflexivity. Qed.
Lemma mg_path m : morsel_get m (H "70617468"%string) = m_path m. Proof. reflexivity. Qed.

Lemma valued_parts_eq m :
  valued_parts m = map render_comp (cpart A_Comment QValue (m_comment m) ++ cpart A_Domain QPath (m_domain m)
                                    ++ cpart A_MaxAge QPath (m_maxage m) ++ cpart A_Path QPath (m_path m)).
Proof.
  unfold valued_parts, c_renames. cbn [flat_map].
  rewrite mg_comment, mg_domain, mg_maxage, mg_path.
  unfold cpart. rewrite !map_app.
  destruct (truthy (m_comment m)), (truthy (m_domain m)), (truthy (m_maxage m)), (truthy (m_path m)); reflexivity.
Qed.

(* Morsel.serialize, restated over the component list *)
Definition morsel_line (m : morsel) : str := join_semi (map render_comp (head_comp m :: attr_comps m)).
Definition none_without_secure (m : morsel) : bool :=
  match truthy (m_samesite m) with Some ss => negb (m_secure m) && is_none ss | None => false end.

Lemma morsel_serialize_eq m :
  morsel_serialize m =
  if none_without_secure m then Raise ValueError
  else if is_ascii (morsel_line m) then Ok (morsel_line m) else Raise UnicodeDecodeError.
Proof.
  assert (Hline : morsel_line m =
    match truthy (m_samesite m) with
    | Some ss => join_semi ([m_name m ++ [61] ++ value_quote (m_value m)] ++ valued_parts m
                   ++ match truthy (m_expires m) with Some e => [H "657870697265733d"%string ++ e] | None => [] end
                   ++ (if m_secure m then [H "736563757265"%string] else [])
                   ++ (if m_httponly m then [H "487474704f6e6c79"%string] else [])
                   ++ [H "53616d65536974653d"%string ++ ss])
    | None => join_semi ([m_name m ++ [61] ++ value_quote (m_value m)] ++ valued_parts m
                   ++ match truthy (m_expires m) with Some e => [H "657870697265733d"%string ++ e] | None => [] end
                   ++ (if m_secure m then [H "736563757265"%string] else [])
                   ++ (if m_httponly m then [H "487474704f6e6c79"%string] else []))
    end).
  { unfold morsel_line. rewrite valued_parts_eq.
    unfold attr_comps, head_comp. cbn [map]. rewrite !map_app. unfold cplain, cflag.
    destruct (truthy (m_samesite m)) as [ss|]; f_equal; cbn [app]; f_equal; rewrite <- !app_assoc;
      destruct (truthy (m_expires m)), (m_secure m), (m_httponly m); cbn [map app]; rewrite ?app_nil_r; reflexivity. }
  unfold morsel_serialize, none_without_secure. rewrite Hline.
  destruct (truthy (m_samesite m)) as [ss|]; [destruct (negb (m_secure m) && is_none ss)|]; reflexivity.
Qed.

Lemma morsel_serialize_ok m line : morsel_serialize m = Ok line -> line = morsel_line m.
Proof.
  rewrite morsel_serialize_eq. destruct (none_without_secure m); [discriminate|].
  destruct (is_ascii (morsel_line m)); [|discriminate]. intros Hx. injection Hx as <-. reflexivity.
Qed.

(* ---------------------------------------------------------------- every component is printable and free of ';' *)
Definition comp_good (c : comp) : bool := comp_ok c && forallb printable (render_comp c).
Definition key_ok (nm : str) : bool := no59 nm && no61 nm && forallb printable nm.
Definition raw_ok (raw : str) : bool := no59 raw && forallb printable raw.

Lemma comp_good_valued nm raw : key_ok nm = true -> raw_ok raw = true -> comp_good (nm, Some raw) = true.
Proof.
  unfold key_ok, raw_ok, comp_good, comp_ok, render_comp. cbn [fst snd]. intros Hk Hr.
  rewrite forallb_app. cbn [forallb]. change (printable 61) with true. lia.
Qed.

Lemma comp_good_flag nm : key_ok nm = true -> comp_good (nm, None) = true.
Proof. unfold key_ok, comp_good, comp_ok, render_comp. cbn [fst snd]. lia. Qed.

Lemma raw_ok_value_quote v : octets v -> raw_ok (value_quote v) = true.
Proof.
  intros Ho. pose proof (safe_value_wire _ (value_quote_safe v Ho)) as Hw.
  unfold raw_ok, no59. apply andb_true_iff. split; apply forallb_forall; intros c Hc;
    rewrite forallb_forall in Hw; specialize (Hw c Hc); lia.
Qed.

Lemma raw_ok_path_quote v : octets v -> raw_ok (path_quote v) = true.
Proof.
  intros Ho. pose proof (escaped_wire _ _ (path_quote_safe v Ho)) as Hw.
  unfold raw_ok, no59. apply andb_true_iff. split; apply forallb_forall; intros c Hc;
    rewrite forallb_forall in Hw; specialize (Hw c Hc); unfold wire_char in Hw; lia.
Qed.

Lemma raw_ok_plain s : plain s = true -> raw_ok s = true.
Proof.
  unfold plain, raw_ok, no59. intros Hp. apply andb_true_iff. split; apply forallb_forall; intros c Hc;
    rewrite forallb_forall in Hp; specialize (Hp c Hc); unfold plain_char in Hp; lia.
Qed.

Lemma raw_ok_quote_with q v : octets v -> raw_ok (quote_with q v) = true.
Proof. destruct q; [apply raw_ok_value_quote|apply raw_ok_path_quote]. Qed.

Lemma truthy_some o v : truthy o = Some v -> o = Some v /\ v <> [].
Proof. destruct o as [[|c s]|]; cbn; try discriminate. intros Hx. injection Hx as <-. split; [reflexivity|discriminate]. Qed.

Lemma cpart_good nm q o : key_ok nm = true -> opt_octets o -> forallb comp_good (cpart nm q o) = true.
Proof.
  intros Hk Ho. unfold cpart. destruct (truthy o) as [v|] eqn:Et; [|reflexivity].
  apply truthy_some in Et as [-> _]. cbn [forallb]. rewrite comp_good_valued; [reflexivity|exact Hk|].
  apply raw_ok_quote_with, Ho.
Qed.

Lemma cplain_good nm o : key_ok nm = true -> (forall s, o = Some s -> plain s = true) ->
  forallb comp_good (cplain nm o) = true.
Proof.
  intros Hk Ho. unfold cplain. destruct (truthy o) as [v|] eqn:Et; [|reflexivity].
  apply truthy_some in Et as [-> _]. cbn [forallb]. rewrite comp_good_valued; [reflexivity|exact Hk|].
  apply raw_ok_plain, Ho. reflexivity.
Qed.

Lemma cflag_good nm b : key_ok nm = true -> forallb comp_good (cflag nm b) = true.
Proof. intros Hk. destruct b; cbn [cflag forallb]; [rewrite comp_good_flag by exact Hk|]; reflexivity. Qed.

Lemma key_facts : key_ok A_Comment = true /\ key_ok A_Domain = true /\ key_ok A_MaxAge = true /\ key_ok A_Path = true
  /\ key_ok A_expires = true /\ key_ok A_secure = true /\ key_ok A_HttpOnly = true /\ key_ok A_SameSite = true.
Proof. vm_compute. repeat split; reflexivity. Qed.

(* str(int): decimal digits with an optional leading '-' *)
Definition numc (c : N) : bool := is_digit c || (c =? 45).

Lemma digits_of_num fuel : forall n acc, forallb numc acc = true -> forallb numc (digits_of fuel n acc) = true.
Proof.
  induction fuel as [|f IH]; intros n acc Ha; cbn [digits_of]; [exact Ha|].
  assert (Hd : forallb numc ((48 + n mod 10) :: acc) = true).
  { cbn [forallb]. rewrite Ha. pose proof (N.mod_lt n 10 ltac:(lia)). unfold numc, is_digit. lia. }
  destruct (n <? 10); [exact Hd|apply IH, Hd].
Qed.

Lemma digits_of_nonempty fuel n acc : acc <> [] \/ fuel <> O -> digits_of fuel n acc <> [].
Proof.
  revert n acc. induction fuel as [|f IH]; intros n acc Hx; cbn [digits_of].
  - destruct Hx as [Hx|Hx]; [exact Hx|congruence].
  - destruct (n <? 10); [discriminate|]. apply IH. left. discriminate.
Qed.

Lemma z_to_str_num z : forallb numc (z_to_str z) = true.
Proof.
  destruct z as [|p|p]; unfold z_to_str, n_to_str; [reflexivity| |].
  - apply digits_of_num. reflexivity.
  - cbn [forallb]. rewrite digits_of_num by reflexivity. reflexivity.
Qed.

Lemma z_to_str_nonempty z : z_to_str z <> [].
Proof.
  destruct z as [|p|p]; unfold z_to_str, n_to_str; [discriminate| |discriminate].
  apply digits_of_nonempty. right. discriminate.
Qed.

Lemma num_plain s : forallb numc s = true -> plain s = true.
Proof.
  unfold plain. intros Hn. apply forallb_forall. intros c Hc. rewrite forallb_forall in Hn. specialize (Hn c Hc).
  unfold numc, is_digit in Hn. unfold plain_char, printable. lia.
Qed.

Lemma num_octets s : forallb numc s = true -> octets s.
Proof.
  intros Hn. apply Forall_forall. intros c Hc. rewrite forallb_forall in Hn. specialize (Hn c Hc).
  unfold numc, is_digit in Hn. unfold octet. lia.
Qed.

(* names *)
Lemma tchar_wire c : tchar c = true -> printable c = true /\ c <> 59 /\ c <> 61.
Proof.
  unfold tchar. cbn [mem_n]. intros Ht. unfold printable.
  repeat (apply orb_true_iff in Ht as [Ht|Ht]); lia.
Qed.

Lemma token_key_ok k : forallb is_token k = true -> key_ok k = true.
Proof.
  intros Ht. unfold key_ok, no59, no61.
  repeat (apply andb_true_iff; split); apply forallb_forall; intros c Hc;
    rewrite forallb_forall in Ht; specialize (Ht c Hc); apply is_token_tchar, tchar_wire in Ht; lia.
Qed.

(* ---------------------------------------------------------------- decoding the components gives the request back *)
Lemma plain_denote s : plain s = true -> denote_value s = s.
Proof.
  intros Hp. rewrite denote_value_bare.
  - apply esc_denote_no_backslash. apply forallb_forall. intros c Hc.
    unfold plain in Hp. rewrite forallb_forall in Hp. specialize (Hp c Hc). unfold plain_char in Hp. lia.
  - intros t ->. unfold plain in Hp. cbn [forallb] in Hp. cbn in Hp. discriminate.
Qed.

Lemma denote_quote_with q v : octets v -> denote_value (quote_with q v) = v.
Proof. destruct q; [apply denote_value_quote|apply denote_path_quote]. Qed.

Lemma cpart_denote nm q o : opt_octets o -> map comp_denote (cpart nm q o) = opt_attr nm o.
Proof.
  intros Ho. unfold cpart, opt_attr. destruct o as [[|c v]|]; cbn [truthy]; try reflexivity.
  cbn [map]. unfold comp_denote. cbn [fst snd option_map]. rewrite denote_quote_with by exact Ho. reflexivity.
Qed.

Lemma cplain_denote nm o : (forall s, o = Some s -> plain s = true) -> map comp_denote (cplain nm o) = opt_attr nm o.
Proof.
  intros Ho. unfold cplain, opt_attr. destruct o as [[|c v]|]; cbn [truthy]; try reflexivity.
  cbn [map]. unfold comp_denote. cbn [fst snd option_map]. rewrite plain_denote by (apply Ho; reflexivity). reflexivity.
Qed.

Lemma cflag_denote nm b : map comp_denote (cflag nm b) = if b then [(nm, None)] else [].
Proof. destruct b; reflexivity. Qed.

Lemma mc_secs_req r : mc_secs r = req_seconds r.
Proof. unfold mc_secs, req_seconds, deleting. destruct (r_value r), (r_max_age r); reflexivity. Qed.

Lemma delete_expires_plain : plain delete_expires = true.
Proof. vm_compute. reflexivity. Qed.

Lemma mc_expires_plain r : plain (r_date r) = true -> forall s, mc_expires r = Some s -> plain s = true.
Proof.
  intros Hd s. unfold mc_expires. destruct (r_value r), (r_max_age r); intros Hx; try discriminate;
    injection Hx as <-; try exact Hd; exact delete_expires_plain.
Qed.

Lemma mc_expires_req r :
  opt_attr A_expires (mc_expires r) =
  match req_seconds r with
  | Some _ => opt_attr A_expires (Some (if deleting r then delete_expires else r_date r))
  | None => []
  end.
Proof. unfold mc_expires, req_seconds, deleting. destruct (r_value r), (r_max_age r); reflexivity. Qed.

Definition samesite_plain (r : request) : Prop := forall s, r_samesite r = Some s -> plain s = true.

Lemma attr_comps_good r vb : req_octets r -> plain (r_date r) = true -> samesite_plain r ->
  forallb comp_good (attr_comps (mc_morsel r vb (r_samesite r))) = true.
Proof.
  intros (_ & Hp & Hd & Hc) Hdate Hss.
  destruct key_facts as (K1 & K2 & K3 & K4 & K5 & K6 & K7 & K8).
  unfold attr_comps, mc_morsel. cbn [m_comment m_domain m_maxage m_path m_expires m_secure m_httponly m_samesite].
  rewrite !forallb_app.
  rewrite (cpart_good _ _ _ K1 Hc), (cpart_good _ _ _ K2 Hd), (cpart_good _ _ _ K4 Hp).
  rewrite (cplain_good _ _ K5 (mc_expires_plain r Hdate)), (cflag_good _ _ K6), (cflag_good _ _ K7), (cplain_good _ _ K8 Hss).
  rewrite cpart_good; [reflexivity|exact K3|].
  destruct (mc_secs r) as [z|]; cbn [option_map opt_octets]; [|exact I].
  apply num_octets, z_to_str_num.
Qed.

Lemma attr_comps_denote r vb : req_octets r -> plain (r_date r) = true -> samesite_plain r ->
  map comp_denote (attr_comps (mc_morsel r vb (r_samesite r))) = requested r.
Proof.
  intros (_ & Hp & Hd & Hc) Hdate Hss.
  unfold attr_comps, mc_morsel, requested.
  cbn [m_comment m_domain m_maxage m_path m_expires m_secure m_httponly m_samesite].
  rewrite !map_app.
  rewrite (cpart_denote _ _ _ Hc), (cpart_denote _ _ _ Hd), (cpart_denote _ _ _ Hp).
  rewrite (cplain_denote _ _ (mc_expires_plain r Hdate)), !cflag_denote, (cplain_denote _ _ Hss).
  rewrite mc_expires_req, mc_secs_req.
  f_equal. f_equal. f_equal.
  destruct (req_seconds r) as [z|]; cbn [option_map]; [|reflexivity].
  rewrite cpart_denote by (cbn [opt_octets]; apply num_octets, z_to_str_num).
  unfold opt_attr. destruct (z_to_str z) as [|c s] eqn:Ez; [|reflexivity].
  exfalso. exact (z_to_str_nonempty z Ez).
Qed.

(* ---------------------------------------------------------------- make_cookie *)
Lemma make_cookie_inv validate r line : make_cookie validate r = Ok line ->
  is_ascii (r_name r) = true /\ mc_value r = Ok (value_octets r) /\ valid_cookie_name (r_name r) = true
  /\ mc_samesite validate r = Ok (r_samesite r)
  /\ morsel_serialize (mc_morsel r (value_octets r) (r_samesite r)) = Ok line.
Proof.
  unfold make_cookie. destruct (mc_bad_max_age r); [discriminate|].
  destruct (is_ascii (r_name r)) eqn:Ea; cbn [negb]; [|discriminate].
  destruct (mc_value r) as [vb|e] eqn:Ev; [|discriminate].
  assert (Hvb : vb = value_octets r).
  { unfold mc_value, value_octets in *. destruct (r_value r) as [|b|t]; try (injection Ev as <-; reflexivity).
    destruct (is_ascii t); [injection Ev as <-; reflexivity|discriminate]. }
  subst vb.
  destruct (valid_cookie_name_res (r_name r)) as [[|]|e] eqn:En; try discriminate.
  destruct (mc_samesite validate r) as [ss|e] eqn:Es; [|discriminate].
  assert (Hss : ss = r_samesite r).
  { unfold mc_samesite in Es. destruct (r_samesite r) as [s|]; [|injection Es as <-; reflexivity].
    destruct validate; [destruct (samesite_ok s)|destruct (forallb is_token s)];
      try discriminate; injection Es as <-; reflexivity. }
  subst ss. intros Hm. repeat split; try assumption; try reflexivity.
  unfold valid_cookie_name. rewrite En. reflexivity.
Qed.

Lemma text_value_octets r : mc_value r = Ok (value_octets r) -> req_octets r -> True.
Proof. trivial. Qed.

Lemma forallb_join (P : N -> bool) parts :
  Forall (fun p => forallb P p = true) parts -> P 59 = true -> P 32 = true -> forallb P (join_semi parts) = true.
Proof.
  intros Hf H59 H32. induction Hf as [|h t Hh Ht IH]; [reflexivity|].
  destruct t as [|y t]; [exact Hh|].
  rewrite join_semi_cons2, forallb_app. cbn [forallb]. rewrite Hh, H59, H32. cbn [andb]. exact IH.
Qed.

Lemma comps_printable cs : forallb comp_good cs = true -> forallb printable (join_semi (map render_comp cs)) = true.
Proof.
  intros Hg. apply forallb_join; [|reflexivity|reflexivity].
  apply Forall_forall. intros p Hp. apply in_map_iff in Hp as (c & <- & Hc).
  rewrite forallb_forall in Hg. specialize (Hg c Hc). unfold comp_good in Hg. lia.
Qed.

Lemma comp_good_ok cs : forallb comp_good cs = true -> forallb comp_ok cs = true.
Proof.
  intros Hg. apply forallb_forall. intros c Hc. rewrite forallb_forall in Hg. specialize (Hg c Hc).
  unfold comp_good in Hg. lia.
Qed.

Lemma head_good r : valid_cookie_name (r_name r) = true -> octets (value_octets r) ->
  comp_good (r_name r, Some (value_quote (value_octets r))) = true.
Proof.
  intros Hv Ho. apply valid_name_token in Hv as [_ Ht].
  apply comp_good_valued; [apply token_key_ok, Ht|apply raw_ok_value_quote, Ho].
Qed.

(* C07_one_cookie_exact_attrs (with printability of the whole line) *)
Theorem one_cookie_exact_attrs validate r line :
  req_octets r -> plain (r_date r) = true -> samesite_plain r ->
  make_cookie validate r = Ok line ->
  forallb printable line = true
  /\ ref_parse line = Some (r_name r, value_octets r, requested r).
Proof.
  intros Hro Hdate Hss Hm.
  apply make_cookie_inv in Hm as (_ & _ & Hv & _ & Hser).
  apply morsel_serialize_ok in Hser. subst line.
  unfold morsel_line, head_comp.
  change (m_name (mc_morsel r (value_octets r) (r_samesite r))) with (r_name r).
  change (m_value (mc_morsel r (value_octets r) (r_samesite r))) with (value_octets r).
  pose proof (head_good r Hv (proj1 Hro)) as Hh.
  pose proof (attr_comps_good r (value_octets r) Hro Hdate Hss) as Ha.
  split.
  - apply comps_printable. cbn [forallb]. apply andb_true_iff. split; [exact Hh|exact Ha].
  - rewrite ref_parse_comps.
    + rewrite denote_value_quote by exact (proj1 Hro).
      rewrite attr_comps_denote by assumption. reflexivity.
    + unfold comp_good in Hh. apply andb_true_iff in Hh as [Hh _]. exact Hh.
    + apply comp_good_ok, Ha.
Qed.

(* under validation the SameSite value is one of the three words, hence plain *)
Definition lower_letter (c : N) : bool := (97 <=? c) && (c <=? 122).

Lemma samesite_values_letters : forallb (forallb lower_letter) samesite_values = true.
Proof. vm_compute. reflexivity. Qed.

Lemma mem_str_In s l : mem_str s l = true -> In s l.
Proof.
  induction l as [|x l IH]; cbn [mem_str]; [discriminate|]. intros Hm.
  apply orb_true_iff in Hm as [Hx|Hm]; [left; apply str_eqb_eq, Hx|right; apply IH, Hm].
Qed.

Lemma blower_letters_plain s : forallb lower_letter (blower s) = true -> plain s = true.
Proof.
  unfold blower, plain. rewrite forallb_forall. intros Hl. apply forallb_forall. intros c Hc.
  specialize (Hl (blower_c c) (in_map _ _ _ Hc)). unfold lower_letter, blower_c in Hl.
  unfold plain_char, printable. destruct ((65 <=? c) && (c <=? 90)) eqn:E; lia.
Qed.

Lemma samesite_ok_plain s : samesite_ok s = true -> plain s = true.
Proof.
  unfold samesite_ok. intros Hm. apply mem_str_In in Hm.
  pose proof samesite_values_letters as Hl. rewrite forallb_forall in Hl.
  apply blower_letters_plain, Hl, Hm.
Qed.

(* what serialize_samesite lets through: one of the three words (validation on) or a token (validation off) *)
Lemma emitted_samesite_checked validate r line : make_cookie validate r = Ok line ->
  forall s, r_samesite r = Some s -> samesite_ok s = true \/ forallb is_token s = true.
Proof.
  intros Hm s Hs. apply make_cookie_inv in Hm as (_ & _ & _ & Hss & _).
  unfold mc_samesite in Hss. rewrite Hs in Hss.
  destruct validate; [destruct (samesite_ok s) eqn:Eo|destruct (forallb is_token s) eqn:Et]; try discriminate; auto.
Qed.

Lemma tchar_plain c : tchar c = true -> plain_char c = true.
Proof.
  unfold tchar. cbn [mem_n]. intros Ht. unfold plain_char, printable.
  repeat (apply orb_true_iff in Ht as [Ht|Ht]); lia.
Qed.

Lemma token_plain s : forallb is_token s = true -> plain s = true.
Proof.
  intros Ht. unfold plain. apply forallb_forall. intros c Hc. rewrite forallb_forall in Ht.
  apply tchar_plain, is_token_tchar, Ht, Hc.
Qed.

(* whatever the flag says, a SameSite value that got through needs no escaping *)
Lemma emitted_samesite_plain validate r line : make_cookie validate r = Ok line -> samesite_plain r.
Proof.
  intros Hm s Hs. destruct (emitted_samesite_checked validate r line Hm s Hs) as [Ho|Ht];
    [apply samesite_ok_plain, Ho|apply token_plain, Ht].
Qed.

Lemma validated_samesite_plain r line : make_cookie true r = Ok line -> samesite_plain r.
Proof. apply emitted_samesite_plain. Qed.

(* ---------------------------------------------------------------- what must raise *)
Lemma token_forall_tchar k : forallb is_token k = true -> forallb tchar k = true.
Proof.
  intros Ht. apply forallb_forall. intros c Hc. rewrite forallb_forall in Ht. apply is_token_tchar, Ht, Hc.
Qed.

Lemma tchar_forall_token k : forallb tchar k = true -> forallb is_token k = true.
Proof.
  intros Ht. apply forallb_forall. intros c Hc. rewrite forallb_forall in Ht. apply tchar_is_token, Ht, Hc.
Qed.

Theorem rejects_non_token validate r : rfc_token (r_name r) = false -> exists e, make_cookie validate r = Raise e.
Proof.
  intros Hn. unfold make_cookie. destruct (mc_bad_max_age r); [eexists; reflexivity|].
  destruct (is_ascii (r_name r)); cbn [negb]; [|eexists; reflexivity].
  destruct (mc_value r); [|eexists; reflexivity].
  unfold valid_cookie_name_res.
  destruct (forallb is_token (r_name r)) eqn:Et; cbn [negb]; [|eexists; reflexivity].
  destruct (r_name r) as [|c k] eqn:En; [eexists; reflexivity|].
  exfalso. unfold rfc_token in Hn. cbn [negb andb] in Hn.
  rewrite (token_forall_tchar _ Et) in Hn. discriminate.
Qed.

Lemma str_eqb_sym a b : str_eqb a b = str_eqb b a.
Proof.
  destruct (str_eqb a b) eqn:E.
  - apply str_eqb_eq in E. subst. symmetry. apply str_eqb_refl.
  - destruct (str_eqb b a) eqn:E2; [|reflexivity]. apply str_eqb_eq in E2. subst. rewrite str_eqb_refl in E. discriminate.
Qed.

(* the literals inside serialize_samesite are exactly strict / lax / none *)
Lemma samesite_ok_legal s : samesite_ok s = samesite_legal s.
Proof.
  unfold samesite_ok, samesite_legal, samesite_values. cbn [mem_str].
  rewrite (str_eqb_sym (H "737472696374"%string)), (str_eqb_sym (H "6c6178"%string)), (str_eqb_sym (H "6e6f6e65"%string)).
  rewrite orb_false_r, orb_assoc. reflexivity.
Qed.

Theorem rejects_bad_samesite r s : r_samesite r = Some s -> samesite_legal s = false ->
  exists e, make_cookie true r = Raise e.
Proof.
  intros Hs Hl. unfold make_cookie. destruct (mc_bad_max_age r); [eexists; reflexivity|].
  destruct (is_ascii (r_name r)); cbn [negb]; [|eexists; reflexivity].
  destruct (mc_value r); [|eexists; reflexivity].
  destruct (valid_cookie_name_res (r_name r)) as [[|]|]; try (eexists; reflexivity).
  unfold mc_samesite. rewrite Hs, samesite_ok_legal, Hl. eexists. reflexivity.
Qed.

Theorem rejects_bad_max_age validate r : mc_bad_max_age r = true -> make_cookie validate r = Raise ValueError.
Proof. intros Hb. unfold make_cookie. rewrite Hb. reflexivity. Qed.

Lemma is_none_nonempty s : is_none s = true -> exists c t, s = c :: t.
Proof. destruct s as [|c t]; [discriminate|]. intros _. exists c, t. reflexivity. Qed.

Theorem rejects_none_without_secure validate r s : r_samesite r = Some s -> is_none s = true -> r_secure r = false ->
  exists e, make_cookie validate r = Raise e.
Proof.
  intros Hs Hn Hsec. unfold make_cookie. destruct (mc_bad_max_age r); [eexists; reflexivity|].
  destruct (is_ascii (r_name r)); cbn [negb]; [|eexists; reflexivity].
  destruct (mc_value r); [|eexists; reflexivity].
  destruct (valid_cookie_name_res (r_name r)) as [[|]|]; try (eexists; reflexivity).
  unfold mc_samesite. rewrite Hs.
  destruct validate; [destruct (samesite_ok s)|destruct (forallb is_token s)]; try (eexists; reflexivity);
  unfold morsel_serialize, mc_morsel; cbn [m_samesite m_secure];
  destruct (is_none_nonempty s Hn) as (c & t & ->); cbn [truthy]; rewrite Hsec, Hn; cbn [negb andb];
  eexists; reflexivity.
Qed.

Theorem rejects_unvalidated_non_token r s : r_samesite r = Some s -> forallb tchar s = false ->
  exists e, make_cookie false r = Raise e.
Proof.
  intros Hs Hl. unfold make_cookie. destruct (mc_bad_max_age r); [eexists; reflexivity|].
  destruct (is_ascii (r_name r)); cbn [negb]; [|eexists; reflexivity].
  destruct (mc_value r); [|eexists; reflexivity].
  destruct (valid_cookie_name_res (r_name r)) as [[|]|]; try (eexists; reflexivity).
  unfold mc_samesite. rewrite Hs.
  destruct (forallb is_token s) eqn:Et; [|eexists; reflexivity].
  rewrite (token_forall_tchar _ Et) in Hl. discriminate.
Qed.

(* ---------------------------------------------------------------- and nothing else raises *)
Lemma printable_ascii s : forallb printable s = true -> is_ascii s = true.
Proof.
  unfold is_ascii. intros Hp. apply forallb_forall. intros c Hc. rewrite forallb_forall in Hp. specialize (Hp c Hc).
  unfold printable in Hp. lia.
Qed.

Definition name_accepted (k : str) : bool :=
  rfc_token k && negb (match k with c :: _ => c =? 36 | [] => false end) && negb (mem_str (blower k) c_keys).

Lemma name_accepted_valid k : name_accepted k = true ->
  valid_cookie_name_res k = Ok true /\ is_ascii k = true.
Proof.
  unfold name_accepted, rfc_token. intros Ha.
  repeat (apply andb_true_iff in Ha as [Ha ?]).
  pose proof (tchar_forall_token k H1) as Ht.
  split.
  - unfold valid_cookie_name_res. rewrite Ht. cbn [negb]. destruct k as [|c k]; [discriminate|].
    f_equal. lia.
  - unfold is_ascii. apply token_ascii, Ht.
Qed.

Theorem make_cookie_accepts (validate : bool) (r : request) :
  mc_bad_max_age r = false ->
  name_accepted (r_name r) = true ->
  (forall t, r_value r = CText t -> is_ascii t = true) ->
  req_octets r -> plain (r_date r) = true ->
  (forall s, r_samesite r = Some s ->
     (if validate then samesite_legal s else forallb tchar s) = true /\ (is_none s = true -> r_secure r = true)) ->
  exists line, make_cookie validate r = Ok line.
Proof.
  intros Hma Hn Hv Hro Hdate Hss.
  destruct (name_accepted_valid _ Hn) as [Hres Hasc].
  unfold make_cookie. rewrite Hma, Hasc. cbn [negb].
  assert (Hmv : mc_value r = Ok (value_octets r)).
  { unfold mc_value, value_octets. destruct (r_value r) as [|b|t] eqn:Ev; try reflexivity. rewrite (Hv t eq_refl). reflexivity. }
  rewrite Hmv, Hres.
  assert (Hms : mc_samesite validate r = Ok (r_samesite r)).
  { unfold mc_samesite. destruct (r_samesite r) as [s|] eqn:Es; [|reflexivity].
    destruct (Hss s eq_refl) as (Hl & _). destruct validate.
    - rewrite samesite_ok_legal, Hl. reflexivity.
    - rewrite (tchar_forall_token _ Hl). reflexivity. }
  rewrite Hms.
  assert (Hsp : samesite_plain r).
  { intros s Hs. destruct (Hss s Hs) as (Hl & _). destruct validate.
    - apply samesite_ok_plain. rewrite samesite_ok_legal. exact Hl.
    - apply token_plain, tchar_forall_token, Hl. }
  assert (Hvalid : valid_cookie_name (r_name r) = true) by (unfold valid_cookie_name; rewrite Hres; reflexivity).
  pose proof (head_good r Hvalid (proj1 Hro)) as Hh.
  pose proof (attr_comps_good r (value_octets r) Hro Hdate Hsp) as Ha.
  rewrite morsel_serialize_eq.
  assert (Hnws : none_without_secure (mc_morsel r (value_octets r) (r_samesite r)) = false).
  { unfold none_without_secure. cbn [m_samesite m_secure mc_morsel].
    destruct (truthy (r_samesite r)) as [ss|] eqn:Ets; [|reflexivity].
    apply truthy_some in Ets as [Ets _]. destruct (Hss ss Ets) as (_ & Hsec).
    destruct (is_none ss); [rewrite (Hsec eq_refl); reflexivity|apply andb_false_r]. }
  rewrite Hnws.
  assert (Hprint : forallb printable (morsel_line (mc_morsel r (value_octets r) (r_samesite r))) = true).
  { apply comps_printable. cbn [forallb]. apply andb_true_iff. split; [exact Hh|exact Ha]. }
  rewrite (printable_ascii _ Hprint). eexists. reflexivity.
Qed.

(* ---------------------------------------------------------------- Response.set_cookie *)
Definition with_value (r : request) (v : cvalue) : request :=
  {| r_name := r_name r; r_value := v; r_max_age := r_max_age r; r_path := r_path r; r_domain := r_domain r;
     r_secure := r_secure r; r_httponly := r_httponly r; r_comment := r_comment r; r_samesite := r_samesite r;
     r_date := r_date r |}.

(* set_cookie is make_cookie on the utf-8 octets of a text value (bytes and None pass through) *)
Lemma set_cookie_text validate r t b : r_value r = CText t -> utf8_encode t = Some b ->
  set_cookie validate r = make_cookie validate (with_value r (CBytes b)).
Proof. intros Hv He. unfold set_cookie. rewrite Hv, He. reflexivity. Qed.

Lemma set_cookie_surrogates validate r t : r_value r = CText t -> utf8_encode t = None ->
  set_cookie validate r = Raise UnicodeEncodeError.
Proof. intros Hv He. unfold set_cookie. rewrite Hv, He. reflexivity. Qed.

Lemma set_cookie_other validate r : (forall t, r_value r <> CText t) -> set_cookie validate r = make_cookie validate r.
Proof. intros Hn. unfold set_cookie. destruct (r_value r) as [|b|t]; try reflexivity. exfalso. exact (Hn t eq_refl). Qed.

Lemma set_cookie_cases validate r :
  set_cookie validate r = Raise UnicodeEncodeError
  \/ exists r', set_cookie validate r = make_cookie validate r'
                /\ r_name r' = r_name r /\ r_samesite r' = r_samesite r /\ r_secure r' = r_secure r.
Proof.
  unfold set_cookie. destruct (r_value r) as [|b|t] eqn:Ev.
  - right. exists r. repeat split.
  - right. exists r. repeat split.
  - destruct (utf8_encode t) as [b|]; [|left; reflexivity].
    right. eexists. split; [reflexivity|]. repeat split.
Qed.

Theorem set_cookie_rejects validate r :
  rfc_token (r_name r) = false
  \/ (exists s, r_samesite r = Some s /\ validate = true /\ samesite_legal s = false)
  \/ (exists s, r_samesite r = Some s /\ is_none s = true /\ r_secure r = false) ->
  exists e, set_cookie validate r = Raise e.
Proof.
  intros Hbad. destruct (set_cookie_cases validate r) as [Hr|(r' & -> & Hn & Hs & Hsec)]; [eexists; exact Hr|].
  destruct Hbad as [Ht|[(s & Hss & -> & Hl)|(s & Hss & Hnone & Hsc)]].
  - apply rejects_non_token. rewrite Hn. exact Ht.
  - apply (rejects_bad_samesite r' s); [rewrite Hs; exact Hss|exact Hl].
  - apply (rejects_none_without_secure validate r' s); [rewrite Hs; exact Hss|exact Hnone|rewrite Hsec; exact Hsc].
Qed.

Theorem make_cookie_rejects validate r :
  rfc_token (r_name r) = false
  \/ (exists s, r_samesite r = Some s /\ validate = true /\ samesite_legal s = false)
  \/ (exists s, r_samesite r = Some s /\ is_none s = true /\ r_secure r = false) ->
  exists e, make_cookie validate r = Raise e.
Proof.
  intros [Ht|[(s & Hss & -> & Hl)|(s & Hss & Hnone & Hsc)]].
  - apply rejects_non_token, Ht.
  - apply (rejects_bad_samesite r s); assumption.
  - apply (rejects_none_without_secure validate r s); assumption.
Qed.

(* the text entry point: for every Unicode text the line carries exactly its utf-8 octets *)
Theorem set_cookie_text_exact validate r t b line :
  r_value r = CText t -> utf8_encode t = Some b ->
  opt_octets (r_path r) -> opt_octets (r_domain r) -> opt_octets (r_comment r) ->
  plain (r_date r) = true -> samesite_plain r ->
  set_cookie validate r = Ok line ->
  forallb printable line = true /\ ref_parse line = Some (r_name r, b, requested (with_value r (CBytes b))).
Proof.
  intros Hv He Hp Hd Hc Hdate Hss Hm. rewrite (set_cookie_text validate r t b Hv He) in Hm.
  apply (one_cookie_exact_attrs validate (with_value r (CBytes b)) line); try assumption.
  repeat split; try assumption. cbn. eapply utf8_encode_some_octets, He.
Qed.

(* ---------------------------------------------------------------- the SameSite hypothesis discharged *)
Theorem one_cookie_exact_attrs_any validate r line :
  req_octets r -> plain (r_date r) = true ->
  make_cookie validate r = Ok line ->
  forallb printable line = true
  /\ ref_parse line = Some (r_name r, value_octets r, requested r).
Proof.
  intros Hro Hd Hm. apply (one_cookie_exact_attrs validate r line Hro Hd); [|exact Hm].
  apply (emitted_samesite_plain validate r line Hm).
Qed.

Theorem set_cookie_text_exact_any validate r t b line :
  r_value r = CText t -> utf8_encode t = Some b ->
  opt_octets (r_path r) -> opt_octets (r_domain r) -> opt_octets (r_comment r) ->
  plain (r_date r) = true ->
  set_cookie validate r = Ok line ->
  forallb printable line = true /\ ref_parse line = Some (r_name r, b, requested (with_value r (CBytes b))).
Proof.
  intros Hv He Hp Hd Hc Hdate Hm.
  apply (set_cookie_text_exact validate r t b line); try assumption.
  rewrite (set_cookie_text validate r t b Hv He) in Hm.
  exact (emitted_samesite_plain validate _ line Hm).
Qed.

(* ---------------------------------------------------------------- known finding: tokens that are refused all the same *)
(* name_accepted is rfc_token minus the names webob's own parser would not read back as a cookie: a leading '$'
   and the (case-insensitive) attribute names.  Those are tokens, and they are refused. *)
Definition plain_request (name : str) : request :=
  {| r_name := name; r_value := CBytes (H "76"%string); r_max_age := MaNone; r_path := None; r_domain := None;
     r_secure := false; r_httponly := false; r_comment := None; r_samesite := None; r_date := [] |}.

Theorem token_names_refused_refuted :
  (rfc_token (H "246e"%string) = true /\ make_cookie true (plain_request (H "246e"%string)) = Raise AssertionError)
  /\ (rfc_token (H "50617468"%string) = true /\ make_cookie true (plain_request (H "50617468"%string)) = Raise AssertionError)
  /\ (rfc_token (H "4d41582d414745"%string) = true /\ make_cookie true (plain_request (H "4d41582d414745"%string)) = Raise AssertionError).
Proof. vm_compute. repeat split; reflexivity. Qed.

(* ... and these are the only tokens that are refused *)
Lemma refused_tokens_only k : rfc_token k = true -> name_accepted k = false ->
  (exists t, k = 36 :: t) \/ mem_str (blower k) c_keys = true.
Proof.
  unfold name_accepted. intros Ht Hn. rewrite Ht in Hn. cbn [andb] in Hn.
  destruct k as [|c t]; [discriminate|].
  destruct (c =? 36) eqn:Ec; [left; exists t; apply N.eqb_eq in Ec; subst; reflexivity|].
  right. cbn [negb andb] in Hn. destruct (mem_str (blower (c :: t)) c_keys); [reflexivity|discriminate].
Qed.
