(* C01 — a concrete instance of the Section variables: shows that the hypotheses of the
   theorems are satisfiable (a length-prefixed query codec with a proved round trip), and
   evaluates the PINNED behaviour of request.py:1115-1140 on two short histories: the
   faithful model of the unrepaired code refutes coherence (these two histories are replayed
   on the real implementation by harness/props/c01.py). *)
From Coq Require Import ZArith NArith List Bool String Lia.
Require Import Webob.Lib.Val Webob.Lib.PyStr Webob.Lib.C01_Str Webob.Model.MultiDict Webob.Model.C01_EnvView
               Webob.Spec.C01_View Webob.Proofs.C08_multidict Webob.Proofs.C01_env Webob.Proofs.C01_inv.
Import ListNotations.
Local Open Scope list_scope.

(* ------------------------------------------------------------------ a query codec with parse (encode l) = l *)
Fixpoint enc (l : items) : str :=
  match l with
  | [] => []
  | (k, v) :: l' => N.of_nat (List.length k) :: k ++ N.of_nat (List.length v) :: v ++ enc l'
  end.
Fixpoint dec (fuel : nat) (s : str) : items :=
  match fuel with
  | O => []
  | S f =>
      match s with
      | [] => []
      | n :: r =>
          match skipn (N.to_nat n) r with
          | [] => []
          | m :: r2 => (firstn (N.to_nat n) r, firstn (N.to_nat m) r2) :: dec f (skipn (N.to_nat m) r2)
          end
      end
  end.
Definition i_parse_qs (s : str) : items + str := inl (dec (List.length s) s).

Lemma firstn_length_app {A} (a b : list A) : firstn (List.length a) (a ++ b) = a.
Proof. induction a; cbn; congruence. Qed.
Lemma skipn_length_app {A} (a b : list A) : skipn (List.length a) (a ++ b) = b.
Proof. induction a; cbn; congruence. Qed.

Lemma dec_enc l : forall fuel, (List.length l <= fuel)%nat -> dec fuel (enc l) = l.
Proof.
  induction l as [|[k v] l IH]; intros fuel H.
  - destruct fuel; reflexivity.
  - destruct fuel as [|f]; [cbn in H; lia|]. cbn [enc dec].
    rewrite Nat2N.id, skipn_length_app, firstn_length_app, Nat2N.id, skipn_length_app, firstn_length_app.
    rewrite IH by (cbn in H; lia). reflexivity.
Qed.

Lemma enc_length l : (List.length l <= List.length (enc l))%nat.
Proof.
  induction l as [|[k v] l IH]; cbn [enc List.length]; [lia|].
  rewrite app_length. cbn [List.length]. rewrite app_length. lia.
Qed.

Lemma i_roundtrip l : i_parse_qs (enc l) = inl l.
Proof. unfold i_parse_qs. rewrite dec_enc by apply enc_length. reflexivity. Qed.
Lemma i_empty : i_parse_qs [] = inl [].
Proof. reflexivity. Qed.

(* ------------------------------------------------------------------ the other parameters, minimal *)
Definition i_parse_cookie (s : str) : list (str * str) := if is_nil s then [] else [(s, [])].
Definition i_valid (n : str) : bool := negb (is_nil n).
Definition i_edit (h n : str) (v : option str) : str * bool :=
  match v with Some x => (n ++ [61%N] ++ x, false) | None => ([], negb (is_nil h)) end.
(* Cache-Control: the header text itself stands for the property dict; an operation replaces it *)
Definition i_cc_apply (m p : str) : option str * val := (Some m, VNone).
Definition i_charset (s : str) : str := s.

Definition i_step := step str str i_parse_qs enc i_parse_cookie i_valid i_edit (fun s => s) (fun p => p) (@is_nil N)
                          i_cc_apply VStr i_charset.
Definition i_run := run str str i_parse_qs enc i_parse_cookie i_valid i_edit (fun s => s) (fun p => p) (@is_nil N)
                        i_cc_apply VStr i_charset.
Definition i_obsA := obsA str i_parse_qs i_parse_cookie (fun s => s) (fun p => p) (@is_nil N) VStr i_charset.
Definition i_obsF := obsF str i_parse_qs i_parse_cookie (fun s => s) (fun p => p) (@is_nil N) VStr i_charset.

Definition blank_env : environ :=
  [ (lit "REQUEST_METHOD", EStr (lit "GET")); (K_QS, EStr []); (K_SNAME, EStr (lit "localhost"));
    (K_SPORT, EStr (lit "80")); (lit "wsgi.input", EOpq (lit "BytesIO")) ].

Lemma blank_env_no_caches : forall k, is_cache_key k = true -> env_get k blank_env = None.
Proof.
  intros k H. apply is_cache_key_in in H. unfold cache_keys in H. cbn [In] in H.
  repeat (destruct H as [<-|H]; [vm_compute; reflexivity|]). destruct H.
Qed.

(* history 1 (request.py:1139-1140 at the pinned commit): read cache_control, modify it through the handle,
   put the old header text back by another route: the cached object is served again although it has changed *)
Definition stale_after_update : list (op str str) :=
  [ OEnvSet _ _ K_CC (lit "max-age=5");
    OHold _ _ HCC;
    OCCMut _ _ (Held 0) (lit "max-age=5, no-cache");
    OHdrSet _ _ (lit "Cache-Control") (lit "max-age=5") ].

(* history 2 (request.py:1122-1125 at the pinned commit): the assigned object is cached although its
   properties do not write back *)
Definition assigned_object_not_live : list (op str str) :=
  [ OCCAssign _ _ (AObj _ (lit "max-age=5"));
    OCCMut _ _ Fresh (lit "max-age=10") ].

Lemma pinned_stale_after_update :
  i_obsA pinned GCC 0 (i_run pinned stale_after_update (init str blank_env)) = VStr (lit "max-age=5, no-cache") /\
  i_obsF pinned GCC (i_run pinned stale_after_update (init str blank_env)) = VStr (lit "max-age=5").
Proof. split; vm_compute; reflexivity. Qed.

Lemma pinned_assigned_object_not_live :
  i_obsA pinned GCC 0 (i_run pinned assigned_object_not_live (init str blank_env)) = VStr (lit "max-age=10") /\
  i_obsF pinned GCC (i_run pinned assigned_object_not_live (init str blank_env)) = VStr (lit "max-age=5").
Proof. split; vm_compute; reflexivity. Qed.

Lemma pinned_refuted_1 :
  exists ops, Forall (wf_op str str) ops /\
    i_obsA pinned GCC 0 (i_run pinned ops (init str blank_env)) <> i_obsF pinned GCC (i_run pinned ops (init str blank_env)).
Proof.
  exists stale_after_update. split.
  - repeat constructor.
  - destruct pinned_stale_after_update as [-> ->]. vm_compute. discriminate.
Qed.

Lemma pinned_refuted_2 :
  exists ops, Forall (wf_op str str) ops /\
    i_obsA pinned GCC 0 (i_run pinned ops (init str blank_env)) <> i_obsF pinned GCC (i_run pinned ops (init str blank_env)).
Proof.
  exists assigned_object_not_live. split.
  - repeat constructor.
  - destruct pinned_assigned_object_not_live as [-> ->]. vm_compute. discriminate.
Qed.

(* history 3 (request.py:1122-1123 before fixes/C01-4): the environ is copied with a primed cache_control cache; the
   view fetched over the copy is the ORIGINAL's object, so the write does not land in the copy *)
Definition copied_environ_reuses_object : list (op str str) :=
  [ OEnvSet _ _ K_CC (lit "no-cache");
    ORead _ _ 0 GCC;
    OCopyEnv _ _;
    OCCMut _ _ Fresh (lit "max-age=10, no-cache") ].

Lemma before_copy_fix_witness :
  let s := i_run before_copy_fix copied_environ_reuses_object (init str blank_env) in
  i_obsA before_copy_fix GCC 0 s = VStr (lit "max-age=10, no-cache") /\
  i_obsF before_copy_fix GCC s = VStr (lit "no-cache") /\
  env_get K_CC (env s) = Some (EStr (lit "no-cache")).
Proof. repeat split; vm_compute; reflexivity. Qed.

Lemma before_copy_fix_refuted :
  exists ops, Forall (wf_op str str) ops /\
    i_obsA before_copy_fix GCC 0 (i_run before_copy_fix ops (init str blank_env))
    <> i_obsF before_copy_fix GCC (i_run before_copy_fix ops (init str blank_env)).
Proof.
  exists copied_environ_reuses_object. split.
  - repeat constructor.
  - destruct before_copy_fix_witness as [-> [-> _]]. vm_compute. discriminate.
Qed.

Lemma repaired_on_copy :
  let s := i_run repaired copied_environ_reuses_object (init str blank_env) in
  i_obsA repaired GCC 0 s = VStr (lit "max-age=10, no-cache") /\
  i_obsF repaired GCC s = VStr (lit "max-age=10, no-cache") /\
  env_get K_CC (env s) = Some (EStr (lit "max-age=10, no-cache")).
Proof. repeat split; vm_compute; reflexivity. Qed.

(* the same histories on the repaired code: both wrappers report the header that is in the environ *)
Lemma repaired_on_witnesses :
  i_obsA repaired GCC 0 (i_run repaired stale_after_update (init str blank_env)) = VStr (lit "max-age=5") /\
  i_obsA repaired GCC 0 (i_run repaired assigned_object_not_live (init str blank_env)) = VStr (lit "max-age=10") /\
  i_obsF repaired GCC (i_run repaired assigned_object_not_live (init str blank_env)) = VStr (lit "max-age=10").
Proof. repeat split; vm_compute; reflexivity. Qed.
