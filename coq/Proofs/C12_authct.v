(* C12 — credentials in the (scheme, dict) form, Content-Type attributes and Cache-Control text: what is
   serialised reads back as the same value, on explicitly stated domains.  About Model/C12_AuthCT.v and
   Model/C12_CacheControl.v. *)
From Coq Require Import ZArith NArith List Bool Lia ZifyBool ZifyNat ZifyN.
Require Import Webob.Lib.Val Webob.Lib.PyStr Webob.Lib.C12_PyInt Webob.Model.C12_Headers
               Webob.Model.C12_ByteRange Webob.Model.C12_CacheControl Webob.Model.C12_AuthCT
               Webob.Proofs.C12_pyint Webob.Proofs.C12_headers Webob.Proofs.C12_cachecontrol.
Import ListNotations.
Local Open Scope N_scope.

(* ------------------------------------------------------------------ generic scanner facts *)
Definition head_fails (f : N -> bool) (r : str) : Prop :=
  match r with [] => True | c :: _ => f c = false end.

Lemma span_app f a r : Forall (fun c => f c = true) a -> head_fails f r -> span f (a ++ r) = (a, r).
Proof.
  intros Ha Hr. induction Ha as [|c a Hc Ha IH]; cbn [app].
  - destruct r as [|c r]; [reflexivity|]. cbn in *. rewrite Hr. reflexivity.
  - cbn [span]. rewrite Hc, IH. reflexivity.
Qed.

Lemma drop_while_fails f r : head_fails f r -> drop_while f r = r.
Proof. destruct r as [|c r]; [reflexivity|]. cbn. intros H. rewrite H. reflexivity. Qed.

Lemma fold_dset_fresh (l : list (str * str)) : forall d,
  NoDup (map fst d ++ map fst l) ->
  fold_left (fun d kv => dset (fst kv) (snd kv) d) l d = d ++ l.
Proof.
  assert (D : forall k v d, ~ In k (map fst d) -> dset k v d = d ++ [(k, v)]).
  { intros k v d. induction d as [|[k' x] d IH]; intros Hn; cbn; [reflexivity|].
    rewrite str_eqb_neq; [|intros E; apply Hn; left; cbn; congruence].
    rewrite IH; [reflexivity|]. intros Hin. apply Hn. right. exact Hin. }
  induction l as [|[k v] l IH]; intros d Hnd; cbn [fold_left]; [rewrite app_nil_r; reflexivity|].
  cbn [fst snd map] in *. rewrite D.
  - rewrite IH; [rewrite <- app_assoc; reflexivity|].
    rewrite map_app. cbn [map fst]. rewrite <- app_assoc. exact Hnd.
  - apply NoDup_remove_2 in Hnd. intros Hin. apply Hnd. apply in_or_app. left. exact Hin.
Qed.

(* ================================================================== credentials: (scheme, dict) *)
(* a parameter the round trip holds for: lower-case ASCII name; value free of double quote, CR and LF *)
Definition ok_key (k : str) : Prop := k <> [] /\ Forall (fun c => is_lower c = true) k.
Definition ok_val (v : str) : Prop := Forall (fun c => c <> 34 /\ c <> 10 /\ c <> 13) v.
Definition ok_aparam (kv : str * str) : Prop := ok_key (fst kv) /\ ok_val (snd kv).

Definition ser_params (l : list (str * str)) : str := join comma_sp (map kv_str l).

Lemma auth_quoted_val v : ok_val v -> forall acc tail rest, auth_tail tail = Some rest ->
  auth_quoted (v ++ 34 :: tail) acc = Some (rev acc ++ v, rest).
Proof.
  intros Hv. induction Hv as [|c v [H34 [H10 _]] Hv IH]; intros acc tail rest Ht; cbn [app auth_quoted].
  - rewrite N.eqb_refl, Ht, app_nil_r. reflexivity.
  - destruct (N.eqb_spec c 34); [contradiction|]. destruct (N.eqb_spec c 10); [contradiction|].
    rewrite (IH (c :: acc) tail rest Ht). cbn [rev]. rewrite <- app_assoc. reflexivity.
Qed.

Lemma key_head_lower k : ok_key k -> exists c k', k = c :: k' /\ is_lower c = true.
Proof. intros [Hne Hf]. destruct k as [|c k']; [congruence|]. inversion Hf; subst. eauto. Qed.

Lemma lower_not_misc c : is_lower c = true -> is_sptab c = false /\ is_sp c = false /\ (c =? 61) = false /\ (c =? 44) = false.
Proof. unfold is_lower, is_sptab, is_sp. lia. Qed.

(* one parameter, followed by the tail of the list *)
Lemma auth_params_step f k v tail rest : ok_key k -> ok_val v -> auth_tail tail = Some rest ->
  auth_params (S f) (kv_str (k, v) ++ tail) = (k, 34 :: v ++ [34]) :: auth_params f rest.
Proof.
  intros Hk Hv Ht. destruct (key_head_lower k Hk) as [c [k' [E Hc]]].
  unfold kv_str. cbn [fst snd]. rewrite <- !app_assoc. cbn [app].
  assert (Sp : span is_lower (k ++ 61 :: 34 :: v ++ 34 :: tail) = (k, 61 :: 34 :: v ++ 34 :: tail)).
  { apply span_app; [exact (proj2 Hk)|reflexivity]. }
  cbn [auth_params]. rewrite E in *. cbn [app]. rewrite Hc.
  cbn [app] in Sp. rewrite Sp. cbn [drop_while]. change (is_sptab 61) with false. cbv iota.
  change (61 =? 61) with true. cbv iota. cbn [drop_while]. change (is_sptab 34) with false. cbv iota.
  change (34 =? 34) with true. cbv iota.
  rewrite (auth_quoted_val v Hv [] tail rest Ht). cbn [rev app]. reflexivity.
Qed.

Lemma auth_tail_nil : auth_tail [] = Some [].
Proof. reflexivity. Qed.

Lemma auth_tail_sep s : head_fails is_sp s -> auth_tail (comma_sp ++ s) = Some s.
Proof. intros H. unfold auth_tail, comma_sp. cbn. rewrite (drop_while_fails is_sp s H). reflexivity. Qed.

Lemma kv_str_head kv : ok_aparam kv -> forall r, head_fails is_sp (kv_str kv ++ r).
Proof.
  intros [Hk _] r. destruct (key_head_lower _ Hk) as [c [k' [E Hc]]]. unfold kv_str. rewrite E. cbn.
  apply (lower_not_misc c Hc).
Qed.

Lemma ser_params_cons kv kv' l : ser_params (kv :: kv' :: l) = kv_str kv ++ comma_sp ++ ser_params (kv' :: l).
Proof. reflexivity. Qed.
Lemma ser_params_one kv : ser_params [kv] = kv_str kv ++ [].
Proof. unfold ser_params. cbn. rewrite app_nil_r. reflexivity. Qed.

Lemma ser_params_head kv l : ok_aparam kv -> head_fails is_sp (ser_params (kv :: l)).
Proof.
  intros H. destruct l as [|kv' l'].
  - rewrite ser_params_one. apply kv_str_head. exact H.
  - rewrite ser_params_cons. apply kv_str_head. exact H.
Qed.

Lemma ser_params_len l : (length l <= length (ser_params l))%nat.
Proof.
  induction l as [|kv l IH]; [cbn; lia|]. destruct l as [|kv' l'].
  - rewrite ser_params_one, app_nil_r. unfold kv_str. rewrite !app_length. cbn. lia.
  - rewrite ser_params_cons, !app_length. unfold kv_str at 1. rewrite !app_length. cbn [length] in *. lia.
Qed.

Lemma auth_params_ser l : Forall ok_aparam l -> forall f, (length l <= f)%nat ->
  auth_params f (ser_params l) = map (fun kv => (fst kv, 34 :: snd kv ++ [34])) l.
Proof.
  intros Hl. induction Hl as [|kv l Hkv Hl IH]; intros f Hf.
  - destruct f; reflexivity.
  - destruct f as [|f]; [cbn in Hf; lia|]. destruct kv as [k v]. destruct Hkv as [Hk Hv]. cbn [fst snd] in *.
    destruct l as [|kv' l'].
    + rewrite ser_params_one.
      rewrite (auth_params_step f k v [] [] Hk Hv auth_tail_nil). destruct f; reflexivity.
    + rewrite ser_params_cons.
      assert (Hh : head_fails is_sp (ser_params (kv' :: l'))).
      { inversion Hl as [|? ? Hkv' _]; subst. apply ser_params_head. exact Hkv'. }
      rewrite (auth_params_step f k v _ _ Hk Hv (auth_tail_sep _ Hh)).
      rewrite (IH f ltac:(cbn in *; lia)). reflexivity.
Qed.

Lemma strip_dq v : ok_val v -> strip_by is_dq (34 :: v ++ [34]) = v.
Proof.
  intros Hv.
  assert (Hf : Forall (fun c => is_dq c = false) v).
  { eapply Forall_impl; [|exact Hv]. intros c [H _]. unfold is_dq. apply N.eqb_neq. exact H. }
  unfold strip_by, lstrip_by. cbn [drop_while]. change (is_dq 34) with true. cbv iota.
  destruct v as [|c v'].
  - reflexivity.
  - inversion Hf as [|? ? Hc Hf']; subst. cbn [app drop_while]. rewrite Hc.
    change (c :: v' ++ [34]) with ((c :: v') ++ [34]).
    unfold rstrip_by. rewrite rev_unit. cbn [drop_while]. change (is_dq 34) with true. cbv iota.
    pose proof (strip_by_all is_dq (c :: v') Hf) as S. unfold strip_by, lstrip_by in S.
    cbn [drop_while] in S. rewrite Hc in S. exact S.
Qed.

Lemma parse_auth_params_ser l : Forall ok_aparam l -> NoDup (map fst l) ->
  parse_auth_params (ser_params l) = l.
Proof.
  intros Hl Hnd. unfold parse_auth_params.
  rewrite (auth_params_ser l Hl).
  2:{ pose proof (ser_params_len l). lia. }
  assert (E : forall d, fold_left (fun d kv => dset (fst kv) (strip_by is_dq (snd kv)) d)
                          (map (fun kv => (fst kv, 34 :: snd kv ++ [34])) l) d
                        = fold_left (fun d kv => dset (fst kv) (snd kv) d) l d).
  { clear Hnd. induction Hl as [|[k v] l [_ Hv] Hl IH]; intros d; [reflexivity|].
    cbn [map fold_left fst snd] in *. rewrite (strip_dq v Hv). apply IH. }
  rewrite E. rewrite (fold_dset_fresh l []); [reflexivity|exact Hnd].
Qed.

Lemma partition_space a b : ~ In 32 a -> partition_c 32 (a ++ [32] ++ b) = (a, true, b).
Proof.
  induction a as [|c a IH]; intros Hn.
  - reflexivity.
  - cbn [app partition_c]. destruct (N.eqb_spec c 32) as [->|Hne]; [exfalso; apply Hn; left; reflexivity|].
    cbn [app] in IH. rewrite IH; [reflexivity|]. intros H. apply Hn. right. exact H.
Qed.

Definition dict_scheme (scheme : str) : Prop :=
  existsb (str_eqb scheme) known_schemes = true /\ str_eqb scheme s_Basic = false.

Lemma dict_scheme_no_space scheme : dict_scheme scheme -> ~ In 32 scheme.
Proof.
  intros [Hk _] Hin. apply existsb_exists in Hk. destruct Hk as [x [Hx E]]. apply str_eqb_eq in E. subst x.
  cbn in Hx. repeat (destruct Hx as [<-|Hx]; [cbn in Hin; repeat (destruct Hin as [Hin|Hin]; [discriminate|]); exact Hin|]).
  exact Hx.
Qed.

Lemma parse_auth_dict scheme l : dict_scheme scheme -> Forall ok_aparam l -> NoDup (map fst l) ->
  parse_auth (Some (scheme ++ [32] ++ ser_params l)) = Ok (VList [VStr auth_tag; VStr scheme; dict_val l]).
Proof.
  intros Hs Hl Hnd. unfold parse_auth. rewrite (partition_space _ _ (dict_scheme_no_space _ Hs)).
  destruct Hs as [Hk Hb]. rewrite Hk, Hb. cbn [andb]. rewrite (parse_auth_params_ser l Hl Hnd). reflexivity.
Qed.

Lemma ok_val_no_crlf v : ok_val v -> has_crlf v = false.
Proof.
  intros Hv. unfold has_crlf. induction Hv as [|c v [_ [H10 H13]] Hv IH]; [reflexivity|].
  cbn. destruct (N.eqb_spec c 10); [contradiction|]. destruct (N.eqb_spec c 13); [contradiction|]. exact IH.
Qed.

Lemma ok_key_no_crlf k : ok_key k -> has_crlf k = false.
Proof.
  intros [_ Hk]. unfold has_crlf. induction Hk as [|c k Hc Hk IH]; [reflexivity|].
  cbn. unfold is_lower in Hc. destruct (N.eqb_spec c 10); [lia|]. destruct (N.eqb_spec c 13); [lia|]. exact IH.
Qed.

Lemma ser_params_no_crlf l : Forall ok_aparam l -> has_crlf (ser_params l) = false.
Proof.
  intros Hl. induction Hl as [|[k v] l [Hk Hv] Hl IH]; [reflexivity|].
  assert (K : has_crlf (kv_str (k, v)) = false).
  { unfold kv_str. cbn [fst snd]. rewrite !has_crlf_app, (ok_key_no_crlf k Hk), (ok_val_no_crlf v Hv). reflexivity. }
  destruct l as [|kv' l'].
  - rewrite ser_params_one, app_nil_r. exact K.
  - rewrite ser_params_cons, !has_crlf_app, K, IH. reflexivity.
Qed.

(* ================================================================== Content-Type attributes *)
Lemma lower_ct_name : str_eqb (lower ct_name) ct_key = true.
Proof. vm_compute. reflexivity. Qed.

Lemma ct_get_put t hl : ct_get (ct_put t hl) = Some t.
Proof. unfold ct_get, ct_put, hg_get_last. rewrite rev_unit. cbn [hg_get]. rewrite lower_ct_name. reflexivity. Qed.

Definition no_semi (s : str) : Prop := Forall (fun c => negb (c =? 59) = true) s.

Lemma before_semi_app a r : no_semi a -> before_semi (a ++ 59 :: r) = a.
Proof. intros Ha. unfold before_semi. rewrite (span_app _ a (59 :: r) Ha eq_refl). reflexivity. Qed.

Lemma before_semi_all a : no_semi a -> before_semi a = a.
Proof. intros Ha. unfold before_semi. rewrite <- (app_nil_r a) at 1. rewrite (span_app _ a [] Ha I). reflexivity. Qed.

Lemma after_semi_app a r : no_semi a -> after_semi (a ++ 59 :: r) = Some r.
Proof. intros Ha. unfold after_semi. rewrite (span_app _ a (59 :: r) Ha eq_refl). reflexivity. Qed.

Lemma match_ci_self p r : match_ci p (p ++ r) = Some r.
Proof.
  induction p as [|x p IH]; [reflexivity|]. cbn [app match_ci]. unfold ci_eq. rewrite N.eqb_refl. cbn [orb]. exact IH.
Qed.

Lemma charset_search_skip a : no_semi a -> forall f pre b,
  charset_search (length a + f) pre (a ++ b) = charset_search f (rev a ++ pre) b.
Proof.
  intros Ha. induction Ha as [|c a Hc Ha IH]; intros f pre b; [reflexivity|].
  cbn [length Nat.add app charset_search]. destruct (c =? 59) eqn:E; [discriminate|].
  rewrite IH. cbn [rev]. rewrite <- app_assoc. reflexivity.
Qed.

Lemma charset_re_appended base cs : no_semi base -> no_semi cs ->
  charset_re (base ++ s_semi_charset ++ cs) = Some (base, cs, []).
Proof.
  intros Hb Hc. unfold charset_re. rewrite app_length.
  replace (S (length base + length (s_semi_charset ++ cs))) with (length base + S (length (s_semi_charset ++ cs)))%nat by lia.
  rewrite (charset_search_skip base Hb). unfold s_semi_charset. cbn [app charset_search].
  change (59 =? 59) with true. cbv iota.
  change (drop_while is_space_str (32 :: s_charset_eq ++ cs)) with (drop_while is_space_str (s_charset_eq ++ cs)).
  assert (D : drop_while is_space_str (s_charset_eq ++ cs) = s_charset_eq ++ cs) by reflexivity.
  rewrite D, match_ci_self. rewrite <- (app_nil_r cs) at 1. rewrite (span_app _ cs [] Hc I).
  rewrite app_nil_r, rev_involutive. reflexivity.
Qed.

(* Response.charset: on a Content-Type whose other parameters hold no further charset (here: the text left after
   removing the old charset has no semicolon), setting cs stores "<type>; charset=cs", reads back cs, and the
   media type is unchanged *)
Lemma rcharset_roundtrip hl h cs : ct_get hl = Some h -> no_semi (strip_charset h) -> no_semi cs ->
  let '(hl', e) := rcharset_set (PStr cs) hl in
  e = None /\ ct_get hl' = Some (strip_charset h ++ s_semi_charset ++ cs) /\
  rcharset_get hl' = VStr cs /\ rct_get hl' = VStr (strip_charset h).
Proof.
  intros Hg Hb Hc. unfold rcharset_set. rewrite Hg. split; [reflexivity|].
  split; [apply ct_get_put|]. unfold rcharset_get, rct_get. rewrite ct_get_put.
  assert (Ne : exists x t, strip_charset h ++ s_semi_charset ++ cs = x :: t).
  { destruct (strip_charset h); cbn; eauto. }
  destruct Ne as [x [t Et]]. rewrite Et, <- Et. rewrite (charset_re_appended _ _ Hb Hc).
  split; [reflexivity|]. unfold s_semi_charset. rewrite <- app_assoc. cbn [app].
  rewrite (before_semi_app _ _ Hb). reflexivity.
Qed.

(* charset = None / del: the parameter is gone, the rest of the header stays *)
Lemma rcharset_removed hl h : ct_pop hl = (Some h, snd (ct_pop hl)) -> charset_re (strip_charset h) = None ->
  rcharset_get (rcharset_del hl) = VNone.
Proof.
  intros Hp Hn. unfold rcharset_del. rewrite Hp. unfold rcharset_get. rewrite ct_get_put.
  destruct (strip_charset h); [reflexivity|]. rewrite Hn. reflexivity.
Qed.

(* Response.content_type: a media type (non-empty, no semicolon) reads back as itself, whatever charset default
   the setter appends *)
Lemma rct_roundtrip dcs ct hl : ct <> [] -> no_semi ct ->
  let '(hl', e) := rct_set dcs (PStr ct) hl in e = None /\ rct_get hl' = VStr ct.
Proof.
  intros Hne Hs. unfold rct_set. destruct ct as [|c ct'] eqn:E; [congruence|]. rewrite <- E in *.
  split; [reflexivity|]. unfold rct_get. rewrite ct_get_put.
  destruct (negb (contains s_charset_eq ct) && nonempty dcs && (str_eqb ct s_text_html || ct_has_charset ct)).
  - assert (Ne : exists x t, ct ++ s_semi_charset ++ dcs = x :: t) by (rewrite E; cbn; eauto).
    destruct Ne as [x [t Et]]. rewrite Et, <- Et. unfold s_semi_charset. rewrite <- app_assoc. cbn [app].
    rewrite (before_semi_app _ _ Hs). reflexivity.
  - rewrite E, <- E. rewrite (before_semi_all _ Hs). reflexivity.
Qed.

Lemma rct_removed dcs hl : fst (rct_set dcs PNone hl) = snd (ct_pop hl).
Proof. reflexivity. Qed.

(* Request.content_type: the value assigned reads back up to its first semicolon; existing parameters are kept
   when the value brings none *)
Lemma qct_roundtrip value env : qct_get (qct_set (Some value) env) = VStr (before_semi value).
Proof.
  unfold qct_set. destruct (existsb (fun c => c =? 59) value) eqn:E; [reflexivity|].
  assert (Hs : no_semi value).
  { unfold no_semi. apply Forall_forall. intros c Hc. destruct (c =? 59) eqn:Ec; [|reflexivity].
    assert (existsb (fun c => c =? 59) value = true) by (apply existsb_exists; eauto). congruence. }
  destruct (after_semi _) as [p|]; unfold qct_get.
  - cbn [app]. rewrite (before_semi_app _ _ Hs), (before_semi_all _ Hs). reflexivity.
  - reflexivity.
Qed.

Lemma qct_keeps_params value env p : existsb (fun c => c =? 59) value = false ->
  after_semi (match env with Some t => t | None => [] end) = Some p ->
  qct_set (Some value) env = Some (value ++ [59] ++ p).
Proof. intros E A. unfold qct_set. rewrite E, A. reflexivity. Qed.

Lemma qct_removed env : qct_set None env = None /\ qct_get None = VStr [].
Proof. split; reflexivity. Qed.

(* ================================================================== Content-Type parameters *)
(* a parameter the round trip holds for: name = an RFC 7230 token (letters, digits, !#$%&'*+-.^_`|~);
   value free of double quote, backslash and LF *)
Definition okp_key (k : str) : Prop := k <> [] /\ Forall (fun c => is_pkey c = true) k.
Definition okp_val (v : str) : Prop := Forall (fun c => c <> 34 /\ c <> 10 /\ c <> 92) v.
Definition okp (kv : str * str) : Prop := okp_key (fst kv) /\ okp_val (snd kv).

Definition params_text (l : list (str * str)) : str := concat (map param_str l).

Lemma replace_c_absent a b s : ~ In a s -> replace_c a b s = s.
Proof.
  induction s as [|c s IH]; intros Hn; [reflexivity|]. cbn.
  destruct (N.eqb_spec c a) as [->|]; [exfalso; apply Hn; left; reflexivity|].
  rewrite IH; [reflexivity|]. intros H. apply Hn. right. exact H.
Qed.

Lemma quoted_body v tail : Forall (fun c => c <> 34) v -> quoted (v ++ 34 :: tail) = Some (v, tail).
Proof.
  intros Hv. induction Hv as [|c v Hc Hv IH]; cbn [app quoted].
  - rewrite N.eqb_refl. reflexivity.
  - destruct (N.eqb_spec c 34); [contradiction|]. rewrite IH. reflexivity.
Qed.

Lemma okp_val_no_dq v : okp_val v -> Forall (fun c => c <> 34 /\ c <> 92) v /\ ~ In 34 v /\ ~ In 10 v /\ ~ In 92 v.
Proof.
  intros Hv. split; [eapply Forall_impl; [|exact Hv]; intros c [H [_ H2]]; split; assumption|].
  unfold okp_val in Hv. rewrite Forall_forall in Hv.
  repeat split; intros Hin; destruct (Hv _ Hin) as [? [? ?]]; congruence.
Qed.

Lemma quoted_esc_body v : Forall (fun c => c <> 34 /\ c <> 92) v -> forall fuel tail, (length v < fuel)%nat ->
  quoted_esc fuel (v ++ 34 :: tail) = Some (v, tail).
Proof.
  intros Hv. induction Hv as [|c v [H1 H2] Hv IH]; intros fuel tail Hf; (destruct fuel as [|f]; [cbn in Hf; lia|]); cbn [app quoted_esc].
  - rewrite N.eqb_refl. reflexivity.
  - destruct (N.eqb_spec c 34); [contradiction|]. destruct (N.eqb_spec c 92); [contradiction|].
    rewrite (IH f tail ltac:(cbn in Hf; lia)). reflexivity.
Qed.

Lemma unescape_plain v : Forall (fun c => c <> 34 /\ c <> 92) v -> forall fuel, unescape fuel v = v.
Proof.
  intros Hv. induction Hv as [|c v [_ H2] Hv IH]; intros [|f]; cbn [unescape]; try reflexivity.
  destruct (N.eqb_spec c 92); [contradiction|]. rewrite IH. reflexivity.
Qed.

(* without LF the test of _OK_PARAM_RE is: non-empty and all of [A-Za-z0-9_.-] *)
Lemma ok_param_no_lf v : ~ In 10 v -> ok_param v = nonempty v && forallb is_pvalue v.
Proof.
  intros Hn. unfold ok_param.
  destruct (rev v) as [|c r] eqn:Er; [reflexivity|].
  assert (Hc : c <> 10).
  { intros ->. apply Hn. apply in_rev. rewrite Er. left. reflexivity. }
  destruct c as [|q]; [reflexivity|]. do 4 (destruct q as [q|q|]; try reflexivity). congruence.
Qed.

Lemma pkey_misc c : is_pkey c = true -> (c =? 61) = false /\ (c =? 34) = false /\ (c =? 59) = false.
Proof.
  unfold is_pkey, is_alnum, is_alpha. cbn [mem_n]. intros H.
  destruct (N.eqb_spec c 61) as [->|]; [discriminate|]. destruct (N.eqb_spec c 34) as [->|]; [discriminate|].
  destruct (N.eqb_spec c 59) as [->|]; [discriminate|]. auto.
Qed.
Lemma pvalue_misc c : is_pvalue c = true -> (c =? 34) = false /\ (c =? 59) = false.
Proof. unfold is_pvalue, is_alnum, is_alpha. lia. Qed.

(* the scanner on one printed parameter followed by further printed parameters *)
Lemma param_scan_step f k v tail : okp (k, v) -> head_fails is_pvalue tail ->
  param_scan (S (S (S f))) (param_str (k, v) ++ tail) = (k, v) :: param_scan f tail.
Proof.
  intros [[Hne Hk] Hv] Ht. cbn [fst snd] in *.
  destruct (okp_val_no_dq v Hv) as [Hq [Hnq [Hnl Hnb]]].
  unfold param_str. cbn [fst snd]. rewrite (ok_param_no_lf v Hnl).
  destruct k as [|c k']; [congruence|]. inversion Hk as [|? ? Hc Hk']; subst.
  assert (Sp : forall r, span is_pkey ((c :: k') ++ 61 :: r) = (c :: k', 61 :: r)).
  { intros r. apply span_app; [exact Hk|reflexivity]. }
  destruct (nonempty v && forallb is_pvalue v) eqn:Ep.
  - apply andb_true_iff in Ep. destruct Ep as [Hn Hp]. destruct v as [|x v']; [discriminate|].
    assert (Fp : Forall (fun c => is_pvalue c = true) (x :: v')) by (apply Forall_forall; apply forallb_forall; exact Hp).
    inversion Fp as [|? ? Hx _]; subst.
    rewrite <- !app_assoc. cbn [app].
    cbn [param_scan]. change (is_pkey 59) with false. cbv iota. change (is_pkey 32) with false. cbv iota.
    rewrite Hc. change (c :: k' ++ 61 :: x :: v' ++ tail) with ((c :: k') ++ 61 :: (x :: v') ++ tail).
    rewrite Sp. change (61 =? 61) with true. cbv iota. cbn [app]. rewrite (proj1 (pvalue_misc x Hx)).
    change (x :: v' ++ tail) with ((x :: v') ++ tail). rewrite (span_app _ _ tail Fp Ht). reflexivity.
  - rewrite (replace_c_absent 92 _ v Hnb), (replace_c_absent 34 _ v Hnq).
    rewrite <- !app_assoc. cbn [app].
    cbn [param_scan]. change (is_pkey 59) with false. cbv iota. change (is_pkey 32) with false. cbv iota.
    rewrite Hc. change (c :: k' ++ 61 :: 34 :: v ++ 34 :: tail) with ((c :: k') ++ 61 :: 34 :: v ++ 34 :: tail).
    rewrite Sp. change (61 =? 61) with true. cbv iota. change (34 =? 34) with true. cbv iota.
    assert (Lf : (length v < S (length (v ++ 34%N :: tail)))%nat) by (rewrite app_length; cbn; lia).
    rewrite (quoted_esc_body v Hq _ tail Lf).
    rewrite (unescape_plain v Hq). reflexivity.
Qed.

Lemma params_text_head l : head_fails is_pvalue (params_text l).
Proof. destruct l as [|kv l]; [exact I|reflexivity]. Qed.

Lemma params_text_cons kv l : params_text (kv :: l) = param_str kv ++ params_text l.
Proof. reflexivity. Qed.

Lemma param_scan_text l : Forall okp l -> forall f, (length (params_text l) <= f)%nat ->
  param_scan f (params_text l) = l.
Proof.
  intros Hl. induction Hl as [|[k v] l Hkv Hl IH]; intros f Hf.
  - destruct f; reflexivity.
  - rewrite params_text_cons in *.
    assert (L3 : (3 <= length (param_str (k, v)))%nat).
    { unfold param_str. rewrite !app_length. cbn [length fst]. lia. }
    rewrite app_length in Hf. destruct f as [|[|[|f]]]; try lia.
    rewrite (param_scan_step f k v _ Hkv (params_text_head l)).
    rewrite (IH f ltac:(lia)). reflexivity.
Qed.

Lemma no_semi_before s : no_semi (before_semi s).
Proof.
  unfold before_semi, no_semi. induction s as [|c s IH]; cbn; [constructor|].
  destruct (negb (c =? 59)) eqn:E; [|constructor]. destruct (span _ s). cbn in *. constructor; assumption.
Qed.

(* content_type_params = d (non-empty): with L the parameters in the order the setter emits them (sorted by
   name), names distinct: the header is "<media type>" followed by the printed parameters, the media type is
   kept and reading gives back exactly L *)
Lemma rparams_roundtrip d hl :
  let L := fold_right insert_kv [] d in
  d <> [] -> NoDup (map fst L) -> Forall okp L ->
  let '(hl', e) := rparams_set (PAuth [] d) hl in
  e = None /\ rparams_get hl' = dict_val L /\
  rct_get hl' = match before_semi (match fst (ct_pop hl) with Some x => x | None => [] end) with
                | [] => VStr [] | b => VStr b end.
Proof.
  cbv zeta. intros Hne Hnd Hok. unfold rparams_set. destruct d as [|kv0 d0] eqn:Ed; [congruence|]. rewrite <- Ed in *.
  destruct (ct_pop hl) as [h hl'] eqn:Ep. cbn [fst].
  set (base := before_semi (match h with Some x => x | None => [] end)).
  set (L := fold_right insert_kv [] d) in *.
  assert (Hb : no_semi base) by apply no_semi_before.
  assert (LN : exists kv L', L = kv :: L').
  { unfold L. rewrite Ed. cbn [fold_right]. destruct (fold_right insert_kv [] d0) as [|x l]; cbn; [eauto|].
    destruct (str_ltb (fst kv0) (fst x)); eauto. }
  destruct LN as [[k v] [L' EL]].
  fold (params_text L).
  assert (Tx : params_text L = 59 :: tl (params_text L)) by (rewrite EL; reflexivity).
  split; [reflexivity|]. unfold rparams_get, rct_get. rewrite ct_get_put.
  split.
  - rewrite Tx, (after_semi_app _ _ Hb).
    assert (Sc : param_scan (S (length (tl (params_text L)))) (tl (params_text L)) = L).
    { set (T := tl (params_text L)) in *.
      assert (Len : length (params_text L) = S (length T)) by (rewrite Tx; reflexivity).
      pose proof (param_scan_text L Hok (S (S (length T))) ltac:(lia)) as P.
      rewrite Tx in P. cbn [param_scan] in P. change (is_pkey 59) with false in P. cbv iota in P. exact P. }
    rewrite Sc. rewrite (fold_dset_fresh L []); [reflexivity|exact Hnd].
  - rewrite Tx. destruct base as [|b0 base'] eqn:Eb.
    + cbn [app]. reflexivity.
    + rewrite <- Eb in *. assert (Ne : exists x t, base ++ 59 :: tl (params_text L) = x :: t) by (rewrite Eb; cbn; eauto).
      destruct Ne as [x [t Et]]. rewrite Et, <- Et, (before_semi_app _ _ Hb), Eb. reflexivity.
Qed.

(* ================================================================== Cache-Control text: parse (serialise p) *)
(* a directive webob can emit and read back unchanged: a name of the token_re shape; no value, a printable
   integer, or a non-empty text without double quote that int() does not accept *)
Definition okd_name (n : str) : Prop :=
  exists c r, n = c :: r /\ is_alpha c = true /\ Forall (fun x => is_namechar x = true) r.
Definition okd_val (v : cval) : Prop :=
  match v with
  | CNone => True
  | CInt z => (ndigits z <= max_str_digits)%nat
  | CStr s => s <> [] /\ Forall (fun c => c <> 34) s /\ py_int s = None
  end.
Definition okd (kv : str * cval) : Prop := okd_name (fst kv) /\ okd_val (snd kv).

Definition cc_text (l : props) : str := join comma_sp (map ser_part l).

Lemma match34 {T} (c : N) (A B : T) : c <> 34 ->
  match c with 34 => A | _ => B end = B.
Proof.
  intros Hc. destruct c as [|p]; [reflexivity|].
  do 6 (destruct p as [p|p|]; try reflexivity). congruence.
Qed.

Lemma match61_other {T} c (r : str) (A : str -> T) (B : T) : c <> 61 ->
  match c :: r with 61 :: r3 => A r3 | _ => B end = B.
Proof.
  intros Hc. destruct c as [|p]; [reflexivity|].
  do 6 (destruct p as [p|p|]; try reflexivity). congruence.
Qed.

Lemma plain_bare c : is_plain c = true -> is_bare c = true /\ c <> 34.
Proof. unfold is_plain, is_bare, is_alpha. lia. Qed.

Lemma namechar_misc c : is_namechar c = true -> c <> 61 /\ c <> 44 /\ is_space_str c = false.
Proof. unfold is_namechar, is_alpha, is_space_str. lia. Qed.

(* what comes after a printed directive: nothing, or ", " and the next one *)
Definition cc_tail_ok (t : str) : Prop := t = [] \/ exists t', t = 44 :: 32 :: t'.

Lemma cc_tail_props t : cc_tail_ok t ->
  head_fails is_namechar t /\ head_fails is_bare t /\ drop_while is_space_str t = t /\
  (forall {T} (A : str -> T) (B : T), match t with 61 :: r3 => A r3 | _ => B end = B).
Proof.
  intros [->|[t' ->]]; repeat split; reflexivity.
Qed.

Lemma str_of_Z_plain z : Forall (fun c => is_plain c = true) (str_of_Z z).
Proof.
  destruct (str_of_Z_shape z) as [d [Hd [_ [E|E]]]]; rewrite E.
  - eapply Forall_impl; [|exact Hd]. intros c Hc. unfold is_digit in Hc. unfold is_plain, is_alpha. lia.
  - constructor; [reflexivity|]. eapply Forall_impl; [|exact Hd]. intros c Hc. unfold is_digit in Hc. unfold is_plain, is_alpha. lia.
Qed.

Lemma token_value_ok v : okd_val v -> v <> CNone -> token_value (cval_str v) = v.
Proof.
  intros Hv Hn. destruct v as [|z|s]; [congruence| |].
  - cbn [cval_str okd_val] in *. unfold token_value.
    destruct (str_of_Z z) eqn:E; [exfalso; exact (str_of_Z_nonempty z E)|]. rewrite <- E, (py_int_str_of_Z z Hv). reflexivity.
  - cbn [cval_str okd_val] in *. destruct Hv as [Hne [_ Hp]]. unfold token_value.
    destruct s; [congruence|]. rewrite Hp. reflexivity.
Qed.

(* one printed directive followed by a proper tail: one token, then the scan goes on in the tail *)
Lemma tokens_step f n v tail : okd (n, v) -> cc_tail_ok tail ->
  tokens (S f) (ser_part (n, v) ++ tail) = (n, cval_str v) :: tokens f tail.
Proof.
  intros [[c [r [En [Hc Hr]]]] Hv] Ht. cbn [fst snd] in *.
  destruct (cc_tail_props tail Ht) as [T1 [T2 [T3 T4]]].
  assert (Sp : forall rest, head_fails is_namechar rest -> span is_namechar (r ++ rest) = (r, rest)).
  { intros rest Hh. apply span_app; assumption. }
  unfold ser_part. cbn [fst snd]. subst n.
  destruct v as [|z|s].
  - (* no value *)
    cbn [cval_str]. cbn [app tokens]. rewrite Hc, (Sp tail T1), T3, T4. reflexivity.
  - (* integer: printed bare *)
    cbn [cval_str]. pose proof (str_of_Z_plain z) as Pl.
    assert (Fb : forallb is_plain (str_of_Z z) = true) by (apply forallb_forall; apply Forall_forall; exact Pl).
    rewrite Fb. rewrite <- !app_assoc. cbn [app tokens]. rewrite Hc.
    rewrite (Sp (61 :: str_of_Z z ++ tail) eq_refl). cbn [drop_while]. change (is_space_str 61) with false. cbv iota.
    destruct (str_of_Z z) as [|x t] eqn:E; [exfalso; exact (str_of_Z_nonempty z E)|].
    inversion Pl as [|? ? Hx Pt]; subst. cbn [app]. rewrite (match34 x _ _ (proj2 (plain_bare x Hx))).
    change (x :: t ++ tail) with ((x :: t) ++ tail).
    rewrite (span_app is_bare (x :: t) tail); [reflexivity| |exact T2].
    eapply Forall_impl; [|exact Pl]. intros y Hy. exact (proj1 (plain_bare y Hy)).
  - (* text: bare when plain, quoted otherwise *)
    cbn [cval_str]. cbn [okd_val] in Hv. destruct Hv as [Hne [Hq _]].
    destruct (forallb is_plain s) eqn:Fp.
    + assert (Pl : Forall (fun c => is_plain c = true) s) by (apply Forall_forall; apply forallb_forall; exact Fp).
      rewrite <- !app_assoc. cbn [app tokens]. rewrite Hc.
      rewrite (Sp (61 :: s ++ tail) eq_refl). cbn [drop_while]. change (is_space_str 61) with false. cbv iota.
      destruct s as [|x t]; [congruence|].
      inversion Pl as [|? ? Hx Pt]; subst. cbn [app]. rewrite (match34 x _ _ (proj2 (plain_bare x Hx))).
      change (x :: t ++ tail) with ((x :: t) ++ tail).
      rewrite (span_app is_bare (x :: t) tail); [reflexivity| |exact T2].
      eapply Forall_impl; [|exact Pl]. intros y Hy. exact (proj1 (plain_bare y Hy)).
    + rewrite <- !app_assoc. cbn [app tokens]. rewrite Hc.
      rewrite (Sp (61 :: 34 :: s ++ 34 :: tail) eq_refl). cbn [drop_while]. change (is_space_str 61) with false. cbv iota.
      rewrite (quoted_body s tail Hq). reflexivity.
Qed.

Lemma tokens_skip_sep f t : tokens (S (S f)) (44 :: 32 :: t) = tokens f t.
Proof. reflexivity. Qed.

Lemma cc_text_cons kv kv' l : cc_text (kv :: kv' :: l) = ser_part kv ++ comma_sp ++ cc_text (kv' :: l).
Proof. reflexivity. Qed.
Lemma cc_text_one kv : cc_text [kv] = ser_part kv ++ [].
Proof. unfold cc_text. cbn. rewrite app_nil_r. reflexivity. Qed.

Lemma ser_part_len kv : okd kv -> (1 <= length (ser_part kv))%nat.
Proof.
  intros [[c [r [En _]]] _]. unfold ser_part. destruct (snd kv); rewrite ?app_length, En; cbn; lia.
Qed.

Lemma tokens_text l : Forall okd l -> forall f, (length (cc_text l) <= f)%nat ->
  tokens f (cc_text l) = map (fun kv => (fst kv, cval_str (snd kv))) l.
Proof.
  intros Hl. induction Hl as [|[n v] l Hkv Hl IH]; intros f Hf.
  - destruct f; reflexivity.
  - pose proof (ser_part_len _ Hkv) as L1. destruct l as [|kv' l'].
    + rewrite cc_text_one in *. rewrite app_length in Hf. destruct f as [|f]; [lia|].
      rewrite (tokens_step f n v [] Hkv (or_introl eq_refl)). destruct f; reflexivity.
    + rewrite cc_text_cons in *. rewrite !app_length in Hf. cbn [length comma_sp] in Hf.
      destruct f as [|[|[|f]]]; try lia.
      rewrite (tokens_step (S (S f)) n v (comma_sp ++ cc_text (kv' :: l')) Hkv (or_intror (ex_intro _ _ eq_refl))).
      unfold comma_sp at 1. cbn [app]. rewrite tokens_skip_sep.
      rewrite (IH f ltac:(lia)). reflexivity.
Qed.

Lemma fold_pset_fresh (l : props) : forall d,
  NoDup (map fst d ++ map fst l) ->
  fold_left (fun d kv => pset (fst kv) (snd kv) d) l d = d ++ l.
Proof.
  assert (D : forall k v (d : props), ~ In k (map fst d) -> pset k v d = d ++ [(k, v)]).
  { intros k v d. induction d as [|[k' x] d IH]; intros Hn; cbn; [reflexivity|].
    rewrite str_eqb_neq; [|intros E; apply Hn; left; cbn; congruence].
    rewrite IH; [reflexivity|]. intros Hin. apply Hn. right. exact Hin. }
  induction l as [|[k v] l IH]; intros d Hnd; cbn [fold_left]; [rewrite app_nil_r; reflexivity|].
  cbn [fst snd map] in *. rewrite D.
  - rewrite IH; [rewrite <- app_assoc; reflexivity|].
    rewrite map_app. cbn [map fst]. rewrite <- app_assoc. exact Hnd.
  - apply NoDup_remove_2 in Hnd. intros Hin. apply Hnd. apply in_or_app. left. exact Hin.
Qed.

(* parse (serialise p) = p in the order the serialiser emits (sorted by name), for distinct names *)
Theorem parse_serialize_cc p :
  let L := sort_props p in
  NoDup (map fst L) -> Forall okd L -> parse_cc (serialize_cc p) = L.
Proof.
  cbv zeta. intros Hnd Hok. unfold serialize_cc. fold (cc_text (sort_props p)).
  set (L := sort_props p) in *. rewrite parse_cc_tokens.
  rewrite (tokens_text L Hok (S (length (cc_text L))) ltac:(lia)).
  unfold apply_tokens.
  assert (E : forall d, fold_left (fun p nv => pset (fst nv) (token_value (snd nv)) p)
                          (map (fun kv => (fst kv, cval_str (snd kv))) L) d
                        = fold_left (fun d kv => pset (fst kv) (snd kv) d) L d).
  { clear Hnd. induction Hok as [|[n v] l [_ Hv] Hl IH]; intros d; [reflexivity|].
    cbn [map fold_left fst snd] in *.
    assert (Tv : token_value (cval_str v) = v).
    { destruct v; [reflexivity| |]; apply token_value_ok; try exact Hv; discriminate. }
    rewrite Tv. apply IH. }
  rewrite E. rewrite (fold_pset_fresh L []); [reflexivity|exact Hnd].
Qed.
