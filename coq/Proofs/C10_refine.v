(* C10 — the model refines the buffer-free specification: the relation R between a request of the
   model (with its file in the heap) and a request of the specification, and its preservation by
   make_body_seekable / copy_body. *)
From Coq Require Import ZArith NArith List Bool Arith Lia.
Require Import Webob.Lib.Val Webob.Model.C10_BodyStream Webob.Spec.C10_BodySpec
               Webob.Proofs.C10_stream Webob.Proofs.C10_loops.
Import ListNotations.

(* ------------------------------------------------------------------ the relation *)
Definition cached (r : req) : bool :=
  match postc r with Some i => Nat.eqb i (inp r) | None => false end.

Definition wvalid (r : req) : option wrapper :=
  match wrap r with
  | Some w => if Nat.eqb (wraw w) (inp r) then Some w else None
  | None => None
  end.

Definition Rraw (good : bool) (f : file) (r : req) (s : sreq) : Prop :=
  seekable r = false /\
  exists n, cl r = Some (Z.of_nat n) /\ 0 < n /\ sbody s = firstn n (fdata f) /\
    (if good then n <= length (fdata f) else length (fdata f) < n) /\ scur s <= fpos f /\
    match wvalid r with
    | Some w => wbuf w = seg (fdata f) (scur s) (fpos f) /\ fpos f + wrem w = n
    | None => fpos f = 0 /\ scur s = 0
    end.

Definition Rmode (f : file) (r : req) (s : sreq) : Prop :=
  match smode s with
  | MHeld => seekable r = true /\ cl r = Some (Z.of_nat (length (sbody s))) /\
             fdata f = sbody s /\ fpos f = scur s
  | MRaw => Rraw true f r s
  | MShort => Rraw false f r s
  | MTerm => seekable r = false /\ cl r = None /\ term_flag r = true /\
             fdata f = sbody s /\ fpos f = scur s
  | MNone => seekable r = false /\ readable r = false /\ sbody s = [] /\ scur s = 0 /\ fpos f = 0
  end.

Definition R (h : heap) (r : req) (s : sreq) : Prop :=
  inp r < next h /\ (forall j, postc r = Some j -> j < next h) /\
  form r = sform s /\ cached r = spost s /\
  fwf (cells h (inp r)) /\ Rmode (cells h (inp r)) r s.

(* how much of the file under a non-seekable request may ever be consumed *)
Definition obound (r : req) : option nat :=
  if seekable r then None
  else match cl r with
       | Some c => Some (Z.to_nat c)
       | None => if term_flag r then None else Some 0
       end.

(* what a step on request r may do to the heap and to the identity-carrying fields *)
Definition frame (h h' : heap) (r r' : req) : Prop :=
  next h <= next h' /\
  (forall j, j < next h -> j <> inp r -> cells h' j = cells h j) /\
  (inp r' = inp r \/ next h <= inp r') /\ inp r' < next h' /\
  (inp r' = inp r -> seekable r' = seekable r /\ cl r' = cl r /\ term_flag r' = term_flag r) /\
  limit r' = limit r /\
  (forall b, obound r = Some b -> fpos (cells h' (inp r)) <= b) /\
  (seekable r = true -> fpos (cells h' (inp r)) <= length (fdata (cells h (inp r))) /\
                        fdata (cells h' (inp r)) = fdata (cells h (inp r))).

Lemma R_frame : forall h h' r s,
  R h r s -> next h <= next h' -> cells h' (inp r) = cells h (inp r) -> R h' r s.
Proof.
  intros h h' r s (Hi & Hp & Hf & Hc & Hwf & Hm) Hn Hcell. unfold R. rewrite Hcell.
  splits; auto; try lia. intros j Hj. specialize (Hp j Hj). lia.
Qed.

(* ------------------------------------------------------------------ record plumbing *)
Lemma set_wrap_fields : forall r w,
  cl (set_wrap r w) = cl r /\ seekable (set_wrap r w) = seekable r /\ term (set_wrap r w) = term r /\
  legacy (set_wrap r w) = legacy r /\ inp (set_wrap r w) = inp r /\ wrap (set_wrap r w) = w /\
  limit (set_wrap r w) = limit r /\ postc (set_wrap r w) = postc r /\ form (set_wrap r w) = form r.
Proof. intros [] w; cbn; splits; reflexivity. Qed.

Lemma set_wrap_derived : forall r w,
  readable (set_wrap r w) = readable r /\ term_flag (set_wrap r w) = term_flag r /\
  cached (set_wrap r w) = cached r /\ obound (set_wrap r w) = obound r.
Proof. intros [] w; cbn; splits; reflexivity. Qed.

Lemma set_body_spec : forall b h r h' r',
  set_body b h r = (h', r') ->
  inp r' = next h /\ next h' = S (next h) /\ cells h' (next h) = mkFile b 0 KMem /\
  (forall j, j <> next h -> cells h' j = cells h j) /\
  cl r' = Some (Z.of_nat (length b)) /\ seekable r' = true /\ postc r' = postc r /\
  form r' = form r /\ limit r' = limit r /\ term r' = term r /\ legacy r' = legacy r.
Proof.
  intros b h r h' r' H; unfold set_body in H.
  destruct (alloc h (mkFile b 0 KMem)) as [h1 i] eqn:Ea.
  destruct (alloc_spec _ _ _ _ Ea) as (Hi & Hn & Hc & Ho). subst i.
  injection H as <- <-. destruct r; cbn. splits; auto.
Qed.

(* installing a fresh file with content b gives a held body b *)
Lemma R_set_body : forall b h r h' r' s,
  R h r s -> set_body b h r = (h', r') ->
  R h' r' (mkS b 0 MHeld false (sform s)) /\ frame h h' r r' /\ next h <= inp r' /\
  cells h' (inp r) = cells h (inp r).
Proof.
  intros b h r h' r' s (Hi & Hp & Hf & Hc & Hwf & Hm) H.
  destruct (set_body_spec _ _ _ _ _ H) as (Hi' & Hn' & Hcell & Ho & Hcl & Hsk & Hpc & Hfo & Hli & Hte & Hle).
  assert (Hold : cells h' (inp r) = cells h (inp r)) by (apply Ho; lia).
  split; [|split; [|split]]; auto; try lia.
  - unfold R, Rmode; cbn [smode sbody scur spost sform]. rewrite Hi', Hcell. cbn [fdata fpos].
    splits; auto; try lia.
    + intros j Hj. rewrite Hpc in Hj. specialize (Hp j Hj). lia.
    + congruence.
    + unfold cached. rewrite Hpc, Hi'. destruct (postc r) as [j|] eqn:Ej; auto.
      specialize (Hp j eq_refl). apply Nat.eqb_neq. lia.
    + unfold fwf; cbn; lia.
  - unfold frame. rewrite Hold. splits; auto; try lia.
    + intros j Hj1 Hj2. apply Ho. lia.
    + intros bd Hb. unfold obound in Hb.
      destruct (seekable r) eqn:Es; [discriminate|].
      unfold Rmode in Hm. destruct (smode s).
      * destruct Hm as (_ & n & Hcl' & _ & _ & _ & _ & Hw). rewrite Hcl' in Hb. injection Hb as <-.
        rewrite Nat2Z.id. destruct (wvalid r); lia.
      * destruct Hm as (_ & n & Hcl' & _ & _ & _ & _ & Hw). rewrite Hcl' in Hb. injection Hb as <-.
        rewrite Nat2Z.id. destruct (wvalid r); lia.
      * destruct Hm as (_ & Hcl' & Htf & _). rewrite Hcl', Htf in Hb. discriminate.
      * destruct Hm as (_ & _ & _ & _ & Hp0). lia.
      * destruct Hm as (Hs & _). congruence.
Qed.

(* ------------------------------------------------------------------ body_file on a raw request *)
Lemma body_file_raw_mode : forall good f r s,
  Rraw good f r s ->
  exists w n, body_file r = (HWrap, set_wrap r (Some w)) /\ wraw w = inp r /\
    cl r = Some (Z.of_nat n) /\ 0 < n /\
    wbuf w = seg (fdata f) (scur s) (fpos f) /\ fpos f + wrem w = n.
Proof.
  intros good f r s (Hs & n & Hcl & Hn & Hb & Hg & Hc & Hw).
  unfold body_file, readable. rewrite Hcl, Hs. cbn [negb].
  assert (Hpos : (0 <? Z.of_nat n)%Z = true) by (apply Z.ltb_lt; lia). rewrite Hpos. cbn [negb].
  unfold wvalid in Hw.
  destruct (wrap r) as [w|] eqn:Ew.
  - destruct (Nat.eqb (wraw w) (inp r)) eqn:Eq.
    + apply Nat.eqb_eq in Eq. exists w, n. destruct Hw as [Hw1 Hw2].
      splits; auto. f_equal. destruct r; cbn in *. unfold set_wrap; cbn. now rewrite Ew.
    + destruct Hw as [Hw1 Hw2]. exists (mkW [] (Z.to_nat (Z.of_nat n)) (inp r)), n. cbn [wbuf wrem wraw].
      rewrite Nat2Z.id, Hw1, Hw2, seg_same. splits; auto.
  - destruct Hw as [Hw1 Hw2]. exists (mkW [] (Z.to_nat (Z.of_nat n)) (inp r)), n. cbn [wbuf wrem wraw].
    rewrite Nat2Z.id, Hw1, Hw2, seg_same. splits; auto.
Qed.

Lemma wvalid_set : forall r w, wraw w = inp r -> wvalid (set_wrap r (Some w)) = Some w.
Proof.
  intros r w H. unfold wvalid. destruct (set_wrap_fields r (Some w)) as (_ & _ & _ & _ & Hi & Hw & _).
  rewrite Hw, Hi, H, Nat.eqb_refl. reflexivity.
Qed.

(* ------------------------------------------------------------------ finishing copy_body *)
(* after the loop: install acc in a new BytesIO or temp file *)
Definition install (acc : bytes) (spilled : bool) (h : heap) (r : req) : heap * req :=
  if spilled then
    let '(h3, i) := alloc h (mkFile acc 0 KTmp) in
    let r3 := set_cl r (Some (Z.of_nat (length acc))) in
    let r4 := set_seekable (set_inp r3 i) true in
    (h3, set_term r4 (Some true))
  else set_body acc h r.

Lemma install_spec : forall acc sp h r h' r',
  install acc sp h r = (h', r') ->
  inp r' = next h /\ next h' = S (next h) /\ fdata (cells h' (next h)) = acc /\ fpos (cells h' (next h)) = 0 /\
  (forall j, j <> next h -> cells h' j = cells h j) /\
  cl r' = Some (Z.of_nat (length acc)) /\ seekable r' = true /\ postc r' = postc r /\
  form r' = form r /\ limit r' = limit r.
Proof.
  intros acc sp h r h' r' H; unfold install in H. destruct sp.
  - destruct (alloc h (mkFile acc 0 KTmp)) as [h1 i] eqn:Ea.
    destruct (alloc_spec _ _ _ _ Ea) as (Hi & Hn & Hc & Ho). subst i.
    injection H as <- <-. rewrite Hc. destruct r; cbn. splits; auto.
  - destruct (set_body_spec _ _ _ _ _ H) as (Hi' & Hn' & Hcell & Ho & Hcl & Hsk & Hpc & Hfo & Hli & _).
    rewrite Hcell. cbn. splits; auto.
Qed.

Lemma R_install : forall acc sp h r h' r' sf,
  inp r < next h -> (forall j, postc r = Some j -> j < next h) -> form r = sf ->
  install acc sp h r = (h', r') ->
  R h' r' (mkS acc 0 MHeld false sf) /\ next h <= inp r' /\ inp r' < next h' /\
  next h <= next h' /\ (forall j, j < next h -> cells h' j = cells h j) /\ limit r' = limit r.
Proof.
  intros acc sp h r h' r' sf Hi Hp Hf H.
  destruct (install_spec _ _ _ _ _ _ H) as (Hi' & Hn' & Hda & Hpo & Ho & Hcl & Hsk & Hpc & Hfo & Hli).
  splits; auto; try lia.
  - unfold R, Rmode; cbn [smode sbody scur spost sform]. rewrite Hi'.
    splits; auto; try lia.
    + intros j Hj. rewrite Hpc in Hj. specialize (Hp j Hj). lia.
    + congruence.
    + unfold cached. rewrite Hpc, Hi'. destruct (postc r) as [j|] eqn:Ej; auto.
      specialize (Hp j eq_refl). apply Nat.eqb_neq. lia.
    + unfold fwf. rewrite Hpo. lia.
  - intros j Hj. apply Ho. lia.
Qed.

Lemma copy_body_unfold : forall chunk adv h r,
  copy_body chunk adv h r =
  if readable r then
    let h1 := if seekable r then upd h (inp r) (fseek0 (cells h (inp r))) else h in
    let hascl := match cl r with Some _ => true | None => false end in
    let todo := match cl r with Some c => Z.to_nat c | None => chunk end in
    let '(hd, r1) := body_file r in
    let fuel := todo + length (fdata (cells h1 (inp r))) + 2 in
    match cb_loop fuel chunk hascl todo [] false (limit r) hd adv h1 r1 with
    | (Ok (acc, spilled), adv', h2, r2) =>
        let '(h3, r3) := install acc spilled h2 r2 in (Ok tt, adv', h3, r3)
    | (Disc, adv', h2, r2) => (Disc, adv', h2, r2)
    | (Fuel, adv', h2, r2) => (Fuel, adv', h2, r2)
    end
  else
    let '(h', r') := set_body [] h r in (Ok tt, adv, h', r').
Proof.
  intros. unfold copy_body, install.
  destruct (readable r); [|reflexivity].
  destruct (body_file r) as [hd r1].
  cbv zeta.
  destruct (cb_loop _ _ _ _ _ _ _ _ _ _ _) as [[[[[acc sp]| |] adv'] h2] r2]; try reflexivity.
  destruct sp; [|reflexivity].
  destruct (alloc h2 _) as [h3 i]. reflexivity.
Qed.

(* ------------------------------------------------------------------ copy_body, mode by mode *)
Lemma obound_raw : forall r n, seekable r = false -> cl r = Some (Z.of_nat n) -> obound r = Some n.
Proof. intros r n Hs Hc; unfold obound; rewrite Hs, Hc, Nat2Z.id; reflexivity. Qed.

Lemma copy_body_raw : forall (good : bool) chunk adv h r s x adv' h' r',
  1 <= chunk -> R h r s -> smode s = (if good then MRaw else MShort) ->
  copy_body chunk adv h r = (x, adv', h', r') ->
  frame h h' r r' /\
  if good && Nat.eqb (scur s) 0
  then x = Ok tt /\ R h' r' (s_with s (sbody s) 0 MHeld)
  else x = Disc /\ R h' r' (s_cur s (length (sbody s))).
Proof.
  intros good chunk adv h r s x adv' h' r' Hch (Hi & Hp & Hf & Hc & Hwf & Hm) Hmode H.
  assert (HR : Rraw good (cells h (inp r)) r s).
  { unfold Rmode in Hm; rewrite Hmode in Hm; destruct good; exact Hm. }
  destruct (body_file_raw_mode _ _ _ _ HR) as (w & n & Hbf & Hraw & Hcl & Hn & Hbuf & Hcons).
  destruct HR as (Hs & n' & Hcl' & _ & Hbody & Hgood & Hcur & _).
  assert (n' = n) by (rewrite Hcl in Hcl'; injection Hcl' as E; lia). subst n'.
  rewrite copy_body_unfold in H.
  assert (Hrd : readable r = true) by (unfold readable; rewrite Hcl; apply Z.ltb_lt; lia).
  rewrite Hrd, Hs, Hbf, Hcl, Nat2Z.id in H. cbv zeta in H.
  set (r1 := set_wrap r (Some w)) in *.
  destruct (set_wrap_fields r (Some w)) as (F1 & F2 & F3 & F4 & F5 & F6 & F7 & F8 & F9). fold r1 in F1, F2, F3, F4, F5, F6, F7, F8, F9.
  destruct (set_wrap_derived r (Some w)) as (G1 & G2 & G3 & G4). fold r1 in G1, G2, G3, G4.
  destruct (cb_loop _ chunk true n [] false (limit r) HWrap adv h r1) as [[[y adv1] h2] r2] eqn:El.
  eapply (cb_loop_wrap _ _ _ _ _ _ _ _ _ w (scur s)) in El; auto; try lia; rewrite ?F5; auto.
  cbv zeta in El. rewrite F5 in El.
  destruct El as (w2 & Hr2 & Hraw2 & [Hnx Hoth] & Hd2 & Hk2 & Hwf2 & Hle2 & Hcons2 & Hy).
  assert (Hfp2 : fpos (cells h2 (inp r)) <= length (fdata (cells h (inp r)))) by (unfold fwf in Hwf2; rewrite Hd2 in Hwf2; lia).
  destruct y as [[acc sp]| |].
  - (* the loop completed: only possible from cursor 0 on a long enough stream *)
    destruct Hy as (Hacc & Hcn & Hbuf2).
    assert (Hc0 : scur s = 0) by lia.
    assert (Hg : good = true) by (destruct good; auto; lia).
    subst good. rewrite Hc0 in *. cbn [andb Nat.eqb].
    destruct (install acc sp h2 r2) as [h3 r3] eqn:Ei.
    injection H as <- <- <- <-.
    assert (Hin2 : inp r2 = inp r) by (subst r2; destruct r1; cbn in *; congruence).
    assert (Hpc2 : postc r2 = postc r) by (subst r2; destruct r1; cbn in *; congruence).
    assert (Hfo2 : form r2 = form r) by (subst r2; destruct r1; cbn in *; congruence).
    assert (Hli2 : limit r2 = limit r) by (subst r2; destruct r1; cbn in *; congruence).
    eapply (R_install _ _ _ _ _ _ (sform s)) in Ei; try congruence; try (rewrite Hin2, Hnx; exact Hi).
    2:{ intros j Hj. rewrite Hpc2 in Hj. rewrite Hnx. auto. }
    destruct Ei as (HR3 & Hfresh & Hlt3 & Hnx3 & Hold3 & Hli3).
    cbn [app Nat.add] in Hacc. rewrite seg_0 in Hacc. rewrite Hnx in *.
    split.
    + unfold frame. splits; auto; try lia.
      * intros j Hj1 Hj2. rewrite Hold3 by lia. auto.
      * intros b Hb. rewrite (obound_raw r n Hs Hcl) in Hb. injection Hb as <-.
        rewrite Hold3 by lia. lia.
      * intros E; congruence.
    + split; auto. unfold s_with. rewrite Hbody, <- Hacc. exact HR3.
  - (* disconnected, or the limited file ran dry before todo reached 0 *)
    destruct Hy as (Hb2 & Hcase).
    injection H as <- <- <- <-.
    assert (Hnot : good && Nat.eqb (scur s) 0 = false).
    { destruct good; auto. cbn [andb]. apply Nat.eqb_neq. intros E.
      destruct Hcase as [[Ha Hb]|[Ha Hb]]; lia. }
    rewrite Hnot.
    assert (Hlenb : length (sbody s) = Nat.min n (length (fdata (cells h (inp r)))))
      by (rewrite Hbody; apply firstn_length).
    assert (Hpos2 : fpos (cells h2 (inp r)) = length (sbody s)).
    { destruct good; destruct Hcase as [[Ha Hb]|[Ha Hb]]; lia. }
    destruct (set_wrap_fields r1 (Some w2)) as (E1 & E2 & E3 & E4 & E5 & E6 & E7 & E8 & E9).
    destruct (set_wrap_derived r1 (Some w2)) as (D1 & D2 & D3 & D4).
    rewrite <- Hr2 in E1, E2, E3, E4, E5, E6, E7, E8, E9, D1, D2, D3, D4.
    split.
    + unfold frame. rewrite E5, F5. splits; auto; try lia; try congruence.
      intros b Hb. rewrite (obound_raw r n Hs Hcl) in Hb. injection Hb as <-. lia.
    + split; auto. unfold R. rewrite E5, F5, Hnx. unfold s_cur; cbn [sform spost].
      split; [exact Hi|]. split; [intros j Hj; apply Hp; congruence|].
      split; [congruence|]. split; [congruence|]. split; [exact Hwf2|].
      unfold Rmode; cbn [smode sbody scur]. rewrite Hmode.
        assert (HR' : Rraw good (cells h2 (inp r)) r2 (mkS (sbody s) (length (sbody s)) (smode s) (spost s) (sform s))).
        { unfold Rraw; cbn [sbody scur]. split; [congruence|].
          exists n. rewrite Hd2. splits; auto; try congruence; try lia.
          rewrite Hr2, wvalid_set by congruence.
          rewrite Hb2, Hpos2, seg_same. split; auto.
          destruct good; destruct Hcase as [[Ha Hb]|[Ha Hb]]; lia. }
        rewrite Hmode in HR'. destruct good; exact HR'.
  - contradiction.
Qed.

Lemma copy_body_term : forall chunk adv h r s x adv' h' r',
  1 <= chunk -> R h r s -> smode s = MTerm ->
  copy_body chunk adv h r = (x, adv', h', r') ->
  frame h h' r r' /\ x = Ok tt /\ R h' r' (s_with s (skipn (scur s) (sbody s)) 0 MHeld).
Proof.
  intros chunk adv h r s x adv' h' r' Hch (Hi & Hp & Hf & Hc & Hwf & Hm) Hmode H.
  unfold Rmode in Hm; rewrite Hmode in Hm. destruct Hm as (Hs & Hcl & Htf & Hdata & Hpos).
  rewrite copy_body_unfold in H.
  assert (Hrd : readable r = true) by (unfold readable; rewrite Hcl; exact Htf).
  assert (Hbf : body_file r = (HRaw, r)) by (unfold body_file; rewrite Hrd, Hcl; reflexivity).
  rewrite Hrd, Hs, Hbf, Hcl in H. cbv zeta in H.
  destruct (cb_loop _ chunk false chunk [] false (limit r) HRaw adv h r) as [[[y adv1] h2] r2] eqn:El.
  eapply cb_loop_raw in El; auto; try lia.
  cbv zeta in El. destruct El as (Hr2 & [Hnx Hoth] & Hd2 & Hk2 & Hwf2 & Hle2 & Hy). subst r2.
  destruct y as [[acc sp]| |].
  - destruct Hy as [Hacc Hend].
    destruct (install acc sp h2 r) as [h3 r3] eqn:Ei.
    injection H as <- <- <- <-.
    eapply (R_install _ _ _ _ _ _ (sform s)) in Ei; try congruence; try (rewrite Hnx; exact Hi).
    2:{ intros j Hj. rewrite Hnx. auto. }
    destruct Ei as (HR3 & Hfresh & Hlt3 & Hnx3 & Hold3 & Hli3). rewrite Hnx in *.
    cbn [app] in Hacc. rewrite Hend, seg_to_end, Hdata, Hpos in Hacc.
    split.
    + unfold frame. splits; auto; try lia.
      * intros j Hj1 Hj2. rewrite Hold3 by lia. auto.
      * intros b Hb. unfold obound in Hb. rewrite Hs, Hcl, Htf in Hb. discriminate.
      * intros E; congruence.
    + split; auto. unfold s_with. rewrite <- Hacc. exact HR3.
  - destruct Hy as [Hy _]; discriminate.
  - contradiction.
Qed.

Lemma copy_body_none : forall chunk adv h r s x adv' h' r',
  R h r s -> smode s = MNone ->
  copy_body chunk adv h r = (x, adv', h', r') ->
  frame h h' r r' /\ x = Ok tt /\ R h' r' (s_with s [] 0 MHeld).
Proof.
  intros chunk adv h r s x adv' h' r' HR Hmode H.
  pose proof HR as (Hi & Hp & Hf & Hc & Hwf & Hm).
  unfold Rmode in Hm; rewrite Hmode in Hm. destruct Hm as (Hs & Hrd & _).
  rewrite copy_body_unfold, Hrd in H.
  destruct (set_body [] h r) as [h1 r1] eqn:Es. injection H as <- <- <- <-.
  destruct (R_set_body _ _ _ _ _ _ HR Es) as (HR1 & Hfr & _ & _).
  splits; auto.
Qed.

(* copying a held body (second half of copy()): the copy gets a new file with the same
   bytes; the original's cursor ends up behind the body *)
Lemma copy_body_held : forall chunk adv h r s x adv' h' r',
  1 <= chunk -> R h r s -> smode s = MHeld ->
  copy_body chunk adv h r = (x, adv', h', r') ->
  x = Ok tt /\ R h' r' (mkS (sbody s) 0 MHeld false (sform s)) /\
  R h' r (s_cur s (length (sbody s))) /\
  next h <= inp r' /\ inp r' < next h' /\ next h <= next h' /\ limit r' = limit r /\
  (forall j, j < next h -> j <> inp r -> cells h' j = cells h j) /\
  fdata (cells h' (inp r)) = fdata (cells h (inp r)) /\
  fpos (cells h' (inp r)) <= length (fdata (cells h (inp r))).
Proof.
  intros chunk adv h r s x adv' h' r' Hch HR Hmode H.
  pose proof HR as (Hi & Hp & Hf & Hc & Hwf & Hm).
  unfold Rmode in Hm; rewrite Hmode in Hm. destruct Hm as (Hs & Hcl & Hdata & Hpos).
  rewrite copy_body_unfold in H.
  destruct (readable r) eqn:Hrd.
  - assert (Hbf : body_file r = (HRaw, r)) by (unfold body_file; rewrite Hrd, Hcl, Hs; reflexivity).
    rewrite Hs, Hbf, Hcl, Nat2Z.id in H. cbv zeta in H.
    set (h1 := upd h (inp r) (fseek0 (cells h (inp r)))) in *.
    assert (Hc1 : cells h1 (inp r) = fseek0 (cells h (inp r))) by apply upd_same.
    destruct (cb_loop _ chunk true (length (sbody s)) [] false (limit r) HRaw adv h1 r) as [[[y adv1] h2] r2] eqn:El.
    eapply cb_loop_raw in El; auto; try lia.
    2:{ rewrite Hc1. apply fseek0_wf. }
    cbv zeta in El. rewrite Hc1 in El. cbn [fseek0 fdata fpos fkd] in El.
    destruct El as (Hr2 & [Hnx Hoth] & Hd2 & Hk2 & Hwf2 & Hle2 & Hy). subst r2.
    destruct y as [[acc sp]| |].
    + destruct Hy as [Hacc Hend]. cbn [Nat.add app] in *.
      destruct (install acc sp h2 r) as [h3 r3] eqn:Ei.
      injection H as <- <- <- <-.
      assert (Hnx1 : next h2 = next h) by (rewrite Hnx; reflexivity).
      eapply (R_install _ _ _ _ _ _ (sform s)) in Ei; try congruence; try (rewrite Hnx1; exact Hi).
      2:{ intros j Hj. rewrite Hnx1. auto. }
      destruct Ei as (HR3 & Hfresh & Hlt3 & Hnx3 & Hold3 & Hli3). rewrite Hnx1 in *.
      rewrite Hend, seg_0, Hdata, firstn_all in Hacc.
      splits; auto; try lia.
      * rewrite <- Hacc. exact HR3.
      * unfold R. rewrite (Hold3 (inp r)) by lia. unfold s_cur; cbn [sform spost].
        splits; auto; try lia.
        -- intros j Hj. specialize (Hp j Hj). lia.
        -- unfold Rmode; cbn [smode sbody scur]. rewrite Hmode. splits; auto; congruence.
      * intros j Hj1 Hj2. rewrite Hold3 by lia. rewrite Hoth by auto. unfold h1. apply upd_other; auto.
      * rewrite Hold3 by lia. auto.
      * rewrite Hold3 by lia. rewrite Hend, Hdata. lia.
    + destruct Hy as (_ & _ & Hy). rewrite Hdata in Hy. lia.
    + contradiction.
  - (* an empty body: nothing is read *)
    assert (Hlen0 : length (sbody s) = 0).
    { unfold readable in Hrd. rewrite Hcl in Hrd. apply Z.ltb_ge in Hrd. lia. }
    destruct (set_body [] h r) as [h1 r1] eqn:Es. injection H as <- <- <- <-.
    destruct (R_set_body _ _ _ _ _ _ HR Es) as (HR1 & Hfr & Hfresh & Hold).
    destruct Hfr as (Hn1 & Hoth & _ & Hlt & _ & Hli & _ & _).
    assert (Hb0 : sbody s = []) by (destruct (sbody s); auto; discriminate).
    splits; auto.
    + rewrite Hb0. exact HR1.
    + apply (R_frame h); auto.
      unfold R, s_cur; cbn [sform spost]. splits; auto.
      unfold Rmode; cbn [smode sbody scur]. rewrite Hmode. splits; auto.
      rewrite Hpos. unfold fwf in Hwf. rewrite Hdata in Hwf. lia.
    + rewrite Hold; auto.
    + rewrite Hold. exact Hwf.
Qed.

(* ------------------------------------------------------------------ small facts about R *)
Lemma R_obound : forall h r s b, R h r s -> obound r = Some b -> fpos (cells h (inp r)) <= b.
Proof.
  intros h r s b (Hi & Hp & Hf & Hc & Hwf & Hm) Hb. unfold obound in Hb.
  destruct (seekable r) eqn:Es; [discriminate|].
  unfold Rmode in Hm. destruct (smode s).
  - destruct Hm as (_ & n & Hcl' & _ & _ & _ & _ & Hw). rewrite Hcl' in Hb. injection Hb as <-.
    rewrite Nat2Z.id. destruct (wvalid r); lia.
  - destruct Hm as (_ & n & Hcl' & _ & _ & _ & _ & Hw). rewrite Hcl' in Hb. injection Hb as <-.
    rewrite Nat2Z.id. destruct (wvalid r); lia.
  - destruct Hm as (_ & Hcl' & Htf & _). rewrite Hcl', Htf in Hb. discriminate.
  - destruct Hm as (_ & _ & _ & _ & Hp0). lia.
  - destruct Hm as (Hs & _). congruence.
Qed.

Lemma frame_refl : forall h r s, R h r s -> frame h h r r.
Proof.
  intros h r s HR. pose proof HR as (Hi & Hp & Hf & Hc & Hwf & Hm).
  unfold frame. splits; auto.
  - intros b Hb. eapply R_obound; eauto.
Qed.

(* a step that only moves the cursor of the request's own file *)
Lemma frame_own : forall h r s f',
  R h r s -> fdata f' = fdata (cells h (inp r)) -> fwf f' ->
  (forall b, obound r = Some b -> fpos f' <= b) ->
  frame h (upd h (inp r) f') r r.
Proof.
  intros h r s f' HR Hd Hwf' Hb. pose proof HR as (Hi & _).
  unfold frame. rewrite upd_same, upd_next. splits; auto.
  - intros j _ Hj. apply upd_other; auto.
  - intros _. unfold fwf in Hwf'. rewrite Hd in Hwf'. auto.
Qed.

Lemma R_held_move : forall h r s f' c,
  R h r s -> smode s = MHeld -> fdata f' = fdata (cells h (inp r)) -> fpos f' = c -> c <= length (sbody s) ->
  R (upd h (inp r) f') r (s_cur s c).
Proof.
  intros h r s f' c (Hi & Hp & Hf & Hc & Hwf & Hm) Hmode Hd Hpos Hle.
  unfold Rmode in Hm; rewrite Hmode in Hm. destruct Hm as (Hs & Hcl & Hdata & Hpos0).
  unfold R. rewrite upd_same, upd_next. unfold s_cur; cbn [sform spost].
  splits; auto.
  - unfold fwf. rewrite Hd, Hdata, Hpos. exact Hle.
  - unfold Rmode; cbn [smode sbody scur]. rewrite Hmode. splits; auto; congruence.
Qed.

Lemma R_held_facts : forall h r s, R h r s -> smode s = MHeld ->
  seekable r = true /\ cl r = Some (Z.of_nat (length (sbody s))) /\
  fdata (cells h (inp r)) = sbody s /\ fpos (cells h (inp r)) = scur s /\ scur s <= length (sbody s).
Proof.
  intros h r s (Hi & Hp & Hf & Hc & Hwf & Hm) Hmode.
  unfold Rmode in Hm; rewrite Hmode in Hm. destruct Hm as (Hs & Hcl & Hdata & Hpos).
  splits; auto. unfold fwf in Hwf. rewrite Hdata, Hpos in Hwf. exact Hwf.
Qed.

Lemma obound_seekable : forall r b, seekable r = true -> obound r = Some b -> False.
Proof. intros r b Hs Hb; unfold obound in Hb; rewrite Hs in Hb; discriminate. Qed.

(* ------------------------------------------------------------------ make_body_seekable *)
Lemma conv_refines : forall chunk adv h r s x adv' h' r',
  1 <= chunk -> R h r s ->
  make_seekable chunk adv h r = (x, adv', h', r') ->
  frame h h' r r' /\ (seekable r = true -> r' = r) /\
  match sconv s with
  | (Some s1, _) => x = Ok tt /\ R h' r' s1 /\ smode s1 = MHeld /\ scur s1 = 0 /\ sform s1 = sform s
  | (None, s1) => x = Disc /\ R h' r' s1
  end.
Proof.
  intros chunk adv h r s x adv' h' r' Hch HR H. unfold make_seekable in H.
  pose proof HR as (Hi & Hp & Hf & Hc & Hwf & Hm).
  unfold sconv. destruct (smode s) eqn:Hmode.
  - (* MRaw *)
    assert (Hs : seekable r = false) by (unfold Rmode in Hm; rewrite Hmode in Hm; apply Hm).
    rewrite Hs in H. apply (copy_body_raw true) with (s := s) in H; auto.
    destruct H as [Hfr H]. cbn [andb] in H. split; auto. split; [congruence|].
    destruct (Nat.eqb (scur s) 0); destruct H as [Hx HR']; splits; auto.
  - (* MShort *)
    assert (Hs : seekable r = false) by (unfold Rmode in Hm; rewrite Hmode in Hm; apply Hm).
    rewrite Hs in H. apply (copy_body_raw false) with (s := s) in H; auto.
    destruct H as [Hfr H]. cbn [andb] in H. split; auto. split; [congruence|]. exact H.
  - (* MTerm *)
    assert (Hs : seekable r = false) by (unfold Rmode in Hm; rewrite Hmode in Hm; apply Hm).
    rewrite Hs in H. apply copy_body_term with (s := s) in H; auto.
    destruct H as (Hfr & Hx & HR'). split; auto. split; [congruence|]. splits; auto.
  - (* MNone *)
    assert (Hs : seekable r = false) by (unfold Rmode in Hm; rewrite Hmode in Hm; apply Hm).
    rewrite Hs in H. apply copy_body_none with (s := s) in H; auto.
    destruct H as (Hfr & Hx & HR'). split; auto. split; [congruence|]. splits; auto.
  - (* MHeld: rewind *)
    destruct (R_held_facts _ _ _ HR Hmode) as (Hs & Hcl & Hdata & Hpos & Hle).
    rewrite Hs in H. injection H as <- <- <- <-.
    split; [|split; [auto|]].
    + eapply frame_own; eauto using fseek0_wf.
      intros b Hb. exfalso; eapply obound_seekable; eauto.
    + splits; auto. apply R_held_move; auto. lia.
Qed.
