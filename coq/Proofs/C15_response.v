(* C15 — response side: unset_cookie / set_cookie(overwrite) / delete_cookie / merge_cookies on the header list. *)
From Coq Require Import String.
From Coq Require Import Arith ZArith NArith List Bool Lia ZifyBool ZifyNat ZifyN.
Require Import Webob.Lib.Val Webob.Lib.PyStr Webob.Gen.C15_tables Webob.Model.C15_Scan Webob.Model.C15_CookieJar
               Webob.Spec.C15_JarSpec Webob.Proofs.C15_scan Webob.Proofs.C15_request.
Import ListNotations.
Local Open Scope N_scope.
Local Opaque is_legal.

(* ------------------------------------------------------------------ the name a Set-Cookie line sets *)
Lemma span_ws_concat : forall s, fst (span_ws s) ++ snd (span_ws s) = s.
Proof.
  induction s as [|c s IH]; [reflexivity|]. cbn [span_ws]. destruct (is_ws c); [|reflexivity].
  destruct (span_ws s) as [a r]. cbn [fst snd app] in *. rewrite IH. reflexivity.
Qed.

Lemma span_ws_stops : forall s, no_ws_head (snd (span_ws s)) = true.
Proof.
  induction s as [|c s IH]; [reflexivity|]. cbn [span_ws]. destruct (is_ws c) eqn:E.
  - destruct (span_ws s) as [a r]. exact IH.
  - cbn. rewrite E. reflexivity.
Qed.

Lemma span_ws_all : forall s, forallb is_ws (fst (span_ws s)) = true.
Proof.
  induction s as [|c s IH]; [reflexivity|]. cbn [span_ws]. destruct (is_ws c) eqn:E; [|reflexivity].
  destruct (span_ws s) as [a r]. cbn [fst forallb] in *. rewrite E, IH. reflexivity.
Qed.

Lemma match_key_name : forall n rest, key_ok n = true ->
  match_key (n ++ 61 :: rest) = Some (n, 61 :: fst (span_ws rest), snd (span_ws rest)).
Proof.
  intros n rest Hn.
  replace (61 :: rest) with ((61 :: fst (span_ws rest)) ++ snd (span_ws rest))
    by (cbn [app]; rewrite span_ws_concat; reflexivity).
  apply match_key_app; [exact Hn|].
  apply (eq_sep_app [] (fst (span_ws rest)) (snd (span_ws rest)) eq_refl (span_ws_all rest) (span_ws_stops rest)).
Qed.

Theorem line_name_named : forall n rest, key_ok n = true -> line_name (n ++ 61 :: rest) = Some n.
Proof.
  intros n rest Hn. unfold line_name, scan.
  assert (Hne : n ++ 61 :: rest <> []) by (destruct n; discriminate).
  pose proof (match_key_name n rest Hn) as Hk.
  assert (Hm : exists v r, match_at (n ++ 61 :: rest) = Some (n, 61 :: fst (span_ws rest), v, r)).
  { unfold match_at. rewrite Hk. destruct (match_val (snd (span_ws rest))) as [v r]. exists v, r. reflexivity. }
  destruct Hm as [v [r Hm]]. rewrite (scan_fuel_hit _ _ _ _ _ _ Hne Hm). reflexivity.
Qed.

(* ------------------------------------------------------------------ what make_cookie emits *)
Lemma join_head : forall sep x l, join sep (x :: l) = x ++ match l with [] => [] | _ => sep ++ join sep l end.
Proof. intros sep x [|y l]; cbn [join]; [rewrite app_nil_r|]; reflexivity. Qed.

Lemma morsel_serialize_head : forall m line, morsel_serialize m = Ok line ->
  exists rest, line = m_name m ++ 61 :: rest.
Proof.
  intros m line H. unfold morsel_serialize in H.
  destruct (truthy (m_samesite m)) as [ss|].
  - destruct (negb (m_secure m) && is_none ss); [discriminate|]. destruct (is_ascii ss); [|discriminate].
    inversion H. unfold join_semi.
    cbn [app]. rewrite join_head, <- !app_assoc. cbn [app]. eexists. reflexivity.
  - inversion H. unfold join_semi. cbn [app]. rewrite join_head, <- !app_assoc. cbn [app]. eexists. reflexivity.
Qed.

Lemma valid_res_key_ok : forall n, valid_cookie_name_res n = Ok true -> key_ok n = true /\ valid_cookie_name n = true.
Proof.
  intros n Hv. split; [|unfold valid_cookie_name; rewrite Hv; reflexivity].
  unfold valid_cookie_name_res in Hv. destruct (forallb is_token n) eqn:Ht; cbn [negb] in Hv; [|discriminate].
  destruct n as [|c t]; [discriminate|]. cbn [key_ok]. apply token_all_keych. exact Ht.
Qed.

Section Response.
  Variable enc : text -> option str.
  Hypothesis enc_ascii : forall t, is_ascii t = true -> enc t = Some t.

  Lemma make_cookie_head : forall a value line, make_cookie a value = Ok line ->
    is_ascii (a_name a) = true /\ key_ok (a_name a) = true /\ exists rest, line = a_name a ++ 61 :: rest.
  Proof.
    intros a value line H. unfold make_cookie in H.
    destruct (match value with
              | Some b => match a_max_age a with Some z => (b, Some z, Some (a_date a)) | None => (b, None, None) end
              | None => ([], Some 0%Z, Some delete_expires)
              end) as [[vb ma] ex].
    destruct (is_ascii (a_name a)) eqn:Ha; cbn [negb] in H; [|discriminate].
    destruct (valid_cookie_name_res (a_name a)) as [[|]|e] eqn:Hv; try discriminate.
    destruct (latin1_opt (a_domain a)) as [dom|]; [|discriminate].
    destruct (latin1_opt (a_path a)) as [pth|]; [|discriminate].
    destruct (latin1_opt (a_comment a)) as [com|]; [|discriminate].
    destruct (latin1_opt (a_samesite a)) as [ss|]; [|discriminate].
    destruct (match ss with
              | Some s => if (if a_validate a then negb (samesite_ok s) else negb (forallb is_token s))
                          then Raise ValueError else Ok tt
              | None => Ok tt
              end); [|discriminate].
    split; [reflexivity|]. split; [apply valid_res_key_ok; exact Hv|].
    apply morsel_serialize_head in H. exact H.
  Qed.

  Theorem make_cookie_line_name : forall a value line, make_cookie a value = Ok line ->
    line_name line = Some (a_name a).
  Proof.
    intros a value line H. destruct (make_cookie_head a value line H) as [_ [Hk [rest ->]]].
    apply line_name_named. exact Hk.
  Qed.

  (* ---------------------------------------------------------------- the header list, keyed by cookie name *)
  Definition keyed_of (hl : headerlist) : keyed := map (fun l => (line_name l, l)) (cookie_lines hl).
  Definition other_headers (hl : headerlist) : headerlist := filter (fun kv => negb (is_set_cookie (fst kv))) hl.

  Definition drop_named (bname : str) (hl : headerlist) : headerlist :=
    filter (fun kv => negb (is_set_cookie (fst kv) && sets_name bname (snd kv))) hl.

  Definition keeps (bname : str) (kl : option str * str) : bool :=
    match fst kl with Some k => negb (str_eqb k bname) | None => true end.

  Lemma keeps_sets_name : forall bname v, keeps bname (line_name v, v) = negb (sets_name bname v).
  Proof. intros. unfold keeps, sets_name. cbn [fst]. destruct (line_name v); reflexivity. Qed.

  Lemma keyed_drop : forall bname hl, keyed_of (drop_named bname hl) = keyed_unset bname (keyed_of hl).
  Proof.
    intros bname hl. unfold keyed_of, cookie_lines, drop_named, keyed_unset. fold (keeps bname).
    induction hl as [|[k v] hl IH]; [reflexivity|].
    cbn [filter fst snd]. destruct (is_set_cookie k) eqn:Hk; cbn [andb negb].
    - cbn [map filter]. cbn [fst snd]. rewrite keeps_sets_name. destruct (sets_name bname v); cbn [negb].
      + exact IH.
      + cbn [filter fst]. rewrite Hk. cbn [map snd]. f_equal. exact IH.
    - cbn [filter fst]. rewrite Hk. exact IH.
  Qed.

  Lemma other_drop : forall bname hl, other_headers (drop_named bname hl) = other_headers hl.
  Proof.
    intros bname hl. unfold other_headers, drop_named. induction hl as [|[k v] hl IH]; [reflexivity|].
    cbn [filter fst snd]. destruct (is_set_cookie k) eqn:Hk; cbn [andb negb].
    - destruct (sets_name bname v); cbn [negb filter fst]; rewrite ?Hk; cbn [negb]; exact IH.
    - cbn [filter fst]. rewrite Hk. cbn [negb]. f_equal. exact IH.
  Qed.

  Lemma existsb_keyed : forall bname hl, existsb (sets_name bname) (cookie_lines hl) = keyed_has bname (keyed_of hl).
  Proof.
    intros bname hl. unfold keyed_has, keyed_of. induction (cookie_lines hl) as [|l ls IH]; [reflexivity|].
    cbn [existsb map fst]. rewrite IH. unfold sets_name at 1. destruct (line_name l); reflexivity.
  Qed.

  Lemma drop_absent : forall bname hl, existsb (sets_name bname) (cookie_lines hl) = false -> drop_named bname hl = hl.
  Proof.
    intros bname hl. unfold drop_named, cookie_lines. induction hl as [|[k v] hl IH]; intros H; [reflexivity|].
    cbn [filter fst snd] in *. destruct (is_set_cookie k) eqn:Hk; cbn [andb negb map snd existsb] in *.
    - apply orb_false_iff in H. destruct H as [H1 H2]. rewrite H1. cbn [negb]. f_equal. apply IH. exact H2.
    - f_equal. apply IH. exact H.
  Qed.

  (* unset_cookie: exactly the headers of that cookie go, KeyError exactly when there is none (strict) *)
  Theorem unset_cookie_spec : forall hl name strict bname, enc name = Some bname ->
    fst (unset_cookie enc hl name strict) = drop_named bname hl /\
    snd (unset_cookie enc hl name strict) =
      (if keyed_has bname (keyed_of hl) then Ok tt else if strict then Raise KeyError else Ok tt).
  Proof.
    intros hl name strict bname He. unfold unset_cookie. rewrite <- existsb_keyed.
    destruct (cookie_lines hl) as [|l ls] eqn:Hl.
    - cbn [existsb]. assert (Hd : drop_named bname hl = hl) by (apply drop_absent; rewrite Hl; reflexivity).
      destruct strict; [|split; [symmetry; exact Hd|reflexivity]].
      rewrite He. cbn [existsb fst snd]. split; [symmetry; exact Hd|reflexivity].
    - replace (match strict with
               | true => match enc name with
                         | Some bname0 =>
                             if existsb (sets_name bname0) (l :: ls)
                             then (drop_named bname0 hl, Ok tt)
                             else if strict then (hl, Raise KeyError) else (hl, Ok tt)
                         | None => (hl, Raise UnicodeEncodeError)
                         end
               | false => match enc name with
                          | Some bname0 =>
                              if existsb (sets_name bname0) (l :: ls)
                              then (drop_named bname0 hl, Ok tt)
                              else if strict then (hl, Raise KeyError) else (hl, Ok tt)
                          | None => (hl, Raise UnicodeEncodeError)
                          end
               end) with (match enc name with
                          | Some bname0 =>
                              if existsb (sets_name bname0) (l :: ls)
                              then (drop_named bname0 hl, Ok tt)
                              else if strict then (hl, Raise KeyError) else (hl, Ok tt)
                          | None => (hl, Raise UnicodeEncodeError)
                          end) by (destruct strict; reflexivity).
      rewrite He. destruct (existsb (sets_name bname) (l :: ls)) eqn:Hex; cbn [fst snd].
      + split; reflexivity.
      + assert (Hd : drop_named bname hl = hl) by (apply drop_absent; rewrite Hl; exact Hex).
        destruct strict; cbn [fst snd]; (split; [symmetry; exact Hd|reflexivity]).
  Qed.

  Corollary unset_cookie_keyed : forall hl name strict bname, enc name = Some bname ->
    keyed_of (fst (unset_cookie enc hl name strict)) = keyed_unset bname (keyed_of hl) /\
    other_headers (fst (unset_cookie enc hl name strict)) = other_headers hl.
  Proof.
    intros hl name strict bname He. destruct (unset_cookie_spec hl name strict bname He) as [H _].
    rewrite H. split; [apply keyed_drop|apply other_drop].
  Qed.

  (* set_cookie: one header is appended; with overwrite the headers of that cookie, and only those, go first *)
  Lemma is_set_cookie_key : is_set_cookie set_cookie_key = true.
  Proof. vm_compute. reflexivity. Qed.

  Lemma keyed_snoc : forall hl line, keyed_of (hl ++ [(set_cookie_key, line)]) = keyed_of hl ++ [(line_name line, line)].
  Proof.
    intros hl line. unfold keyed_of, cookie_lines. rewrite filter_app, !map_app. cbn [filter fst].
    rewrite is_set_cookie_key. reflexivity.
  Qed.

  Lemma other_snoc : forall hl line, other_headers (hl ++ [(set_cookie_key, line)]) = other_headers hl.
  Proof.
    intros hl line. unfold other_headers. rewrite filter_app. cbn [filter fst]. rewrite is_set_cookie_key.
    cbn [negb]. apply app_nil_r.
  Qed.

  Theorem set_cookie_spec : forall hl a ov hl', set_cookie enc hl a ov = (hl', Ok tt) ->
    exists line,
      hl' = (if ov then drop_named (a_name a) hl else hl) ++ [(set_cookie_key, line)] /\
      line_name line = Some (a_name a).
  Proof.
    intros hl a ov hl' H. unfold set_cookie in H.
    destruct (match a_value a with
              | Some t => match enc t with Some b => Ok (Some b) | None => Raise UnicodeEncodeError end
              | None => Ok None
              end) as [value|e]; [|discriminate].
    destruct (make_cookie a value) as [line|e] eqn:Hm; [|discriminate].
    destruct (if ov then unset_cookie enc hl (a_name a) false else (hl, Ok tt)) as [hl1 [u|e]] eqn:Hu; [|discriminate].
    inversion H; subst hl'. exists line. split; [|apply (make_cookie_line_name a value line Hm)].
    destruct ov; [|inversion Hu; reflexivity].
    destruct (make_cookie_head a value line Hm) as [Ha _].
    destruct (unset_cookie_spec hl (a_name a) false (a_name a) (enc_ascii _ Ha)) as [H1 _].
    rewrite Hu in H1. cbn [fst] in H1. rewrite H1. reflexivity.
  Qed.

  Corollary set_cookie_keyed : forall hl a ov hl', set_cookie enc hl a ov = (hl', Ok tt) ->
    exists line,
      keyed_of hl' = (if ov then keyed_unset (a_name a) (keyed_of hl) else keyed_of hl) ++ [(Some (a_name a), line)] /\
      other_headers hl' = other_headers hl.
  Proof.
    intros hl a ov hl' H. destruct (set_cookie_spec hl a ov hl' H) as [line [-> Hn]]. exists line.
    rewrite keyed_snoc, other_snoc, Hn. destruct ov; [rewrite keyed_drop, other_drop|]; split; reflexivity.
  Qed.

  (* a refused set_cookie changes nothing: the line is made before the old cookie of that name is removed *)
  Theorem set_cookie_refused : forall hl a ov hl' e, set_cookie enc hl a ov = (hl', Raise e) -> hl' = hl.
  Proof.
    intros hl a ov hl' e H. unfold set_cookie in H.
    destruct (match a_value a with
              | Some t => match enc t with Some b => Ok (Some b) | None => Raise UnicodeEncodeError end
              | None => Ok None
              end) as [value|e']; [|inversion H; reflexivity].
    destruct (make_cookie a value) as [line|e'] eqn:Hm; [|inversion H; reflexivity].
    destruct ov.
    - destruct (make_cookie_head a value line Hm) as [Ha _].
      destruct (unset_cookie_spec hl (a_name a) false (a_name a) (enc_ascii _ Ha)) as [H1 H2].
      destruct (unset_cookie enc hl (a_name a) false) as [hl1 r1]. cbn [fst snd] in H1, H2.
      destruct (keyed_has (a_name a) (keyed_of hl)); subst r1; discriminate.
    - discriminate.
  Qed.

  (* merge_cookies appends this response's Set-Cookie lines to the other response, in order *)
  Lemma cookie_lines_app : forall a b, cookie_lines (a ++ b) = cookie_lines a ++ cookie_lines b.
  Proof. intros. unfold cookie_lines. rewrite filter_app, map_app. reflexivity. Qed.

  Lemma cookie_lines_made : forall ls, cookie_lines (map (fun l => (set_cookie_key, l)) ls) = ls.
  Proof.
    induction ls as [|l ls IH]; [reflexivity|]. unfold cookie_lines in *. cbn [map filter fst].
    rewrite is_set_cookie_key. cbn [map snd]. f_equal. exact IH.
  Qed.

  Lemma other_made : forall ls, other_headers (map (fun l => (set_cookie_key, l)) ls) = [].
  Proof.
    induction ls as [|l ls IH]; [reflexivity|]. unfold other_headers in *. cbn [map filter fst].
    rewrite is_set_cookie_key. exact IH.
  Qed.

  Theorem merge_cookies_spec : forall self other, last_cookie_line self <> Some [] ->
    cookie_lines (merge_cookies self other) = cookie_lines other ++ cookie_lines self /\
    other_headers (merge_cookies self other) = other_headers other.
  Proof.
    intros self other Hne. unfold merge_cookies. unfold last_cookie_line in *.
    destruct (rev (cookie_lines self)) as [|l ls] eqn:Hr.
    - assert (Hs : cookie_lines self = []).
      { rewrite <- (rev_involutive (cookie_lines self)), Hr. reflexivity. }
      rewrite Hs, app_nil_r. split; reflexivity.
    - destruct l as [|c l]; [exfalso; apply Hne; reflexivity|].
      rewrite cookie_lines_app, cookie_lines_made. split; [reflexivity|].
      unfold other_headers. rewrite filter_app. fold (other_headers other).
      fold (other_headers (map (fun l0 => (set_cookie_key, l0)) (cookie_lines self))).
      rewrite other_made. apply app_nil_r.
  Qed.
End Response.

(* ------------------------------------------------------------------ delete_cookie *)
(* the texts below are "; Domain=", "; Path=", "; Max-Age=0", "; expires=Wed, 31-Dec-97 23:59:59 GMT" *)
Definition attr_part (pre : str) (o : option str) : str :=
  match truthy o with Some v => pre ++ path_quote v | None => [] end.
Definition s_domain : str := H "3b20446f6d61696e3d"%string.
Definition s_path : str := H "3b20506174683d"%string.
Definition s_maxage0 : str := H "3b204d61782d4167653d30"%string.
Definition s_expired : str := H "3b20657870697265733d5765642c2033312d4465632d39372032333a35393a353920474d54"%string.

Lemma serialize_delete : forall n pth dom,
  morsel_serialize (mkMorsel n [] pth dom None (Some [48]) (Some delete_expires) false false None) =
  Ok (n ++ [61] ++ attr_part s_domain dom ++ s_maxage0 ++ attr_part s_path pth ++ s_expired).
Proof.
  intros n pth dom.
  assert (Hvp : valued_parts (mkMorsel n [] pth dom None (Some [48]) (Some delete_expires) false false None) =
     match truthy dom with Some v => [H "446f6d61696e3d"%string ++ path_quote v] | None => [] end ++
     [H "4d61782d4167653d30"%string] ++
     match truthy pth with Some v => [H "506174683d"%string ++ path_quote v] | None => [] end).
  { unfold valued_parts.
    let r := eval vm_compute in c_renames in change c_renames with r.
    cbn [flat_map]. unfold morsel_get.
    repeat match goal with |- context [str_eqb ?a ?b] => let r := eval vm_compute in (str_eqb a b) in change (str_eqb a b) with r end.
    cbn [m_path m_domain m_comment m_maxage truthy app].
    destruct (truthy dom), (truthy pth); vm_compute; reflexivity. }
  unfold morsel_serialize. rewrite Hvp. cbn [m_name m_value m_samesite m_secure m_httponly m_expires].
  replace (truthy (Some delete_expires)) with (Some delete_expires) by reflexivity.
  cbn [truthy]. unfold attr_part, join_semi.
  destruct (truthy dom), (truthy pth); cbn [app join]; f_equal; rewrite <- ?app_assoc; f_equal; vm_compute; reflexivity.
Qed.

Section Delete.
  Variable enc : text -> option str.

  Theorem delete_cookie_shape : forall hl name path domain hl',
    delete_cookie enc hl name path domain = (hl', Ok tt) ->
    exists pth dom, latin1_opt path = Ok pth /\ latin1_opt domain = Ok dom /\
      hl' = hl ++ [(set_cookie_key,
                    name ++ [61] ++ attr_part s_domain dom ++ s_maxage0 ++ attr_part s_path pth ++ s_expired)].
  Proof.
    intros hl name path domain hl' H. unfold delete_cookie, set_cookie in H.
    cbn [delete_args a_value] in H.
    destruct (make_cookie (delete_args name path domain) None) as [line|e] eqn:Hm; [|discriminate].
    inversion H; subst hl'. clear H.
    unfold make_cookie in Hm. cbn [delete_args a_name a_value a_max_age a_path a_domain a_comment a_secure a_httponly
                                     a_samesite a_date] in Hm.
    destruct (negb (is_ascii name)); [discriminate|].
    destruct (valid_cookie_name_res name) as [[|]|e]; try discriminate.
    destruct (latin1_opt domain) as [dom|]; [|discriminate].
    destruct (latin1_opt path) as [pth|]; [|discriminate].
    cbn [latin1_opt option_map] in Hm.
    replace (z_to_str 0) with [48] in Hm by reflexivity.
    rewrite serialize_delete in Hm. inversion Hm. exists pth, dom. repeat split; reflexivity.
  Qed.
End Delete.

(* ------------------------------------------------------------------ merge_cookies onto a plain WSGI application *)
Lemma filter_idem : forall (A : Type) (f : A -> bool) l, filter f (filter f l) = filter f l.
Proof.
  intros A f l. induction l as [|x l IH]; [reflexivity|]. cbn [filter]. destruct (f x) eqn:E; [|exact IH].
  cbn [filter]. rewrite E, IH. reflexivity.
Qed.

Lemma filter_neg_nil : forall (A : Type) (f : A -> bool) l, filter (fun x => negb (f x)) (filter f l) = [].
Proof.
  intros A f l. induction l as [|x l IH]; [reflexivity|]. cbn [filter]. destruct (f x) eqn:E; [|exact IH].
  cbn [filter]. rewrite E. exact IH.
Qed.

(* every answer of the wrapped application carries the application's own headers followed by this response's
   Set-Cookie headers, once; the answer is a function of the application's headers alone (no state is kept, and the
   application's own list is not an output of the model: it cannot change) *)
Theorem merge_app_spec : forall self apph, last_cookie_line self <> Some [] ->
  cookie_lines (wrapped_answer (merge_app_headers self) apph) = cookie_lines apph ++ cookie_lines self /\
  other_headers (wrapped_answer (merge_app_headers self) apph) = other_headers apph /\
  exists extra, wrapped_answer (merge_app_headers self) apph = apph ++ extra.
Proof.
  intros self apph Hne. unfold merge_app_headers, wrapped_answer.
  unfold last_cookie_line in *.
  destruct (rev (cookie_lines self)) as [|l ls] eqn:Hr.
  - assert (Hs : cookie_lines self = []).
    { rewrite <- (rev_involutive (cookie_lines self)), Hr. reflexivity. }
    rewrite Hs, app_nil_r. repeat split; try reflexivity. exists []. symmetry. apply app_nil_r.
  - destruct l as [|c l]; [exfalso; apply Hne; reflexivity|].
    repeat split.
    + unfold cookie_lines. rewrite filter_app, map_app, filter_idem. reflexivity.
    + unfold other_headers. rewrite filter_app.
      rewrite (filter_neg_nil _ (fun kv : str * str => is_set_cookie (fst kv)) self). apply app_nil_r.
    + eexists. reflexivity.
Qed.
