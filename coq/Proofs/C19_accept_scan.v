(* C19 — the Accept element scanner (Model/C03_scan.v: take_accept_el / scan_accept):
     * unfolding equations with boolean tests instead of literal patterns;
     * what it returns is always a well-formed element, and the rest is a proper suffix (so fuel is irrelevant);
     * on the canonical text of a well-formed element it returns exactly that element. *)
From Coq Require Import ZArith NArith List Bool Lia ZifyBool ZifyN.
Require Import Webob.Lib.Val Webob.Lib.PyStr Webob.Lib.Rx Webob.Gen.C03_regexes Webob.Model.C03_scan
               Webob.Proofs.C03_scan Webob.Model.C19_acceptstr Webob.Spec.C19_spec Webob.Proofs.C19_quote Webob.Proofs.C19_local
               Webob.Proofs.C19_simple.
Import ListNotations.
Local Open Scope N_scope.

(* ---------- well-formed elements ---------- *)
Definition not_q (n : str) : Prop := (match n with [c] => is_qQ c | _ => false end) = false.
Definition param_ok (nv : str * str) : Prop := token_ok (fst nv) /\ not_q (fst nv) /\ qchar_ok (snd nv).
Definition ext_ok (nv : str * option str) : Prop :=
  token_ok (fst nv) /\ match snd nv with Some v => qchar_ok v | None => True end.
Definition wf_el (e : accept_el) : Prop :=
  exists ty sub, token_ok ty /\ token_ok sub /\
    el_range e = form_media_range (ty ++ 47 :: sub) (el_params e) /\
    Forall param_ok (el_params e) /\ Forall ext_ok (el_exts e) /\ el_q e <= 1000.

Definition ptext (ps : list (str * str)) : str :=
  flat_map (fun nv => 59 :: fst nv ++ 61 :: escape_and_quote (snd nv)) ps.
Lemma form_media_range_eq ts ps : form_media_range ts ps = ts ++ ptext ps.
Proof. reflexivity. Qed.

(* ---------- small scanner facts ---------- *)
Definition nontchar_head (Y : str) : Prop := match Y with [] => True | c :: _ => is_tchar c = false end.
Lemma stop_nontchar Y : stop_ok Y -> nontchar_head Y.
Proof. destruct Y as [|c Y]; [trivial|]. cbn. apply stop_not_tchar. Qed.

Lemma take_token_app it rest : token_ok it -> nontchar_head rest -> take_token (it ++ rest) = Some (it, rest).
Proof.
  intros [Hn Ht] Hr. unfold take_token. rewrite span_app; [|exact Ht|exact Hr].
  destruct it; [contradiction|reflexivity].
Qed.

Lemma skip_ows_head c r : is_ows c = false -> skip_ows (c :: r) = c :: r.
Proof. intros H. unfold skip_ows. cbn [span]. rewrite H. reflexivity. Qed.
Lemma tchar_not_ows c : is_tchar c = true -> is_ows c = false.
Proof. unfold is_tchar, is_ows. cbn [in_ranges]. lia. Qed.
Lemma tchar_qchar c : is_tchar c = true -> is_qpair_char c = true.
Proof. unfold is_tchar, is_qpair_char. cbn [in_ranges]. lia. Qed.
Lemma qdtext_qchar c : is_qdtext c = true -> is_qpair_char c = true.
Proof. unfold is_qdtext, is_qpair_char. cbn [in_ranges]. lia. Qed.
Lemma token_head it : token_ok it -> exists c it', it = c :: it' /\ is_tchar c = true.
Proof. intros [Hn Ht]. destruct it as [|c it']; [contradiction|]. inversion Ht; subst. eauto. Qed.
Lemma skip_ows_token it rest : token_ok it -> skip_ows (it ++ rest) = it ++ rest.
Proof. intros H. destruct (token_head it H) as (c & it' & -> & Hc). cbn [app]. apply skip_ows_head, tchar_not_ows, Hc. Qed.

Lemma escape_and_quote_nonempty v : escape_and_quote v <> [].
Proof.
  destruct v as [|c v]; [discriminate|]. rewrite escape_and_quote_cons by discriminate.
  destruct (rmatch gen_token (escape_bs_dq (c :: v))) eqn:E; [|discriminate].
  apply token_chars in E as [Hne _]. exact Hne.
Qed.

(* ---------- unfolding equations ---------- *)
Lemma take_qbody_dq r : take_qbody (34 :: r) = Some ([34], r).
Proof. reflexivity. Qed.
Lemma take_qbody_bs c r : take_qbody (92 :: c :: r) =
  if is_qpair_char c then match take_qbody r with Some (b, r') => Some (92 :: c :: b, r') | None => None end else None.
Proof. reflexivity. Qed.
Lemma take_qbody_bs_end : take_qbody [92] = None.
Proof. reflexivity. Qed.
Lemma take_qbody_other c r : c <> 34 -> c <> 92 -> take_qbody (c :: r) =
  if is_qdtext c then match take_qbody r with Some (b, r') => Some (c :: b, r') | None => None end else None.
Proof.
  intros H1 H2. split_N c; try reflexivity.
  all: try (contradiction H2; reflexivity); try (contradiction H1; reflexivity).
Qed.

Lemma take_value_eq s : take_value s =
  match take_token s with
  | Some tr => Some tr
  | None => match s with
            | c :: r => if c =? 34 then match take_qbody r with Some (b, r') => Some (34 :: b, r') | None => None end
                        else None
            | [] => None
            end
  end.
Proof.
  unfold take_value. destruct (take_token s); [reflexivity|]. destruct s as [|c r]; [reflexivity|].
  destruct (N.eq_dec c 34) as [->|H]; [reflexivity|].
  replace (c =? 34) with false by (symmetry; apply N.eqb_neq; exact H).
  split_N c; try reflexivity. contradiction H; reflexivity.
Qed.

Definition is_q_name (name : str) : bool := match name with [q] => is_qQ q | _ => false end.

Lemma take_params_eq f s : take_params (S f) s =
  match skip_ows s with
  | c :: r =>
      if c =? 59 then
        match take_token (skip_ows r) with
        | Some (name, c1 :: r') =>
            if c1 =? 61 then
              if is_q_name name then ([], s)
              else match take_value r' with
                   | Some (v, r'') => let '(ps, rest) := take_params f r'' in ((name, v) :: ps, rest)
                   | None => ([], s)
                   end
            else ([], s)
        | _ => ([], s)
        end
      else ([], s)
  | [] => ([], s)
  end.
Proof.
  cbn [take_params]. destruct (skip_ows s) as [|c r]; [reflexivity|].
  destruct (N.eq_dec c 59) as [->|H].
  2:{ replace (c =? 59) with false by (symmetry; apply N.eqb_neq; exact H).
      split_N c; try reflexivity. contradiction H; reflexivity. }
  change (59 =? 59) with true. cbv iota.
  destruct (take_token (skip_ows r)) as [[name r1]|]; [|reflexivity].
  destruct r1 as [|c1 r']; [reflexivity|].
  destruct (N.eq_dec c1 61) as [->|H1]; [reflexivity|].
  replace (c1 =? 61) with false by (symmetry; apply N.eqb_neq; exact H1).
  split_N c1; try reflexivity. contradiction H1; reflexivity.
Qed.

Definition ext_value (r' : str) : option str * str :=
  match r' with
  | c1 :: r2 => if c1 =? 61 then match take_value r2 with Some (v, r3) => (Some v, r3) | None => (None, r') end
                else (None, r')
  | [] => (None, r')
  end.
Lemma take_exts_eq f s : take_exts (S f) s =
  match skip_ows s with
  | c :: r =>
      if c =? 59 then
        match take_token (skip_ows r) with
        | Some (name, r') =>
            let '(v, r'') := ext_value r' in
            let '(es, rest) := take_exts f r'' in ((name, v) :: es, rest)
        | None => ([], s)
        end
      else ([], s)
  | [] => ([], s)
  end.
Proof.
  cbn [take_exts]. destruct (skip_ows s) as [|c r]; [reflexivity|].
  destruct (N.eq_dec c 59) as [->|H].
  2:{ replace (c =? 59) with false by (symmetry; apply N.eqb_neq; exact H).
      split_N c; try reflexivity. contradiction H; reflexivity. }
  change (59 =? 59) with true. cbv iota.
  destruct (take_token (skip_ows r)) as [[name r1]|]; [|reflexivity].
  unfold ext_value. destruct r1 as [|c1 r2]; reflexivity.
Qed.

Definition el_tail (ty sub r1 : str) : option (accept_el * str) :=
  let '(raw_params, r2) := take_params (length r1) r1 in
  let params := map (fun nv => (fst nv, unquote_value (snd nv))) raw_params in
  let ts := ty ++ 47 :: sub in
  match take_weight r2 with
  | Some (q, r3) =>
      let '(raw_exts, r4) := take_exts (length r3) r3 in
      let exts := map (fun nv : str * option str =>
                         (fst nv, match snd nv with
                                  | Some [] => None
                                  | Some v => Some (unquote_value v)
                                  | None => None
                                  end)) raw_exts in
      Some (mkEl (form_media_range ts params) (thousandths q) params exts, r4)
  | None => Some (mkEl (form_media_range ts params) 1000 params [], r2)
  end.
Lemma take_accept_el_eq s : take_accept_el s =
  match take_token s with
  | Some (ty, c :: r) =>
      if c =? 47 then match take_token r with Some (sub, r1) => el_tail ty sub r1 | None => None end
      else None
  | _ => None
  end.
Proof.
  unfold take_accept_el, el_tail. destruct (take_token s) as [[ty r0]|]; [|reflexivity].
  destruct r0 as [|c r]; [reflexivity|].
  destruct (N.eq_dec c 47) as [->|H]; [reflexivity|].
  replace (c =? 47) with false by (symmetry; apply N.eqb_neq; exact H).
  split_N c; try reflexivity. contradiction H; reflexivity.
Qed.

Lemma take_weight_q X : take_weight (59 :: 113 :: 61 :: X) = take_qvalue X.
Proof. reflexivity. Qed.

(* ---------- outputs: suffixes and well-formedness ---------- *)
Definition raw_value_ok (v : str) : Prop :=
  token_ok v \/ exists body, v = 34 :: body ++ [34] /\ qchar_ok body.

Lemma take_qbody_out : forall n s b r, (length s <= n)%nat -> take_qbody s = Some (b, r) ->
  (length r < length s)%nat /\ exists body, b = body ++ [34] /\ qchar_ok body.
Proof.
  induction n as [|n IH]; intros s b r Hn H.
  - destruct s; [discriminate|cbn in Hn; lia].
  - destruct s as [|c s]; [discriminate|].
    destruct (N.eq_dec c 34) as [->|H34].
    { rewrite take_qbody_dq in H. injection H as <- <-. split; [cbn; lia|]. exists []. split; [reflexivity|constructor]. }
    destruct (N.eq_dec c 92) as [->|H92].
    + destruct s as [|c2 s2]; [discriminate|]. rewrite take_qbody_bs in H.
      destruct (is_qpair_char c2) eqn:Eq; [|discriminate].
      destruct (take_qbody s2) as [[b' r']|] eqn:E; [|discriminate]. injection H as <- <-.
      apply IH in E as [Hl (body & -> & Hb)]; [|cbn [length] in *; lia].
      split; [cbn [length] in *; lia|]. exists (92 :: c2 :: body). split; [reflexivity|].
      constructor; [reflexivity|]. constructor; assumption.
    + rewrite take_qbody_other in H by assumption. destruct (is_qdtext c) eqn:Eq; [|discriminate].
      destruct (take_qbody s) as [[b' r']|] eqn:E; [|discriminate]. injection H as <- <-.
      apply IH in E as [Hl (body & -> & Hb)]; [|cbn [length] in *; lia].
      split; [cbn [length] in *; lia|]. exists (c :: body). split; [reflexivity|].
      constructor; [apply qdtext_qchar, Eq|exact Hb].
Qed.

Lemma take_value_out s v r : take_value s = Some (v, r) -> (length r < length s)%nat /\ raw_value_ok v.
Proof.
  rewrite take_value_eq. destruct (take_token s) as [[t r0]|] eqn:Et.
  - intros E; injection E as <- <-. split; [eapply take_token_cons, Et|left; eapply take_token_ok, Et].
  - destruct s as [|c s']; [discriminate|]. destruct (c =? 34) eqn:E34; [|discriminate].
    destruct (take_qbody s') as [[b r']|] eqn:Eb; [|discriminate]. intros E; injection E as <- <-.
    apply (take_qbody_out (length s')) in Eb as [Hl (body & -> & Hb)]; [|lia].
    split; [cbn [length]; lia|]. right. exists body. split; [reflexivity|exact Hb].
Qed.

Lemma D_bs_nohead r : no_bs_head r -> drop_single_bs (92 :: r) = drop_single_bs r.
Proof.
  intros Hn. destruct (no_bs_head_cases r Hn) as [->|(c & X' & -> & Hc)]; [reflexivity|]. apply D_bs_other, Hc.
Qed.
Lemma D_forall (P : N -> Prop) s : Forall P s -> Forall P (drop_single_bs s).
Proof.
  induction 1 as [|c s Hc Hs IH]; [constructor|].
  destruct (N.eq_dec c 92) as [->|Hn].
  - destruct (bs_head_dec s) as [(s' & ->)|Hh].
    + rewrite D_bs_bs. constructor; [exact Hc|exact IH].
    + rewrite D_bs_nohead by exact Hh. exact IH.
  - rewrite D_other by exact Hn. constructor; assumption.
Qed.
Lemma C_forall (P : N -> Prop) : forall n s, (length s <= n)%nat -> Forall P s -> Forall P (collapse_bs s).
Proof.
  induction n as [|n IH]; intros s Hn Hs.
  - destruct s; [constructor|cbn in Hn; lia].
  - destruct s as [|c s]; [constructor|]. inversion Hs as [|? ? Hc Hs']; subst.
    destruct (N.eq_dec c 92) as [->|Hne].
    + destruct (bs_head_dec s) as [(s' & ->)|Hh].
      * rewrite C_bs_bs. constructor; [exact Hc|]. inversion Hs'; subst. apply IH; [cbn [length] in *; lia|assumption].
      * destruct (no_bs_head_cases s Hh) as [->|(c2 & X' & -> & Hc2)]; [rewrite C_bs_nil; exact Hs|].
        rewrite C_bs_other by exact Hc2. constructor; [exact Hc|]. apply IH; [cbn [length] in *; lia|exact Hs'].
    + rewrite C_other by exact Hne. constructor; [exact Hc|]. apply IH; [cbn [length] in *; lia|exact Hs'].
Qed.

Lemma unquote_qchar v : raw_value_ok v -> qchar_ok (unquote_value v).
Proof.
  intros [Ht|(body & -> & Hb)].
  - destruct (token_head v Ht) as (c & v' & -> & Hc). destruct Ht as [_ Ht].
    assert (Hq : is_quoted (c :: v') = false).
    { unfold is_quoted. destruct (N.eq_dec c 34) as [->|Hn]; [discriminate|].
      split_N c; try reflexivity. contradiction Hn; reflexivity. }
    unfold unquote_value. rewrite Hq. eapply Forall_impl; [|exact Ht]. apply tchar_qchar.
  - unfold unquote_value. rewrite is_quoted_quoted. unfold process_quoted. rewrite strip_ends_quoted.
    apply (C_forall _ (length (drop_single_bs body))); [lia|]. apply D_forall, Hb.
Qed.

Definition raw_param_ok (nv : str * str) : Prop := token_ok (fst nv) /\ not_q (fst nv) /\ raw_value_ok (snd nv).
Lemma take_params_out : forall f s ps r, take_params f s = (ps, r) ->
  (length r <= length s)%nat /\ Forall raw_param_ok ps.
Proof.
  induction f as [|f IH]; intros s ps r H.
  - injection H as <- <-. split; [lia|constructor].
  - rewrite take_params_eq in H. pose proof (skip_ows_len s) as L0.
    destruct (skip_ows s) as [|c r0]; [injection H as <- <-; split; [lia|constructor]|].
    destruct (c =? 59); [|injection H as <- <-; split; [lia|constructor]].
    pose proof (skip_ows_len r0) as L1.
    destruct (take_token (skip_ows r0)) as [[name r1]|] eqn:Et; [|injection H as <- <-; split; [lia|constructor]].
    destruct r1 as [|c1 r']; [injection H as <- <-; split; [lia|constructor]|].
    destruct (c1 =? 61); [|injection H as <- <-; split; [lia|constructor]].
    destruct (is_q_name name) eqn:Eq; [injection H as <- <-; split; [lia|constructor]|].
    destruct (take_value r') as [[v r'']|] eqn:Ev; [|injection H as <- <-; split; [lia|constructor]].
    destruct (take_params f r'') as [ps' rest] eqn:Ep. injection H as <- <-.
    apply IH in Ep as [Lp Hp]. apply take_value_out in Ev as [Lv Hv].
    pose proof (take_token_cons _ _ _ Et) as Lt. apply take_token_ok in Et.
    split; [cbn [length] in *; lia|]. constructor; [|exact Hp]. split; [exact Et|]. split; [exact Eq|exact Hv].
Qed.

Definition raw_ext_ok (nv : str * option str) : Prop :=
  token_ok (fst nv) /\ match snd nv with Some v => raw_value_ok v | None => True end.
Lemma ext_value_out r' v r'' : ext_value r' = (v, r'') ->
  (length r'' <= length r')%nat /\ match v with Some v => raw_value_ok v | None => True end.
Proof.
  unfold ext_value. destruct r' as [|c1 r2]; [intros E; injection E as <- <-; split; [lia|exact I]|].
  destruct (c1 =? 61); [|intros E; injection E as <- <-; split; [lia|exact I]].
  destruct (take_value r2) as [[v0 r3]|] eqn:Ev; intros E; injection E as <- <-; [|split; [lia|exact I]].
  apply take_value_out in Ev as [L Hv]. split; [cbn [length]; lia|exact Hv].
Qed.
Lemma take_exts_out : forall f s es r, take_exts f s = (es, r) ->
  (length r <= length s)%nat /\ Forall raw_ext_ok es.
Proof.
  induction f as [|f IH]; intros s es r H.
  - injection H as <- <-. split; [lia|constructor].
  - rewrite take_exts_eq in H. pose proof (skip_ows_len s) as L0.
    destruct (skip_ows s) as [|c r0]; [injection H as <- <-; split; [lia|constructor]|].
    destruct (c =? 59); [|injection H as <- <-; split; [lia|constructor]].
    pose proof (skip_ows_len r0) as L1.
    destruct (take_token (skip_ows r0)) as [[name r1]|] eqn:Et; [|injection H as <- <-; split; [lia|constructor]].
    destruct (ext_value r1) as [v r''] eqn:Ev. destruct (take_exts f r'') as [es' rest] eqn:Ee.
    injection H as <- <-. apply IH in Ee as [Le He]. apply ext_value_out in Ev as [Lv Hv].
    pose proof (take_token_cons _ _ _ Et) as Lt. apply take_token_ok in Et.
    split; [cbn [length] in *; lia|]. constructor; [|exact He]. split; assumption.
Qed.

Lemma el_tail_out ty sub r1 e r : token_ok ty -> token_ok sub -> el_tail ty sub r1 = Some (e, r) ->
  wf_el e /\ (length r <= length r1)%nat.
Proof.
  intros Hty Hsub. unfold el_tail. destruct (take_params (length r1) r1) as [raw r2] eqn:Ep.
  apply take_params_out in Ep as [Lp Hp].
  assert (Hps : Forall param_ok (map (fun nv : str * str => (fst nv, unquote_value (snd nv))) raw)).
  { apply Forall_forall. intros x Hx. apply in_map_iff in Hx as (nv & <- & Hin).
    rewrite Forall_forall in Hp. destruct (Hp nv Hin) as (H1 & H2 & H3).
    split; [exact H1|]. split; [exact H2|]. apply unquote_qchar, H3. }
  destruct (take_weight r2) as [[q r3]|] eqn:Ew.
  - destruct (take_exts (length r3) r3) as [rawx r4] eqn:Ee. intros E; injection E as <- <-.
    apply take_exts_out in Ee as [Le He]. apply take_weight_split in Ew as [Lw Hq].
    split; [|lia]. exists ty, sub. cbn [el_range el_params el_exts el_q].
    split; [exact Hty|]. split; [exact Hsub|]. split; [reflexivity|]. split; [exact Hps|].
    split; [|apply thousandths_bound, Hq].
    apply Forall_forall. intros x Hx. apply in_map_iff in Hx as (nv & <- & Hin).
    rewrite Forall_forall in He. destruct (He nv Hin) as (H1 & H2). split; [exact H1|]. cbn [snd].
    destruct (snd nv) as [v|]; [|exact I]. destruct v as [|c v]; [exact I|]. apply unquote_qchar, H2.
  - intros E; injection E as <- <-. split; [|lia]. exists ty, sub. cbn [el_range el_params el_exts el_q].
    split; [exact Hty|]. split; [exact Hsub|]. split; [reflexivity|]. split; [exact Hps|].
    split; [constructor|lia].
Qed.

Theorem take_accept_el_out s e r : take_accept_el s = Some (e, r) -> wf_el e /\ (length r < length s)%nat.
Proof.
  rewrite take_accept_el_eq. destruct (take_token s) as [[ty r0]|] eqn:Et; [|discriminate].
  destruct r0 as [|c r1]; [discriminate|]. destruct (c =? 47); [|discriminate].
  destruct (take_token r1) as [[sub r2]|] eqn:Es; [|discriminate]. intros H.
  pose proof (take_token_cons _ _ _ Et) as L1. pose proof (take_token_cons _ _ _ Es) as L2.
  apply el_tail_out in H as [Hwf L3]; [|eapply take_token_ok; eauto|eapply take_token_ok; eauto].
  split; [exact Hwf|]. cbn [length] in *. lia.
Qed.

(* ---------- fuel is irrelevant ---------- *)
Lemma scanA_step f c s : scan_accept (S f) (c :: s) =
  match take_accept_el (c :: s) with Some (e, r) => e :: scan_accept f r | None => scan_accept f s end.
Proof. reflexivity. Qed.

Lemma scanA_fuel : forall n s f1 f2, (length s <= n)%nat -> (length s < f1)%nat -> (length s < f2)%nat ->
  scan_accept f1 s = scan_accept f2 s.
Proof.
  induction n as [|n IH]; intros s f1 f2 Hn H1 H2.
  - destruct s; [|cbn in Hn; lia]. destruct f1, f2; reflexivity.
  - destruct f1 as [|f1]; [lia|]. destruct f2 as [|f2]; [lia|]. destruct s as [|c s']; [reflexivity|].
    rewrite !scanA_step. destruct (take_accept_el (c :: s')) as [[e r]|] eqn:E.
    + apply take_accept_el_out in E as [_ L]. f_equal. apply IH; cbn [length] in *; lia.
    + apply IH; cbn [length] in *; lia.
Qed.

(* scanA : Spec/C19_spec.v *)
Lemma scanA_nil : scanA [] = []. Proof. reflexivity. Qed.
Lemma scanA_hit s e r : take_accept_el s = Some (e, r) -> scanA s = e :: scanA r.
Proof.
  intros H. pose proof (take_accept_el_out _ _ _ H) as [_ L]. unfold scanA.
  destruct s as [|c s']; [cbn in L; lia|]. change (length (c :: s')) with (S (length s')).
  rewrite scanA_step, H. f_equal. apply scanA_fuel with (n := length r); cbn [length] in *; lia.
Qed.
Lemma scanA_miss c s : take_accept_el (c :: s) = None -> scanA (c :: s) = scanA s.
Proof. intros H. unfold scanA. change (length (c :: s)) with (S (length s)). rewrite scanA_step, H. reflexivity. Qed.
Lemma take_el_nontoken c s : is_tchar c = false -> take_accept_el (c :: s) = None.
Proof. intros H. rewrite take_accept_el_eq. unfold take_token. cbn [span]. rewrite H. reflexivity. Qed.
Lemma scanA_comma s : scanA (44 :: s) = scanA s.
Proof. apply scanA_miss, take_el_nontoken. reflexivity. Qed.
Lemma scanA_space s : scanA (32 :: s) = scanA s.
Proof. apply scanA_miss, take_el_nontoken. reflexivity. Qed.

(* every element the parser returns is well formed *)
Lemma scanA_wf : forall f s, Forall wf_el (scan_accept f s).
Proof.
  induction f as [|f IH]; intros s; [constructor|]. destruct s as [|c s']; [constructor|].
  rewrite scanA_step. destruct (take_accept_el (c :: s')) as [[e r]|] eqn:E; [|apply IH].
  apply take_accept_el_out in E as [Hw _]. constructor; [exact Hw|apply IH].
Qed.

(* ---------- the canonical text of a well-formed element scans back to it ---------- *)
Definition rest_ok (R : str) : Prop := R = [] \/ exists t, R = 44 :: t.
Definition after_params (X : str) : Prop :=
  X = [] \/ (exists t, X = 44 :: t) \/ (exists W, X = 59 :: 113 :: 61 :: W).
Lemma rest_ok_stop R : rest_ok R -> stop_ok R.
Proof. intros [->|(t & ->)]; [exact I|reflexivity]. Qed.
Lemma after_params_stop X : after_params X -> stop_ok X.
Proof. intros [->|[(t & ->)|(W & ->)]]; [exact I|reflexivity|reflexivity]. Qed.

Lemma ptext_stop ps X : stop_ok X -> stop_ok (ptext ps ++ X).
Proof. intros H. destruct ps as [|nv ps]; [exact H|reflexivity]. Qed.
Lemma ptext_len ps : (length ps <= length (ptext ps))%nat.
Proof.
  induction ps as [|nv ps IH]; [cbn; lia|]. unfold ptext in *. cbn [flat_map length]. rewrite app_length. cbn [length]. lia.
Qed.

Lemma take_params_nil f X : after_params X -> take_params f X = ([], X).
Proof.
  intros H. destruct f as [|f]; [reflexivity|]. rewrite take_params_eq.
  destruct H as [->|[(t & ->)|(W & ->)]]; reflexivity.
Qed.

Lemma take_params_canon : forall ps f X, Forall param_ok ps -> (length ps <= f)%nat -> after_params X ->
  take_params f (ptext ps ++ X) = (map (fun nv => (fst nv, escape_and_quote (snd nv))) ps, X).
Proof.
  induction ps as [|[n v] ps IH]; intros f X Hps Hf HX.
  - apply take_params_nil, HX.
  - inversion Hps as [|? ? (Hn & Hq & Hv) Hps']; subst. cbn [fst snd] in *.
    destruct f as [|f]; [cbn in Hf; lia|]. rewrite take_params_eq.
    unfold ptext. cbn [flat_map fst snd]. fold (ptext ps). rewrite <- !app_assoc. cbn [app].
    rewrite skip_ows_head by reflexivity. change (59 =? 59) with true. cbv iota.
    rewrite <- app_assoc. rewrite skip_ows_token by exact Hn.
    rewrite take_token_app; [|exact Hn|reflexivity]. cbn [app]. change (61 =? 61) with true. cbv iota.
    unfold not_q in Hq. fold (is_q_name n) in Hq. rewrite Hq.
    rewrite take_value_quote; [|exact Hv|apply ptext_stop, after_params_stop, HX].
    rewrite IH; [reflexivity|exact Hps'|cbn in Hf; lia|exact HX].
Qed.

Lemma ext_seg_cons n ov xs : form_ext_segment ((n, ov) :: xs) =
  59 :: (match ov with None => n | Some v => n ++ 61 :: escape_and_quote v end) ++ form_ext_segment xs.
Proof. reflexivity. Qed.
Lemma ext_seg_stop xs R : stop_ok R -> stop_ok (form_ext_segment xs ++ R).
Proof. intros H. destruct xs as [|[n ov] xs]; [exact H|reflexivity]. Qed.
Lemma ext_seg_len xs : (length xs <= length (form_ext_segment xs))%nat.
Proof.
  induction xs as [|[n ov] xs IH]; [cbn; lia|]. rewrite ext_seg_cons. cbn [length]. rewrite app_length. lia.
Qed.

Definition raw_ext (nv : str * option str) : str * option str := (fst nv, option_map escape_and_quote (snd nv)).

Lemma take_exts_nil f R : rest_ok R -> take_exts f R = ([], R).
Proof.
  intros H. destruct f as [|f]; [reflexivity|]. rewrite take_exts_eq. destruct H as [->|(t & ->)]; reflexivity.
Qed.

Lemma ext_value_not_eq Y : stop_ok Y -> ext_value Y = (None, Y).
Proof.
  intros H. unfold ext_value. destruct Y as [|c Y']; [reflexivity|]. cbn in H.
  destruct (stop_cases c H) as [->|[->|[->| ->]]]; reflexivity.
Qed.

Lemma take_exts_canon : forall xs f R, Forall ext_ok xs -> (length xs <= f)%nat -> rest_ok R ->
  take_exts f (form_ext_segment xs ++ R) = (map raw_ext xs, R).
Proof.
  induction xs as [|[n ov] xs IH]; intros f R Hxs Hf HR.
  - apply take_exts_nil, HR.
  - inversion Hxs as [|? ? (Hn & Hv) Hxs']; subst. cbn [fst snd] in *.
    destruct f as [|f]; [cbn in Hf; lia|]. rewrite take_exts_eq. rewrite ext_seg_cons. cbn [app].
    rewrite skip_ows_head by reflexivity. change (59 =? 59) with true. cbv iota.
    assert (HY : stop_ok (form_ext_segment xs ++ R)) by (apply ext_seg_stop, rest_ok_stop, HR).
    destruct ov as [v|].
    + rewrite <- !app_assoc. rewrite skip_ows_token by exact Hn.
      rewrite take_token_app; [|exact Hn|reflexivity]. cbn [app].
      unfold ext_value. change (61 =? 61) with true. cbv iota.
      rewrite take_value_quote; [|exact Hv|exact HY].
      rewrite IH; [reflexivity|exact Hxs'|cbn in Hf; lia|exact HR].
    + rewrite <- app_assoc. rewrite skip_ows_token by exact Hn.
      rewrite take_token_app; [|exact Hn|apply stop_nontchar, HY].
      rewrite ext_value_not_eq by exact HY.
      rewrite IH; [reflexivity|exact Hxs'|cbn in Hf; lia|exact HR].
Qed.

(* the weight text written by __str__ *)
Definition wq (q : N) : str := if q =? 1000 then [49] else wtext q.
Lemma wq_facts q : q <= 1000 -> qtext_ok (wq q) /\ thousandths (wq q) = q.
Proof.
  intros H. unfold wq. destruct (q =? 1000) eqn:E.
  - apply N.eqb_eq in E as ->. split; [right; left; reflexivity|reflexivity].
  - apply N.eqb_neq in E. destruct (wtext_facts q) as (H1 & H2 & _); [lia|]. split; assumption.
Qed.

Lemma take_qvalue_stop t rest : qtext_ok t -> stop_ok rest -> take_qvalue (t ++ rest) = Some (t, rest).
Proof.
  intros Ht Hr.
  assert (Hd : match rest with [] => True | c :: _ => is_digit c = false end).
  { destruct rest as [|c r]; [exact I|]. cbn in Hr. destruct (stop_cases c Hr) as [->|[->|[->| ->]]]; reflexivity. }
  assert (Hz : match rest with [] => True | c :: _ => (c =? 48) = false end).
  { destruct rest as [|c r]; [exact I|]. cbn in Hr. destruct (stop_cases c Hr) as [->|[->|[->| ->]]]; reflexivity. }
  destruct Ht as [->|[->|[(ds & -> & Hl & Hds)|(ds & -> & Hl & Hds)]]].
  - cbn [app]. destruct rest as [|c r]; [reflexivity|]. apply take_qvalue_0_other.
    cbn in Hr. destruct (stop_cases c Hr) as [->|[->|[->| ->]]]; discriminate.
  - cbn [app]. destruct rest as [|c r]; [reflexivity|]. apply take_qvalue_1_other.
    cbn in Hr. destruct (stop_cases c Hr) as [->|[->|[->| ->]]]; discriminate.
  - cbn [app take_qvalue]. rewrite span_upto_app; auto.
  - cbn [app take_qvalue]. rewrite span_upto_app; auto.
    eapply Forall_impl; [|exact Hds]. intros c ->. reflexivity.
Qed.

Lemma take_weight_rest R : rest_ok R -> take_weight R = None.
Proof. intros [->|(t & ->)]; reflexivity. Qed.

Lemma accept_el_text_eq e : el_q e <= 1000 ->
  accept_el_text e =
  if (el_q e =? 1000) && is_nil (form_ext_segment (el_exts e)) then el_range e
  else el_range e ++ semi_q_eq ++ wq (el_q e) ++ form_ext_segment (el_exts e).
Proof.
  intros H. unfold accept_el_text, accept_element, q_is, wq, wtext. cbn [q_thousandths qtext].
  destruct (el_q e =? 1000) eqn:E1; cbn [andb].
  - destruct (is_nil (form_ext_segment (el_exts e))); reflexivity.
  - destruct (el_q e =? 0); reflexivity.
Qed.

Lemma map_unquote_params ps :
  map (fun nv : str * str => (fst nv, unquote_value (snd nv)))
      (map (fun nv : str * str => (fst nv, escape_and_quote (snd nv))) ps) = ps.
Proof.
  induction ps as [|[n v] ps IH]; [reflexivity|]. cbn [map fst snd]. rewrite quote_inverse, IH. reflexivity.
Qed.
Lemma map_unquote_exts xs :
  map (fun nv : str * option str =>
         (fst nv, match snd nv with Some [] => None | Some v => Some (unquote_value v) | None => None end))
      (map raw_ext xs) = xs.
Proof.
  induction xs as [|[n ov] xs IH]; [reflexivity|]. cbn [map fst snd raw_ext]. rewrite IH. f_equal.
  destruct ov as [v|]; [|reflexivity]. cbn [option_map].
  pose proof (escape_and_quote_nonempty v) as Hne. destruct (escape_and_quote v) as [|c r] eqn:E; [contradiction|].
  rewrite <- E, quote_inverse. reflexivity.
Qed.

Theorem take_el_canon e R : wf_el e -> rest_ok R -> take_accept_el (accept_el_text e ++ R) = Some (e, R).
Proof.
  intros (ty & sub & Hty & Hsub & Hmr & Hps & Hxs & Hq) HR. destruct e as [mr q ps xs].
  cbn [el_range el_params el_exts el_q] in *. rewrite accept_el_text_eq by exact Hq.
  cbn [el_range el_params el_exts el_q]. subst mr. rewrite form_media_range_eq.
  destruct ((q =? 1000) && is_nil (form_ext_segment xs)) eqn:Ez.
  - apply andb_true_iff in Ez as [E1 E2]. apply N.eqb_eq in E1 as ->.
    assert (xs = []) as ->.
    { destruct xs as [|[n ov] xs']; [reflexivity|]. rewrite ext_seg_cons in E2. discriminate. }
    assert (HZ : after_params R) by (destruct HR as [->|(t & ->)]; [left; reflexivity|right; left; eauto]).
    rewrite <- !app_assoc. cbn [app].
    rewrite take_accept_el_eq. rewrite take_token_app; [|exact Hty|reflexivity].
    change (47 =? 47) with true. cbv iota.
    rewrite take_token_app; [|exact Hsub|apply stop_nontchar, ptext_stop, after_params_stop, HZ].
    unfold el_tail.
    rewrite take_params_canon; [|exact Hps|rewrite app_length; pose proof (ptext_len ps); lia|exact HZ].
    rewrite map_unquote_params. rewrite take_weight_rest by exact HR.
    rewrite form_media_range_eq, <- app_assoc. reflexivity.
  - rewrite <- !app_assoc. cbn [app]. unfold semi_q_eq. cbn [app].
    assert (HZ : after_params (59 :: 113 :: 61 :: wq q ++ form_ext_segment xs ++ R)) by (right; right; eauto).
    rewrite take_accept_el_eq. rewrite take_token_app; [|exact Hty|reflexivity].
    change (47 =? 47) with true. cbv iota.
    rewrite take_token_app; [|exact Hsub|apply stop_nontchar, ptext_stop, after_params_stop, HZ].
    unfold el_tail.
    rewrite take_params_canon; [|exact Hps|rewrite app_length; pose proof (ptext_len ps); lia|exact HZ].
    rewrite map_unquote_params. rewrite take_weight_q.
    destruct (wq_facts q Hq) as [Hqt Hqv].
    rewrite take_qvalue_stop; [|exact Hqt|apply ext_seg_stop, rest_ok_stop, HR].
    rewrite take_exts_canon; [|exact Hxs|rewrite app_length; pose proof (ext_seg_len xs); lia|exact HR].
    rewrite map_unquote_exts, Hqv. rewrite form_media_range_eq, <- app_assoc. reflexivity.
Qed.
