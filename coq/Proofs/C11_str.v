(* C11 — proofs about the written form of a matcher (Model/C11_str.v): str -> parse round trip,
   against the scanner model instantiated with the REGENERATED list pattern (through scan_render /
   matcher_parse_list / getter_list of Proofs/C11_etag.v). *)
From Coq Require Import NArith ZArith List Bool Lia ZifyBool ZifyN.
Require Import Webob.Lib.Val Webob.Lib.PyStr Webob.Lib.Rx Webob.Gen.C11_rx Webob.Model.C11_etag
               Webob.Model.C11_str Webob.Spec.C11_taglist Webob.Proofs.C11_etag.
Import ListNotations.
Local Open Scope N_scope.

(* ------------------------------------------------------------------ the legal alphabet
   RFC 7232 2.3: etagc = %x21 / %x23-7E / obs-text (%x80-FF).  Excluded: CTLs, SP, DQUOTE (%x22), DEL. *)
Definition etagc (c : N) : Prop := c = 33 \/ (35 <= c /\ c <= 126) \/ (128 <= c /\ c <= 255).
Definition etagc_tag (t : str) : Prop := Forall etagc t.

Lemma etagc_tag_ok : forall t, etagc_tag t -> tag_ok t.
Proof.
  intros t Ht Hin. unfold etagc_tag in Ht. rewrite Forall_forall in Ht.
  specialize (Ht _ Hin). unfold etagc in Ht. lia.
Qed.

Lemma etagc_no_crlf : forall t, etagc_tag t -> no_crlf t.
Proof.
  intros t Ht. unfold etagc_tag in Ht. rewrite Forall_forall in Ht.
  split; intros Hin; specialize (Ht _ Hin); unfold etagc in Ht; lia.
Qed.

Lemma etagc_tags_ok : forall l, Forall etagc_tag l -> Forall tag_ok l.
Proof. intros l H. eapply Forall_impl; [| exact H]. exact etagc_tag_ok. Qed.

(* ------------------------------------------------------------------ str(ETagMatcher(l)) is a well-formed list *)
Definition as_rest (l : list str) : list (str * wtag) := map (fun t => (COMMA_SP, (false, t))) l.

Lemma join_cons2 : forall sep x y (l : list str), join sep (x :: y :: l) = x ++ sep ++ join sep (y :: l).
Proof. reflexivity. Qed.

Lemma quote1_render : forall t, quote1 t = render_tag (false, t).
Proof. reflexivity. Qed.

Lemma join_render : forall l t,
  join COMMA_SP (map quote1 (t :: l)) = render [] (false, t) (as_rest l) [].
Proof.
  induction l as [|u l IH]; intros t.
  - unfold render. cbn [map join as_rest render_rest app]. rewrite app_nil_r. apply quote1_render.
  - cbn [map]. rewrite join_cons2. change (quote1 u :: map quote1 l) with (map quote1 (u :: l)).
    rewrite IH. unfold render. cbn [as_rest map render_rest app]. fold (as_rest l).
    rewrite !app_nil_r. rewrite quote1_render. reflexivity.
Qed.

Lemma comma_sp_separator : separator COMMA_SP.
Proof.
  split.
  - apply Forall_cons; [right; right; reflexivity |]. apply Forall_cons; [left; reflexivity | apply Forall_nil].
  - left. reflexivity.
Qed.

Lemma tags_of_as_rest : forall t l, tags_of (false, t) (as_rest l) = map (pair false) (t :: l).
Proof.
  intros t l. unfold tags_of, as_rest. cbn [map]. f_equal. rewrite map_map. reflexivity.
Qed.

Lemma wf_as_rest : forall t l, Forall tag_ok (t :: l) -> wf_list [] (false, t) (as_rest l) [].
Proof.
  intros t l Hok. unfold wf_list, filler.
  split; [apply Forall_nil |]. split; [apply Forall_nil |]. split.
  - unfold as_rest. rewrite Forall_map. rewrite Forall_forall. intros x _. exact comma_sp_separator.
  - rewrite tags_of_as_rest. rewrite Forall_map. exact Hok.
Qed.

Lemma strong_all_false : forall l : list str, strong_tags (map (pair false) l) = l.
Proof.
  unfold strong_tags. induction l as [|t l IH]; [reflexivity |].
  cbn [map filter fst negb snd]. f_equal. exact IH.
Qed.

Lemma all_all_false : forall l : list str, all_tags (map (pair false) l) = l.
Proof. unfold all_tags. intros l. rewrite map_map. cbn [snd]. apply map_id. Qed.

(* ------------------------------------------------------------------ ETagMatcher.parse(str(m)) = m *)
Theorem matcher_str_parse : forall strong l,
  Forall tag_ok l -> matcher_parse strong (matcher_str (MTags l)) = MTags l.
Proof.
  intros strong [|t l] Hok.
  - destruct strong; reflexivity.
  - cbn [matcher_str]. rewrite join_render.
    rewrite (matcher_parse_list strong _ _ _ _ (wf_as_rest t l Hok)).
    rewrite tags_of_as_rest. destruct strong; f_equal; [apply strong_all_false | apply all_all_false].
Qed.

Definition matcher_ok (m : matcher) : Prop :=
  match m with MTags l => Forall tag_ok l | _ => True end.

(* for every matcher (AnyETag -> "*" -> AnyETag; NoETag -> "" -> ETagMatcher([])): membership is kept *)
Theorem matcher_str_contains : forall strong m p,
  matcher_ok m -> contains (matcher_parse strong (matcher_str m)) p = contains m p.
Proof.
  intros strong [| |l] p Hok.
  - reflexivity.
  - destruct strong, p; reflexivity.
  - rewrite (matcher_str_parse strong l Hok). reflexivity.
Qed.

Theorem matcher_str_in : forall strong l t,
  Forall tag_ok l ->
  (contains (matcher_parse strong (matcher_str (MTags l))) (Some t) = true <-> In t l).
Proof.
  intros strong l t Hok. rewrite (matcher_str_parse strong l Hok). cbn [contains]. apply existsb_str_eqb.
Qed.

(* ------------------------------------------------------------------ through the request attribute:
   req.if_match = m ; req.if_match   (etag_property.fset then .fget) *)
Theorem getter_after_set : forall default strong t l,
  Forall tag_ok (t :: l) ->
  etag_getter default strong (etag_fset (SVMatcher (MTags (t :: l)))) = MTags (t :: l).
Proof.
  intros default strong t l Hok. cbn [etag_fset matcher_str]. rewrite join_render.
  rewrite (getter_list default strong _ _ _ _ (wf_as_rest t l Hok)).
  rewrite tags_of_as_rest. destruct strong; f_equal; [apply strong_all_false | apply all_all_false].
Qed.

Theorem inm_set_get : forall m p,
  matcher_ok m -> contains (if_none_match (etag_fset (SVMatcher m))) p = contains m p.
Proof.
  intros [| |[|t l]] p Hok.
  - reflexivity.
  - reflexivity.
  - destruct p; reflexivity.
  - unfold if_none_match. rewrite (getter_after_set MNo false t l Hok). reflexivity.
Qed.

Theorem im_set_get : forall m p,
  matcher_ok m -> m <> MNo -> m <> MTags [] ->
  contains (if_match (etag_fset (SVMatcher m))) p = contains m p.
Proof.
  intros [| |[|t l]] p Hok Hno Hne.
  - reflexivity.
  - congruence.
  - congruence.
  - unfold if_match. rewrite (getter_after_set MAny true t l Hok). reflexivity.
Qed.

(* the two excluded matchers really are exceptions: they are written as the empty string, and the
   If-Match getter reads an empty header as "absent" = AnyETag *)
Theorem im_set_get_empty_refuted : exists m p,
  matcher_ok m /\ contains m p = false /\ contains (if_match (etag_fset (SVMatcher m))) p = true.
Proof. exists (MTags []), (Some [97]). split; [apply Forall_nil | split; reflexivity]. Qed.

Theorem im_set_get_noetag_refuted : exists p,
  contains MNo p = false /\ contains (if_match (etag_fset (SVMatcher MNo))) p = true.
Proof. exists (Some [97]). split; reflexivity. Qed.

(* DQUOTE must be excluded: __str__ does not escape it, and the list pattern ends the tag there.
   (DQUOTE is outside etagc: this is no legal tag.) *)
Theorem matcher_str_dq_refuted : exists l t,
  In t l /\ contains (matcher_parse true (matcher_str (MTags l))) (Some t) = false.
Proof. exists [[97; 34; 98]], [97; 34; 98]. split; [left; reflexivity | vm_compute; reflexivity]. Qed.

(* ------------------------------------------------------------------ on the legal alphabet *)
Theorem matcher_str_parse_etagc : forall strong l,
  Forall etagc_tag l ->
  matcher_parse strong (matcher_str (MTags l)) = MTags l /\
  (forall t, contains (matcher_parse strong (matcher_str (MTags l))) (Some t) = true <-> In t l).
Proof.
  intros strong l Hl. pose proof (etagc_tags_ok l Hl) as Hok. split.
  - exact (matcher_str_parse strong l Hok).
  - intros t. exact (matcher_str_in strong l t Hok).
Qed.

(* ------------------------------------------------------------------ serialize_etag_response -> parse_etag_response *)
Theorem ser_parse_id : forall a,
  tag_ok (arg_value a) -> no_crlf (arg_value a) ->
  serialize_etag_response a = render_tag (negb (arg_strong a), arg_value a) /\
  parse_etag_response false (Some (serialize_etag_response a)) = Some (arg_value a) /\
  parse_etag_response true (Some (serialize_etag_response a)) =
    (if arg_strong a then Some (arg_value a) else None).
Proof.
  intros a Hok Hcr. destruct (etag_response_roundtrip a Hok Hcr) as [Hset [Hg Hgs]].
  assert (Hs : serialize_etag_response a = render_tag (negb (arg_strong a), arg_value a)).
  { unfold set_etag in Hset.
    destruct (existsb (fun c => (c =? 10) || (c =? 13)) (serialize_etag_response a)); [discriminate |].
    injection Hset as Hset. exact Hset. }
  rewrite Hs. split; [reflexivity |]. split; [exact Hg | exact Hgs].
Qed.

Theorem ser_parse_id_etagc : forall a,
  etagc_tag (arg_value a) ->
  set_etag a = Some (serialize_etag_response a) /\
  parse_etag_response false (Some (serialize_etag_response a)) = Some (arg_value a) /\
  parse_etag_response true (Some (serialize_etag_response a)) =
    (if arg_strong a then Some (arg_value a) else None).
Proof.
  intros a Ht. pose proof (etagc_tag_ok _ Ht) as Hok. pose proof (etagc_no_crlf _ Ht) as Hcr.
  destruct (ser_parse_id a Hok Hcr) as [Hs [Hp Hps]].
  destruct (etag_response_roundtrip a Hok Hcr) as [Hset _].
  split; [rewrite Hs; exact Hset |]. split; [exact Hp | exact Hps].
Qed.

(* a bare string that already looks like an entity-tag is stored as it is and read back WITHOUT its
   quotes (descriptors.py: "this is a valid etag already"); it contains DQUOTE, so it is outside etagc *)
Theorem ser_parse_dq_refuted : exists v,
  parse_etag_response false (Some (serialize_etag_response (EStr v))) <> Some v.
Proof. exists [34; 97; 34]. vm_compute. discriminate. Qed.
