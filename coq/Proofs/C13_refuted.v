(* C13 — witnesses, by computation on the model, of the two scheme facets on which Request.blank(request.url)
   does not reproduce the request (both replay on the implementation: see design_notes/C13.md, findings). *)
From Coq Require Import NArith List Bool String.
Require Import Webob.Lib.Val Webob.Lib.PyStr Webob.Lib.C13_Utf8 Webob.Gen.C13_tables
               Webob.Model.C13_urlsplit Webob.Model.C13_urlpath Webob.Spec.C13_spec.
Import ListNotations.
Local Open Scope N_scope.

(* wsgi.url_scheme = "ws", Host: h, PATH_INFO /a  ->  url "ws://h/a"  ->  TypeError("Unknown scheme") *)
Lemma blank_unknown_scheme_witness :
  exists e u, host_view (fun _ => true) e (HName (H "68")) None /\ e_scheme e = H "7773" /\
    url e = Ok u /\ environ_from_url (fun _ => true) u = Raise ETypeError.
Proof.
  exists (mkEnv (H "7773") (Some (H "68")) (H "73") s_80 (Some []) (H "2f61") None Utf8), (H "77733a2f2f682f61").
  split; [|repeat split; vm_compute; reflexivity].
  split; [reflexivity|]. split; [exact I|]. left. reflexivity.
Qed.

(* wsgi.url_scheme = "h2c", Host: h:81  ->  url "h2c://h:81/a"  ->  SCHEME_RE does not see a scheme:
   the blank request is http://localhost:80 with the whole URL as its path *)
Lemma blank_scheme_nonletter_witness :
  exists e u e', host_view (fun _ => true) e (HName (H "68")) (Some (H "3831")) /\ e_scheme e = H "683263" /\
    url e = Ok u /\ environ_from_url (fun _ => true) u = Ok e' /\ e_scheme e' <> e_scheme e.
Proof.
  exists (mkEnv (H "683263") (Some (H "683a3831")) (H "73") s_80 (Some []) (H "2f61") None Utf8).
  eexists. eexists.
  split; [split; [reflexivity|]; split; [split; [discriminate|reflexivity]|left; reflexivity]|].
  split; [reflexivity|]. split; [vm_compute; reflexivity|]. split; [vm_compute; reflexivity|].
  vm_compute. discriminate.
Qed.
