(* C13 — witnesses, by computation on the model, of the two scheme facets on which Request.blank(request.url)
   does not reproduce the request (both replay on the implementation: see design_notes/C13.md, findings). *)
From Coq Require Import NArith List Bool String.
Require Import Webob.Lib.Val Webob.Lib.PyStr Webob.Lib.C13_Utf8 Webob.Gen.C13_tables
               Webob.Model.C13_urlsplit Webob.Model.C13_urlpath Webob.Spec.C13_spec.
Import ListNotations.
Local Open Scope N_scope.

(* wsgi.url_scheme = "ws", Host: h, PATH_INFO /a  ->  url "ws://h/a"  ->  TypeError("Unknown scheme") *)
Lemma blank_unknown_scheme_witness :
  exists e u, host_view (fun _ => true) e (HName (H "68")) None /\ e_scheme e = H "7773" /\
    url e = Ok u /\ environ_from_url (fun _ => true) u = Raise ETypeError.
Proof.
  exists (mkEnv (H "7773") (Some (H "68")) (H "73") s_80 (Some []) (H "2f61") None Utf8), (H "77733a2f2f682f61").
  split; [|repeat split; vm_compute; reflexivity].
  split; [reflexivity|]. split; [exact I|]. left. reflexivity.
Qed.

(* wsgi.url_scheme = "h2c", Host: h:81  ->  url "h2c://h:81/a"  ->  SCHEME_RE does not see a scheme:
   the blank request is http://localhost:80 with the whole URL as its path *)
Lemma blank_scheme_nonletter_witness :
  exists e u e', host_view (fun _ => true) e (HName (H "68")) (Some (H "3831")) /\ e_scheme e = H "683263" /\
    url e = Ok u /\ environ_from_url (fun _ => true) u = Ok e' /\ e_scheme e' <> e_scheme e.
Proof.
  exists (mkEnv (H "683263") (Some (H "683a3831")) (H "73") s_80 (Some []) (H "2f61") None Utf8).
  eexists. eexists.
  split; [split; [reflexivity|]; split; [split; [discriminate|reflexivity]|left; reflexivity]|].
  split; [reflexivity|]. split; [vm_compute; reflexivity|]. split; [vm_compute; reflexivity|].
  vm_compute. discriminate.
Qed.

(* ---- query strings the statement quantifies over but for which the code does not keep it (the url:query findings)
        request: http://h, PATH_INFO "/a" *)
Definition req_q (q : str) : environ :=
  mkEnv s_http (Some (H "68"%string)) (H "73"%string) s_80 (Some []) (H "2f61"%string) (Some q) Utf8.

(* QUERY_STRING "a<TAB>b": urlsplit deletes TAB/CR/LF, Request.blank(request.url) has the query "ab" *)
Lemma blank_query_tab_witness :
  exists u e', url (req_q [97; 9; 98]) = Ok u /\ environ_from_url (fun _ => true) u = Ok e' /\
    e_query e' = Some [97; 98] /\ e_query e' <> e_query (req_q [97; 9; 98]).
Proof. eexists. eexists. repeat split; try (vm_compute; reflexivity). vm_compute. discriminate. Qed.

(* QUERY_STRING "a#b": the URL has a fragment, Request.blank raises TypeError *)
Lemma blank_query_hash_witness :
  exists u, url (req_q [97; 35; 98]) = Ok u /\ environ_from_url (fun _ => true) u = Raise ETypeError.
Proof. eexists. split; vm_compute; reflexivity. Qed.

(* QUERY_STRING "a b" / "é": appended verbatim, request.url is not percent-encoded ASCII *)
Lemma url_query_verbatim_witness :
  exists u1 u2, url (req_q [97; 32; 98]) = Ok u1 /\ forallb rfc_query_char (skipn 11 u1) = false /\
                url (req_q [233]) = Ok u2 /\ forallb is_ascii u2 = false.
Proof. eexists. eexists. repeat split; vm_compute; reflexivity. Qed.

(* Host "h:080": port 80 spelled with a leading zero is not elided *)
Lemma default_port_leading_zero_witness :
  let e := mkEnv s_http (Some (H "683a303830"%string)) (H "73"%string) s_80 (Some []) (H "2f61"%string) None Utf8 in
  port_value (host_port e) = port_value s_80 /\ host_url e = H "687474703a2f2f683a303830"%string /\
  host_url e <> e_scheme e ++ s_css ++ domain e.
Proof. cbv zeta. repeat split; try (vm_compute; reflexivity). vm_compute. discriminate. Qed.
