(* C04 — consequences of the two refinement theorems: exact membership of the result, uniqueness of
   the order, the specificity table, accept_html, the identity rule. *)
From Coq Require Import ZArith NArith List Bool Permutation Sorted Arith Lia.
Require Import Webob.Lib.Val Webob.Lib.PyStr Webob.Lib.C04_Sort Webob.Model.C04_negotiation
               Webob.Spec.C04_negotiation Webob.Proofs.C04_sort Webob.Proofs.C04_accept
               Webob.Proofs.C04_simple.
Import ListNotations.

(* ------------------------------------------------------------------ the specificity table *)
Definition same_type (r : lrange) (po : poffer) : Prop :=
  fst (fst po) = r_ty r /\ snd (fst po) = r_st r.

Lemma same_type_dec : forall r po,
  (str_eqb (fst (fst po)) (r_ty r) && str_eqb (snd (fst po)) (r_st r)) = true <-> same_type r po.
Proof. intros r po. unfold same_type. rewrite andb_true_iff, !str_eqb_eq. tauto. Qed.

Lemma specificity_cases : forall r po,
  (same_type r po /\ r_ps r = [] /\ specificity r po = 3) \/
  (same_type r po /\ r_ps r <> [] /\ snd po = r_ps r /\ specificity r po = 4) \/
  (same_type r po /\ r_ps r <> [] /\ snd po <> r_ps r /\ specificity r po = 0) \/
  (~ same_type r po /\ (r_st r = star /\ fst (fst po) = r_ty r) /\ specificity r po = 2) \/
  (~ same_type r po /\ ~ (r_st r = star /\ fst (fst po) = r_ty r) /\ r_ts r = star_star /\ specificity r po = 1) \/
  (~ same_type r po /\ ~ (r_st r = star /\ fst (fst po) = r_ty r) /\ r_ts r <> star_star /\ specificity r po = 0).
Proof.
  intros r po. unfold specificity.
  pose proof (same_type_dec r po) as Hst.
  destruct (str_eqb (fst (fst po)) (r_ty r) && str_eqb (snd (fst po)) (r_st r)).
  - assert (Hs : same_type r po) by now apply Hst.
    destruct (r_ps r) as [|p ps] eqn:Ep.
    + left. auto.
    + destruct (params_eqb (snd po) (p :: ps)) eqn:Eq.
      * apply params_eqb_eq in Eq. right; left. repeat split; try apply Hs; [discriminate|exact Eq].
      * right; right; left. repeat split; try apply Hs; [discriminate|].
        intros H. apply params_eqb_eq in H. congruence.
  - assert (Hs : ~ same_type r po) by (intros H; apply Hst in H; discriminate).
    assert (H2 : (str_eqb (r_st r) star && str_eqb (fst (fst po)) (r_ty r)) = true <->
                 (r_st r = star /\ fst (fst po) = r_ty r)) by (rewrite andb_true_iff, !str_eqb_eq; tauto).
    destruct (str_eqb (r_st r) star && str_eqb (fst (fst po)) (r_ty r)).
    + right; right; right; left. split; [exact Hs|]. split; [now apply H2|reflexivity].
    + assert (H2' : ~ (r_st r = star /\ fst (fst po) = r_ty r)) by (intros H; apply H2 in H; discriminate).
      destruct (str_eqb (r_ts r) star_star) eqn:E1.
      * apply str_eqb_eq in E1. right; right; right; right; left. auto.
      * right; right; right; right; right. repeat split; auto.
        intros H; apply str_eqb_eq in H; congruence.
Qed.

Lemma specificity_table : forall r po,
  (specificity r po = 4 <-> same_type r po /\ r_ps r <> [] /\ snd po = r_ps r) /\
  (specificity r po = 3 <-> same_type r po /\ r_ps r = []) /\
  (specificity r po = 2 <-> ~ same_type r po /\ r_st r = star /\ fst (fst po) = r_ty r) /\
  (specificity r po = 1 <-> ~ same_type r po /\ ~ (r_st r = star /\ fst (fst po) = r_ty r) /\ r_ts r = star_star) /\
  specificity r po <= 4.
Proof.
  intros r po.
  destruct (specificity_cases r po) as [H|[H|[H|[H|[H|H]]]]];
    decompose [and] H; clear H;
    match goal with E : specificity r po = _ |- _ => rewrite E end;
    (split; [|split; [|split; [|split]]]); try lia;
    (split; intros Hx; try discriminate; decompose [and] Hx; try tauto; try contradiction; try congruence).
Qed.

(* ------------------------------------------------------------------ membership *)
Lemma enum_from_in : forall {A} (l : list A) n i x, In (i, x) (enum_from n l) -> In x l.
Proof.
  intros A l; induction l as [|y l IH]; intros n i x; cbn; [trivial|].
  intros [H|H]; [injection H as _ ->; now left|right; eapply IH; exact H].
Qed.

Lemma in_enum_from : forall {A} (l : list A) n x, In x l -> exists i, In (i, x) (enum_from n l).
Proof.
  intros A l; induction l as [|y l IH]; intros n x; cbn; [contradiction|].
  intros [->|H]; [exists n; now left|]. destruct (IH (S n) x H) as [i Hi]. exists i. now right.
Qed.

Lemma pan_in : forall offers it, In it (parse_and_normalize offers) ->
  In (i_key it) offers /\ parse_offer (i_key it) = Some (i_po it).
Proof.
  intros offers it Hin. split; [|now apply pan_coherent in Hin].
  unfold parse_and_normalize in Hin. apply in_flat_map in Hin as [[i o] [Hio Hin]].
  unfold pan_one in Hin. cbn in Hin. destruct (parse_offer o); [|contradiction].
  destruct Hin as [<-|[]]. cbn. eapply enum_from_in; exact Hio.
Qed.

Lemma pan_complete : forall offers o po, In o offers -> parse_offer o = Some po ->
  exists it, In it (parse_and_normalize offers) /\ i_key it = o /\ i_po it = po.
Proof.
  intros offers o po Hin Hp. destruct (in_enum_from offers 0 o Hin) as [i Hi].
  exists (mkI i o po). repeat split. unfold parse_and_normalize. apply in_flat_map.
  exists (i, o). split; [exact Hi|]. unfold pan_one. cbn. rewrite Hp. now left.
Qed.

Lemma rank_in : forall {K} (l : list (qent K)) k q,
  In (k, q) (rank l) <-> exists x, In x l /\ x_key x = k /\ x_q x = q.
Proof.
  intros K l k q. unfold rank. rewrite in_map_iff. split.
  - intros [x [Hx Hin]]. injection Hx as <- <-. exists x. repeat split.
    eapply Permutation_in; [apply isort_perm|exact Hin].
  - intros [x (Hin & <- & <-)]. exists x. split; [reflexivity|].
    eapply Permutation_in; [symmetry; apply isort_perm|exact Hin].
Qed.

(* exactly the offers whose governing range has non-zero quality, each paired with that quality *)
Theorem accept_offers_exact : forall rs offers o q,
  In (o, q) (accept_offers rs offers) <->
  In o offers /\ exists po r, parse_offer o = Some po /\ governing rs po = Some r /\ r_q r = q /\ q <> 0%N.
Proof.
  intros rs offers o q. rewrite accept_offers_spec. unfold spec_accept. rewrite rank_in. split.
  - intros [x (Hx & <- & <-)]. unfold acceptable in Hx. apply in_flat_map in Hx as [it [Hit Hx]].
    apply dedup_incl in Hit. apply pan_in in Hit as [Hin Hp].
    unfold verdict in Hx. destruct (governing rs (i_po it)) as [r|] eqn:G; [|contradiction].
    destruct (r_q r =? 0)%N eqn:Eq; [contradiction|]. destruct Hx as [<-|[]]. cbn.
    split; [exact Hin|]. exists (i_po it), r. repeat split; trivial. now apply N.eqb_neq.
  - intros [Hin (po & r & Hp & G & <- & Hq)].
    destruct (pan_complete offers o po Hin Hp) as (it & Hit & Hk & Hpo).
    assert (Hhk : has_key o (dedup (parse_and_normalize offers)) = true).
    { rewrite has_key_dedup. apply has_key_in. now exists it. }
    apply has_key_in in Hhk as (it' & Hit' & Hk').
    assert (Hpo' : i_po it' = po).
    { pose proof (coherent_dedup _ (pan_coherent offers) it' Hit') as H. rewrite Hk' in H. congruence. }
    exists (mkQ o (r_q r) (i_idx it')). repeat split.
    unfold acceptable. apply in_flat_map. exists it'. split; [exact Hit'|].
    unfold verdict. rewrite Hpo', G. apply N.eqb_neq in Hq. rewrite Hq, Hk'. now left.
Qed.

Theorem simple_offers_exact : forall enc parsed offers o q,
  In (o, q) (simple_offers enc parsed offers) <->
  In o offers /\ governing_q enc parsed o = Some q /\ q <> 0%N.
Proof.
  intros enc parsed offers o q. rewrite simple_offers_spec. unfold spec_simple. rewrite rank_in. split.
  - intros [x (Hx & <- & <-)]. apply in_flat_map in Hx as [[i o'] [Hio Hx]].
    unfold verdict_q in Hx. cbn in Hx. destruct (governing_q enc parsed o') as [q'|] eqn:G; [|contradiction].
    destruct (q' =? 0)%N eqn:Eq; [contradiction|]. destruct Hx as [<-|[]]. cbn.
    repeat split; [eapply enum_from_in; exact Hio|exact G|now apply N.eqb_neq].
  - intros (Hin & G & Hq). destruct (in_enum_from offers 0 o Hin) as [i Hi].
    exists (mkQ o q i). repeat split. apply in_flat_map. exists (i, o). split; [exact Hi|].
    unfold verdict_q. cbn. rewrite G. apply N.eqb_neq in Hq. rewrite Hq. now left.
Qed.

(* ------------------------------------------------------------------ the order is determined *)
Lemma SS_before_prefers : forall {K} (l : list (qent K)),
  StronglySorted (fun a b => before a b = true) l <-> StronglySorted prefers l.
Proof.
  intros K l. split; intros H; (eapply SS_impl; [|exact H]); intros a b _ _; apply before_prefers.
Qed.

Theorem accept_sorted_perm : forall rs offers,
  exists l, accept_offers rs offers = map (fun x => (x_key x, x_q x)) l /\
            Permutation l (acceptable rs offers) /\ StronglySorted prefers l /\
            forall l', Permutation l' (acceptable rs offers) -> StronglySorted prefers l' -> l' = l.
Proof.
  intros rs offers. exists (isort before (acceptable rs offers)).
  split; [apply accept_offers_spec|]. split; [apply isort_perm|]. split.
  - apply SS_before_prefers. apply isort_sorted; [apply before_total|apply before_trans].
  - intros l' Hp Hs. apply sorted_is_isort; [|exact Hp|now apply SS_before_prefers].
    apply SS_lt_NoDup, acceptable_sorted.
Qed.

Theorem simple_sorted_perm : forall enc parsed offers,
  let acc := flat_map (verdict_q enc parsed) (enum_from 0 offers) in
  exists l, simple_offers enc parsed offers = map (fun x => (x_key x, x_q x)) l /\
            Permutation l acc /\ StronglySorted prefers l /\
            forall l', Permutation l' acc -> StronglySorted prefers l' -> l' = l.
Proof.
  intros enc parsed offers acc. exists (isort before acc).
  split; [apply simple_offers_spec|]. split; [apply isort_perm|]. split.
  - apply SS_before_prefers. apply isort_sorted; [apply before_total|apply before_trans].
  - intros l' Hp Hs. apply sorted_is_isort; [|exact Hp|now apply SS_before_prefers].
    apply SS_lt_NoDup, enum_sorted_verdicts.
Qed.

(* ------------------------------------------------------------------ accept_html *)
Theorem accept_html_iff : forall rs,
  accept_html rs = true <->
  exists o po r, In o html_offers /\ parse_offer o = Some po /\ governing rs po = Some r /\ r_q r <> 0%N.
Proof.
  intros rs. unfold accept_html. split.
  - destruct (accept_offers rs html_offers) as [|[o q] l] eqn:E; [discriminate|]. intros _.
    assert (Hin : In (o, q) (accept_offers rs html_offers)) by (rewrite E; now left).
    apply accept_offers_exact in Hin as [Ho (po & r & Hp & G & Hq & Hnz)].
    exists o, po, r. subst q. repeat split; assumption.
  - intros (o & po & r & Ho & Hp & G & Hnz).
    assert (Hin : In (o, r_q r) (accept_offers rs html_offers)).
    { apply accept_offers_exact. split; [exact Ho|]. exists po, r. repeat split; assumption. }
    destruct (accept_offers rs html_offers); [contradiction|reflexivity].
Qed.

(* ------------------------------------------------------------------ identity *)
Lemma spec_simple_single : forall enc parsed o,
  spec_simple enc parsed [o] =
  match governing_q enc parsed o with
  | Some q => if (q =? 0)%N then [] else [(o, q)]
  | None => []
  end.
Proof.
  intros enc parsed o. unfold spec_simple, rank. cbn [enum_from flat_map]. rewrite app_nil_r.
  unfold verdict_q. cbn [fst snd]. destruct (governing_q enc parsed o) as [q|]; [|reflexivity].
  destruct (q =? 0)%N; reflexivity.
Qed.

Theorem identity_default : forall parsed o, lower o = identity ->
  explicit parsed o = None -> wildcard parsed = None ->
  encoding_offers parsed [o] = [(o, 1000%N)].
Proof.
  intros parsed o Hid He Hw. unfold encoding_offers. rewrite simple_offers_spec, spec_simple_single.
  unfold governing_q. rewrite He, Hw, Hid, str_eqb_refl. reflexivity.
Qed.

Theorem identity_excluded_iff : forall parsed o, lower o = identity ->
  (encoding_offers parsed [o] = [] <->
   explicit parsed o = Some 0%N \/ (explicit parsed o = None /\ wildcard parsed = Some 0%N)).
Proof.
  intros parsed o Hid. unfold encoding_offers. rewrite simple_offers_spec, spec_simple_single.
  unfold governing_q. rewrite Hid, str_eqb_refl. cbn [andb].
  destruct (explicit parsed o) as [q|].
  - destruct (q =? 0)%N eqn:E.
    + apply N.eqb_eq in E. subst. split; [intros _; now left|reflexivity].
    + apply N.eqb_neq in E. split; [discriminate|]. intros [H|[H _]]; [injection H as ->; contradiction|discriminate].
  - destruct (wildcard parsed) as [q|].
    + destruct (q =? 0)%N eqn:E.
      * apply N.eqb_eq in E. subst. split; [intros _; right; now split|reflexivity].
      * apply N.eqb_neq in E. split; [discriminate|].
        intros [H|[_ H]]; [discriminate|injection H as ->; contradiction].
    + split; [discriminate|]. intros [H|[_ H]]; discriminate.
Qed.

(* an explicit identity entry, or failing that a wildcard, governs identity like any other coding *)
Theorem identity_governed : forall parsed o q, lower o = identity ->
  (explicit parsed o = Some q \/ (explicit parsed o = None /\ wildcard parsed = Some q)) -> q <> 0%N ->
  encoding_offers parsed [o] = [(o, q)].
Proof.
  intros parsed o q Hid H Hq. unfold encoding_offers. rewrite simple_offers_spec, spec_simple_single.
  unfold governing_q. apply N.eqb_neq in Hq.
  destruct H as [->|[-> ->]]; now rewrite Hq.
Qed.
