(* C14 — Request.host_url / path_url spell the same origin as _request_uri, hence add_slash=True and a
   redirect without location stay on the request's origin. *)
From Coq Require Import NArith Arith List Bool Lia ZifyBool ZifyN.
Require Import Webob.Lib.Val Webob.Lib.PyStr Webob.Model.C14_urlsplit Webob.Model.C14_location
               Webob.Spec.C14_origin Webob.Proofs.C14_urljoin Webob.Proofs.C14_location.
Import ListNotations.
Local Open Scope N_scope.

Lemma mem_n_app c a b : mem_n c (a ++ b) = mem_n c a || mem_n c b.
Proof. induction a as [|x a IH]; cbn; [reflexivity|]. rewrite IH. apply orb_assoc. Qed.

Lemma mem_n_rev c l : mem_n c (rev l) = mem_n c l.
Proof. induction l as [|x l IH]; cbn; [reflexivity|]. rewrite mem_n_app, IH. cbn. rewrite orb_false_r. apply orb_comm. Qed.

Lemma split_first_spec d s : forall p r, split_first d s = Some (p, r) -> s = p ++ d :: r /\ mem_n d p = false.
Proof.
  induction s as [|c s IH]; intros p r H; cbn in H; [discriminate|].
  destruct (c =? d) eqn:E.
  - injection H as <- <-. apply N.eqb_eq in E. subst. split; reflexivity.
  - destruct (split_first d s) as [[a b]|]; [|discriminate]. injection H as <- <-.
    destruct (IH _ _ eq_refl) as [-> Hm]. split; [reflexivity|]. cbn. rewrite E, Hm. reflexivity.
Qed.

Lemma split_first_none d s : split_first d s = None -> mem_n d s = false.
Proof.
  induction s as [|c s IH]; cbn; [reflexivity|]. destruct (c =? d) eqn:E; [discriminate|].
  destruct (split_first d s) as [[a b]|]; [discriminate|]. intros _. rewrite (IH eq_refl). reflexivity.
Qed.

Lemma split_last_spec d h a b : split_last d h = Some (a, b) -> h = a ++ d :: b /\ mem_n d b = false.
Proof.
  unfold split_last. destruct (split_first d (rev h)) as [[b' a']|] eqn:E; [|discriminate].
  intros H. injection H as <- <-. apply split_first_spec in E as [E Hm].
  split; [|rewrite mem_n_rev; exact Hm].
  rewrite <- (rev_involutive h), E, rev_app_distr. cbn [rev]. rewrite <- app_assoc. reflexivity.
Qed.

Lemma split_last_none d h : split_last d h = None -> mem_n d h = false.
Proof.
  unfold split_last. destruct (split_first d (rev h)) as [[b' a']|] eqn:E; [discriminate|].
  intros _. apply split_first_none in E. rewrite mem_n_rev in E. exact E.
Qed.

Lemma str_eqb_sym a : forall b, str_eqb a b = str_eqb b a.
Proof. induction a as [|x a IH]; intros [|y b]; cbn [str_eqb]; try reflexivity. rewrite N.eqb_sym, IH. reflexivity. Qed.

Lemma str_eqb_rev a b : str_eqb (rev a) (rev b) = str_eqb a b.
Proof.
  apply eq_true_iff_eq. split; intros H; apply str_eqb_eq in H.
  - apply (f_equal (@rev N)) in H. rewrite !rev_involutive in H. subst. apply str_eqb_refl.
  - subst. apply str_eqb_refl.
Qed.

(* s ends with ":" P  iff  the part after the last colon is P *)
Lemma port_suffix_rev p' : forall b' x, mem_n 58 p' = false -> mem_n 58 b' = false ->
  starts_with (p' ++ [58]) (b' ++ 58 :: x) = str_eqb b' p'.
Proof.
  induction p' as [|z p' IH]; intros [|y b'] x Hp Hb; cbn [starts_with app str_eqb mem_n] in *.
  - rewrite N.eqb_refl. reflexivity.
  - apply orb_false_iff in Hb as [Hy _]. rewrite N.eqb_sym, Hy. reflexivity.
  - apply orb_false_iff in Hp as [Hz _]. rewrite Hz. reflexivity.
  - apply orb_false_iff in Hp as [_ Hp]. apply orb_false_iff in Hb as [_ Hb].
    rewrite (IH _ _ Hp Hb). rewrite (N.eqb_sym z y). reflexivity.
Qed.

Lemma port_suffix P a b : mem_n 58 P = false -> mem_n 58 b = false ->
  ends_with (58 :: P) (a ++ 58 :: b) = str_eqb b P.
Proof.
  intros HP Hb. unfold ends_with. rewrite rev_app_distr. cbn [rev]. rewrite <- app_assoc. cbn [app].
  rewrite port_suffix_rev by (rewrite mem_n_rev; assumption). apply str_eqb_rev.
Qed.

Lemma no_colon_no_port P h : mem_n 58 h = false -> ends_with (58 :: P) h = false.
Proof.
  intros Hh. unfold ends_with. cbn [rev]. rewrite <- (mem_n_rev 58 h) in Hh.
  generalize dependent (rev h). generalize (rev P). clear. intros p.
  induction p as [|z p IH]; intros s Hs; destruct s as [|y s]; cbn [starts_with app mem_n] in *; try reflexivity.
  - apply orb_false_iff in Hs as [Hy _]. rewrite N.eqb_sym, Hy. reflexivity.
  - apply orb_false_iff in Hs as [_ Hs]. rewrite (IH _ Hs). apply andb_false_r.
Qed.

Lemma drop_last_port a P : drop_last (length (58 :: P)) (a ++ 58 :: P) = a.
Proof.
  unfold drop_last. rewrite rev_app_distr, skipn_app.
  rewrite skipn_all2 by (rewrite rev_length; cbn; lia).
  rewrite rev_length, Nat.sub_diag.
  cbn [app skipn]. apply rev_involutive.
Qed.

(* strip_default_port on  a ":" b  where b has no colon *)
Lemma strip_host_port scheme a b :
  (scheme = s_http \/ scheme = s_https) -> mem_n 58 b = false ->
  strip_default_port scheme (a ++ 58 :: b) =
    if (str_eqb scheme s_https && str_eqb b s_443) || (str_eqb scheme s_http && str_eqb b s_80)
    then a else a ++ 58 :: b.
Proof.
  intros Hs Hb. unfold strip_default_port.
  change s_p80 with (58 :: s_80). change s_p443 with (58 :: s_443).
  rewrite !port_suffix by (assumption || reflexivity).
  destruct Hs as [-> | ->]; cbn [str_eqb s_http s_https N.eqb Pos.eqb andb orb].
  - destruct (str_eqb b s_80) eqn:E; [|reflexivity]. apply str_eqb_eq in E. subst b. apply (drop_last_port a s_80).
  - destruct (str_eqb b s_443) eqn:E; [|reflexivity]. apply str_eqb_eq in E. subst b. apply (drop_last_port a s_443).
Qed.

Lemma strip_no_colon scheme h : mem_n 58 h = false -> strip_default_port scheme h = h.
Proof.
  intros Hh. unfold strip_default_port. change s_p80 with (58 :: s_80). change s_p443 with (58 :: s_443).
  rewrite !no_colon_no_port by assumption. rewrite !andb_false_r. reflexivity.
Qed.

Lemma forallb_last {A} (f : A -> bool) l d : l <> [] -> forallb f l = true -> f (last l d) = true.
Proof.
  induction l as [|x l IH]; [congruence|]. intros _ H. cbn [forallb] in H. apply andb_true_iff in H as [Hx Hl].
  destruct l as [|y l]; [exact Hx|]. apply IH; [discriminate | exact Hl].
Qed.

Lemma last_app_cons {A} (a : list A) x b d : last (a ++ x :: b) d = last (x :: b) d.
Proof.
  induction a as [|y a IH]; [reflexivity|]. cbn [app]. rewrite <- IH.
  destruct (a ++ x :: b) eqn:E; [destruct a; discriminate | reflexivity].
Qed.

Lemma host_url_shape e : env_ok_move e -> host_url e = e_scheme e ++ s_css ++ req_netloc e.
Proof.
  intros [[Hs Hh Hn _ _] Hhost [Hpne Hpc] _ _]. unfold host_url, req_netloc, req_host in *.
  destruct (e_http_host e) as [h|].
  - destruct Hhost as [Hne Hlast]. destruct h as [|c0 h0]; [congruence|]. set (h := c0 :: h0) in *.
    assert (H93 : (last h 0 =? 93) = false).
    { pose proof (forallb_last host_char h 0 Hne Hh) as H. apply host_char_safe in H as (_ & _ & _ & _ & H). exact H. }
    rewrite H93. cbn [negb]. rewrite andb_true_r.
    destruct (mem_n 58 h) eqn:Hm.
    + destruct (split_last 58 h) as [[a b]|] eqn:Esl; [|apply split_last_none in Esl; congruence].
      apply split_last_spec in Esl as [Eh Hb]. rewrite Eh. rewrite (strip_host_port _ _ _ Hs Hb).
      assert (Hbne : is_empty b = false).
      { destruct b as [|x b]; [|reflexivity]. exfalso. apply Hlast. rewrite Eh, last_app_cons. reflexivity. }
      destruct Hs as [Es | Es]; rewrite Es; cbn [str_eqb s_http s_https N.eqb Pos.eqb andb orb].
      * destruct (str_eqb b s_80); [rewrite app_nil_r; reflexivity | rewrite Hbne; reflexivity].
      * destruct (str_eqb b s_443); [rewrite app_nil_r, orb_false_r; reflexivity | rewrite Hbne; reflexivity].
    + rewrite (strip_no_colon _ _ Hm).
      destruct (str_eqb (e_scheme e) s_https); [|destruct (str_eqb (e_scheme e) s_http)]; rewrite app_nil_r; reflexivity.
  - cbn [app]. rewrite (strip_host_port _ _ _ Hs Hpc).
    assert (Hbne : is_empty (e_server_port e) = false) by (destruct (e_server_port e); [congruence | reflexivity]).
    destruct Hs as [Es | Es]; rewrite Es; cbn [str_eqb s_http s_https N.eqb Pos.eqb andb orb].
    * destruct (str_eqb (e_server_port e) s_80); [rewrite app_nil_r; reflexivity | rewrite Hbne; reflexivity].
    * destruct (str_eqb (e_server_port e) s_443); [rewrite app_nil_r, orb_false_r; reflexivity | rewrite Hbne; reflexivity].
Qed.

Lemma quote_path_head t : quote path_safe (47 :: t) = 47 :: quote path_safe t.
Proof. reflexivity. Qed.

Lemma path_url_shape e : env_ok_move e ->
  exists qp, path_url e = e_scheme e ++ s_css ++ req_netloc e ++ qp /\ match qp with [] => True | c :: _ => c = 47 end.
Proof.
  intros He. unfold path_url. rewrite (host_url_shape e He). destruct He as [[_ _ _ Hsc Hpi] _ _ _ _].
  exists (quote path_safe (match e_script_name e with Some s => s | None => [] end)
          ++ quote path_safe (match e_path_info e with Some p => p | None => [] end)).
  split; [rewrite <- !app_assoc; reflexivity|].
  destruct (e_script_name e) as [[|c s]|]; cbn [path_ok] in Hsc.
  - destruct (e_path_info e) as [[|c p]|]; cbn [path_ok] in Hpi; try exact I.
    destruct Hpi as [Hpi | [t Hpi]]; [discriminate|]. injection Hpi as -> ->. reflexivity.
  - destruct Hsc as [Hsc | [t Hsc]]; [discriminate|]. injection Hsc as -> ->. reflexivity.
  - destruct (e_path_info e) as [[|c p]|]; cbn [path_ok] in Hpi; try exact I.
    destruct Hpi as [Hpi | [t Hpi]]; [discriminate|]. injection Hpi as -> ->. reflexivity.
Qed.

Lemma path_url_same_origin e : env_ok_move e -> same_origin e (path_url e).
Proof.
  intros He. destruct (path_url_shape e He) as (qp & -> & Hq). exists qp. split; [reflexivity|].
  destruct qp as [|c t]; [exact I|]. subst c. reflexivity.
Qed.

Lemma add_slash_url_same_origin e : env_ok_move e -> same_origin e (add_slash_url e).
Proof.
  intros He. unfold add_slash_url. destruct (path_url_shape e He) as (qp & -> & Hq).
  eexists (qp ++ 47 :: _). split; [rewrite <- !app_assoc; reflexivity|].
  destruct qp as [|c t]; [reflexivity|]. subst c. reflexivity.
Qed.

Lemma origin_nonempty e r : env_ok e -> same_origin e r -> r <> [].
Proof. intros [Hs _ _ _ _] (rest & -> & _). destruct Hs as [-> | ->]; discriminate. Qed.

Lemma move_add_slash_same_origin e r : env_ok_move e -> move_emit e None true = JOk r -> same_origin e r.
Proof.
  intros He. pose proof (add_slash_url_same_origin e He) as Ho. destruct He as [He _ _ _ _].
  unfold move_emit, move_init, move_call.
  destruct (set_header (add_slash_url e)) as [l| |] eqn:Es; cbn [bind]; try discriminate.
  apply set_header_ok in Es. subst l. intros H.
  apply (resolve_move_value e _ r He (origin_nonempty _ _ He Ho)) in H as [H _].
  rewrite (H (origin_has_alpha_scheme _ _ He Ho)). exact Ho.
Qed.

Lemma move_no_location_same_origin e l r : env_ok_move e -> l = None \/ l = Some [] ->
  move_emit e l false = JOk r -> same_origin e r.
Proof.
  intros He Hl. pose proof (path_url_same_origin e He) as Ho. destruct He as [He _ _ _ _].
  assert (move_emit e l false = bind (bind (JOk (path_url e)) set_header) (make_location_absolute e)) as ->
    by (destruct Hl as [-> | ->]; reflexivity).
  cbn [bind]. destruct (set_header (path_url e)) as [s| |] eqn:Es; cbn [bind]; try discriminate.
  apply set_header_ok in Es. subst s. rewrite (make_abs_unchanged _ _ (origin_has_alpha_scheme _ _ He Ho)).
  intros H. injection H as <-. exact Ho.
Qed.

(* ---------- the hypotheses are satisfiable, and the redirect classes do emit (non-vacuity) ---------- *)
Lemma env_example_move_ok : env_ok_move env_example.
Proof.
  split; [exact env_example_ok | split; discriminate | split; [discriminate | reflexivity] | discriminate |].
  intros s [H | H]; injection H as <-; repeat constructor.
Qed.

Lemma move_examples :
  map (fun v => move_emit env_example (Some v) false)
      [ [47; 9; 47] ++ Ex.evil; [9; 47; 47] ++ Ex.evil; 9 :: Ex.http_evil; Ex.evil_port; Ex.slashes_evil ]
  = map JOk Ex.outs
  /\ move_emit env_example None true = JOk (path_url env_example ++ [47])
  /\ move_emit env_example None false = JOk (path_url env_example).
Proof. vm_compute. repeat split. Qed.
