(* C19 — the algebra of `+` on header objects, generic in the family: given that parsing distributes
   over ", " (proved per family), every addition returns a header object (never raises) whose element
   list is the left operand's followed by the right's; None / '' / [] / {} / invalid / no-header operands
   contribute nothing.  Also property set/get and copy(). *)
From Coq Require Import ZArith NArith List Bool Lia.
Require Import Webob.Lib.Val Webob.Lib.PyStr Webob.Model.C03_scan Webob.Model.C19_acceptstr Webob.Spec.C19_spec.
Import ListNotations.
Local Open Scope N_scope.

Lemma is_nil_true s : is_nil s = true -> s = [].
Proof. destruct s; [reflexivity|discriminate]. Qed.
Lemma is_nil_false s : is_nil s = false -> s <> [].
Proof. destruct s; [discriminate|intros _; discriminate]. Qed.

Section Algebra.
  Context {A It Dt : Type} (F : family A It Dt).
  (* texts on which parsing is known to distribute over ", " (all texts for the simple families) *)
  Variable ok : str -> Prop.
  Hypothesis Hjoin : forall a b pa pb, ok a -> ok b ->
    f_parse F a = Some pa -> f_parse F b = Some pb -> a <> [] -> b <> [] ->
    f_parse F (a ++ comma_sp ++ b) = Some (pa ++ pb) /\ ok (a ++ comma_sp ++ b).
  Hypothesis Hempty : if f_empty_ok F then f_parse F [] = Some [] else f_parse F [] = None.
  Hypothesis Hfalsy_text : forall v, falsy v = true -> is_none v = false -> f_text F v = [].

  (* Spec/C19_spec.v: wf_hdr F ok h, contrib F v *)
  Local Notation wf_hdr := (C19_spec.wf_hdr F ok).
  Local Notation contrib := (C19_spec.contrib F).

  Lemma none_falsy (v : pyval It Dt) : is_none v = true -> falsy v = true.
  Proof. destruct v; try discriminate. reflexivity. Qed.

  Lemma parse_nil_elems p : f_parse F [] = Some p -> p = [].
  Proof. intros H. destruct (f_empty_ok F); rewrite Hempty in H; [injection H as <-; reflexivity|discriminate]. Qed.
  Lemma parsed_nonempty t p : f_empty_ok F = false -> f_parse F t = Some p -> t <> [].
  Proof. intros He H ->. rewrite He in Hempty. rewrite Hempty in H. discriminate. Qed.

  Lemma guarded_nonempty s p : (f_empty_ok F && is_nil s) = false -> f_parse F s = Some p -> s <> [].
  Proof.
    intros E Hp ->. pose proof Hempty as H0. destruct (f_empty_ok F); [discriminate|].
    rewrite H0 in Hp. discriminate.
  Qed.
  Lemma guard_true s : (f_empty_ok F && is_nil s) = true -> s = [] /\ f_parse F [] = Some [].
  Proof.
    intros E. pose proof Hempty as H0. apply andb_true_iff in E as [He Hn]. rewrite He in H0.
    split; [apply is_nil_true, Hn|exact H0].
  Qed.

  Lemma falsy_contrib_parse v p : falsy v = true -> is_none v = false -> f_parse F (f_text F v) = Some p -> p = [].
  Proof. intros Hf Hn H. rewrite (Hfalsy_text v Hf Hn) in H. apply parse_nil_elems, H. Qed.

  Lemma create_wf h : wf_hdr (create (f_parse F) h) -> True. Proof. trivial. Qed.

  Theorem add_val_spec self v right :
    wf_hdr self -> (forall po, f_parse F (f_text F v) = Some po -> ok (f_text F v)) ->
    exists h, add_val F self v right = Ret h /\ wf_hdr h /\
              elements h = if right then contrib v ++ elements self else elements self ++ contrib v.
  Proof.
    intros Hwf Hokv. destruct self as [|t|t p].
    - (* NoHeader *)
      unfold add_val, contrib. cbn [elements].
      destruct (if f_none_only F then is_none v else falsy v) eqn:Etest.
      + exists NoHeader. split; [reflexivity|]. split; [exact I|].
        assert (falsy v = true) as -> by (destruct (f_none_only F); [apply none_falsy|]; exact Etest).
        destruct right; reflexivity.
      + destruct (f_parse F (f_text F v)) as [p|] eqn:Ep.
        * exists (Valid (f_text F v) p). split; [reflexivity|]. split; [split; [exact Ep|exact (Hokv _ eq_refl)]|]. cbn [elements].
          destruct (falsy v) eqn:Ef.
          -- assert (is_none v = false) as Hn.
             { destruct (f_none_only F); [exact Etest|]. congruence. }
             rewrite (falsy_contrib_parse v p Ef Hn Ep). destruct right; reflexivity.
          -- destruct right; [rewrite app_nil_r|]; reflexivity.
        * exists NoHeader. split; [reflexivity|]. split; [exact I|]. cbn [elements].
          destruct (falsy v); destruct right; reflexivity.
    - (* Invalid *)
      unfold add_val, contrib. cbn [elements].
      destruct (if f_none_only F then is_none v else falsy v) eqn:Etest.
      + exists NoHeader. split; [reflexivity|]. split; [exact I|].
        assert (falsy v = true) as -> by (destruct (f_none_only F); [apply none_falsy|]; exact Etest).
        destruct right; reflexivity.
      + destruct (f_parse F (f_text F v)) as [p|] eqn:Ep.
        * exists (Valid (f_text F v) p). split; [reflexivity|]. split; [split; [exact Ep|exact (Hokv _ eq_refl)]|]. cbn [elements].
          destruct (falsy v) eqn:Ef.
          -- assert (is_none v = false) as Hn.
             { destruct (f_none_only F); [exact Etest|]. congruence. }
             rewrite (falsy_contrib_parse v p Ef Hn Ep). destruct right; reflexivity.
          -- destruct right; [rewrite app_nil_r|]; reflexivity.
        * exists NoHeader. split; [reflexivity|]. split; [exact I|]. cbn [elements].
          destruct (falsy v); destruct right; reflexivity.
    - (* Valid *)
      destruct Hwf as [Hp Hokt]. unfold add_val, contrib, new_valid. cbn [elements].
      destruct (falsy v) eqn:Ef.
      { rewrite Hp. exists (Valid t p). split; [reflexivity|]. split; [split; assumption|].
        destruct right; [reflexivity|rewrite app_nil_r; reflexivity]. }
      destruct (f_empty_ok F && is_nil (f_text F v)) eqn:E1.
      { rewrite Hp. exists (Valid t p). split; [reflexivity|]. split; [split; assumption|].
        apply guard_true in E1 as [Hn H0]. rewrite Hn, H0.
        destruct right; [reflexivity|rewrite app_nil_r; reflexivity]. }
      destruct (f_parse F (f_text F v)) as [po|] eqn:Epo.
      2:{ rewrite Hp. exists (Valid t p). split; [reflexivity|]. split; [split; assumption|].
          destruct right; [reflexivity|rewrite app_nil_r; reflexivity]. }
      destruct (f_empty_ok F && is_nil t) eqn:E2.
      { exists (Valid (f_text F v) po). split; [reflexivity|]. split; [split; [exact Epo|exact (Hokv _ eq_refl)]|].
        apply guard_true in E2 as [Hn H0]. subst t.
        apply parse_nil_elems in Hp. subst p. cbn [elements].
        destruct right; [rewrite app_nil_r|]; reflexivity. }
      pose proof (guarded_nonempty _ _ E2 Hp) as Ht. pose proof (guarded_nonempty _ _ E1 Epo) as Ho.
      destruct right.
      + destruct (Hjoin _ _ _ _ (Hokv _ eq_refl) Hokt Epo Hp Ho Ht) as [Hj Hokj]. rewrite Hj.
        eexists. split; [reflexivity|]. split; [split; assumption|reflexivity].
      + destruct (Hjoin _ _ _ _ Hokt (Hokv _ eq_refl) Hp Epo Ht Ho) as [Hj Hokj]. rewrite Hj.
        eexists. split; [reflexivity|]. split; [split; assumption|reflexivity].
  Qed.

  Theorem add_hdr_spec self other :
    wf_hdr self -> wf_hdr other ->
    exists h, add_hdr F self other = Ret h /\ wf_hdr h /\ elements h = elements self ++ elements other.
  Proof.
    intros Hs Ho. destruct self as [|t|t p]; destruct other as [|t2|t2 p2]; cbn [add_hdr elements];
      try (exists NoHeader; split; [reflexivity|split; [exact I|reflexivity]]).
    - destruct Ho as [Hp2 Hok2]. unfold new_valid. rewrite Hp2. eexists. split; [reflexivity|]. split; [split; assumption|reflexivity].
    - destruct Ho as [Hp2 Hok2]. unfold new_valid. rewrite Hp2. eexists. split; [reflexivity|]. split; [split; assumption|reflexivity].
    - destruct Hs as [Hp Hok]. unfold new_valid. rewrite Hp. eexists. split; [reflexivity|]. split; [split; assumption|].
      cbn [elements]. rewrite app_nil_r. reflexivity.
    - destruct Hs as [Hp Hok]. unfold new_valid. rewrite Hp. eexists. split; [reflexivity|]. split; [split; assumption|].
      cbn [elements]. rewrite app_nil_r. reflexivity.
    - destruct Hs as [Hp Hok]. destruct Ho as [Hp2 Hok2]. unfold new_valid, create_text, create.
      pose proof (parsed_nonempty t p) as N1. pose proof (parsed_nonempty t2 p2) as N2.
      pose proof (fun H => parse_nil_elems p (eq_trans (f_equal (f_parse F) (eq_sym H)) Hp)) as Z1.
      pose proof (fun H => parse_nil_elems p2 (eq_trans (f_equal (f_parse F) (eq_sym H)) Hp2)) as Z2.
      assert (J : t <> [] -> t2 <> [] -> exists h,
                  match f_parse F (t ++ comma_sp ++ t2) with
                  | Some p0 => Valid (t ++ comma_sp ++ t2) p0
                  | None => Invalid (t ++ comma_sp ++ t2)
                  end = h /\ wf_hdr h /\ elements h = p ++ p2).
      { intros E1 E2. destruct (Hjoin _ _ _ _ Hok Hok2 Hp Hp2 E1 E2) as [Hj Hokj]. rewrite Hj.
        eexists. split; [reflexivity|]. split; [split; assumption|reflexivity]. }
      destruct (f_empty_ok F).
      + destruct (is_nil t2) eqn:E2.
        { apply is_nil_true in E2. rewrite (Z2 E2). rewrite Hp.
          eexists. split; [reflexivity|]. split; [split; assumption|]. cbn [elements]. rewrite app_nil_r. reflexivity. }
        destruct (is_nil t) eqn:E1.
        { apply is_nil_true in E1. rewrite (Z1 E1). rewrite Hp2.
          eexists. split; [reflexivity|]. split; [split; assumption|reflexivity]. }
        apply is_nil_false in E1, E2. destruct (J E1 E2) as (h & <- & Hw & He). eexists. split; [reflexivity|]. split; assumption.
      + destruct (J (N1 eq_refl Hp) (N2 eq_refl Hp2)) as (h & <- & Hw & He). eexists. split; [reflexivity|]. split; assumption.
  Qed.

  (* header objects obtained from text are well formed (when the text is one on which parsing distributes) *)
  Lemma create_wf_ok h : (forall t, h = Some t -> ok t) -> wf_hdr (create (f_parse F) h).
  Proof.
    intros Hok. destruct h as [t|]; [|exact I]. unfold create. destruct (f_parse F t) eqn:E; [|exact I].
    split; [exact E|apply Hok; reflexivity].
  Qed.

  (* ---- request.accept* = value ---- *)
  Theorem fset_none : fset F (OV PNone) = None /\ fget F None = NoHeader.
  Proof. split; reflexivity. Qed.
  Theorem property_none : fset F (OV PNone) = None /\ fset F (OH None) = None /\ fget F None = NoHeader.
  Proof. repeat split; reflexivity. Qed.
  Theorem fget_fset_hdr h : fget F (fset F (OH h)) = create (f_parse F) h.
  Proof.
    unfold fset, fget. destruct h as [t|]; [|reflexivity]. cbn [create].
    destruct (f_parse F t) eqn:E; cbn [create]; rewrite E; reflexivity.
  Qed.
  Theorem fget_fset_val v : is_none v = false ->
    fset F (OV v) = Some (f_text F v) /\ fget F (fset F (OV v)) = create (f_parse F) (Some (f_text F v)).
  Proof. destruct v; try discriminate; intros _; split; reflexivity. Qed.
  (* deleting = assigning None *)
  Theorem fdel_reads_noheader : fget F None = @NoHeader A.
  Proof. reflexivity. Qed.

  (* ---- copy(): same class, same text, same parsed list; a fresh object by construction ---- *)
  Theorem copy_spec h : wf_hdr h -> copy_hdr F h = Ret h.
  Proof.
    destruct h as [|t|t p]; cbn [copy_hdr]; try reflexivity. intros [Hp _]. unfold new_valid. rewrite Hp. reflexivity.
  Qed.
End Algebra.
