(* C09 — multipart/form-data framing: the reference splitter inverts webob's encoder. *)
From Coq Require Import NArith ZArith List Bool Lia ZifyBool ZifyNat ZifyN.
Require Import Webob.Lib.Val Webob.Lib.PyStr Webob.Lib.C09_Utf8 Webob.Model.C09_Multipart
               Webob.Proofs.C09_utf8 Webob.Proofs.C09_query.
Import ListNotations.
Local Open Scope N_scope.

(* ------------------------------------------------------------------ escaping of quoted parameters *)
Definition esc1 (c : N) : list N :=
  if c =? 92 then [92; 92] else if c =? 34 then [92; 34] else [c].

Lemma q_escape_flat t : q_escape t = flat_map esc1 t.
Proof.
  unfold q_escape. induction t as [|c t IH]; [reflexivity|].
  cbn [replace_c flat_map]. unfold esc1 at 1.
  destruct (c =? 92) eqn:E92.
  - cbn [app replace_c N.eqb Pos.eqb]. rewrite IH. reflexivity.
  - cbn [replace_c]. destruct (c =? 34) eqn:E34; rewrite IH; reflexivity.
Qed.

Lemma parse_quoted_escape b rest : parse_quoted (flat_map esc1 b ++ 34 :: rest) = Some (b, rest).
Proof.
  induction b as [|c b IH]; [reflexivity|].
  cbn [flat_map]. unfold esc1 at 1.
  destruct (c =? 92) eqn:E92.
  - apply N.eqb_eq in E92. subst c. cbn [app]. cbn [parse_quoted N.eqb Pos.eqb orb]. rewrite IH. reflexivity.
  - destruct (c =? 34) eqn:E34.
    + apply N.eqb_eq in E34. subst c. cbn [app]. cbn [parse_quoted N.eqb Pos.eqb orb]. rewrite IH. reflexivity.
    + cbn [app parse_quoted]. rewrite E92, E34, IH. reflexivity.
Qed.

(* an ASCII octet occurs in the UTF-8 encoding of a character only as that character itself *)
Lemma enc_char_ascii_free a c : a < 128 -> c <> a -> free a (utf8_enc_char c) = true.
Proof.
  intros Ha Hc. unfold utf8_enc_char, free.
  destruct (c <? 128) eqn:E1; [cbn [forallb]; lia|].
  destruct (c <? 2048) eqn:E2; [cbn [forallb]; lia|].
  destruct (c <? 65536) eqn:E3; cbn [forallb]; lia.
Qed.

Lemma utf8_free a s : a < 128 -> free a s = true -> free a (utf8_encode s) = true.
Proof.
  intros Ha. induction s as [|c s IH]; intros Hf; [reflexivity|].
  cbn [free forallb] in Hf. apply andb_true_iff in Hf as [Hc Hs]. fold (free a s) in Hs.
  cbn [utf8_encode flat_map]. unfold free. rewrite forallb_app.
  fold (free a (utf8_enc_char c)). fold (free a (flat_map utf8_enc_char s)).
  rewrite enc_char_ascii_free by lia. exact (IH Hs).
Qed.

Lemma esc1_id l : free 92 l = true -> free 34 l = true -> flat_map esc1 l = l.
Proof.
  induction l as [|c l IH]; intros H1 H2; [reflexivity|].
  cbn [free forallb] in H1, H2. apply andb_true_iff in H1 as [A1 B1]. apply andb_true_iff in H2 as [A2 B2].
  cbn [flat_map]. unfold esc1 at 1. destruct (c =? 92); [discriminate|]. destruct (c =? 34); [discriminate|].
  cbn [app]. f_equal. exact (IH B1 B2).
Qed.

Lemma utf8_encode_app a b : utf8_encode (a ++ b) = utf8_encode a ++ utf8_encode b.
Proof. unfold utf8_encode. apply flat_map_app. Qed.

(* escaping commutes with UTF-8 encoding *)
Lemma utf8_escape t : utf8_encode (flat_map esc1 t) = flat_map esc1 (utf8_encode t).
Proof.
  induction t as [|c t IH]; [reflexivity|].
  cbn [flat_map]. rewrite utf8_encode_app, IH. cbn [utf8_encode flat_map]. rewrite flat_map_app. f_equal.
  unfold esc1 at 1.
  destruct (c =? 92) eqn:E92; [apply N.eqb_eq in E92; subst c; reflexivity|].
  destruct (c =? 34) eqn:E34; [apply N.eqb_eq in E34; subst c; reflexivity|].
  cbn [utf8_encode flat_map]. rewrite app_nil_r. symmetry.
  apply esc1_id; apply enc_char_ascii_free; lia.
Qed.

(* ------------------------------------------------------------------ small list facts *)
Lemma strip_prefix_app p s : strip_prefix p (p ++ s) = Some s.
Proof. induction p as [|x p IH]; [reflexivity|]. cbn [app strip_prefix]. rewrite N.eqb_refl. exact IH. Qed.

Lemma starts_with_app D y : starts_with D (D ++ y) = true.
Proof. induction D as [|x D IH]; [reflexivity|]. cbn [app starts_with]. rewrite N.eqb_refl. exact IH. Qed.

Lemma starts_with_ext D : forall s y, (length D <= length s)%nat -> starts_with D (s ++ y) = starts_with D s.
Proof.
  induction D as [|x D IH]; intros s y Hl; [reflexivity|].
  destruct s as [|c s]; [cbn in Hl; lia|]. cbn [app starts_with]. cbn [length] in Hl.
  rewrite IH by lia. reflexivity.
Qed.

Lemma skipn_app_exact {A} (D y : list A) : skipn (length D) (D ++ y) = y.
Proof. induction D as [|x D IH]; [reflexivity|]. exact IH. Qed.

(* the delimiter occurs in x ++ D only at the very end *)
Fixpoint early_free (D x : list N) : bool :=
  match x with
  | [] => true
  | _ :: x' => negb (starts_with D (x ++ D)) && early_free D x'
  end.

Lemma find_delim_unfold D s :
  find_delim D s = if starts_with D s then Some ([], skipn (length D) s)
                   else match s with
                        | [] => None
                        | c :: s' => option_map (fun p => (c :: fst p, snd p)) (find_delim D s')
                        end.
Proof. destruct s; reflexivity. Qed.

Lemma find_delim_app D x y : early_free D x = true -> find_delim D (x ++ D ++ y) = Some (x, y).
Proof.
  induction x as [|c x IH]; intros He.
  - cbn [app]. rewrite find_delim_unfold, starts_with_app, skipn_app_exact. reflexivity.
  - cbn [early_free] in He. apply andb_true_iff in He as [H1 H2].
    assert (Hs : starts_with D ((c :: x) ++ D ++ y) = false).
    { rewrite app_assoc. rewrite starts_with_ext by (rewrite app_length; lia).
      destruct (starts_with D ((c :: x) ++ D)); [discriminate|reflexivity]. }
    rewrite find_delim_unfold, Hs. cbn [app]. rewrite (IH H2). reflexivity.
Qed.

(* ------------------------------------------------------------------ header lines *)
Lemma abl_skip x rest : free 13 x = true ->
  after_blank_line (x ++ 13 :: 10 :: rest) false = after_blank_line rest true.
Proof.
  induction x as [|c x IH]; intros Hf; [reflexivity|].
  cbn [free forallb] in Hf. apply andb_true_iff in Hf as [Hc Hx]. fold (free 13 x) in Hx.
  cbn [app after_blank_line]. destruct (c =? 13); [discriminate|]. exact (IH Hx).
Qed.

Lemma abl_line x rest : x <> [] -> free 13 x = true ->
  after_blank_line (x ++ 13 :: 10 :: rest) true = after_blank_line rest true.
Proof.
  destruct x as [|c x]; [congruence|]. intros _ Hf.
  cbn [free forallb] in Hf. apply andb_true_iff in Hf as [Hc Hx]. fold (free 13 x) in Hx.
  cbn [app after_blank_line]. destruct (c =? 13); [discriminate|]. exact (abl_skip x rest Hx).
Qed.

(* everything enc_part writes between "--B CRLF" and the content *)
Definition part_headers (f : mp_field) : list N :=
  utf8_encode S_CDISP ++ utf8_encode (S_NAME ++ q_escape (fst f) ++ QUOTE)
  ++ match snd f with
     | MText _ => CRLF ++ CRLF
     | MFile fn mime _ =>
         utf8_encode (S_FILENAME ++ q_escape fn ++ QUOTE) ++ CRLF
         ++ match mime with Some m => utf8_encode (S_CTYPE ++ m) ++ CRLF | None => [] end
         ++ CRLF
     end.

Definition part_content (f : mp_field) : list N :=
  match snd f with MText v => utf8_encode v | MFile _ _ c => c end.

Lemma enc_part_shape B f :
  enc_part B f = DASHES ++ utf8_encode B ++ CRLF ++ part_headers f ++ part_content f ++ CRLF.
Proof.
  destruct f as [name [v|fn mime c]]; unfold enc_part, part_headers, part_content; cbn [fst snd];
    repeat rewrite <- app_assoc; reflexivity.
Qed.

Definition mime_ok (f : mp_field) : bool :=
  match snd f with MFile _ (Some m) _ => free 13 m | _ => true end.

Lemma quoted_param_bytes P t rest :
  utf8_encode (P ++ q_escape t ++ QUOTE) ++ rest
  = utf8_encode P ++ flat_map esc1 (utf8_encode t) ++ 34 :: rest.
Proof.
  rewrite !utf8_encode_app, q_escape_flat, utf8_escape. repeat rewrite <- app_assoc. reflexivity.
Qed.

Lemma parse_part_headers_ok f X : mime_ok f = true ->
  parse_part_headers (part_headers f ++ X) =
  Some (utf8_encode (fst f),
        match snd f with MText _ => None | MFile fn _ _ => Some (utf8_encode fn) end,
        X).
Proof.
  intros Hm. destruct f as [name v]. unfold part_headers, parse_part_headers. cbn [fst snd] in *.
  repeat rewrite <- app_assoc. rewrite quoted_param_bytes.
  change (utf8_encode S_CDISP) with S_CDISP. change (utf8_encode S_NAME) with S_NAME.
  rewrite app_assoc. rewrite strip_prefix_app. rewrite parse_quoted_escape.
  destruct v as [t|fn mime c].
  - cbn [app]. cbn [strip_prefix S_FILENAME N.eqb Pos.eqb]. reflexivity.
  - repeat rewrite <- app_assoc. rewrite quoted_param_bytes.
    change (utf8_encode S_FILENAME) with S_FILENAME.
    rewrite strip_prefix_app, parse_quoted_escape.
    unfold mime_ok in Hm. cbn [snd] in Hm.
    destruct mime as [m|].
    + repeat rewrite <- app_assoc.
      change (CRLF ++ utf8_encode (S_CTYPE ++ m) ++ CRLF ++ CRLF ++ X)
        with ([] ++ 13 :: 10 :: (utf8_encode (S_CTYPE ++ m) ++ 13 :: 10 :: CRLF ++ X)).
      rewrite abl_skip by reflexivity.
      rewrite abl_line.
      * reflexivity.
      * rewrite utf8_encode_app. discriminate.
      * apply utf8_free; [lia|]. unfold free. rewrite forallb_app. fold (free 13 m). rewrite Hm. reflexivity.
    + reflexivity.
Qed.

(* ------------------------------------------------------------------ the frame theorem *)
Definition field_ok (D : list N) (f : mp_field) : bool :=
  valid_text (fst f) && mime_ok f && early_free D (part_content f)
  && match snd f with MText v => valid_text v | MFile fn _ _ => valid_text fn end.

Lemma mk_field_ok f : valid_text (fst f) = true ->
  match snd f with MText v => valid_text v | MFile fn _ _ => valid_text fn end = true ->
  mk_field (utf8_encode (fst f))
           match snd f with MText _ => None | MFile fn _ _ => Some (utf8_encode fn) end
           (part_content f) = Some (dec_of f).
Proof.
  intros Hn Hv. destruct f as [name [v|fn mime c]]; unfold mk_field, part_content, dec_of; cbn [fst snd] in *;
    rewrite !utf8_roundtrip by assumption; reflexivity.
Qed.

Definition chunk (Bb : list N) (f : mp_field) : list N :=
  CRLF ++ part_headers f ++ part_content f ++ delimiter Bb.

Lemma body_shape B fs :
  encode_multipart B fs = DASHES ++ utf8_encode B ++ concat (map (chunk (utf8_encode B)) fs) ++ DASHES.
Proof.
  unfold encode_multipart. rewrite !utf8_encode_app. change (utf8_encode DASHES) with DASHES.
  assert (H : forall tl, concat (map (enc_part B) fs) ++ DASHES ++ utf8_encode B ++ tl
                         = DASHES ++ utf8_encode B ++ concat (map (chunk (utf8_encode B)) fs) ++ tl).
  { induction fs as [|f fs IH]; intros tl; [reflexivity|].
    cbn [map concat]. rewrite <- app_assoc, IH, enc_part_shape. unfold chunk, delimiter.
    repeat rewrite <- app_assoc. reflexivity. }
  exact (H DASHES).
Qed.

Lemma parts_ok Bb fs : forall fuel, (length fs < fuel)%nat ->
  forallb (field_ok (delimiter Bb)) fs = true ->
  parts fuel (delimiter Bb) (concat (map (chunk Bb) fs) ++ DASHES) = Some (map dec_of fs).
Proof.
  induction fs as [|f fs IH]; intros fuel Hl Hok.
  - destruct fuel; [cbn in Hl; lia|]. reflexivity.
  - destruct fuel; [cbn in Hl; lia|]. cbn [length] in Hl.
    cbn [forallb] in Hok. apply andb_true_iff in Hok as [Hf Hfs].
    unfold field_ok in Hf. apply andb_true_iff in Hf as [Hf Hv]. apply andb_true_iff in Hf as [Hf He].
    apply andb_true_iff in Hf as [Hn Hm].
    cbn [map concat]. unfold chunk at 1. repeat rewrite <- app_assoc.
    cbn [parts]. change (starts_with DASHES (CRLF ++ _)) with false. cbv iota.
    rewrite strip_prefix_app, parse_part_headers_ok by exact Hm.
    rewrite find_delim_app by exact He.
    rewrite mk_field_ok by assumption.
    rewrite IH by (lia || exact Hfs). reflexivity.
Qed.

Lemma chunks_length Bb fs : (length fs <= length (concat (map (chunk Bb) fs)))%nat.
Proof.
  induction fs as [|f fs IH]; [apply le_n|].
  cbn [map concat length]. rewrite app_length. unfold chunk at 1. rewrite app_length. cbn [CRLF length]. lia.
Qed.

Theorem multipart_frame B fs :
  forallb (field_ok (delimiter (utf8_encode B))) fs = true ->
  ref_decode (utf8_encode B) (encode_multipart B fs) = Some (map dec_of fs).
Proof.
  intros Hok. unfold ref_decode. rewrite body_shape.
  rewrite app_assoc, strip_prefix_app. apply parts_ok; [|exact Hok].
  rewrite <- app_assoc, !app_length. pose proof (chunks_length (utf8_encode B) fs). lia.
Qed.

(* a sufficient, easily checked condition for early_free: the content does not contain the
   delimiter's first octet (CR) at all *)
Lemma early_free_no_cr D x : free 13 x = true -> early_free (13 :: D) x = true.
Proof.
  induction x as [|c x IH]; intros Hf; [reflexivity|].
  cbn [free forallb] in Hf. apply andb_true_iff in Hf as [Hc Hx]. fold (free 13 x) in Hx.
  cbn [early_free app starts_with]. rewrite (IH Hx), andb_true_r.
  destruct (13 =? c) eqn:E; [|reflexivity]. apply N.eqb_eq in E. subst c. discriminate.
Qed.

Lemma param_roundtrip t rest :
  parse_quoted (utf8_encode (q_escape t) ++ 34 :: rest) = Some (utf8_encode t, rest).
Proof. rewrite q_escape_flat, utf8_escape. exact (parse_quoted_escape (utf8_encode t) rest). Qed.

Lemma no_cr_suffices B x : free 13 x = true -> early_free (delimiter B) x = true.
Proof. exact (early_free_no_cr (10 :: DASHES ++ B) x). Qed.
