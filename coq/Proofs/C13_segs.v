(* C13 — path segments: RFC 3986 5.2.4 remove_dot_segments (string rewriting) and urljoin's resolved_path loop
   (segment stack) both compute [seg_rds]. *)
From Coq Require Import NArith ZArith List Bool Lia ZifyBool ZifyNat ZifyN.
Require Import Webob.Lib.Val Webob.Lib.PyStr Webob.Gen.C13_tables
               Webob.Model.C13_urlsplit Webob.Model.C13_urlpath Webob.Model.C13_urljoin Webob.Spec.C13_rfc3986
               Webob.Proofs.C13_host.
Import ListNotations.
Local Open Scope N_scope.

Definition slash_free (s : str) : bool := forallb (fun c => negb (c =? 47)) s.
Definition cm (l : list str) : str := flat_map (fun s => 47 :: s) l.      (* "/s1/s2/.../sn" *)
Definition is_dot (s : str) : bool := str_eqb s s_dot.
Definition is_dotdot (s : str) : bool := str_eqb s s_dotdot.

(* what both algorithms compute, on the segments after the leading "/"; the output stack is top first *)
Fixpoint seg_rds (segs : list str) (out : list str) : list str :=
  match segs with
  | [] => out
  | s :: rest =>
      match rest with
      | [] => if is_dotdot s then [] :: tl out else if is_dot s then [] :: out else s :: out
      | _ => if is_dotdot s then seg_rds rest (tl out) else if is_dot s then seg_rds rest out
             else seg_rds rest (s :: out)
      end
  end.

Lemma cm_app a b : cm (a ++ b) = cm a ++ cm b.
Proof. unfold cm. apply flat_map_app. Qed.

Lemma cm_head l : cm l = [] \/ exists t, cm l = 47 :: t.
Proof. destruct l as [|s l]; [left; reflexivity|right; eexists; reflexivity]. Qed.

Lemma cm_join l : l <> [] -> cm l = 47 :: join [47] l.
Proof.
  induction l as [|s l IH]; [contradiction|]. intros _. destruct l as [|s2 l].
  - cbn. rewrite app_nil_r. reflexivity.
  - change (cm (s :: s2 :: l)) with ((47 :: s) ++ cm (s2 :: l)). rewrite IH by discriminate.
    cbn [join app]. reflexivity.
Qed.

Lemma slash_free_dot s : is_dot s = true \/ is_dotdot s = true -> slash_free s = true.
Proof. unfold is_dot, is_dotdot. intros [H|H]; apply str_eqb_eq in H; subst; reflexivity. Qed.

(* ---------------------------------------------------------------- remove_last_segment on "/s1/.../sn" *)
Lemma remove_last_cm l : forallb slash_free l = true -> remove_last_segment (cm l) = cm (removelast l).
Proof.
  intros H. destruct l as [|x l] using rev_ind; [reflexivity|]. clear IHl.
  rewrite forallb_app in H. apply andb_true_iff in H as [_ Hx]. cbn [forallb] in Hx. rewrite andb_true_r in Hx.
  rewrite removelast_last, cm_app. unfold remove_last_segment. cbn [cm flat_map]. rewrite app_nil_r.
  rewrite rev_app_distr. cbn [rev]. rewrite <- app_assoc. cbn [app].
  rewrite span_until_app.
  - rewrite rev_involutive. reflexivity.
  - rewrite forallb_rev. exact Hx.
  - right. eexists; eexists; split; reflexivity.
Qed.

Lemma removelast_rev {A} (o : list A) : removelast (rev o) = rev (tl o).
Proof. destruct o as [|x o]; [reflexivity|]. cbn [rev tl]. apply removelast_last. Qed.

(* ---------------------------------------------------------------- the string tests of 5.2.4 on "/" ++ s ++ tail *)
Definition tail_ok (t : str) : Prop := t = [] \/ exists t', t = 47 :: t'.

Lemma first_segment_abs s t : slash_free s = true -> tail_ok t -> first_segment (47 :: s ++ t) = (47 :: s, t).
Proof.
  intros Hs Ht. unfold first_segment. rewrite span_until_app; [reflexivity|exact Hs|].
  destruct Ht as [->|[t' ->]]; [left; reflexivity|right; eexists; eexists; split; reflexivity].
Qed.

(* a segment that is neither "." nor "..": none of the rules A-D applies *)
Lemma plain_tests s t : slash_free s = true -> tail_ok t -> is_dot s = false -> is_dotdot s = false ->
  let inp := 47 :: s ++ t in
  starts_with [46; 46; 47] inp = false /\ starts_with [46; 47] inp = false /\
  starts_with [47; 46; 47] inp = false /\ str_eqb inp [47; 46] = false /\
  starts_with [47; 46; 46; 47] inp = false /\ str_eqb inp [47; 46; 46] = false /\
  str_eqb inp [46] = false /\ str_eqb inp [46; 46] = false.
Proof.
  intros Hs Ht Hd Hdd. cbv zeta.
  unfold is_dot, is_dotdot, s_dot, s_dotdot, slash_free in *.
  destruct Ht as [->|[t' ->]].
  - rewrite app_nil_r.
    destruct s as [|a [|b [|c [|d s']]]]; cbn [app starts_with str_eqb forallb] in *; repeat split; lia.
  - destruct s as [|a [|b [|c [|d s']]]]; cbn [app starts_with str_eqb forallb] in *; repeat split; lia.
Qed.

(* ---------------------------------------------------------------- single steps of the 5.2.4 loop *)
Lemma rds_loop_nil fuel out : rds_loop fuel [] out = out.
Proof. destruct fuel; reflexivity. Qed.

Lemma rds_step_plain f s t out : slash_free s = true -> tail_ok t -> is_dot s = false -> is_dotdot s = false ->
  rds_loop (S f) (47 :: s ++ t) out = rds_loop f t (out ++ 47 :: s).
Proof.
  intros Hs Ht Hd Hdd. destruct (plain_tests s t Hs Ht Hd Hdd) as [T1 [T2 [T3 [T4 [T5 [T6 [T7 T8]]]]]]].
  cbn [rds_loop]. rewrite T1, T2, T3, T4, T5, T6, T7, T8. cbn [orb].
  rewrite (first_segment_abs s t Hs Ht). reflexivity.
Qed.

Lemma rds_step_dot_mid f t out : rds_loop (S f) (47 :: 46 :: 47 :: t) out = rds_loop f (47 :: t) out.
Proof. reflexivity. Qed.

Lemma rds_step_dotdot_mid f t out :
  rds_loop (S f) (47 :: 46 :: 46 :: 47 :: t) out = rds_loop f (47 :: t) (remove_last_segment out).
Proof. reflexivity. Qed.

Lemma rds_one_slash f out : rds_loop (S f) [47] out = out ++ [47].
Proof. cbn. apply rds_loop_nil. Qed.

Lemma rds_dot_end f out : rds_loop (S (S f)) [47; 46] out = out ++ [47].
Proof. change (rds_loop (S (S f)) [47; 46] out) with (rds_loop (S f) [47] out). apply rds_one_slash. Qed.

Lemma rds_dotdot_end f out : rds_loop (S (S f)) [47; 46; 46] out = remove_last_segment out ++ [47].
Proof.
  change (rds_loop (S (S f)) [47; 46; 46] out) with (rds_loop (S f) [47] (remove_last_segment out)).
  apply rds_one_slash.
Qed.

Lemma seg_rds_cons s r rest out :
  seg_rds (s :: r :: rest) out =
  if is_dotdot s then seg_rds (r :: rest) (tl out) else if is_dot s then seg_rds (r :: rest) out
  else seg_rds (r :: rest) (s :: out).
Proof. reflexivity. Qed.

Lemma cm_rev_cons s out : cm (rev (s :: out)) = cm (rev out) ++ 47 :: s.
Proof. cbn [rev]. rewrite cm_app. cbn [cm flat_map]. rewrite app_nil_r. reflexivity. Qed.

(* RFC 3986 5.2.4 on an absolute path "/s1/.../sn", started with output "/o1/.../ok" *)
Lemma rds_abs : forall segs out fuel, segs <> [] ->
  forallb slash_free segs = true -> forallb slash_free out = true ->
  (length (cm segs) < fuel)%nat ->
  rds_loop fuel (cm segs) (cm (rev out)) = cm (rev (seg_rds segs out)).
Proof.
  induction segs as [|s rest IH]; [contradiction|]. intros out fuel _ Hsegs Hout Hf.
  cbn [forallb] in Hsegs. apply andb_true_iff in Hsegs as [Hs Hrest].
  assert (Hrev : forallb slash_free (rev out) = true) by (rewrite forallb_rev; exact Hout).
  assert (Htl : forallb slash_free (tl out) = true).
  { destruct out; [reflexivity|]. cbn [forallb] in Hout. apply andb_true_iff in Hout. apply Hout. }
  change (cm (s :: rest)) with ((47 :: s) ++ cm rest) in *. cbn [app] in *.
  destruct rest as [|r rest'].
  - (* the last segment *)
    cbn [cm flat_map] in *. rewrite app_nil_r in *. cbn [seg_rds].
    destruct (is_dotdot s) eqn:Edd.
    { apply str_eqb_eq in Edd. subst s. unfold s_dotdot in *. cbn [length] in Hf.
      destruct fuel as [|[|f]]; try lia. rewrite rds_dotdot_end, (remove_last_cm _ Hrev), removelast_rev.
      rewrite cm_rev_cons. reflexivity. }
    destruct (is_dot s) eqn:Ed.
    { apply str_eqb_eq in Ed. subst s. unfold s_dot in *. cbn [length] in Hf.
      destruct fuel as [|[|f]]; try lia. rewrite rds_dot_end. rewrite cm_rev_cons. reflexivity. }
    destruct fuel as [|f]; [lia|].
    rewrite <- (app_nil_r s) at 1. rewrite (rds_step_plain f s [] _ Hs (or_introl eq_refl) Ed Edd).
    rewrite rds_loop_nil, cm_rev_cons. reflexivity.
  - (* an inner segment: what follows starts with "/" *)
    assert (Ht : tail_ok (cm (r :: rest'))) by (right; eexists; reflexivity).
    rewrite seg_rds_cons.
    destruct fuel as [|f]; [lia|].
    destruct (is_dotdot s) eqn:Edd.
    { apply str_eqb_eq in Edd. subst s. unfold s_dotdot in *.
      change ([46; 46] ++ cm (r :: rest')) with (46 :: 46 :: 47 :: r ++ cm rest').
      rewrite rds_step_dotdot_mid, (remove_last_cm _ Hrev), removelast_rev.
      change (47 :: r ++ cm rest') with (cm (r :: rest')).
      apply IH; try assumption; [discriminate|]. cbn [length app] in Hf. cbn [cm flat_map] in *.
      rewrite !app_length in *. cbn [length] in *. lia. }
    destruct (is_dot s) eqn:Ed.
    { apply str_eqb_eq in Ed. subst s. unfold s_dot in *.
      change ([46] ++ cm (r :: rest')) with (46 :: 47 :: r ++ cm rest').
      rewrite rds_step_dot_mid.
      change (47 :: r ++ cm rest') with (cm (r :: rest')).
      apply IH; try assumption; [discriminate|]. cbn [cm flat_map] in *. cbn [length app] in *.
      rewrite !app_length in *. cbn [length] in *. lia. }
    rewrite (rds_step_plain f s _ _ Hs Ht Ed Edd). rewrite <- cm_rev_cons.
    apply IH; try assumption; [discriminate| |].
    + cbn [forallb]. rewrite Hs, Hout. reflexivity.
    + cbn [length] in Hf. rewrite app_length in Hf. lia.
Qed.

(* ---------------------------------------------------------------- urljoin's resolved_path loop *)
(* the Python stack either still has the leading '' at its bottom, or lost it to a '..' *)
Definition rel (st out : list str) : Prop := st = out ++ [[]] \/ st = out.

Lemma rel_tl st out : rel st out -> rel (tl st) (tl out).
Proof.
  intros [->| ->]; [|right; reflexivity]. destruct out as [|x out]; [right; reflexivity|left; reflexivity].
Qed.
Lemma rel_cons x st out : rel st out -> rel (x :: st) (x :: out).
Proof. intros [->| ->]; [left|right]; reflexivity. Qed.

Definition last_is_dots (segs : list str) : bool := is_dot (last segs []) || is_dotdot (last segs []).
Definition py_adj (segs st : list str) : list str :=
  if last_is_dots segs then [] :: resolve_segs segs st else resolve_segs segs st.

Lemma resolve_segs_cons s segs st :
  resolve_segs (s :: segs) st =
  if is_dotdot s then resolve_segs segs (tl st) else if is_dot s then resolve_segs segs st
  else resolve_segs segs (s :: st).
Proof. reflexivity. Qed.

Lemma py_rel : forall segs st out, segs <> [] -> rel st out -> rel (py_adj segs st) (seg_rds segs out).
Proof.
  induction segs as [|s rest IH]; [contradiction|]. intros st out _ Hr.
  destruct rest as [|r rest'].
  - unfold py_adj, last_is_dots. cbn [last seg_rds]. rewrite resolve_segs_cons. cbn [resolve_segs].
    destruct (is_dotdot s) eqn:Edd.
    { rewrite orb_true_r. apply rel_cons, rel_tl, Hr. }
    destruct (is_dot s) eqn:Ed; cbn [orb]; apply rel_cons, Hr.
  - rewrite seg_rds_cons.
    assert (Hadj : forall st', py_adj (s :: r :: rest') st' =
                   if is_dotdot s then py_adj (r :: rest') (tl st') else if is_dot s then py_adj (r :: rest') st'
                   else py_adj (r :: rest') (s :: st')).
    { intros st'. unfold py_adj, last_is_dots. change (last (s :: r :: rest') []) with (last (r :: rest') []).
      rewrite resolve_segs_cons. destruct (is_dotdot s), (is_dot s); reflexivity. }
    rewrite Hadj.
    destruct (is_dotdot s); [apply IH; [discriminate|apply rel_tl, Hr]|].
    destruct (is_dot s); apply IH; try discriminate; [exact Hr|apply rel_cons, Hr].
Qed.

Definition good (s : str) : bool := nonempty s && slash_free s.

(* what ends up on the output: the last pushed element on top, below it only non-empty segments *)
Lemma seg_rds_shape : forall segs out, segs <> [] ->
  forallb good out = true -> forallb good (removelast segs) = true -> slash_free (last segs []) = true ->
  exists x o', seg_rds segs out = x :: o' /\ forallb good o' = true /\ slash_free x = true.
Proof.
  induction segs as [|s rest IH]; [contradiction|]. intros out _ Hout Hmid Hlast.
  assert (Htl : forallb good (tl out) = true).
  { destruct out; [reflexivity|]. cbn [forallb] in Hout. apply andb_true_iff in Hout. apply Hout. }
  destruct rest as [|r rest'].
  - cbn [seg_rds last] in *. destruct (is_dotdot s); [exists [], (tl out); auto|].
    destruct (is_dot s); [exists [], out; auto|]. exists s, out. auto.
  - rewrite seg_rds_cons. change (removelast (s :: r :: rest')) with (s :: removelast (r :: rest')) in Hmid.
    cbn [forallb] in Hmid. apply andb_true_iff in Hmid as [Hs Hmid].
    change (last (s :: r :: rest') []) with (last (r :: rest') []) in Hlast.
    destruct (is_dotdot s); [apply IH; try assumption; discriminate|].
    destruct (is_dot s); apply IH; try assumption; try discriminate.
    cbn [forallb]. rewrite Hs, Hout. reflexivity.
Qed.

(* ''.join(resolved) or '/', then the "/" urlunsplit puts in front of a path that lacks it *)
Definition fixpath (j : str) : str :=
  let j' := if is_empty j then [47] else j in
  if nonempty j' && negb (starts_with [47] j') then 47 :: j' else j'.

Lemma good_head s : good s = true -> exists c t, s = c :: t /\ (c =? 47) = false.
Proof.
  unfold good, nonempty, slash_free. destruct s as [|c t]; [discriminate|]. cbn [is_empty negb andb forallb].
  intros H. exists c, t. split; [reflexivity|]. lia.
Qed.

Lemma join_cons_ne x l : l <> [] -> join [47] (x :: l) = x ++ 47 :: join [47] l.
Proof. destruct l; [contradiction|reflexivity]. Qed.

Lemma fix_join st x o' : rel st (x :: o') -> forallb good o' = true -> slash_free x = true ->
  fixpath (join [47] (rev st)) = cm (rev (x :: o')).
Proof.
  intros Hr Ho Hx.
  assert (Hne : rev (x :: o') <> []) by (cbn [rev]; intros E; apply app_eq_nil in E as [_ E]; discriminate).
  rewrite (cm_join _ Hne).
  destruct Hr as [-> | ->].
  - rewrite rev_app_distr. cbn [rev app]. rewrite join_cons_ne by exact Hne. cbn [app].
    unfold fixpath. cbn [is_empty nonempty negb starts_with andb N.eqb Pos.eqb]. reflexivity.
  - unfold fixpath.
    destruct (join [47] (rev (x :: o'))) as [|c j] eqn:Ej; [reflexivity|].
    cbn [is_empty nonempty negb starts_with andb].
    assert (Hc : (47 =? c) = false).
    { (* the first element of the list is non-empty and slash-free, or the list is the singleton [x] *)
      cbn [rev] in Ej. destruct (rev o') as [|y l] eqn:Er.
      - cbn [app join] in Ej. subst x. unfold slash_free in Hx. cbn [forallb] in Hx. lia.
      - assert (Hy : good y = true).
        { assert (In y (rev o')) by (rewrite Er; left; reflexivity).
          rewrite forallb_forall in Ho. apply Ho. apply in_rev. exact H. }
        destruct (good_head y Hy) as [c0 [t [-> Hc0]]].
        cbn [app] in Ej. rewrite join_cons_ne in Ej by (intros E; apply app_eq_nil in E as [_ E]; discriminate).
        cbn [app] in Ej. injection Ej as <- _. lia. }
    rewrite Hc. reflexivity.
Qed.

(* both algorithms on the absolute segment list "" :: segs *)
Theorem py_path_is_rfc : forall segs, segs <> [] ->
  forallb good (removelast segs) = true -> slash_free (last segs []) = true ->
  let resolved := rev (resolve_segs ([] :: segs) []) in
  let resolved' := if last_is_dots ([] :: segs) then resolved ++ [[]] else resolved in
  fixpath (join [47] resolved') = remove_dot_segments (cm segs).
Proof.
  intros segs Hne Hmid Hlast. cbv zeta.
  assert (Hall : forallb slash_free segs = true).
  { unfold str in *. rewrite (app_removelast_last [] Hne), forallb_app. cbn [forallb]. rewrite Hlast, andb_true_r.
    revert Hmid. apply forallb_impl. intros x. unfold good. lia. }
  unfold remove_dot_segments.
  rewrite (rds_abs segs [] _ Hne Hall eq_refl) by lia.
  destruct (seg_rds_shape segs [] Hne eq_refl Hmid Hlast) as [x [o' [Eo [Ho Hx]]]].
  pose proof (py_rel segs [[]] [] Hne (or_introl eq_refl)) as Hr. rewrite Eo in Hr.
  assert (Hl : last_is_dots ([] :: segs) = last_is_dots segs).
  { unfold last_is_dots. destruct segs; [contradiction|reflexivity]. }
  rewrite Hl. change (resolve_segs ([] :: segs) []) with (resolve_segs segs [[]]).
  rewrite Eo. rewrite <- (fix_join _ x o' Hr Ho Hx). unfold py_adj.
  destruct (last_is_dots segs); [cbn [rev]|]; reflexivity.
Qed.
